"""C17 -- Interpolation and L2 projection are projections onto the spline space.

Stages: (1) Coq theorems (coq/C17/Props.v); (2) tie: approx.interpolate on generated
spaces/nodes/data against the exact Qc model (coq/C17/Model.v, evaluated by vm_compute, one
case per file) within a derived rounding bound, Greville nodes and raise/no-raise status
included; (3) the property predicate evaluated on the implementation with independent
oracles: exact Fraction arithmetic for interpolation (Cox-de Boor, exact inverse), an own
float64 quadrature/B-spline oracle for the (geometry weighted, hierarchical) L2 projection.

Rounding bounds (stated, not tuned).  eps = 2^-52.
* Greville abscissae: |impl - exact| <= (p+2) eps max|kv|    (p products with 1/p, p-1 additions).
* interpolate: with S_k = C_k^-1 (exact), kappa_k = ||C_k||_inf ||S_k||_inf = ||S_k||_inf,
  eps_k = (8(p_k+1) + 32 n_k) eps (entry error of the compiled collocation kernel, C02, plus
  the backward error 4 n rho eps of LU with growth rho <= 8), G = prod_k (1 + kappa_k eps_k):
      |impl - exact|_inf <= prod_k ||S_k||_inf * ( rmax (G - 1) + dr G )
  where rmax = max |data| and dr bounds the error of the data the implementation evaluates
  itself (0 for arrays; 16 sum_k(p_k+1) eps max|c| for a spline; (deg+terms+2+32 d deg) eps S
  for a polynomial with S = sum|coef| Xmax^deg).
* project_L2: r = b - M x with the oracle's b, M:
      ||r||_2 <= tau (||b|abs||_2 + ||M||_2 ||x||_2),  tau = 1e-12 + (1000 + 64 N) eps
  with b|abs_i = sum_q w_q |f|(q) phi_i(q), |f| = the sum of the absolute terms of f: the magnitude of the
  computation that produces b (b itself may vanish by symmetry or cancellation while its rounding errors
  do not), and ||x - c||_2 <= tau cond_2(M) (||c||_2 + ||b|abs||_2 / ||M||_2) for functions of the space
  (1e-12 = the relative CG tolerance of approx.py:92, 1000 eps = drift of the recursive CG
  residual over <= 100 iterations, 64 N eps = direct solves and the two independent
  assemblies).
"""
import math
import os
from fractions import Fraction

for _v in ('OMP_NUM_THREADS', 'OPENBLAS_NUM_THREADS', 'MKL_NUM_THREADS'):
    os.environ.setdefault(_v, '1')      # small dense oracles: no BLAS thread pool

import numpy as np  # noqa: E402

from harness.core import clist, log, parse_coq_list_of_nat

PROPS = 'C17/Props.v'
EPS = Fraction(1, 2 ** 52)
FEPS = float(EPS)
DRIVER = 'harness/impl/c17_driver.py'


def fr(h):
    return Fraction(float.fromhex(h))


def cnum(c):
    return Fraction(c[0], c[1]) if isinstance(c, list) else Fraction(c)


# ---------------------------------------------------------------------------
# exact reference (Fractions): Cox-de Boor, collocation, inverse, Kronecker application
# ---------------------------------------------------------------------------

def nref(kv, p, i, u, memo=None):
    """Cox-de Boor; degree 0 half-open spans, the last non-empty span closed on the right."""
    if p == 0:
        if kv[i] <= u < kv[i + 1]:
            return Fraction(1)
        if u == kv[-1] and kv[i] < kv[i + 1] and kv[i + 1] == kv[-1]:
            return Fraction(1)
        return Fraction(0)
    r = Fraction(0)
    d1 = kv[i + p] - kv[i]
    if d1 != 0:
        a = nref(kv, p - 1, i, u)
        if a:
            r += (u - kv[i]) / d1 * a
    d2 = kv[i + p + 1] - kv[i + 1]
    if d2 != 0:
        b = nref(kv, p - 1, i + 1, u)
        if b:
            r += (kv[i + p + 1] - u) / d2 * b
    return r


def colloc_exact(kv, p, nodes):
    n = len(kv) - p - 1
    return [[nref(kv, p, i, u) for i in range(n)] for u in nodes]


def inverse_exact(M):
    n = len(M)
    if any(len(r) != n for r in M):
        return None
    A = [list(r) + [Fraction(int(i == j)) for j in range(n)] for i, r in enumerate(M)]
    for k in range(n):
        piv = next((i for i in range(k, n) if A[i][k] != 0), None)
        if piv is None:
            return None
        A[k], A[piv] = A[piv], A[k]
        pv = A[k][k]
        A[k] = [x / pv for x in A[k]]
        for i in range(n):
            if i != k and A[i][k] != 0:
                c = A[i][k]
                A[i] = [x - c * y for x, y in zip(A[i], A[k])]
    return [r[n:] for r in A]


def obj(a, shape=None):
    x = np.empty(len(a), dtype=object)
    for i, v in enumerate(a):
        x[i] = v
    return x.reshape(shape) if shape is not None else x


def mat_obj(M):
    A = np.empty((len(M), len(M[0])), dtype=object)
    for i, r in enumerate(M):
        for j, v in enumerate(r):
            A[i, j] = v
    return A


def kron_apply(mats, X):
    """Y[i1..in, t] = sum_j prod_k A_k[i_k, j_k] X[j1..jn, t] (axis by axis, exact or float)."""
    for k, A in enumerate(mats):
        X = np.moveaxis(np.tensordot(A, X, axes=([1], [k])), 0, k)
    return X


def infnorm(M):
    return max(sum(abs(x) for x in r) for r in M)


def poly_eval(P, X):
    r = Fraction(0)
    for c, es in P:
        t = cnum(c)
        for x, e in zip(X, es):
            t *= x ** e
        r += t
    return r


# ---------------------------------------------------------------------------
# generators
# ---------------------------------------------------------------------------

def gen_kv(rng, p, unit, maxdofs, wild=False):
    """open knot vector on a dyadic grid; interior multiplicities 1..p (p = 0: 1)"""
    nb = rng.randint(2, 5)
    while True:
        mults = [rng.randint(1, max(p, 1)) if rng.random() < 0.4 else 1 for _ in range(nb - 2)]
        if p + 1 + sum(mults) <= maxdofs or nb == 2:
            break
        nb -= 1
    if unit:
        if wild:
            cuts = sorted(rng.sample(range(1, 2 ** 12), nb - 2))
            b = [Fraction(0)] + [Fraction(c, 2 ** 12) for c in cuts] + [Fraction(1)]
        else:
            cuts = sorted(rng.sample(range(1, 16), nb - 2))
            b = [Fraction(0)] + [Fraction(c, 16) for c in cuts] + [Fraction(1)]
    else:
        b = [Fraction(rng.randint(-8, 8), 4)]
        for _ in range(nb - 1):
            b.append(b[-1] + Fraction(2) ** rng.randint(-6 if wild else -3, 1))
    kv = [b[0]] * (p + 1)
    for x, m in zip(b[1:-1], mults):
        kv += [x] * m
    kv += [b[-1]] * (p + 1)
    return kv


def greville_exact(kv, p):
    n = len(kv) - p - 1
    if p == 0:
        return [(kv[i] + kv[i + 1]) / 2 for i in range(n)]
    return [sum(kv[i + 1:i + p + 1]) / p for i in range(n)]


def gen_nodes(rng, kv, p):
    """a unisolvent custom node set on a coarse dyadic grid (64 points per shortest knot span):
    strictly inside the supports (Schoenberg-Whitney); None if the perturbation fails"""
    n = len(kv) - p - 1
    g = greville_exact(kv, p)
    hmin = min(b - a for a, b in zip(kv[:-1], kv[1:]) if b > a)
    D = 64 / hmin
    out = []
    for i in range(n):
        lo, hi = kv[i], kv[i + p + 1]
        if i == 0 and rng.random() < 0.5:
            out.append(kv[0])
            continue
        if i == n - 1 and rng.random() < 0.5:
            out.append(kv[-1])
            continue
        x = g[i] + Fraction(rng.randint(-6, 6), 32) * (hi - lo) / 2
        x = Fraction(round(x * D)) / D
        out.append(x)
    for i in range(n):
        if Fraction(float(out[i])) != out[i]:
            return None
        if not (kv[i] <= out[i] <= kv[i + p + 1]) or (i and out[i] <= out[i - 1]):
            return None
        if out[i] == kv[i] and i != 0:
            return None
        if out[i] == kv[i + p + 1] and i != n - 1:
            return None
    return out


def gen_nodes_distinct(rng, kv, p, others):
    """a custom unisolvent node set (p >= 1) that differs from every node set in `others`"""
    for _ in range(40):
        nd = gen_nodes(rng, kv, p)
        if nd is not None and all(nd != o for o in others) and nd != greville_exact(kv, p):
            return nd
    # deterministic fall-back: interior Greville points moved towards their right neighbour
    n = len(kv) - p - 1
    g = greville_exact(kv, p)
    hmin = min(b - a for a, b in zip(kv[:-1], kv[1:]) if b > a)
    D = 64 / hmin
    for num in (1, 3, 5, 7, 2, 6):
        nd = list(g)
        for i in range(1, n - 1):
            nd[i] = Fraction(round((g[i] + Fraction(num, 16) * (g[i + 1] - g[i])) * D)) / D
        nd[0], nd[-1] = kv[0], kv[-1]
        ok = all(Fraction(float(x)) == x for x in nd) and all(a < b for a, b in zip(nd[:-1], nd[1:]))
        ok = ok and all(kv[i] < nd[i] < kv[i + p + 1] for i in range(1, n - 1))
        if ok and all(nd != o for o in others) and (n > 2):
            return nd
    raise AssertionError('generator: no distinct unisolvent node set for %r' % (kv,))


def kvspec(kv, p):
    return {'p': p, 'kv': [float(x).hex() for x in kv]}


def gen_poly(rng, d, deg, ncomp):
    comps = []
    for _ in range(ncomp):
        P = []
        for _t in range(rng.randint(1, 3)):
            es = [0] * d
            for _k in range(rng.randint(0, deg)):
                es[rng.randrange(d)] += 1
            P.append([rng.randint(-4, 4) or 1, es])
        comps.append(P)
    return comps


def gen_affine(rng, d):
    while True:
        A = [[rng.randint(-4, 4) for _ in range(d)] for _ in range(d)]
        M = np.array(A, dtype=float)
        if abs(np.linalg.det(M)) >= 1:
            break
    A = [[[a, 2] for a in row] for row in A]
    b = [[rng.randint(-8, 8), 4] for _ in range(d)]
    return {'kind': 'affine', 'A': A, 'b': b}


def prod(l):
    r = 1
    for x in l:
        r *= x
    return r


def gen_space(rng, thorough, geo_unit=False, dmax=3, pmax=6, dims=None):
    d = dims or rng.choice([1, 2, 2, 3] if dmax >= 3 else [1, 2])
    maxd = {1: 12, 2: 8, 3: 5}[d]
    kvs = []
    for k in range(d):
        p = rng.randint(0, min(pmax, maxd - 1))
        if d == 3:
            p = min(p, 3)
        kvs.append((gen_kv(rng, p, geo_unit or rng.random() < 0.4, maxd, wild=rng.random() < 0.3), p))
    return kvs


def gen_interp_cases(ctx, n, nsmall):
    rng = ctx.rng
    thorough = ctx.tier == 'thorough'
    cases = []
    for c in range(n):
        gk = rng.choice(['none', 'none', 'affine', 'affine', 'bspline_annulus', 'nurbs_annulus', 'twisted_box'])
        dk = rng.choice(['space', 'space', 'space-callable', 'poly', 'poly', 'array'])
        if c < 7:                        # every degree at least once, 1D
            sp = [(gen_kv(rng, c, False, 12, wild=True), c)]
            gk = 'none'
        elif c < 7 + nsmall:             # small spaces on coarse dyadic knots: evaluated by the Coq model
            j = c - 7                    # structured: every combination appears in every run
            d = [1, 2, 2, 3][j % 4]
            gk = 'affine' if (j % 2 == 1 and d > 1) else 'none'
            dk = ['space', 'poly', 'array', 'space-callable', 'poly'][j % 5]
            sp = []
            for _ in range(d):
                p = rng.randint(0, 3 if d < 3 else 2)
                sp.append((gen_kv(rng, p, rng.random() < 0.5, {1: 8, 2: 6, 3: 4}[d]), p))
        elif gk == 'twisted_box':
            sp = gen_space(rng, thorough, geo_unit=True, dims=3, pmax=3)
        elif gk in ('bspline_annulus', 'nurbs_annulus'):
            sp = gen_space(rng, thorough, geo_unit=True, dims=2)
        else:
            sp = gen_space(rng, thorough)
        d = len(sp)
        shared = d >= 2 and c >= 7 + nsmall and gk in ('none', 'affine') and rng.random() < 0.35
        if shared:
            sp[-1] = sp[0]               # the same knot vector in the first and the last direction
        if gk == 'affine' and d == 1:
            gk = 'none'
        if gk != 'none' and dk in ('space', 'space-callable', 'array'):
            dk = 'poly'                  # physical-coordinate data: polynomials
        trailing = rng.choice([[], [], [3], [2, 2], [2]])
        T = prod(trailing)
        N = [len(kv) - p - 1 for kv, p in sp]
        custom = rng.random() < 0.45 or shared
        nodes = [gen_nodes(rng, kv, p) for kv, p in sp] if custom else None
        if nodes is not None and any(nd is None for nd in nodes):
            nodes = None
        case = {'op': 'interp', 'kvs': [kvspec(kv, p) for kv, p in sp], 'trailing': trailing,
                'nodes': None if nodes is None else [[float(x).hex() for x in nd] for nd in nodes],
                'bare_kv': d == 1 and rng.random() < 0.5, 'geo': None, 'identical_kv': shared and rng.random() < 0.5}
        if gk == 'affine':
            case['geo'] = gen_affine(rng, d)
        elif gk in ('bspline_annulus', 'nurbs_annulus'):
            case['geo'] = {'kind': gk, 'r1': [rng.randint(1, 8), 8], 'r2': [rng.randint(9, 16), 8]}
        elif gk == 'twisted_box':
            case['geo'] = {'kind': 'twisted_box'}
        if dk in ('space', 'space-callable'):
            case['data'] = {'kind': 'space', 'coeffs': [[rng.randint(-64, 64), 8] for _ in range(prod(N) * T)],
                            'route': 'callable' if dk == 'space-callable' else 'bsplinefunc'}
        elif dk == 'poly':
            deg = rng.randint(0, 4)
            case['data'] = {'kind': 'poly', 'comps': gen_poly(rng, d, deg, T),
                            'style': rng.choice(['tuple', 'array'])}
        else:
            case['data'] = {'kind': 'array', 'shape': N + trailing,
                            'vals': [[rng.randint(-64, 64), 8] for _ in range(prod(N) * T)]}
        case['gk'] = gk
        case['dk'] = dk
        case['small'] = 7 <= c < 7 + nsmall
        cases.append(case)
    # shared-knot-vector stream: the SAME knot vector in two or three directions (equal copies, or one
    # identical KnotVector object: 'identical_kv') with per-direction DIFFERENT custom unisolvent node
    # grids (exact Greville points in one direction and perturbed ones in the others, or all perturbed),
    # function and array data.  Anything cached or shared per knot vector instead of per (knot vector,
    # nodes) shows up here.  Small and on coarse dyadic grids: also evaluated by the Coq model.
    for s_ in range(24 if thorough else 8):
        d = 3 if s_ % 4 == 3 else 2
        grev0 = s_ % 8 in (0, 1, 6, 7)            # exact Greville points (dyadic for p <= 2) in direction 0
        p = rng.randint(1, 2) if grev0 else rng.randint(1, 3)
        maxd = {2: 6, 3: 4}[d]
        p = min(p, maxd - 2)
        while True:
            kv = gen_kv(rng, p, rng.random() < 0.5, maxd)
            if len(kv) - p - 1 >= 3:
                break
        sp = [(kv, p)] * d
        if d == 3 and s_ % 8 == 7:
            pb = rng.randint(1, 2)
            sp[1] = (gen_kv(rng, pb, True, maxd), pb)
        nodes = []
        for k, (kvk, pk) in enumerate(sp):
            g = greville_exact(kvk, pk)
            if k == 0 and grev0 and all(Fraction(float(x)) == x for x in g):
                nodes.append(g)                       # Greville abscissae given explicitly
            else:
                nodes.append(gen_nodes_distinct(rng, kvk, pk, [nd for nd, (kvo, po) in zip(nodes, sp) if kvo == kvk and po == pk]))
        N = [len(kvk) - pk - 1 for kvk, pk in sp]
        trailing = [[], [2], [], [3]][s_ % 4]
        T = prod(trailing)
        dk = ['space', 'array', 'space-callable', 'poly'][s_ % 4]
        case = {'op': 'interp', 'kvs': [kvspec(kvk, pk) for kvk, pk in sp], 'trailing': trailing,
                'nodes': [[float(x).hex() for x in nd] for nd in nodes], 'bare_kv': False, 'geo': None,
                'identical_kv': s_ % 8 in (1, 2, 4, 7), 'gk': 'none', 'dk': dk, 'small': True, 'shared': True}
        if dk in ('space', 'space-callable'):
            case['data'] = {'kind': 'space', 'coeffs': [[rng.randint(-64, 64), 8] for _ in range(prod(N) * T)],
                            'route': 'callable' if dk == 'space-callable' else 'bsplinefunc'}
        elif dk == 'poly':
            case['data'] = {'kind': 'poly', 'comps': gen_poly(rng, d, rng.randint(1, 4), T), 'style': rng.choice(['tuple', 'array'])}
        else:
            case['data'] = {'kind': 'array', 'shape': N + trailing,
                            'vals': [[rng.randint(-64, 64), 8] for _ in range(prod(N) * T)]}
        cases.append(case)
    # malformed stream: wrong array shape, non-unisolvent node grid (repeated node)
    for _ in range(4 if not thorough else 12):
        sp = gen_space(rng, thorough, dmax=2, pmax=3)
        N = [len(kv) - p - 1 for kv, p in sp]
        case = {'op': 'interp', 'kvs': [kvspec(kv, p) for kv, p in sp], 'trailing': [], 'nodes': None,
                'bare_kv': False, 'geo': None, 'gk': 'none'}
        if rng.random() < 0.5:
            bad = list(N)
            bad[rng.randrange(len(N))] += 1
            case['data'] = {'kind': 'array', 'shape': bad, 'vals': [1] * prod(bad)}
            case['dk'] = 'bad-shape'
        else:
            nodes = [[Fraction(float(x)) for x in greville_exact(kv, p)] for kv, p in sp]
            k = rng.randrange(len(sp))
            if N[k] >= 2:
                j = rng.randrange(N[k] - 1)
                nodes[k][j + 1] = nodes[k][j]
            case['nodes'] = [[float(x).hex() for x in nd] for nd in nodes]
            case['data'] = {'kind': 'array', 'shape': N, 'vals': [[rng.randint(-8, 8), 1] for _ in range(prod(N))]}
            case['dk'] = 'repeated-node'
        cases.append(case)
    return cases


# ---------------------------------------------------------------------------
# interpolation: exact oracle, bound, Coq case
# ---------------------------------------------------------------------------

class InterpRef:
    """Everything exact about one interpolation case (given the nodes the implementation used)."""

    def __init__(self, case, nodes, gb=None):
        self.kvs = [[fr(h) for h in k['kv']] for k in case['kvs']]
        self.ps = [k['p'] for k in case['kvs']]
        self.nodes = nodes              # the model's nodes: exact Greville abscissae, or the custom ones
        # gb[k]: bound on |implementation node - model node| on axis k (0 for custom nodes)
        self.gb = gb or [Fraction(0)] * len(self.kvs)
        self.hmin = [min(b - a for a, b in zip(kv[:-1], kv[1:]) if b > a) for kv in self.kvs]
        self.d = len(self.kvs)
        self.N = [len(kv) - p - 1 for kv, p in zip(self.kvs, self.ps)]
        self.trailing = case.get('trailing', [])
        self.T = prod(self.trailing)
        self.Cs = [colloc_exact(kv, p, nd) for kv, p, nd in zip(self.kvs, self.ps, nodes)]
        self.Ss = [inverse_exact(C) for C in self.Cs]
        self.singular = any(S is None for S in self.Ss)

    def rhs(self, case, phys=None):
        """exact data on the node grid, shape nodeshape + [T]; and the bound dr on the error of
        the data as evaluated by the implementation"""
        d = case['data']
        nshape = [len(nd) for nd in self.nodes]
        if d['kind'] == 'array':
            vals = [cnum(c) for c in d['vals']]
            return obj(vals, nshape + [self.T]), Fraction(0), max([abs(v) for v in vals] + [0])
        if d['kind'] == 'space':
            c = [cnum(x) for x in d['coeffs']]
            X = kron_apply([mat_obj(C) for C in self.Cs], obj(c, self.N + [self.T]))
            cmax = max([abs(v) for v in c] + [0])
            lip = sum(2 * p * cmax / h * g for p, h, g in zip(self.ps, self.hmin, self.gb))
            return X, 16 * sum(p + 1 for p in self.ps) * EPS * cmax + lip, cmax
        comps = d['comps']
        deg = max([sum(es) for P in comps for _, es in P] + [0])
        nterms = max(len(P) for P in comps)
        X = np.empty(nshape + [self.T], dtype=object)
        xmax = Fraction(1)
        geo = case.get('geo')
        for flat, idx in enumerate(np.ndindex(*nshape)):
            par = [self.nodes[k][idx[k]] for k in range(self.d)][::-1]        # x, y, z order
            if geo is None:
                pt = par
            elif geo['kind'] == 'affine':
                A = [[cnum(a) for a in row] for row in geo['A']]
                b = [cnum(x) for x in geo['b']]
                pt = [sum(a * x for a, x in zip(row, par)) + bb for row, bb in zip(A, b)]
            else:
                pt = [phys[flat * self.d + i] for i in range(self.d)]
            xmax = max([xmax] + [abs(x) for x in pt])
            for t in range(self.T):
                X[idx + (t,)] = poly_eval(comps[t], pt)
        S = max(sum(abs(cnum(c)) for c, _ in P) for P in comps) * xmax ** deg
        dr = (deg + nterms + 2 + 32 * self.d * deg) * EPS * S
        if geo is not None and geo['kind'] == 'affine':
            nA = max(1, max(sum(abs(cnum(a)) for a in row) for row in geo['A']))
        else:
            nA = 1          # non-affine geometries: the data are evaluated at the implementation's own physical points
        dr += deg * S * nA * sum(self.gb)
        return X, dr, S

    def bound(self, rmax, dr):
        normS = Fraction(1)
        G = Fraction(1)
        for S, p, n, h, g in zip(self.Ss, self.ps, self.N, self.hmin, self.gb):
            k = infnorm(S)
            normS *= k
            # |N'| <= p / hmin: moving a node by g changes a row of C by at most (p+1) p g / hmin
            G *= 1 + k * ((8 * (p + 1) + 32 * n) * EPS + (p + 1) * p * g / h)
        return normS * (rmax * (G - 1) + dr * G)

    def solve(self, X):
        return kron_apply([mat_obj(S) for S in self.Ss], X)

    def at_nodes(self, x):
        return kron_apply([mat_obj(C) for C in self.Cs], x)


HEADER = '''From Coq Require Import QArith Qcanon ZArith List Bool.
From Verif.lib Require Import Bsp.
From Verif.C17 Require Import Model.
Import ListNotations.
Definition q (n : Z) (d : positive) : Qc := Q2Qc (n # d).
'''


def cqc(x):
    x = Fraction(x)
    return '(q (%d) %d)' % (x.numerator, x.denominator)


def coq_data(case):
    d = case['data']
    if d['kind'] == 'array':
        return 'DArray %s' % clist([cnum(c) for c in d['vals']], cqc)
    if d['kind'] == 'space':
        return 'DSpace %s' % clist([cnum(c) for c in d['coeffs']], cqc)
    polys = clist([clist(['(%s, %s)' % (cqc(cnum(c)), clist(['%d%%nat' % e for e in es])) for c, es in P])
                   for P in d['comps']])
    geo = case.get('geo')
    if geo is None:
        return 'DPoly %s None' % polys
    A = clist([clist([cnum(a) for a in row], cqc) for row in geo['A']])
    b = clist([cnum(x) for x in geo['b']], cqc)
    return 'DPoly %s (Some (%s, %s))' % (polys, A, b)


def coq_small(ref):
    """cases cheap enough for exact evaluation by vm_compute under load (the exact oracle in
    Python covers all cases): coarse dyadic knots and nodes, low degree, few dofs"""
    dens = max(x.denominator for kv in ref.kvs for x in kv)
    nden = max(x.denominator for nd in ref.nodes for x in nd)
    lim = {1: 9, 2: 7, 3: 4}[ref.d]
    return (dens <= 64 and nden <= 64 * 64 * 6 and max(ref.ps) <= 4 and max(ref.N) <= lim
            and prod(ref.N) * ref.T <= 160)


def coq_icase(case, ref, impl_x, gbound, bound):
    kvs = clist([clist(kv, cqc) for kv in ref.kvs])
    ps = clist(['%d%%nat' % p for p in ref.ps])
    nodes = clist([clist(nd, cqc) for nd in ref.impl_nodes])
    impl = 'None' if impl_x is None else '(Some %s)' % clist(impl_x, cqc)
    return 'mk_icase %s %s %s %s %s %d%%nat (%s) %s %s' % (
        kvs, ps, nodes, 'true' if case['nodes'] is None else 'false', cqc(gbound), ref.T, coq_data(case), impl, cqc(bound))


def replay_of(case, extra=None):
    r = {'kvs': [{'p': k['p'], 'kv': [float.fromhex(h) for h in k['kv']]} for k in case['kvs']],
         'nodes': None if case.get('nodes') is None else [[float.fromhex(h) for h in nd] for nd in case['nodes']],
         'trailing': case.get('trailing'), 'geo': case.get('geo'), 'data': case.get('data'),
         'f_physical': case.get('f_physical'), 'op': case['op'],
         'how': 'harness/impl/c17_driver.py builds KnotVectors / geometry / data from this record and calls '
                'approx.interpolate(kvs, f, geo=geo, nodes=nodes) resp. approx.project_L2(kvs, f, f_physical, geo); '
                'coefficients are [num, den]'}
    if extra:
        r.update(extra)
    return r


def check_interp_on_impl(case, r):
    """The property evaluated on the implementation with the exact oracle.
    Returns (list of (code, text), ref, coq-ready pieces or None)."""
    bad = []
    kvs = [[fr(h) for h in k['kv']] for k in case['kvs']]
    ps = [k['p'] for k in case['kvs']]
    if case['dk'] == 'bad-shape':
        if r['status'] != 'ValueError':
            bad.append(('bad-shape-accepted', 'array data of the wrong shape gave %s instead of ValueError' % r['status']))
        return bad, None, None
    gbs = None
    impl_nodes = None
    if case['nodes'] is None:
        nodes = [greville_exact(kv, p) for kv, p in zip(kvs, ps)]
        gbs = [(p + 2) * EPS * max(abs(x) for x in kv) for kv, p in zip(kvs, ps)]
        if r['status'] == 'Ok':
            impl_nodes = [[fr(h) for h in g] for g in r['greville']]
    else:
        nodes = [[fr(h) for h in nd] for nd in case['nodes']]
    ref = InterpRef(case, nodes, gbs)
    ref.impl_nodes = impl_nodes if impl_nodes is not None else nodes
    if ref.singular:
        # a non-unisolvent grid is outside the property; the sparse LU may or may not notice an exactly
        # singular matrix in floating point (it can return huge finite numbers), so nothing is required of
        # the implementation here.  When it does raise, the Coq model must find the grid singular too.
        if r['status'] == 'Ok':
            return bad, ref, None
        return bad, ref, ('singular', None, Fraction(0), Fraction(0))
    if r['status'] != 'Ok':
        bad.append(('raises-' + r['status'], 'valid interpolation problem raised %s: %s' % (r['status'], r.get('msg'))))
        return bad, ref, None
    # Greville points
    gb = Fraction(0)
    if case['nodes'] is None:
        gb = max(gbs)
        for kv, p, g, ge, gbk in zip(kvs, ps, impl_nodes, nodes, gbs):
            if len(g) != len(ge) or any(abs(a - b) > gbk for a, b in zip(g, ge)):
                bad.append(('greville', 'KnotVector.greville differs from the knot averages'))
            if any(not (kv[0] <= a <= kv[-1]) for a in g):
                bad.append(('greville-clamp', 'a Greville point lies outside the knot span'))
        if bad:
            return bad, ref, None
    phys = [fr(h) for h in r['phys']] if 'phys' in r and case.get('geo') and case['geo']['kind'] != 'affine' else None
    X, dr, scale = ref.rhs(case, phys)
    rmax = max([abs(v) for v in X.ravel()] + [scale])
    bound = ref.bound(rmax, dr)
    expect_shape = ref.N + ref.trailing
    if r['shape'] != expect_shape:
        bad.append(('shape', 'result has shape %s, expected %s' % (r['shape'], expect_shape)))
        return bad, ref, None
    x = obj([fr(h) for h in r['x']], ref.N + [ref.T])
    xe = ref.solve(X)
    if case['data']['kind'] == 'space':
        c = obj([cnum(v) for v in case['data']['coeffs']], ref.N + [ref.T])
        assert all(a == b for a, b in zip(xe.ravel(), c.ravel())), 'oracle: exact interpolation does not reproduce'
        err = max(abs(a - b) for a, b in zip(x.ravel(), c.ravel()))
        if err > bound:
            bad.append(('not-reproduced', 'interpolation of a function of the space returns coefficients off by %.3g (bound %.3g)' % (float(err), float(bound))))
    err = max(abs(a - b) for a, b in zip(x.ravel(), xe.ravel()))
    if err > bound:
        bad.append(('coefficients', 'interpolation coefficients differ from the exact interpolant by %.3g (bound %.3g)' % (float(err), float(bound))))
    res = max(abs(a - b) for a, b in zip(ref.at_nodes(x).ravel(), X.ravel()))
    if res > bound:
        bad.append(('nodes-not-matched', 'interpolant misses the data at the nodes by %.3g (bound %.3g)' % (float(res), float(bound))))
    # component-wise: each trailing component alone gives the same coefficients (exactly the same
    # operations in the model; in the implementation compared through the exact interpolant above)
    if 'x_pullback' in r:
        x2 = obj([fr(h) for h in r['x_pullback']], ref.N + [ref.T]) if r['shape_pullback'] == expect_shape else None
        if x2 is None:
            bad.append(('pullback-shape', 'interpolate(f o geo) has a different shape than interpolate(f, geo)'))
        else:
            e2 = max(abs(a - b) for a, b in zip(x.ravel(), x2.ravel()))
            if e2 > 2 * bound:
                bad.append(('pullback', 'interpolate(f, geo) and interpolate(f o geo) differ by %.3g (bound %.3g)' % (float(e2), float(2 * bound))))
    if 'x_1d' in r:
        x1 = [fr(h) for h in r['x_1d']]
        e1 = max(abs(a - b) for a, b in zip(x1, xe.ravel()))
        if len(x1) != ref.N[0] or e1 > bound:
            bad.append(('1d-route', 'bspline.interpolate differs from the exact interpolant by %.3g (bound %.3g)' % (float(e1), float(bound))))
    coqable = (case.get('geo') is None or case['geo']['kind'] == 'affine') and coq_small(ref)
    return bad, ref, (('ok', [fr(h) for h in r['x']], gb, bound) if coqable else None)


# ---------------------------------------------------------------------------
# L2 projection: float64 oracle (own B-spline evaluation and Gauss quadrature)
# ---------------------------------------------------------------------------

def bsp_colloc_float(kv, p, pts):
    """values of all B-splines at pts (NURBS book A2.2 in float64), independent of pyiga"""
    kv = np.asarray(kv, dtype=float)
    n = len(kv) - p - 1
    C = np.zeros((len(pts), n))
    for r, u in enumerate(pts):
        if u >= kv[n]:
            s = n - 1
            while kv[s] == kv[s + 1]:
                s -= 1
        else:
            s = int(np.searchsorted(kv, u, side='right')) - 1
        N = np.zeros(p + 1)
        N[0] = 1.0
        left = np.zeros(p + 1)
        right = np.zeros(p + 1)
        for j in range(1, p + 1):
            left[j] = u - kv[s + 1 - j]
            right[j] = kv[s + j] - u
            saved = 0.0
            for k in range(j):
                t = N[k] / (right[k + 1] + left[j - k])
                N[k] = saved + right[k + 1] * t
                saved = left[j - k] * t
            N[j] = saved
        C[r, s - p:s + 1] = N
    return C


def gauss_grid(kvs, nqp):
    x, w = np.polynomial.legendre.leggauss(nqp)
    grids, weights = [], []
    for kv in kvs:
        m = np.unique(np.asarray(kv, dtype=float))
        grids.append(np.concatenate([(a + b) / 2 + (b - a) / 2 * x for a, b in zip(m[:-1], m[1:])]))
        weights.append(np.concatenate([(b - a) / 2 * w for a, b in zip(m[:-1], m[1:])]))
    return grids, weights


def l2_oracle(kvs, ps, trailing, data, geo, f_physical, r, P=None, dense=None):
    """returns (M or matvec, b [N x T], ||M||_inf for the matrix-free form else None, babs [N x T])"""
    d = len(kvs)
    nqp = max(ps) + 1
    grid, wts = gauss_grid(kvs, nqp)
    Cq = [bsp_colloc_float(kv, p, g) for kv, p, g in zip(kvs, ps, grid)]
    qshape = [len(g) for g in grid]
    W = np.ones(qshape)
    for k, w in enumerate(wts):
        sh = [1] * d
        sh[k] = len(w)
        W = W * w.reshape(sh)
    if geo is not None:
        W = W * np.array([float.fromhex(h) for h in r['absdet']]).reshape(qshape)
    T = prod(trailing)
    N = [C.shape[1] for C in Cq]
    if data['kind'] == 'space':
        c = np.array([float(cnum(x)) for x in data['coeffs']]).reshape(N + [T])
        F = kron_apply(Cq, c)
        Fabs = kron_apply(Cq, np.abs(c))             # sum of the absolute terms of the evaluation
    elif data['kind'] == 'hspace':
        u = np.array([float.fromhex(h) for h in r['u']])
        c = (P @ u).reshape(N + [1])
        F = kron_apply(Cq, c)
        Fabs = kron_apply(Cq, (np.abs(P) @ np.abs(u)).reshape(N + [1]))
    else:
        mesh = np.meshgrid(*grid, indexing='ij')
        if f_physical:
            ph = np.array([float.fromhex(h) for h in r['phys']]).reshape(qshape + [d])
            X = [ph[..., i] for i in range(d)]
        else:
            X = mesh[::-1]
        F = np.zeros(qshape + [T])
        Fabs = np.zeros(qshape + [T])
        for t in range(T):
            v = np.zeros(qshape)
            va = np.zeros(qshape)
            for cf, es in data['comps'][t]:
                term = float(cnum(cf)) * np.ones(qshape)
                for x, e in zip(X, es):
                    term = term * x ** e
                v = v + term
                va = va + np.abs(term)
            F[..., t] = v
            Fabs[..., t] = va
    Ct = [C.T for C in Cq]
    b = kron_apply(Ct, F * W[..., None]).reshape(prod(N), T)
    # the magnitude of the computation that produces b: sum_q w_q |f|(q) phi_i(q) with |f| the sum of the
    # absolute terms of f (basis values are non-negative).  Rounding errors of b -- in the implementation
    # and in this oracle -- are relative to THIS, not to |b|, which may vanish by symmetry/cancellation.
    babs = kron_apply(Ct, Fabs * W[..., None]).reshape(prod(N), T)

    def matvec(x):
        # M x = C^T (W .* (C x)),  M_ij = sum_q w_q phi_i(q) phi_j(q), without forming M
        X = np.asarray(x).reshape(N + [-1])
        return kron_apply(Ct, kron_apply(Cq, X) * W[..., None]).reshape(prod(N), -1)
    if dense is False or (dense is None and prod(N) > 700):
        # entries of M are non-negative: ||M||_2 <= ||M||_inf = max_i (M 1)_i
        return matvec, b, float(np.max(matvec(np.ones(prod(N))))), babs
    Cfull = Cq[0]
    for C in Cq[1:]:
        Cfull = np.kron(Cfull, C)
    M = Cfull.T @ (W.ravel()[:, None] * Cfull)
    return M, b, None, babs


def tau(N):
    return 1e-12 + (1000 + 64 * N) * FEPS


def check_l2_on_impl(case, r):
    bad = []
    kvs = [[float.fromhex(h) for h in k['kv']] for k in case['kvs']]
    ps = [k['p'] for k in case['kvs']]
    trailing = case.get('trailing', [])
    geo = case.get('geo')
    expect = case.get('expect', 'Ok')
    if expect != 'Ok':
        if r['status'] != expect:
            bad.append(('refusal', 'expected %s, got %s (%s)' % (expect, r['status'], r.get('msg', ''))))
        return bad, {}
    if r['status'] == 'AssertionError' and 'Diagonal must be a vector' in r.get('msg', ''):
        return [('diagonal-operator-size1', 'L2 projection into a space with a single quadrature point per axis (degree 0, one span) raises '
                 'AssertionError in operators.DiagonalOperator (np.squeeze of a length-1 weight vector; cf. fixes/C16-diagonal-size1.patch)')], {}
    if r['status'] != 'Ok':
        return [('raises-' + r['status'], 'valid L2 projection raised %s: %s' % (r['status'], r.get('msg')))], {}
    Ns = [len(kv) - p - 1 for kv, p in zip(kvs, ps)]
    if r['shape'] != Ns + trailing:
        return [('shape', 'result has shape %s, expected %s' % (r['shape'], Ns + trailing))], {}
    M, b, nMinf, babs = l2_oracle(kvs, ps, trailing, case['data'], geo, bool(case.get('f_physical')), r)
    N = b.shape[0]
    x = np.array([float.fromhex(h) for h in r['x']]).reshape(N, -1)
    t = tau(N)
    if nMinf is None:
        nM = np.linalg.norm(M, 2)
        Mx = M @ x
    else:                       # large space: matrix-free, ||M||_2 bounded by ||M||_inf
        nM = nMinf
        Mx = M(x)
    info = {'warned': bool(r.get('stderr', '').strip())}
    worst = 0.0
    for k in range(x.shape[1]):
        res = np.linalg.norm(b[:, k] - Mx[:, k])
        lim = t * (np.linalg.norm(babs[:, k]) + nM * np.linalg.norm(x[:, k]))
        if lim > 0:
            worst = max(worst, res / lim)
        if not (res <= lim):
            if info['warned']:
                code = 'cg-iteration-cap'
                why = ' -- CG stopped at its iteration cap (stderr: %s) and the unconverged iterate was returned' % r['stderr'].strip()
            elif geo is not None and res <= 2e-12 * math.sqrt(N):
                code = 'cg-absolute-tolerance'
                why = (' -- |b| = %.3g is below the ABSOLUTE tolerance atol=1e-12 of the CG call (approx.py:92), so CG returned %s without iterating'
                       % (np.linalg.norm(b[:, k]), 'the zero vector' if not np.any(x[:, k]) else 'an unconverged iterate'))
            else:
                code = 'not-orthogonal:%s:%s' % (case['dk'], case['gk'])
                why = ''
            bad.append((code, 'residual of the L2 projection is not orthogonal to the space: |b - M x| = %.3g > %.3g%s' % (res, lim, why)))
            break
    info['residual_over_bound'] = worst
    if case['data']['kind'] == 'space' and not bad and nMinf is None:
        c = np.array([float(cnum(v)) for v in case['data']['coeffs']]).reshape(N, -1)
        cond = np.linalg.cond(M)
        for k in range(x.shape[1]):
            e = np.linalg.norm(x[:, k] - c[:, k])
            # x - c = M^-1 (errors of b and of the solve), both bounded by t (babs + |M||c|)
            lim = t * cond * (np.linalg.norm(c[:, k]) + np.linalg.norm(babs[:, k]) / nM)
            if not (e <= lim):
                bad.append(('not-reproduced', 'L2 projection of a function of the space is off by %.3g (bound %.3g, cond %.3g)' % (e, lim, cond)))
                break
    if 'x_1d' in r:
        x1 = np.array([float.fromhex(h) for h in r['x_1d']])
        lv = np.array([float.fromhex(h) for h in r['lv_1d']])
        if np.linalg.norm(lv - b[:, 0]) > 64 * N * FEPS * (np.linalg.norm(babs[:, 0]) + nM * np.linalg.norm(x[:, 0])):
            bad.append(('load-vector-1d', 'bspline.load_vector differs from the quadrature inner products'))
        res = np.linalg.norm(b[:, 0] - (M @ x1 if nMinf is None else M(x1)[:, 0]))
        if res > t * (np.linalg.norm(babs[:, 0]) + nM * np.linalg.norm(x1)):
            bad.append(('project-1d', 'bspline.project_L2 residual not orthogonal: %.3g' % res))
    return bad, info


def check_hspace_on_impl(case, r):
    """returns (list of (code, text), info).  The oracle represents the hierarchical basis on the
    finest tensor-product level (P = hs.represent_fine(), trusted here: it is C05's subject) and
    integrates there: M = P^T M_fine P, b = P^T b_fine."""
    bad = []
    if r['status'] != 'Ok':
        return [('raises-' + r['status'], 'L2 projection into a hierarchical space raised %s: %s' % (r['status'], r.get('msg')))], {}
    fine = [[float.fromhex(h) for h in k['kv']] for k in r['fine_kvs']]
    ps = [k['p'] for k in r['fine_kvs']]
    P = np.array([float.fromhex(h) for h in r['P']]).reshape(r['P_shape'])
    Mf, bf, _, bfabs = l2_oracle(fine, ps, [], case['data'], case.get('geo'), bool(case.get('f_physical')), r, P=P, dense=True)
    M = P.T @ Mf @ P
    b = P.T @ bf[:, 0]
    nbabs = np.linalg.norm(np.abs(P).T @ bfabs[:, 0])        # magnitude of the computation of b (see l2_oracle)
    x = np.array([float.fromhex(h) for h in r['x']])
    N = len(x)
    t = tau(Mf.shape[0])
    nM = np.linalg.norm(M, 2)
    res = np.linalg.norm(b - M @ x)
    lim = t * (nbabs + nM * np.linalg.norm(x))
    # attribution: the implementation's own mass matrix and load vector
    Mi = np.array([float.fromhex(h) for h in r['M_impl']]).reshape(N, N)
    bi = np.array([float.fromhex(h) for h in r['b_impl']])
    mass_ok = np.linalg.norm(Mi - M, 2) <= t * nM
    solve_ok = np.linalg.norm(bi - Mi @ x) <= t * (nbabs + nM * np.linalg.norm(x))
    load_ok = np.linalg.norm(bi - b) <= t * (nbabs + nM * np.linalg.norm(x))
    own_level = mass_ok and solve_ok and not load_ok
    if not (res <= lim):
        if own_level:
            bad.append(('load-vector-own-level-quadrature',
                        'hierarchical L2 projection: residual not orthogonal, |b - M x| = %.3g > %.3g; the mass matrix and the solve are exact, '
                        'but the assembled load vector differs from the inner products by %.3g (each active function is integrated with the '
                        'quadrature of its own level although the data have finer-level kinks inside its support)' % (res, lim, np.linalg.norm(bi - b))))
        else:
            bad.append(('not-orthogonal', 'hierarchical L2 projection: |b - M x| = %.3g > %.3g (mass ok %s, solve ok %s, load ok %s)' % (
                res, lim, mass_ok, solve_ok, load_ok)))
    if case['data']['kind'] == 'hspace' and not bad:
        u = np.array([float.fromhex(h) for h in r['u']])
        e = np.linalg.norm(x - u)
        lim = t * np.linalg.cond(M) * (np.linalg.norm(u) + nbabs / nM)
        if not (e <= lim):
            bad.append(('not-reproduced', 'hierarchical L2 projection of a function of the space is off by %.3g (bound %.3g)' % (e, lim)))
    return bad, {'numdofs': r['numdofs'], 'levels': r['numlevels']}


def multilinear_dets(corners, d, m=5):
    """Jacobian determinants of the multilinear map with the given corner points (array of shape
    d*(2,) + (d,), axis order .., y, x as in pyiga; coordinates x, y, z) on an m^d sample of [0,1]^d"""
    C = np.array([[float(x) for x in pt] for pt in corners]).reshape(d * (2,) + (d,))
    ts = np.linspace(0.0, 1.0, m)
    dets = []
    for u in np.ndindex(*(d * (m,))):
        t = [ts[i] for i in u]
        J = np.zeros((d, d))
        for a in range(d):                      # derivative with respect to parameter axis a
            v = np.zeros(d)
            for idx in np.ndindex(*(d * (2,))):
                w = 1.0
                for b in range(d):
                    if b == a:
                        w *= 1.0 if idx[b] == 1 else -1.0
                    else:
                        w *= t[b] if idx[b] == 1 else 1.0 - t[b]
                v += w * C[idx]
            J[:, d - 1 - a] = v                 # columns in x, y, z parameter order (axis order is .., y, x)
        dets.append(np.linalg.det(J))
    return np.array(dets)


def gen_bspline_geo(rng, kind, dom):
    """a B-spline geometry {'kind': 'bspline', kvs, coeffs} on the parameter box `dom` (axis order as the
    space) whose Jacobian determinant varies but keeps one sign.  Control points are dyadic."""
    d = len(dom)

    def kv_of(p, nspan, a, b):
        return [a] * (p + 1) + [a + (b - a) * Fraction(i, nspan) for i in range(1, nspan)] + [b] * (p + 1)

    if kind in ('bilinear+', 'bilinear-', 'trilinear'):
        gk = [kv_of(1, 1, a, b) for a, b in dom]
        for tries in range(5000):
            assert tries < 4999, 'generator: no admissible multilinear geometry'
            pts = []
            for idx in np.ndindex(*(d * (2,))):
                corner = [Fraction(i) for i in idx[::-1]]            # x, y, z of the unit-cube corner
                if d == 2:
                    # a trapezoid-like quadrilateral: base 2 x 1, the far edge shortened and shifted
                    base = [2 * corner[0], corner[1]]
                    if idx[0] == 1:
                        base[0] = base[0] * Fraction(rng.randint(2, 6), 8) + Fraction(rng.randint(0, 4), 8)
                else:
                    taper = 1 - Fraction(rng.choice([2, 3, 4, 5]), 8) * corner[2]     # frustum towards z = 1
                    base = [corner[0] * taper, corner[1] * taper, corner[2]]
                pts.append([x + Fraction(rng.randint(-1, 1), 8) for x in base])
            if kind == 'bilinear-':
                pts = [pt[::-1] for pt in pts]                      # mirrored: det J < 0 throughout
            dets = multilinear_dets(pts, d)
            one_sign = np.all(dets > 0) or np.all(dets < 0)
            if one_sign and np.abs(dets).min() >= 0.05 * np.abs(dets).max() and np.abs(dets).max() >= 1.3 * np.abs(dets).min():
                if kind == 'bilinear-' and not np.all(dets < 0):
                    continue
                if kind != 'bilinear-' and not np.all(dets > 0):
                    continue
                break
        coeffs = [x for pt in pts for x in pt]
    else:
        p = int(kind[1])
        nspan = 1 if 'single' in kind else rng.choice([2, 4] if p < 3 else [2])
        gk = [kv_of(p, nspan, a, b) for a, b in dom]
        grev = [greville_exact(kv, p) for kv in gk]
        # the control net of a scaled identity map (Greville points), every point moved by less than 1/8
        # of the smallest net spacing per coordinate: the Jacobian stays diagonally dominant (det > 0)
        # but varies from point to point
        scale = [Fraction(rng.randint(2, 6), 2) for _ in range(d)]
        spac = [min(b - a for a, b in zip(g[:-1], g[1:])) for g in grev]
        coeffs = []
        for idx in np.ndindex(*[len(g) for g in grev]):
            par = [grev[k][idx[k]] for k in range(d)][::-1]         # x, y, z order
            for c in range(d):
                sp_c = spac[d - 1 - c]
                delta = sp_c * Fraction(rng.randint(-3, 3), 32)
                D = 1
                while D * sp_c < 256:                               # dyadic grid, 256 points per net spacing
                    D *= 2
                coeffs.append(scale[c] * Fraction(round((par[c] + delta) * D), D))
    def dy(x):
        x = Fraction(x)
        assert Fraction(float(x)) == x
        return [x.numerator, x.denominator]
    return {'kind': 'bspline', 'kvs': [kvspec(kv, (1 if kind in ('bilinear+', 'bilinear-', 'trilinear') else int(kind[1]))) for kv in gk],
            'coeffs': [dy(x) for x in coeffs]}


def gen_l2_cases(ctx, n):
    rng = ctx.rng
    thorough = ctx.tier == 'thorough'
    cases = []
    for c in range(n):
        gk = rng.choice(['none', 'none', 'affine', 'bspline_annulus', 'nurbs_annulus', 'twisted_box'])
        if c < 7:
            sp = [(gen_kv(rng, c, False, 12, wild=True), c)]
            gk = 'none'
        elif gk == 'twisted_box':
            sp = gen_space(rng, thorough, geo_unit=True, dims=3, pmax=2)
        elif gk in ('bspline_annulus', 'nurbs_annulus'):
            sp = gen_space(rng, thorough, geo_unit=True, dims=2)
        elif gk == 'affine':
            sp = gen_space(rng, thorough, dims=rng.choice([2, 2, 3]))
        else:
            sp = gen_space(rng, thorough)
        d = len(sp)
        N = [len(kv) - p - 1 for kv, p in sp]
        trailing = [] if gk != 'none' else rng.choice([[], [], [3], [2, 2]])
        T = prod(trailing)
        case = {'op': 'l2', 'kvs': [kvspec(kv, p) for kv, p in sp], 'trailing': trailing, 'geo': None,
                'bare_kv': d == 1 and rng.random() < 0.5, 'gk': gk, 'f_physical': False}
        if gk == 'affine':
            case['geo'] = gen_affine(rng, d)
        elif gk in ('bspline_annulus', 'nurbs_annulus'):
            case['geo'] = {'kind': gk, 'r1': [rng.randint(1, 8), 8], 'r2': [rng.randint(9, 16), 8]}
        elif gk == 'twisted_box':
            case['geo'] = {'kind': 'twisted_box'}
        dk = rng.choice(['space', 'space', 'space-callable', 'poly'])
        if dk == 'poly':
            case['data'] = {'kind': 'poly', 'comps': gen_poly(rng, d, rng.randint(1, 5), T), 'style': rng.choice(['tuple', 'array'])}
            case['f_physical'] = gk != 'none' and rng.random() < 0.6
        else:
            case['data'] = {'kind': 'space', 'coeffs': [[rng.randint(-64, 64), 8] for _ in range(prod(N) * T)],
                            'route': 'callable' if dk == 'space-callable' else 'bsplinefunc'}
        case['dk'] = dk
        cases.append(case)
    # B-spline geometries with a NON-constant Jacobian given by their control nets (every run):
    # one-element degree-1 maps that are multilinear but not affine (bilinear quadrilaterals of both
    # orientations, trilinear hexahedra), single-span and multi-span nets of degree 1..2 (3 in thorough).
    # Reproduction and residual orthogonality against the geometry-weighted oracle.
    kinds = ['bilinear+', 'bilinear-', 'trilinear', 'p2-single', 'p1-multi', 'p2-multi', 'bilinear-', 'trilinear']
    if thorough:
        kinds = kinds * 3 + ['p3-single', 'p3-multi', 'p2-multi-3d', 'p1-multi-3d']
    for gi, gkind in enumerate(kinds):
        d = 3 if gkind in ('trilinear', 'p2-multi-3d', 'p1-multi-3d') else 2
        maxd = 6 if d == 2 else 4
        sp = []
        for _ in range(d):
            p = rng.randint(1, 3 if d == 2 else 2)
            sp.append((gen_kv(rng, p, rng.random() < 0.6, maxd), p))
        N = [len(kv) - p - 1 for kv, p in sp]
        geo = gen_bspline_geo(rng, gkind, [(kv[0], kv[-1]) for kv, _ in sp])
        dk = ['space', 'poly', 'space-callable'][gi % 3]
        case = {'op': 'l2', 'kvs': [kvspec(kv, p) for kv, p in sp], 'trailing': [], 'geo': geo, 'bare_kv': False,
                'gk': 'bspline:' + gkind, 'dk': dk, 'f_physical': False}
        if dk == 'poly':
            case['data'] = {'kind': 'poly', 'comps': gen_poly(rng, d, rng.randint(1, 4), 1), 'style': 'array'}
            case['f_physical'] = gi % 2 == 1
        else:
            case['data'] = {'kind': 'space', 'coeffs': [[rng.randint(-64, 64), 8] for _ in range(prod(N))],
                            'route': 'callable' if dk == 'space-callable' else 'bsplinefunc'}
        cases.append(case)
    # data whose load vector vanishes although its terms do not (every run): one direction carries a single
    # basis function (degree 0, one span symmetric about 0) and the data are odd in that variable, so every
    # inner product is 0 up to rounding; components that are identically zero; with and without geometry,
    # scalar / vector / matrix valued, polynomial and spline data.  The bounds are relative to the magnitude
    # of the computation (sum of |w f phi|), not to |b|.
    for zi in range(12 if thorough else 6):
        d = 3 if zi % 2 == 0 else 2
        ax = rng.randrange(d)                                   # the direction with the single function
        sp = []
        for k in range(d):
            if k == ax:
                h = Fraction(rng.choice([1, 2, 4]), 2)
                sp.append(([-h, h], 0))
            else:
                pk = rng.randint(1, 3 if d == 2 else 2)
                sp.append((gen_kv(rng, pk, rng.random() < 0.5, 6 if d == 2 else 4), pk))
        N = [len(kv) - pk - 1 for kv, pk in sp]
        var = d - 1 - ax                                        # its variable in x, y, z order
        trailing = [[], [3], [2, 2], [], [2], [3]][zi % 6]
        T = prod(trailing)

        def odd_poly():
            P = []
            for _t in range(rng.randint(1, 3)):
                es = [rng.randint(0, 2) for _ in range(d)]
                es[var] = rng.choice([1, 3])
                P.append([rng.randint(-4, 4) or 1, es])
            return P
        kind = ['poly', 'poly', 'poly-geo', 'space-zero', 'poly', 'poly-geo'][zi % 6]
        case = {'op': 'l2', 'kvs': [kvspec(kv, pk) for kv, pk in sp], 'trailing': trailing, 'geo': None, 'bare_kv': False,
                'gk': 'none', 'dk': 'poly', 'f_physical': False}
        if kind == 'space-zero':
            # a spline whose coefficients vanish identically (scalar case) or in some components
            coeffs = []
            for _i in range(prod(N)):
                for t in range(T):
                    coeffs.append([0, 1] if (T == 1 or t % 2 == 0) else [rng.randint(-64, 64), 8])
            case['data'] = {'kind': 'space', 'coeffs': coeffs, 'route': 'bsplinefunc'}
            case['dk'] = 'space'
        else:
            comps = []
            for t in range(T):
                if T > 1 and t == 1:
                    comps.append([[0, [0] * d]])               # an identically zero component
                elif T > 1 and t == 2:
                    comps.append(gen_poly(rng, d, 3, 1)[0])     # a generic one next to them
                else:
                    comps.append(odd_poly())
            case['data'] = {'kind': 'poly', 'comps': comps, 'style': 'tuple' if zi % 2 else 'array'}
            if kind == 'poly-geo':
                # diagonal affine geometry: the pull-back stays odd, the projection goes through CG
                case['geo'] = {'kind': 'affine', 'A': [[[rng.randint(1, 6) if i == j else 0, 2] for j in range(d)] for i in range(d)],
                               'b': [[0, 1] for _ in range(d)]}
                case['gk'] = 'affine'
                case['trailing'] = []
                case['data']['comps'] = comps[:1]
        case['gk'] += ':zero-load'
        cases.append(case)
    # geometries that stress the solver of the geometry-weighted projection:
    # (a) small physical domains (|det J| tiny), (b) strongly varying |det J| on a larger space
    for s in ([10, 20, 30] if not thorough else [6, 10, 14, 18, 20, 24, 30, 40]):
        for d in (2, 3):
            p = rng.randint(1, 3)
            sp = [(gen_kv(rng, p, True, 6 if d == 2 else 4), p) for _ in range(d)]
            N = [len(kv) - pp - 1 for kv, pp in sp]
            cases.append({'op': 'l2', 'kvs': [kvspec(kv, pp) for kv, pp in sp], 'trailing': [], 'f_physical': False,
                          'geo': {'kind': 'scaled_square' if d == 2 else 'scaled_cube', 's': [1, 2 ** s]},
                          'data': {'kind': 'space', 'coeffs': [[rng.randint(-64, 64), 8] for _ in range(prod(N))], 'route': 'bsplinefunc'},
                          'gk': 'small-domain', 'dk': 'space'})
    for (p, n, r1) in ([(3, 40, [1, 1024])] if not thorough else [(3, 20, [1, 1024]), (2, 24, [1, 4096]), (3, 40, [1, 1024]), (3, 28, [1, 256])]):
        kv = [Fraction(0)] * (p + 1) + [Fraction(i, n) for i in range(1, n)] + [Fraction(1)] * (p + 1)
        N = [n + p, n + p]
        cases.append({'op': 'l2', 'kvs': [kvspec(kv, p), kvspec(kv, p)], 'trailing': [], 'f_physical': False,
                      'geo': {'kind': 'nurbs_annulus', 'r1': r1, 'r2': [1, 1]},
                      'data': {'kind': 'space', 'coeffs': [[rng.randint(-64, 64), 8] for _ in range(prod(N))], 'route': 'bsplinefunc'},
                      'gk': 'thin-annulus', 'dk': 'space'})
    # explicit refusals (compared exactly): physical coordinates without geometry; vector data with geometry
    sp = gen_space(rng, thorough, geo_unit=True, dims=2, pmax=2)
    N = [len(kv) - p - 1 for kv, p in sp]
    cases.append({'op': 'l2', 'kvs': [kvspec(kv, p) for kv, p in sp], 'trailing': [], 'geo': None, 'f_physical': True,
                  'data': {'kind': 'poly', 'comps': gen_poly(rng, 2, 2, 1), 'style': 'array'}, 'gk': 'none', 'dk': 'poly',
                  'expect': 'AssertionError'})
    cases.append({'op': 'l2', 'kvs': [kvspec(kv, p) for kv, p in sp], 'trailing': [2], 'f_physical': False,
                  'geo': {'kind': 'bspline_annulus', 'r1': [1, 1], 'r2': [2, 1]},
                  'data': {'kind': 'space', 'coeffs': [[rng.randint(-8, 8), 1] for _ in range(prod(N) * 2)], 'route': 'bsplinefunc'},
                  'gk': 'bspline_annulus', 'dk': 'space', 'expect': 'AssertionError'})
    return cases


def gen_hspace_cases(ctx, n):
    rng = ctx.rng
    cases = []
    for c in range(n):
        d = 2 if c % 6 in (1, 3, 4) else rng.choice([1, 2, 2])      # affine geometries need dim >= 2
        p = rng.randint(1, 3)
        sp = []
        for _ in range(d):
            nsp = rng.randint(2, 4)
            kv = [Fraction(0)] * (p + 1) + [Fraction(i, nsp) for i in range(1, nsp)] + [Fraction(1)] * (p + 1)
            sp.append((kv, p, nsp))
        refine = []
        nsp = [s[2] for s in sp]
        cells = None
        for lv in range(rng.randint(1, 2)):
            if cells is None:
                allc = [tuple(c) for c in np.ndindex(*nsp)]
            else:
                # children of the cells refined before
                allc = sorted({tuple(2 * ci + o for ci, o in zip(cell, off)) for cell in cells for off in np.ndindex(*(d * (2,)))})
            k = rng.randint(1, max(1, len(allc) // 2))
            cells = rng.sample(allc, k)
            refine.append([list(map(int, cell)) for cell in cells])
        dk, want_geo, fphys = [('hspace', False, False), ('poly', True, True), ('poly', False, False),
                               ('hspace', True, False), ('poly', True, False), ('hspace', False, False)][c % 6]
        case = {'op': 'hspace', 'kvs': [kvspec(kv, pp) for kv, pp, _ in sp], 'truncate': c % 2 == 0, 'refine': refine,
                'geo': None, 'f_physical': False, 'dk': dk}
        if want_geo:
            # affine only: with a constant |det J| every level-wise quadrature is exact, so the
            # fine-level oracle and the hierarchical assembly realise the same inner product
            case['geo'] = gen_affine(rng, d)
        if dk == 'hspace':
            case['data'] = {'kind': 'hspace', 'coeffs': [[rng.randint(-64, 64), 8] for _ in range(400)]}
        else:
            case['data'] = {'kind': 'poly', 'comps': gen_poly(rng, d, p + 1, 1)}
            case['f_physical'] = fphys
        cases.append(case)
    return cases


# ---------------------------------------------------------------------------

def run(ctx):
    ctx.obligations_stage(PROPS, extra_targets=['C17/Examples.vo'], gate_dirs=['C02', 'C19'])
    thorough = ctx.tier == 'thorough'
    ctx.assumptions += [
        'model: hand transcription of approx.interpolate, tensor.apply_tprod (loop as written), utils.grid_eval(_transformed), '
        'KnotVector.greville, bspline.collocation into Gallina over Qc (coq/C17/Model.v; 1D kernels from coq/lib/Bsp.v)',
        'solvers (operators.make_solver: SuperLU/LAPACK, scipy cg) are modelled by their contract S C = I / C S = I '
        '(theorem hypotheses; checked per case by the exact Gauss-Jordan inverse of the model)',
        'float tie: bounds stated in the docstring of harness/props/c17.py (growth factor of LU <= 8 assumed)',
        'L2 projection, geometry weighting and hierarchical spaces: theorems over the abstract discrete inner product; '
        'implementation checked against an independent float64 quadrature oracle (no Coq model of Gauss nodes: irrational)',
        'not covered: convergence of scipy.sparse.linalg.cg within its iteration cap (a non-converged run is detected by the residual check)',
    ]
    ni = 140 if thorough else 44
    nl = 120 if thorough else 36
    nh = 24 if thorough else 6
    icases = gen_interp_cases(ctx, ni, 60 if thorough else 20)
    lcases = gen_l2_cases(ctx, nl)
    hcases = gen_hspace_cases(ctx, nh)
    # development knob (mutant runs): restrict the parts; the default runs everything
    parts = os.environ.get('VERIF_C17_PARTS', 'interp,l2,hspace').split(',')
    if 'interp' not in parts:
        icases = []
    if 'l2' not in parts:
        lcases = []
    if 'hspace' not in parts:
        hcases = []
    ctx.cov['parts'] = parts
    allc = icases + lcases + hcases
    results = []
    B = 400
    for i in range(0, len(allc), B):
        payload = [{k: v for k, v in c.items() if k not in ('gk', 'dk', 'expect', 'small', 'shared')} for c in allc[i:i + B]]
        results += ctx.impl.run(DRIVER, {'cases': payload}, timeout=2400)['results']
    log('[C17] implementation ran %d cases, %.0fs' % (len(allc), __import__('time').time() - ctx.t0))
    for nm, lo, hi in (('interp', 0, len(icases)), ('l2', len(icases), len(icases) + len(lcases)), ('hspace', len(icases) + len(lcases), len(allc))):
        log('[C17]   %s: %d cases, driver cpu %.1fs wall %.1fs' % (nm, hi - lo, sum(r.get('cpu_s', 0) for r in results[lo:hi]),
                                                                  sum(r.get('wall_s', 0) for r in results[lo:hi])))
    ires, lres, hres = results[:len(icases)], results[len(icases):len(icases) + len(lcases)], results[len(icases) + len(lcases):]
    dist = {'interp': {}, 'l2': {}, 'hspace': {}, 'dims': {}, 'degrees': {}, 'custom_nodes': 0, 'trailing': {}}
    nfail = 0
    coq_items = []
    for ci, (c, r) in enumerate(zip(icases, ires)):
        key = '%s/%s' % (c['dk'], c['gk'])
        dist['interp'][key] = dist['interp'].get(key, 0) + 1
        dist['dims'][len(c['kvs'])] = dist['dims'].get(len(c['kvs']), 0) + 1
        for k in c['kvs']:
            dist['degrees'][k['p']] = dist['degrees'].get(k['p'], 0) + 1
        dist['custom_nodes'] += c['nodes'] is not None
        dist['shared_kv_distinct_nodes'] = dist.get('shared_kv_distinct_nodes', 0) + bool(c.get('shared'))
        tk = str(c.get('trailing', []))
        dist['trailing'][tk] = dist['trailing'].get(tk, 0) + 1
        ctx.count(('interp', c['kvs'], c['nodes'], c['data'], c['geo']), nontrivial=True)
        bad, ref, coq = check_interp_on_impl(c, r)
        for code, text in bad[:2]:
            nfail += 1
            ctx.report('impl:interp:%s:%s:%s' % (code, c['dk'], c['gk']), text, replay_of(c, {'impl': {k: r.get(k) for k in ('status', 'msg', 'shape')}}))
        if coq is not None and ref is not None:
            kind, x, gb, bound = coq
            coq_items.append((ci, coq_icase(c, ref, x, gb, bound)))
    linfo = []
    for c, r in zip(lcases, lres):
        key = '%s/%s' % (c['dk'], c['gk'])
        dist['l2'][key] = dist['l2'].get(key, 0) + 1
        ctx.count(('l2', c['kvs'], c['data'], c['geo'], c['f_physical']), nontrivial=True)
        bad, info = check_l2_on_impl(c, r)
        linfo.append(info)
        for code, text in bad[:2]:
            nfail += 1
            if code in ('diagonal-operator-size1', 'cg-iteration-cap', 'cg-absolute-tolerance') or code.startswith('not-orthogonal:'):
                sig = 'impl:l2:' + code
            else:
                sig = 'impl:l2:%s:%s:%s' % (code, c['dk'], c['gk'])
            ctx.report(sig, text, replay_of(c, {'impl': {k: r.get(k) for k in ('status', 'msg', 'shape', 'stderr')}}))
    for c, r in zip(hcases, hres):
        key = '%s/%s/%s' % (c['dk'], 'thb' if c['truncate'] else 'hb', 'geo' if c['geo'] else 'nogeo')
        dist['hspace'][key] = dist['hspace'].get(key, 0) + 1
        ctx.count(('hspace', c['kvs'], c['refine'], c['truncate'], c['data'], c['geo']), nontrivial=True)
        bad, info = check_hspace_on_impl(c, r)
        for code, text in bad[:2]:
            nfail += 1
            rp = replay_of(c, {'impl': {k: r.get(k) for k in ('status', 'msg', 'stderr', 'numdofs')}})
            rp.update({'truncate': c['truncate'], 'refine': c['refine'],
                       'how': 'HSpace(kvs, truncate, bdspecs=[]); hs.refine({finest level: cells}) per entry of refine; approx.project_L2(hs, f, f_physical, geo)'})
            sig = 'impl:hspace:' + code if code == 'load-vector-own-level-quadrature' else 'impl:hspace:%s:%s' % (code, key)
            ctx.report(sig, text, rp)
    ctx.cov['traces_validated_against_impl'] = len(allc)
    ctx.cov['property_failures_on_impl'] = nfail
    ctx.cov['max_l2_residual_over_bound'] = max([i.get('residual_over_bound', 0.0) for i in linfo] + [0.0])
    # correspondence with the Coq model (a few cases per file, files in parallel)
    PER = 3
    # the structured small stream first, then the malformed / other eligible cases, up to the cap
    coq_items.sort(key=lambda it: (0 if icases[it[0]].get('shared') else 1 if icases[it[0]].get('small') else
                                   (2 if icases[it[0]]['dk'] == 'repeated-node' else 3), it[0]))
    coq_items = coq_items[:(108 if thorough else 24)]
    log('[C17] oracles done, %.0fs; %d cases for the Coq model' % (__import__('time').time() - ctx.t0, len(coq_items)))
    coq_files, coq_index = [], []
    for i in range(0, len(coq_items), PER):
        chunk = coq_items[i:i + PER]
        body = HEADER + 'Definition cases := [\n' + ';\n'.join(t for _, t in chunk) + '].\nEval vm_compute in codes cases.\n'
        coq_files.append(('C17_cases_%03d' % len(coq_files), body))
        coq_index.append([ci for ci, _ in chunk])
    # self-test of the comparison: a deliberately perturbed copy of the first case must be flagged
    mutant = None
    for ci, _ in coq_items:
        c0 = icases[ci]
        bad, ref, coq = check_interp_on_impl(c0, ires[ci])
        if coq and coq[0] == 'ok':
            x = list(coq[1])
            x[-1] = x[-1] + 4 * coq[3] + Fraction(1, 2 ** 30)
            mutant = ('C17_cases_selftest', HEADER + 'Definition cases := [\n' + coq_icase(c0, ref, x, coq[2], coq[3]) + '].\nEval vm_compute in codes cases.\n')
            break
    todo = coq_files + ([mutant] if mutant else [])
    dis = []
    for (name, ok, out), cis in zip(ctx.coq_eval_many(todo, timeout=1500), coq_index + [None]):
        codes = parse_coq_list_of_nat(out) if ok else None
        if cis is None:
            if codes != [3]:
                ctx.broken.append('self-test: a perturbed implementation result was not flagged by the Coq comparison (%s)' % (out[-300:],))
            continue
        ctx.obligations += 1
        if codes is None or len(codes) != len(cis):
            ctx.broken.append('case file %s did not evaluate: %s' % (name, out[-500:]))
            continue
        ctx.discharged += 1
        for ci, code in zip(cis, codes):
            if code != 0:
                dis.append((ci, code))
    ctx.cov['disagreements_checked'] = len(dis)
    ctx.cov['coq_cases'] = len(coq_items)
    what = {1: 'Greville abscissae differ from the model', 2: 'raise/no-raise status differs from the model (singular collocation matrix)',
            3: 'coefficients differ from the exact model beyond the rounding bound', 4: 'generated knot vector is not open (generator)'}
    for ci, code in dis[:3]:
        c, r = icases[ci], ires[ci]
        ctx.broken.append('correspondence C17 model<->impl differs on interpolation case #%d (code %d)' % (ci, code))
        ctx.report('tie:interp:code%d:%s:%s' % (code, c['dk'], c['gk']), 'approx.interpolate: ' + what.get(code, '?'),
                   replay_of(c, {'impl': {k: r.get(k) for k in ('status', 'msg', 'shape', 'x')}}))
    ctx.cov['rule'] = ('one evaluation = one call of approx.interpolate / approx.project_L2 (+ the 1D bspline routines and the '
                       'pull-back route) on a generated (space, nodes, data, geometry); spaces: dims 1..3, degrees 0..6, dyadic '
                       'non-uniform knots with interior multiplicities 1..p; data: spline of the space (BSplineFunc / callable), '
                       'polynomial (tuple / array valued), value array; trailing shapes [], [2], [3], [2,2]; geometries: none, '
                       'affine, B-spline / NURBS quarter annulus, twisted box, scaled square/cube, thin annulus; hierarchical: '
                       'HB/THB spaces from 1-2 refinement steps; malformed: wrong array shape, repeated node, refusals')
    ctx.cov['input_distribution'] = dist
    ctx.cov['exhaustive'] = False
    if icases:
        ctx.sample({'op': 'interp', 'kvs': replay_of(icases[8 % len(icases)])['kvs'], 'dk': icases[8 % len(icases)]['dk'],
                    'impl_x': [float.fromhex(h) for h in ires[8 % len(icases)].get('x', [])][:6]})
    if lcases:
        ctx.sample({'op': 'l2', 'kvs': replay_of(lcases[9 % len(lcases)])['kvs'], 'gk': lcases[9 % len(lcases)]['gk'],
                    'impl_x': [float.fromhex(h) for h in lres[9 % len(lcases)].get('x', [])][:6]})
    return ctx.finish()


META = {
    'technique': 'Rocq proofs (the apply_tprod loop equals the Kronecker product for every dimension and trailing axes; composition, '
                 'identity; interpolation and the discrete geometry-weighted L2 projection as linear algebra over the solver contracts; '
                 'SPD of the quadrature Gram matrix) + correspondence of approx.interpolate with the exact Qc model within a derived '
                 'rounding bound + independent oracles (exact Fractions; own float64 quadrature) for L2 / geometry / hierarchical projection',
    'level_text': 'Theorems (Coq, unbounded, coq/C17/Props.v): apply_tprod_is_kronecker (tensor.py loop = sum_j prod_k B_k[i_k,j_k] X[j,t] for any number of '
                  'operators, sizes, trailing axes), tprod_compose, interp_reproduces, interp_matches_nodes (any unisolvent node grid: hypothesis S_k C_k = I '
                  'resp. C_k S_k = I, checked per case by exact inversion), data_componentwise, physical_equals_pullback, l2_residual_orthogonal, '
                  'l2_reproduces, mass_injective (positive weights + unisolvent basis => injective Gram matrix), l2_kron_reproduces (Kronecker path), '
                  'interp_is_projection / interp_values_projection / l2_projection_is_projection (idempotence, any exact solver), '
                  'greville_satisfies_sw_necessary (positive diagonal at the Greville points, every degree >= 1, on C19 + C02), greville_unisolvent_p01 '
                  '(collocation matrix at the Greville points of an open knot vector of degree 0/1 is the identity), greville_p01_solver_contract, '
                  'interp_reproduces_on_grid (data known only on the node grid), tensor_grid_unisolvent / tensor_grid_kernel_trivial (tensor grid unisolvent from '
                  'per-axis left inverses), interp_component_selection(_physical) and l2_kron_componentwise (component selection commutes with the pipelines, any value shape), '
                  'apply_tprod_1d, hspace_gram_is_galerkin / hspace_load_is_restriction / hspace_l2_{reproduces,orthogonal}_partial. '
                  'Tie: approx.interpolate (default Greville and custom nodes, splines/polynomials/arrays, scalar/vector/matrix data, affine geometry) '
                  'against the exact model by vm_compute (20 quick / 96 thorough cases) within the bound stated in harness/props/c17.py, Greville nodes and '
                  'singular-grid status included; every case (dims 1..3, degrees 0..6, NURBS/B-spline/twisted geometries, 1D routines, pull-back route) '
                  'against an exact Fraction oracle; project_L2 (Kronecker, CG with geometry, hierarchical HB/THB) against an independent quadrature '
                  'oracle: residual orthogonality |b - M x| <= tau(|b| + |M||x|), reproduction within tau cond(M).',
    'level_note': 'partial: solvers (SuperLU/LAPACK/CG) enter by contract, Schoenberg-Whitney for degree >= 2 is checked per case not proved, Gauss quadrature / geometry '
                  'maps / hierarchical assembly are covered by the oracle only (no Coq model of irrational Gauss nodes); LU growth factor <= 8 assumed in the float bound. '
                  'Trusted: Coq kernel + vm_compute, hand transcription in coq/C17/Model.v and coq/lib/Bsp.v (validated each run), harness oracles.',
}
