(* C07 -- theorems, third file: documented argument forms of the operations.
   apply_matrix(A) with A "either a single matrix or an array of matrices, one for each control point.
   Standard numpy broadcasting rules apply" (bspline.py:1074-1083, geometry.py:251-262).
   Model: coq/C07/ArgForms.v (b_matrix_pc, n_matrix_pc, arrA / bc_idx for the broadcasting). *)
From Coq Require Import QArith Qcanon ZArith List Arith.
From Verif.lib Require Import Bsp.
From Verif.C07 Require Import Model Proofs NurbsOps ArgForms.
Import ListNotations.
Open Scope Qc_scope.

(* the documented map: same knot vectors, `rows` components, control point idx mapped by ITS OWN matrix *)
Theorem apply_matrix_per_control_point_spec : forall f A rows idx c,
  kvs (b_matrix_pc f A rows) = kvs f /\ nc (b_matrix_pc f A rows) = rows
  /\ co (b_matrix_pc f A rows) idx c = rdot 0 (map (A idx c) (seq 0 (nc f))) (co f idx).
Proof. exact matrix_pc_control_points_l. Qed.

(* its value: the spline whose control points are A[idx] . C[idx] *)
Theorem apply_matrix_per_control_point_value : forall f A rows us c,
  g_val (b_matrix_pc f A rows) us c
  = tp_eval (grid_rows (kvs f) us 0 (zerov (sdim f)))
            (fun idx => rdot 0 (map (A idx c) (seq 0 (nc f))) (co f idx)).
Proof. exact matrix_pc_value_l. Qed.

(* the single matrix is the constant family: apply_matrix_spec is the special case *)
Theorem apply_matrix_single_is_constant_family : forall f A rows us c,
  b_matrix_pc f (fun _ => A) rows = b_matrix f A rows
  /\ g_val (b_matrix_pc f (fun _ => A) rows) us c = rdot 0 (map (A c) (seq 0 (nc f))) (fun k => g_val f us k).
Proof. exact matrix_pc_const_l. Qed.

Theorem apply_matrix_depends_on_own_matrices_only : forall f A B rows us c,
  (forall idx k, A idx c k = B idx c k) ->
  g_val (b_matrix_pc f A rows) us c = g_val (b_matrix_pc f B rows) us c.
Proof. exact matrix_pc_ext_l. Qed.

(* NurbsFunc.apply_matrix: the matrices act on the non-premultiplied control points, weights unchanged *)
Theorem nurbs_apply_matrix_per_control_point_spec : forall f A rows idx c, (c < rows)%nat ->
  kvs (n_matrix_pc f A rows) = kvs f /\ wcomp (n_matrix_pc f A rows) = rows
  /\ co (n_matrix_pc f A rows) idx rows = co f idx (wcomp f)
  /\ co (n_matrix_pc f A rows) idx c
     = rdot 0 (map (A idx c) (seq 0 (wcomp f))) (n_C f idx) * co f idx (wcomp f).
Proof. exact n_matrix_pc_control_points_l. Qed.

Theorem nurbs_apply_matrix_single_is_constant_family : forall f A rows us c,
  (c < rows)%nat -> (forall idx, co f idx (wcomp f) <> 0) -> g_val f us (wcomp f) <> 0 ->
  n_matrix_pc f (fun _ => A) rows = n_matrix f A rows
  /\ n_val (n_matrix_pc f (fun _ => A) rows) us c = rdot 0 (map (A c) (seq 0 (wcomp f))) (fun k => n_val f us k).
Proof. exact n_matrix_pc_const_l. Qed.

Theorem nurbs_apply_matrix_keeps_weight_function : forall f A rows us,
  g_val (n_matrix_pc f A rows) us (wcomp (n_matrix_pc f A rows)) = g_val f us (wcomp f).
Proof. exact n_matrix_pc_weight_l. Qed.

(* broadcasting: shape (rows, cols) = one matrix for all control points; full control-net shape = own matrix *)
Theorem matrix_array_single : forall rows cols flat idx r c,
  arrA [] rows cols flat idx r c = nth (r * cols + c) flat 0.
Proof. exact arrA_single_l. Qed.

Theorem matrix_array_full_shape_reads_own_index : forall ash idx, length idx = length ash ->
  Forall2 (fun n i => (i < n)%nat) ash idx -> bc_idx ash idx = idx.
Proof. exact bc_idx_full_l. Qed.

(* NOT PROVED (argument forms): per-control-point OFFSETS/FACTORS for translate/scale work through numpy
   broadcasting but are not documented (documented: an offset; a scalar factor or a vector) -- the model's
   off/fac : nat -> Qc covers scalar (constant) and per-component forms; tensor_product with more than two
   operands and outer_sum/outer_product of a scalar- with a vector-valued function are not modelled. *)

Print Assumptions apply_matrix_per_control_point_spec.
Print Assumptions apply_matrix_per_control_point_value.
Print Assumptions apply_matrix_single_is_constant_family.
Print Assumptions apply_matrix_depends_on_own_matrices_only.
Print Assumptions nurbs_apply_matrix_per_control_point_spec.
Print Assumptions nurbs_apply_matrix_single_is_constant_family.
Print Assumptions nurbs_apply_matrix_keeps_weight_function.
Print Assumptions matrix_array_single.
Print Assumptions matrix_array_full_shape_reads_own_index.
