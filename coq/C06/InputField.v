(* C06 -- input fields: replace_physical_derivs on VarRefExpr (vform.py:554-605, the same code path
   as for basis functions with a different leaf class) and insert_input_field_derivs (626-646). *)
From Coq Require Import List String Bool Arith Lia Field Ring.
From Verif.C06 Require Import Model Phys.
Import ListNotations.

Section InputField.
Variable F : Type.
Variables (f0 f1 : F) (fadd fmul fsub fdiv : F -> F -> F) (fopp finv : F -> F).
Hypothesis Fth : field_theory f0 f1 fadd fmul fsub fopp fdiv finv (@eq F).
Add Field Ffield7 : Fth.
Infix "+" := fadd. Infix "*" := fmul. Infix "-" := fsub. Infix "/" := fdiv.
Notation "- x" := (fopp x).
Notation eval := (eval F fadd fmul fsub fdiv fopp).
Notation eval_defs := (eval_defs F f0 fadd fmul fsub fdiv fopp).
Notation expr := (expr F).
Notation env := (env F).

(* ---- transcription ------------------------------------------------------------------------------ *)
(* replace the basis-function leaves of an expression *)
Fixpoint leafmap (g : list nat -> expr) (e : expr) : expr :=
  match e with
  | PD _ _ D _ => g D
  | Neg x => Neg (leafmap g x)
  | Fn f x => Fn f (leafmap g x)
  | Op o x y => Op o (leafmap g x) (leafmap g y)
  | _ => e
  end.

(* replace_physical_derivs on a reference to an input field: the decisions of 555-570, then the SAME
   formulas as for basis functions (588-605) with e.without_derivs() = VarRefExpr(var, I, 0, parametric=True)
   and its parametric derivatives as leaves *)
Definition rpd_vr (d : nat) (name : string) (Ix D : list nat) (par srcphys : bool) : rpd_res F :=
  if sumD D =? 0 then (if par then RSame else RNew (VR name Ix D true) [])
  else if negb srcphys && par then RSame            (* parametric derivative of a parametric field *)
  else if srcphys && negb par then RSame            (* physical derivative of a physical field *)
  else if srcphys && par then RFail                 (* RuntimeError, 569-570 *)
  else match rpd_bf F f0 false d "" None D true with
       | RNew e ds => RNew (leafmap (fun D' => VR name Ix D' true) e) ds
       | r => r
       end.

(* insert_input_field_derivs, 626-646: the derivative of order 1 / 2 of the field is read from the
   arrays <field>_grad_a / <field>_hess_a (the Hessian in symmetric storage) *)
Definition iifd (d : nat) (base : string) (Ix D : list nat) : rpd_res F :=
  if sumD D =? 0 then RSame
  else match D_to_indices D with
       | [k] => RNew (VR (append base "_grad_a") (Ix ++ [k]) (zerosD d) false) []
       | [i; j] => RNew (VR (append base "_hess_a") (Ix ++ [sym_index_to_seq d i j]) (zerosD d) false) []
       | _ => RFail
       end.

(* ---- physical derivatives of a parametric input field ------------------------------------------- *)
Variable J : nat -> nat -> F.
Variable HG : nat -> nat -> nat -> F.
Variable gu : nat -> F.
Variable Hu : nat -> nat -> F.
Variable u0 : F.
Notation par_jet := (par_jet F f0 fadd fmul J HG gu Hu u0).
Notation phys_env := (phys_env F f0 f1 fadd fmul fsub fdiv fopp J HG gu Hu u0).
Notation detJ := (detJ F f0 f1 fadd fmul fsub fdiv fopp J).

(* the environment of Phys.v, and the parametric derivatives of the field "f_a" are its jets: the
   composition of its physical jets (gu, Hu) with the geometry 2-jet *)
Definition field_env (d : nat) : env :=
  mkEnv (e_pd (phys_env d))
        (fun n Ix D p => if String.eqb n "f_a" then par_jet d D else e_vr (phys_env d) n Ix D p)
        (e_gw (phys_env d)) f0 f0 (fun _ x => x).

Definition fgrad_ok (d k : nat) : Prop :=
  match rpd_vr d "f_a" [] (unitD d k) false false with
  | RNew e ds => eval (eval_defs (field_env d) ds) e = gu k
  | _ => False
  end.
Definition fhess_ok (d i j : nat) : Prop :=
  match rpd_vr d "f_a" [] (bump (unitD d i) j 1) false false with
  | RNew e ds => eval (eval_defs (field_env d) ds) e = sHu F Hu i j
  | _ => False
  end.

Ltac small i := destruct i as [|[|[|i]]]; try lia.
Ltac fin Hd := cbv; field; let H := fresh "H" in (intro H; apply Hd; rewrite <- H; ring).

Lemma field_grad_1_l : detJ 1 <> f0 -> forall k, k < 1 -> fgrad_ok 1 k.
Proof. intros Hd k Hk. cbv in Hd. small k. fin Hd. Qed.
Lemma field_grad_2_l : detJ 2 <> f0 -> forall k, k < 2 -> fgrad_ok 2 k.
Proof. intros Hd k Hk. cbv in Hd. small k; fin Hd. Qed.
Lemma field_grad_3_l : detJ 3 <> f0 -> forall k, k < 3 -> fgrad_ok 3 k.
Proof. intros Hd k Hk. cbv in Hd. small k; fin Hd. Qed.
Lemma field_hess_1_l : detJ 1 <> f0 -> forall i j, i < 1 -> j < 1 -> fhess_ok 1 i j.
Proof. intros Hd i j Hi Hj. cbv in Hd. small i; small j; fin Hd. Qed.
Lemma field_hess_2_l : detJ 2 <> f0 -> forall i j, i < 2 -> j < 2 -> fhess_ok 2 i j.
Proof. intros Hd i j Hi Hj. cbv in Hd. small i; small j; fin Hd. Qed.

(* ---- the derivative arrays are the jets ------------------------------------------------------------- *)
(* symmetric storage: symmetric, inside range(n(n+1)/2) and injective on i <= j (n <= 3, the dimensions
   the code is used with) *)
Lemma sym_index_symmetric_l : forall n i j, sym_index_to_seq n i j = sym_index_to_seq n j i.
Proof. intros. unfold sym_index_to_seq. rewrite (Nat.min_comm i j), (Nat.max_comm i j). reflexivity. Qed.

Lemma sym_index_bijection_bounded_3_l : forall n, n <= 3 ->
  forall i j, i <= j -> j < n ->
  sym_index_to_seq n i j < n * (n + 1) / 2 /\
  forall i' j', i' <= j' -> j' < n -> sym_index_to_seq n i j = sym_index_to_seq n i' j' -> i = i' /\ j = j'.
Proof.
  intros n Hn i j Hij Hj.
  destruct n as [|[|[|[|n]]]]; try lia;
    small i; small j; (split; [cbv; lia|]);
    intros i' j' Hij' Hj' H; small i'; small j'; cbv in H; try discriminate H; split; reflexivity.
Qed.

(* an environment in which the arrays hold the jets of the field *)
Definition arrays_hold_jets (d : nat) (base : string) (Ix : list nat) (par : bool) (en : env) : Prop :=
  (forall k, k < d ->
     e_vr en (append base "_grad_a") (Ix ++ [k]) (zerosD d) false = e_vr en (append base "_a") Ix (unitD d k) par) /\
  (forall i j, i <= j -> j < d ->
     e_vr en (append base "_hess_a") (Ix ++ [sym_index_to_seq d i j]) (zerosD d) false =
     e_vr en (append base "_a") Ix (bump (unitD d i) j 1) par).

Definition iifd_ok (d : nat) (base : string) (Ix D : list nat) (par : bool) (en : env) : Prop :=
  match iifd d base Ix D with
  | RNew e _ => eval en e = e_vr en (append base "_a") Ix D par
  | _ => False
  end.

Lemma iifd_sound_l : forall d, 1 <= d <= 3 -> forall base Ix par en,
  arrays_hold_jets d base Ix par en ->
  (forall k, k < d -> iifd_ok d base Ix (unitD d k) par en) /\
  (forall i j, i <= j -> j < d -> iifd_ok d base Ix (bump (unitD d i) j 1) par en).
Proof.
  intros d Hd base Ix par en [Hg Hh].
  destruct d as [|[|[|[|d]]]]; try lia; split.
  all: try (intros k Hk; small k; unfold iifd_ok, iifd; simpl; apply Hg; lia).
  all: intros i j Hij Hj; small i; small j; unfold iifd_ok, iifd; simpl; apply (Hh _ _ Hij Hj).
Qed.

End InputField.
