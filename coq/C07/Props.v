(* C07 -- property theorems only.  Each is closed by [exact] of a lemma of Proofs.v /
   Algebra.v and followed (after the sections) by Print Assumptions.

   [in_dom kv u]: kv is an open knot vector (kv_ok of C02/Proofs.v) and u lies in its support.
   The partition of unity and the reference meaning of active_deriv come from the C02 theorems
   (coq/C07/Discharge.v); the interpolation of the basis at both ends of an open knot vector is proved
   in coq/C07/Ends.v from the end-point values of the reference (C02/Proofs_single.v).
   [open_ends kv]: kv_ok and the first knot has multiplicity exactly p+1 (both checked by open_kv). *)
From Coq Require Import QArith Qcanon ZArith List Arith Field.
From Verif.lib Require Import Bsp.
From Verif.C02 Require Import Proofs Proofs_ref.
From Verif.C02 Require Import Proofs_ndu Proofs_deriv Proofs_single.
From Verif.C07 Require Import Model Proofs Discharge Ends Hess More Algebra Disk Chain NurbsOps ArcModel.
Import ListNotations.
Open Scope Qc_scope.

(* ---- evaluation routes ------------------------------------------------------------- *)

(* Scattered-point evaluation (with the repaired coordinate selection XY[sdim-1-d]) returns what
   __call__ returns at every point, for every number of axes, degrees, knot vectors, coefficients
   and every flattened trailing component. *)
Theorem routes_agree_val : forall f xs c,
  Forall2 in_dom (kvs f) (rev xs) -> pw_val sel_fixed f xs c = Some (call_val f xs c).
Proof. exact routes_agree_val_l. Qed.

(* ... and pointwise_jacobian returns the grid_jacobian of the one-point grid (slot order included). *)
Theorem routes_agree_jac : forall f xs c,
  Forall2 in_dom (kvs f) (rev xs) -> pw_jac sel_fixed f xs c = Some (g_jac f (rev xs) c).
Proof. exact routes_agree_jac_l. Qed.

Theorem nurbs_routes_agree_val : forall f xs c,
  Forall2 in_dom (kvs f) (rev xs) -> n_pw_val sel_fixed f xs c = Some (n_call f xs c).
Proof. exact n_routes_agree_val_l. Qed.

Theorem nurbs_routes_agree_jac : forall f xs c,
  Forall2 in_dom (kvs f) (rev xs) -> n_pw_jac sel_fixed f xs c = Some (n_jac f (rev xs) c).
Proof. exact n_routes_agree_jac_l. Qed.

(* The coordinate selection as written in /repo HEAD (XY[1-d]): IndexError for every curve,
   a different value for a trilinear function in 3D, correct only for sdim = 2.
   Replayed on the implementation by the tie (signatures impl:pointwise_eval-*:sdim1/sdim3). *)
Theorem routes_agree_asis_sdim1_refuted : forall f x c, pw_val sel_asis f [x] c = None.
Proof. exact asis_sdim1_raises_l. Qed.

Theorem routes_agree_asis_sdim3_refuted : exists f xs c,
  Forall2 in_dom (kvs f) (rev xs) /\ pw_val sel_asis f xs c <> Some (call_val f xs c).
Proof. exact asis_sdim3_refuted_l. Qed.

Theorem routes_agree_asis_sdim2 : forall f x y c, pw_val sel_asis f [x; y] c = pw_val sel_fixed f [x; y] c.
Proof. exact asis_sdim2_ok_l. Qed.

(* Column j of the Jacobian is the contraction with the derivative collocation row on the knot
   vector of the j-th xyz coordinate (kvs[sdim-1-j]) and value rows elsewhere. *)
Theorem jacobian_slot_order : forall f us c j, (j < sdim f)%nat ->
  nth j (g_jac f us c) 0 = g_dir f 1 us (unitv (sdim f) (sdim f - 1 - j)) c.
Proof. exact jacobian_slot_order_l. Qed.
(* Values, Jacobian columns and Hessian slots are the sums  sum_I co[I] prod_k N^(D_k)_{I_k}(u_k)
   over the Cox-de Boor reference functions and their derivative recursion (ref_rows), with the
   derivative placed on the knot vector of the xyz direction the slot is documented to hold. *)
Theorem value_is_reference : forall f us c, Forall2 in_dom (kvs f) us ->
  g_val f us c = tp_eval (ref_rows (kvs f) us (zerov (sdim f))) (fun idx => co f idx c).
Proof. exact value_is_reference_l. Qed.

Theorem jacobian_is_derivative : forall f us c j, Forall2 in_dom (kvs f) us -> (j < sdim f)%nat ->
  nth j (g_jac f us c) 0
  = tp_eval (ref_rows (kvs f) us (unitv (sdim f) (sdim f - 1 - j))) (fun idx => co f idx c).
Proof. exact jacobian_is_derivative_l. Qed.

Theorem hessian_is_derivative : forall f us c s, Forall2 in_dom (kvs f) us -> (s < length (hess_pairs (sdim f)))%nat ->
  nth s (g_hess f us c) 0
  = let ij := nth s (hess_pairs (sdim f)) (0, 0)%nat in
    tp_eval (ref_rows (kvs f) us (bump (bump (zerov (sdim f)) (fst ij)) (snd ij))) (fun idx => co f idx c).
Proof. exact hessian_is_derivative_l. Qed.

(* Every collocation row of a function sums to one at every point of the domain. *)
Theorem rows_partition_of_unity : forall ks us, Forall2 in_dom ks us -> pou_at ks us.
Proof. exact pou_at_of_dom_l. Qed.

(* The linearised Hessian slots of BSplineFunc.grid_hessian, written in xyz directions, are
   np.triu_indices(sdim) = (xx, xy, xz, yy, yz, zz) -- for every sdim; NurbsFunc.grid_hessian
   subtracts mat[I, J] with exactly these indices. *)
Theorem hessian_order : forall d,
  map (fun ij => (d - 1 - fst ij, d - 1 - snd ij)%nat) (hess_pairs d) = triu d.
Proof. exact hess_order_l. Qed.

(* ---- NURBS -------------------------------------------------------------------------- *)

Theorem nurbs_is_quotient : forall f us c, g_val f us (wcomp f) <> 0 ->
  n_val f us c * g_val f us (wcomp f) = g_val f us c.
Proof. exact nurbs_is_quotient_l. Qed.

(* _nurbs_jacobian satisfies the product rule for V = N W, and is the only solution. *)
Theorem nurbs_jacobian_quotient_rule : forall V W Va Wa, W <> 0 ->
  nurbs_jac_entry V W Va Wa * W + (V / W) * Wa = Va
  /\ forall n na, n * W = V -> na * W + n * Wa = Va -> na = nurbs_jac_entry V W Va Wa.
Proof. exact nurbs_jac_rule_l. Qed.

(* NurbsFunc.grid_hessian satisfies the second-order Leibniz rule for V = N W, and is the only solution. *)
Theorem nurbs_hessian_quotient_rule : forall V W Va Vb Wa Wb Vab Wab, W <> 0 ->
  let N := V / W in
  let Na := nurbs_jac_entry V W Va Wa in
  let Nb := nurbs_jac_entry V W Vb Wb in
  let Nab := nurbs_hess_entry V W Vab Wab Na Nb Wa Wb in
  Nab * W + Na * Wb + Nb * Wa + N * Wab = Vab
  /\ forall n na nb nab, n * W = V -> na * W + n * Wa = Va -> nb * W + n * Wb = Vb ->
       nab * W + na * Wb + nb * Wa + n * Wab = Vab -> nab = Nab.
Proof. exact nurbs_hess_rule_l. Qed.

(* ---- operations ---------------------------------------------------------------------- *)

Theorem translate_spec : forall f off us c, Forall2 in_dom (kvs f) us ->
  g_val (b_translate f off) us c = g_val f us c + off c.
Proof. exact translate_dom_l. Qed.

Theorem scale_spec : forall f fac us c, g_val (b_scale f fac) us c = g_val f us c * fac c.
Proof. exact scale_spec_l. Qed.

Theorem apply_matrix_spec : forall f A rows us c,
  g_val (b_matrix f A rows) us c = rdot 0 (map (A c) (seq 0 (nc f))) (fun k => g_val f us k).
Proof. exact matrix_spec_l. Qed.

(* __getitem__: component c of f[I] is component cs[c] of f, for every selection list cs (the
   positions an int / slice / index list / tuple denotes, with Python's negative-index and
   slice semantics: py_wrap, py_slice, py_list, sel_comps of Model.v) *)
Theorem getitem_spec : forall f cs us c, g_val (b_select f cs) us c = g_val f us (nth c cs 0%nat).
Proof. exact getitem_spec_l. Qed.

(* NurbsFunc: the selection applies to the numerator components only, the weight stays last *)
Theorem nurbs_getitem_spec : forall f cs us c, (c < length cs)%nat ->
  n_val (n_select f cs) us c = n_val f us (nth c cs 0%nat).
Proof. exact nurbs_getitem_spec_l. Qed.

Theorem py_index_semantics : forall n i,
  (forall k, (k < n)%nat -> py_wrap n (Z.of_nat k) = Some k)
  /\ ((1 <= i <= n)%nat -> py_wrap n (- Z.of_nat i) = Some (n - i)%nat)
  /\ py_wrap n (Z.of_nat n + Z.of_nat i) = None /\ py_wrap n (- Z.of_nat n - 1 - Z.of_nat i) = None.
Proof. exact py_wrap_spec_l. Qed.

Theorem full_slice_is_identity : forall n, py_slice n None None 1 = seq 0 n.
Proof. exact full_slice_l. Qed.

Theorem reverse_slice_is_reversal : forall n, py_slice n None None (-1) = rev (seq 0 n).
Proof. exact reverse_slice_l. Qed.

Theorem as_nurbs_spec : forall f us c, (c < nc f)%nat -> Forall2 in_dom (kvs f) us ->
  n_val (b_as_nurbs f) us c = g_val f us c.
Proof. exact as_nurbs_dom_l. Qed.

(* NurbsFunc.translate / scale (divide by the weights, operate, premultiply again): no partition
   of unity needed, only non-zero weights *)
Theorem nurbs_translate_spec : forall f off us c,
  (c < wcomp f)%nat -> (forall idx, co f idx (wcomp f) <> 0) -> g_val f us (wcomp f) <> 0 ->
  n_val (n_translate f off) us c = n_val f us c + off c.
Proof. exact n_translate_spec_l. Qed.

Theorem nurbs_scale_spec : forall f fac us c,
  (c < wcomp f)%nat -> (forall idx, co f idx (wcomp f) <> 0) -> g_val f us (wcomp f) <> 0 ->
  n_val (n_scale f fac) us c = n_val f us c * fac c.
Proof. exact n_scale_spec_l. Qed.

(* G(x, y) = G1(y) + G2(x): the first (x-most) coordinates go to the second operand *)
Theorem outer_sum_spec : forall f1 f2 x1 x2 c,
  Forall2 in_dom (kvs f1) (rev x1) -> Forall2 in_dom (kvs f2) (rev x2) ->
  call_val (b_outer_sum f1 f2) (x2 ++ x1) c = call_val f1 x1 c + call_val f2 x2 c.
Proof. exact outer_sum_dom_l. Qed.

Theorem outer_product_spec : forall f1 f2 x1 x2 c,
  length x1 = sdim f1 -> length x2 = sdim f2 ->
  call_val (b_outer_product f1 f2) (x2 ++ x1) c = call_val f1 x1 c * call_val f2 x2 c.
Proof. exact outer_product_call_l. Qed.

(* G(x, y) = G2(x) x G1(y): components of G2 first *)
Theorem tensor_product_spec : forall f1 f2 x1 x2 c,
  Forall2 in_dom (kvs f1) (rev x1) -> Forall2 in_dom (kvs f2) (rev x2) ->
  call_val (b_tensor_product f1 f2) (x2 ++ x1) c
  = if (c <? nc f2)%nat then call_val f2 x2 c else call_val f1 x1 (c - nc f2).
Proof. exact tensor_product_dom_l. Qed.

(* ---- boundaries ---------------------------------------------------------------------- *)

(* left/right fix the last knot-vector axis (x), bottom/top the one before (y), front/back z;
   names that do not exist in the dimension are rejected *)
Theorem bdspec_names : forall dim : nat,
  ((1 <= dim)%nat -> parse_bdname Left dim = Some ((dim - 1)%nat, 0%nat)
                     /\ parse_bdname Right dim = Some ((dim - 1)%nat, 1%nat))
  /\ ((2 <= dim)%nat -> parse_bdname Bottom dim = Some ((dim - 2)%nat, 0%nat)
                        /\ parse_bdname Top dim = Some ((dim - 2)%nat, 1%nat))
  /\ ((3 <= dim)%nat -> parse_bdname Front dim = Some ((dim - 3)%nat, 0%nat)
                        /\ parse_bdname Back dim = Some ((dim - 3)%nat, 1%nat))
  /\ ((dim < 2)%nat -> parse_bdname Bottom dim = None /\ parse_bdname Top dim = None)
  /\ ((dim < 3)%nat -> parse_bdname Front dim = None /\ parse_bdname Back dim = None).
Proof. exact bdspec_names_l. Qed.

(* The B-spline basis of an open knot vector is interpolatory at both ends: at the first knot only
   N_0 is non-zero (= 1), at the last knot only N_{n-1}. *)
Theorem basis_interpolatory_at_ends : forall kv p j, kv_ok kv p -> (j < numdofs kv p)%nat ->
  (kn kv p < kn kv (S p) -> Nref kv p j (kn kv 0) = if Nat.eqb j 0 then 1 else 0)
  /\ Nref kv p j (lastk kv) = if Nat.eqb j (numdofs kv p - 1) then 1 else 0.
Proof. exact (fun kv p j H Hj => conj (fun Hlt => N_at_left_end kv p j H Hlt Hj) (N_at_right_end kv p j H Hj)). Qed.

(* boundary(): the function built from the sliced coefficients is the trace of f on the side
   (coordinate of the sliced axis = end of its knot vector), for any position of the axis among any
   number of axes, for B-spline and NURBS functions; no hypothesis beyond open knot vectors. *)
Theorem boundary_is_trace : forall k1 kv k2 co0 m u1 u2 side c,
  length u1 = length k1 -> length u2 = length k2 -> open_ends kv ->
  let f := mk_bsp (k1 ++ kv :: k2) co0 m in
  g_val (boundary f (length k1) side) (u1 ++ u2) c = g_val f (u1 ++ end_coord kv side :: u2) c.
Proof. exact boundary_trace_l. Qed.

Theorem nurbs_boundary_is_trace : forall k1 kv k2 co0 m u1 u2 side c,
  length u1 = length k1 -> length u2 = length k2 -> open_ends kv ->
  let f := mk_bsp (k1 ++ kv :: k2) co0 m in
  n_val (boundary f (length k1) side) (u1 ++ u2) c = n_val f (u1 ++ end_coord kv side :: u2) c.
Proof. exact nurbs_boundary_trace_l. Qed.

(* the generic _BoundaryFunction route and the coefficient route agree on an unrestricted function *)
Theorem boundary_routes_coincide : forall k1 kv k2 co0 m u1 u2 side c,
  length u1 = length k1 -> length u2 = length k2 -> open_ends kv ->
  let f := mk_bsp (k1 ++ kv :: k2) co0 m in
  bf_grid (fun u => g_val f u c) (length k1) (bf_fixed f (length k1) side) (u1 ++ u2)
  = g_val (boundary f (length k1) side) (u1 ++ u2) c.
Proof. exact boundary_routes_coincide_l. Qed.

(* support restriction: evaluation does not look at the support; `support` returns the override;
   boundary(bdspec) becomes the generic _BoundaryFunction at the end of the RESTRICTED support, and in
   both cases it is f restricted to the coordinate support[axis][side] *)
Theorem support_restriction_spec : forall ov k1 kv k2 co0 m u1 u2 side c,
  length u1 = length k1 -> length u2 = length k2 -> (ov = None -> open_ends kv) ->
  let f := mk_bsp (k1 ++ kv :: k2) co0 m in
  support_of ov f = match ov with Some s => s | None => map kv_support (k1 ++ kv :: k2) end
  /\ r_boundary_val ov f (length k1) side (u1 ++ u2) c
     = g_val f (u1 ++ r_fixed ov f (length k1) side :: u2) c.
Proof. exact restricted_boundary_is_trace_l. Qed.

(* ... and its support is the support of f with the entry of the boundary's own axis removed: a
   restriction along the remaining axes is kept, whichever route boundary() takes *)
Theorem boundary_support_spec : forall ov f axis side,
  r_boundary_support ov f axis side = remove_at axis (support_of ov f).
Proof. exact boundary_support_spec_l. Qed.

(* _BoundaryFunction of ANY function of an xyz coordinate list (any coordinate and value types:
   splines, NURBS, callables, compositions): both routes evaluate val at the point whose coordinate number
   len(x)-axis is the fixed one and whose remaining coordinates are x in order *)
Theorem boundary_function_is_trace : forall (A B : Type) (val : list A -> B) axis (fixed d : A) xs,
  (axis <= length xs)%nat ->
  let k := (length xs - axis)%nat in
  let full := insert_at k fixed xs in
  bf_call val axis fixed xs = val full
  /\ bf_grid (fun u => val (rev u)) axis fixed (rev xs) = val full
  /\ nth k full d = fixed /\ remove_at k full = xs /\ length full = S (length xs).
Proof. exact boundary_function_is_trace_l. Qed.

(* _BoundaryFunction: __call__ (fixed coordinate inserted at len(x)-axis of the xyz list) and
   grid_eval (axis inserted at position axis of the zyx list) evaluate f at the same point *)
Theorem boundary_function_routes : forall (val : list Qc -> Qc) axis fixed xs, (axis <= length xs)%nat ->
  bf_call (fun x => val (rev x)) axis fixed xs = bf_grid val axis fixed (rev xs).
Proof. exact boundary_function_routes_l. Qed.

(* _BoundaryFunction.grid_jacobian (keep_normal=False) removes exactly the derivative along kvs[axis] *)
Theorem boundary_function_drops_normal : forall f us c axis, (axis < sdim f)%nat ->
  length (g_jac f us c) = sdim f
  /\ nth (length (g_jac f us c) - axis - 1) (g_jac f us c) 0 = g_dir f 1 us (unitv (sdim f) axis) c.
Proof. exact boundary_function_drops_normal_l. Qed.

(* copy(): same knot vectors, coefficients (no second premultiplication for NURBS), values, derivatives *)
Theorem copy_spec : forall f us c,
  kvs (b_copy f) = kvs f /\ nc (b_copy f) = nc f /\ (forall idx, co (b_copy f) idx c = co f idx c)
  /\ g_val (b_copy f) us c = g_val f us c /\ n_val (b_copy f) us c = n_val f us c
  /\ g_jac (b_copy f) us c = g_jac f us c /\ g_hess (b_copy f) us c = g_hess f us c.
Proof. exact copy_spec_l. Qed.

(* cylinderize(z0, z1, support=(s0, s1)): the components of f followed by the affine map of the new
   (z-most, last in xyz) coordinate t *)
Theorem cylinderize_spec : forall f z0 z1 s0 s1 xs t c,
  s0 < s1 -> s0 <= t -> t <= s1 -> Forall2 in_dom (kvs f) (rev xs) ->
  call_val (b_cylinderize f z0 z1 s0 s1) (xs ++ [t]) c
  = if (c <? nc f)%nat then call_val f xs c
    else if Nat.eqb c (nc f) then z0 + (z1 - z0) * ((t - s0) / (s1 - s0))
    else call_val (b_line z0 z1 s0 s1) [t] (c - nc f).
Proof. exact cylinderize_spec_l. Qed.

(* ... with the documented defaults (support=(0,1), z0=0, z1=1): z = z0 + t (z1 - z0) for t in [0,1] -- the new
   axis is NOT parametrised over (z0, z1) -- and z = t without any argument *)
Theorem cylinderize_defaults_spec : forall f z0 z1 xs t,
  0 <= t -> t <= 1 -> Forall2 in_dom (kvs f) (rev xs) ->
  call_val (b_cylinderize_default_support f z0 z1) (xs ++ [t]) (nc f) = z0 + t * (z1 - z0)
  /\ call_val (b_cylinderize_defaults f) (xs ++ [t]) (nc f) = t
  /\ forall c, (c < nc f)%nat ->
       call_val (b_cylinderize_default_support f z0 z1) (xs ++ [t]) c = call_val f xs c
       /\ call_val (b_cylinderize_defaults f) (xs ++ [t]) c = call_val f xs c.
Proof. exact cylinderize_defaults_l. Qed.

(* ComposedFunction(geo2, geo1): grid_eval is geo2 at the point geo1(x) (component i of geo1 = xyz
   coordinate i of geo2); row c of grid_jacobian is sum_a J2[c][a] J1[a][j] with J2 the Jacobian of geo2
   at geo1(x) and J1 that of geo1 at x -- i.e. matmul(J2, J1), also for a scalar geo2 (c = 0) *)
Theorem composed_routes : forall f2 f1 us c,
  Forall2 in_dom (kvs f2) (rev (comp_point f1 us)) ->
  comp_val f2 f1 us c = Some (call_val f2 (comp_point f1 us) c)
  /\ comp_jac f2 f1 us c
     = Some (map (fun j => rdot 0 (g_jac f2 (rev (comp_point f1 us)) c) (fun a => nth j (g_jac f1 us a) 0))
                 (seq 0 (sdim f1))).
Proof. exact composed_routes_l. Qed.

(* Every slot k of NurbsFunc.grid_hessian is the second derivative of N = V/W in the xyz directions
   (a, b) = triu_indices(sdim)[k] (for sdim = 3: xx, xy, xz, yy, yz, zz): it solves the Leibniz
   equations in which every B-spline quantity is the derivative along the knot vectors of exactly these
   directions.  (With tril_indices the slots (a, b) of the second part would not match slot k of the
   B-spline Hessians for sdim = 3.) *)
Theorem nurbs_hessian_is_derivative : forall f us c k a b,
  (k < length (triu (sdim f)))%nat -> nth k (triu (sdim f)) (0, 0)%nat = (a, b) ->
  g_val f us (wcomp f) <> 0 ->
  let d := sdim f in let w := wcomp f in
  let D1 x := unitv d (d - 1 - x) in
  let D2 := bump (bump (zerov d) (d - 1 - a)) (d - 1 - b) in
  let W := g_val f us w in let N := n_val f us c in
  let Na := nth a (n_jac f us c) 0 in let Nb := nth b (n_jac f us c) 0 in
  let Nab := nth k (n_hess f us c) 0 in
  (a <= b)%nat /\ (b < d)%nat
  /\ Na * W + N * g_dir f 1 us (D1 a) w = g_dir f 1 us (D1 a) c
  /\ Nb * W + N * g_dir f 1 us (D1 b) w = g_dir f 1 us (D1 b) c
  /\ Nab * W + Na * g_dir f 1 us (D1 b) w + Nb * g_dir f 1 us (D1 a) w + N * g_dir f 2 us D2 w
     = g_dir f 2 us D2 c.
Proof. exact nurbs_hessian_is_derivative_l. Qed.

(* ---- circular arcs, over any field ------------------------------------------------------ *)

Section ArcProps.
Variable F : Type.
Variables (f0 f1 : F) (fadd fmul fsub : F -> F -> F) (fopp : F -> F) (fdiv : F -> F -> F) (finv : F -> F).
Hypothesis Fth : field_theory f0 f1 fadd fmul fsub fopp fdiv finv (@eq F).
Local Notation "x + y" := (fadd x y).
Local Notation "x * y" := (fmul x y).
Local Notation "x - y" := (fsub x y).
Local Notation X := (seg_x F f1 fadd fmul fsub).
Local Notation Y := (seg_y F f1 fadd fmul fsub).
Local Notation Wt := (seg_w F f1 fadd fmul fsub).
Local Notation tw := (two F f1 fadd).

(* circular_arc_3pt: numerator (X, Y) and weight Wt satisfy X^2 + Y^2 = (r Wt)^2 for every
   parameter value: the curve (X/Wt, Y/Wt) lies on the circle of radius r *)
Theorem arc3_on_circle : forall c s r t, c * c + s * s = f1 ->
  X f1 f0 c s r t * X f1 f0 c s r t + Y f1 f0 c s r t * Y f1 f0 c s r t = (r * Wt c t) * (r * Wt c t).
Proof. exact (arc3_norm F f0 f1 fadd fmul fsub fopp fdiv finv Fth). Qed.

(* every Bezier segment of circular_arc_5pt / _7pt (start direction (C0,S0), half-angle (c,s)) *)
Theorem arc_segment_on_circle : forall C0 S0 c s r t, C0 * C0 + S0 * S0 = f1 -> c * c + s * s = f1 ->
  X C0 S0 c s r t * X C0 S0 c s r t + Y C0 S0 c s r t * Y C0 S0 c s r t = (r * Wt c t) * (r * Wt c t).
Proof. exact (segment_norm F f0 f1 fadd fmul fsub fopp fdiv finv Fth). Qed.

(* a segment starts at r (C0, S0) and ends at r (C0, S0) turned by twice the half-angle, which is
   again a unit direction: the arc starts at angle 0 on the x axis and, after n segments, ends at
   the angle 2 n beta = alpha *)
Theorem arc_segment_endpoints : forall C0 S0 c s r,
  (X C0 S0 c s r f0 = r * C0 /\ Y C0 S0 c s r f0 = r * S0 /\ Wt c f0 = f1)
  /\ (X C0 S0 c s r f1 = r * (C0 * (c * c - s * s) - S0 * (tw * s * c))
      /\ Y C0 S0 c s r f1 = r * (S0 * (c * c - s * s) + C0 * (tw * s * c)) /\ Wt c f1 = f1).
Proof.
  exact (fun C0 S0 c s r => conj (segment_start F f0 f1 fadd fmul fsub fopp fdiv finv Fth C0 S0 c s r)
                                 (segment_end F f0 f1 fadd fmul fsub fopp fdiv finv Fth C0 S0 c s r)).
Qed.

Theorem arc_segments_chain : forall C0 S0 c s, C0 * C0 + S0 * S0 = f1 -> c * c + s * s = f1 ->
  let C1 := C0 * (c * c - s * s) - S0 * (tw * s * c) in
  let S1 := S0 * (c * c - s * s) + C0 * (tw * s * c) in
  C1 * C1 + S1 * S1 = f1.
Proof. exact (segment_end_unit F f0 f1 fadd fmul fsub fopp fdiv finv Fth). Qed.

(* quarter_annulus: |G(x,y)| = (1-x) r1 + x r2; x = 0 / 1 are the circles of radius r1 / r2,
   y = 0 lies on the x axis and y = 1 on the y axis *)
Theorem quarter_annulus_radii : forall q r1 r2 x y, tw * (q * q) = f1 ->
  qa_x F f1 fadd fmul fsub q r1 r2 x y * qa_x F f1 fadd fmul fsub q r1 r2 x y
  + qa_y F f1 fadd fmul fsub q r1 r2 x y * qa_y F f1 fadd fmul fsub q r1 r2 x y
  = (((f1 - x) * r1 + x * r2) * qa_w F f1 fadd fmul fsub q y) * (((f1 - x) * r1 + x * r2) * qa_w F f1 fadd fmul fsub q y).
Proof. exact (quarter_annulus_norm F f0 f1 fadd fmul fsub fopp fdiv finv Fth). Qed.

Theorem quarter_annulus_axes : forall q r1 r2 x,
  qa_y F f1 fadd fmul fsub q r1 r2 x f0 = f0 /\ qa_x F f1 fadd fmul fsub q r1 r2 x f1 = f0.
Proof.
  exact (fun q r1 r2 x => proj2 (proj2 (quarter_annulus_sides F f0 f1 fadd fmul fsub fopp fdiv finv Fth q r1 r2 f0)) x).
Qed.

(* geometry.disk(r): its four sides -- gR = circular_arc(pi/2), gL = flipped gR scaled by -1,
   gB / gT = gR / gL rotated by -pi/2, all times r -- lie on the circle of radius r: for every parameter
   value  x^2 + y^2 = (r w)^2  for numerator (x, y) and weight w of the control nets the code builds.
   (c, s) = (cos, sin)(pi/4), (cr, sr) = (cos, sin)(-pi/2); only the unit constraints are needed. *)
Theorem disk_boundary_on_circle : forall c s cr sr r, c * c + s * s = f1 -> cr * cr + sr * sr = f1 ->
  on_circle F f1 fadd fmul fsub r (disk_R F f0 f1 fadd fmul fsub c s r)
  /\ on_circle F f1 fadd fmul fsub r (disk_L F f0 f1 fadd fmul fsub fopp c s r)
  /\ on_circle F f1 fadd fmul fsub r (disk_B F f0 f1 fadd fmul fsub c s cr sr r)
  /\ on_circle F f1 fadd fmul fsub r (disk_T F f0 f1 fadd fmul fsub fopp c s cr sr r).
Proof. exact (disk_sides_on_circle F f0 f1 fadd fmul fsub fopp fdiv finv Fth). Qed.
End ArcProps.

(* ---- chain rule, over any commutative ring ------------------------------------------------- *)
Section ChainProps.
Variable F : Type.
Variables (f0 f1 : F) (fadd fmul fsub : F -> F -> F) (fopp : F -> F).
Hypothesis Rth : ring_theory f0 f1 fadd fmul fsub fopp (@eq F).

(* ComposedFunction.grid_jacobian = matmul(jac2, jac1): if geo1(x + e h) = y + e J1 h and
   geo2(y + e k) = z + e J2 k to first order, the composition has first-order part J2 (J1 h), and that
   is the action of matmul(J2, J1) on h -- for every shape (s = sdim geo1, m = dim geo1 = sdim geo2) *)
Theorem composed_chain_rule : forall s m (J2 J1 : nat -> nat -> F) (h : nat -> F) i,
  mv F f0 fadd fmul s (matmul F f0 fadd fmul m J2 J1) h i = mv F f0 fadd fmul m J2 (mv F f0 fadd fmul s J1 h) i.
Proof. exact (chain_rule_l F f0 f1 fadd fmul fsub fopp Rth). Qed.

(* scalar geo2 (its Jacobian is the gradient g): matmul(g[None, :], jac1)[0, :] *)
Theorem composed_chain_rule_scalar : forall s m (g : nat -> F) (J1 : nat -> nat -> F) (h : nat -> F),
  dot F f0 fadd fmul s (vecmat F f0 fadd fmul m g J1) h = dot F f0 fadd fmul m g (mv F f0 fadd fmul s J1 h).
Proof. exact (chain_rule_scalar_l F f0 f1 fadd fmul fsub fopp Rth). Qed.
End ChainProps.

Print Assumptions routes_agree_val.
Print Assumptions routes_agree_jac.
Print Assumptions nurbs_routes_agree_val.
Print Assumptions nurbs_routes_agree_jac.
Print Assumptions routes_agree_asis_sdim1_refuted.
Print Assumptions routes_agree_asis_sdim3_refuted.
Print Assumptions routes_agree_asis_sdim2.
Print Assumptions jacobian_slot_order.
Print Assumptions value_is_reference.
Print Assumptions jacobian_is_derivative.
Print Assumptions hessian_is_derivative.
Print Assumptions rows_partition_of_unity.
Print Assumptions hessian_order.
Print Assumptions nurbs_is_quotient.
Print Assumptions nurbs_jacobian_quotient_rule.
Print Assumptions nurbs_hessian_quotient_rule.
Print Assumptions translate_spec.
Print Assumptions scale_spec.
Print Assumptions apply_matrix_spec.
Print Assumptions getitem_spec.
Print Assumptions nurbs_getitem_spec.
Print Assumptions py_index_semantics.
Print Assumptions full_slice_is_identity.
Print Assumptions reverse_slice_is_reversal.
Print Assumptions as_nurbs_spec.
Print Assumptions nurbs_translate_spec.
Print Assumptions nurbs_scale_spec.
Print Assumptions outer_sum_spec.
Print Assumptions outer_product_spec.
Print Assumptions tensor_product_spec.
Print Assumptions bdspec_names.
Print Assumptions basis_interpolatory_at_ends.
Print Assumptions boundary_is_trace.
Print Assumptions nurbs_boundary_is_trace.
Print Assumptions boundary_routes_coincide.
Print Assumptions support_restriction_spec.
Print Assumptions boundary_support_spec.
Print Assumptions boundary_function_is_trace.
Print Assumptions copy_spec.
Print Assumptions cylinderize_spec.
Print Assumptions cylinderize_defaults_spec.
Print Assumptions composed_routes.
Print Assumptions nurbs_hessian_is_derivative.
Print Assumptions disk_boundary_on_circle.
Print Assumptions composed_chain_rule.
Print Assumptions composed_chain_rule_scalar.
Print Assumptions boundary_function_routes.
Print Assumptions boundary_function_drops_normal.
Print Assumptions arc3_on_circle.
Print Assumptions arc_segment_on_circle.
Print Assumptions arc_segment_endpoints.
Print Assumptions arc_segments_chain.
Print Assumptions quarter_annulus_radii.
Print Assumptions quarter_annulus_axes.

(* ==== the NURBS branches of the operations (coq/C07/NurbsOps.v) ==================================== *)
(* hypotheses: non-zero weights (co f idx (wcomp f)) and a non-zero weight function at the point; no
   partition of unity is needed, the weight functions cancel *)

(* NurbsFunc.apply_matrix: A applied to the values; the weights are unchanged *)
Theorem nurbs_apply_matrix_spec : forall f A rows us c,
  (c < rows)%nat -> (forall idx, co f idx (wcomp f) <> 0) -> g_val f us (wcomp f) <> 0 ->
  n_val (n_matrix f A rows) us c = rdot 0 (map (A c) (seq 0 (wcomp f))) (fun k => n_val f us k).
Proof. exact n_matrix_spec_l. Qed.

(* rotate_2d(angle) with (c, s) = (cos, sin)(angle): (x, y) -> (c x - s y, s x + c y), B-spline and NURBS;
   with c^2 + s^2 = 1 it preserves the distance from the origin *)
Theorem rotate_spec : forall f c s us, nc f = 2%nat ->
  g_val (b_rotate f c s) us 0 = c * g_val f us 0 - s * g_val f us 1
  /\ g_val (b_rotate f c s) us 1 = s * g_val f us 0 + c * g_val f us 1.
Proof. exact rotate_spec_l. Qed.

Theorem nurbs_rotate_spec : forall f c s us, wcomp f = 2%nat ->
  (forall idx, co f idx (wcomp f) <> 0) -> g_val f us (wcomp f) <> 0 ->
  n_val (n_rotate f c s) us 0 = c * n_val f us 0 - s * n_val f us 1
  /\ n_val (n_rotate f c s) us 1 = s * n_val f us 0 + c * n_val f us 1.
Proof. exact n_rotate_spec_l. Qed.

Theorem rotate_isometry : forall f c s us, nc f = 2%nat -> c * c + s * s = 1 ->
  g_val (b_rotate f c s) us 0 * g_val (b_rotate f c s) us 0 + g_val (b_rotate f c s) us 1 * g_val (b_rotate f c s) us 1
  = g_val f us 0 * g_val f us 0 + g_val f us 1 * g_val f us 1.
Proof. exact rotate_isometry_l. Qed.

(* outer_sum / outer_product / tensor_product of two NurbsFuncs (coefficients C1 + C2 resp. C1 C2, weights W1 W2):
   G(x, y) = G1(y) + G2(x), G1(y) G2(x), G2(x) x G1(y); u1 / u2 are the coordinates of G1 / G2 in knot-vector order *)
Theorem nurbs_outer_sum_spec : forall f1 f2 u1 u2, length u1 = sdim f1 ->
  (forall idx, co f1 idx (wcomp f1) <> 0) -> (forall idx, co f2 idx (wcomp f2) <> 0) ->
  g_val f1 u1 (wcomp f1) <> 0 -> g_val f2 u2 (wcomp f2) <> 0 ->
  forall c, (c < wcomp f1)%nat ->
  n_val (n_outer_sum f1 f2) (u1 ++ u2) c = n_val f1 u1 c + n_val f2 u2 c.
Proof. exact n_outer_sum_spec_l. Qed.

Theorem nurbs_outer_product_spec : forall f1 f2 u1 u2, length u1 = sdim f1 ->
  (forall idx, co f1 idx (wcomp f1) <> 0) -> (forall idx, co f2 idx (wcomp f2) <> 0) ->
  g_val f1 u1 (wcomp f1) <> 0 -> g_val f2 u2 (wcomp f2) <> 0 ->
  forall c, (c < wcomp f1)%nat ->
  n_val (n_outer_product f1 f2) (u1 ++ u2) c = n_val f1 u1 c * n_val f2 u2 c.
Proof. exact n_outer_product_spec_l. Qed.

Theorem nurbs_tensor_product_spec : forall f1 f2 u1 u2, length u1 = sdim f1 ->
  (forall idx, co f1 idx (wcomp f1) <> 0) -> (forall idx, co f2 idx (wcomp f2) <> 0) ->
  g_val f1 u1 (wcomp f1) <> 0 -> g_val f2 u2 (wcomp f2) <> 0 ->
  forall c, (c < wcomp f2 + wcomp f1)%nat ->
  n_val (n_tensor_product f1 f2) (u1 ++ u2) c
  = if (c <? wcomp f2)%nat then n_val f2 u2 c else n_val f1 u1 (c - wcomp f2).
Proof. exact n_tensor_product_spec_l. Qed.

(* mixed operands: the BSplineFunc G1 is converted by as_nurbs() (weights 1) and the NURBS branch is taken *)
Theorem mixed_outer_spec : forall f1 f2 u1 u2 c,
  length u1 = sdim f1 -> length u2 = sdim f2 -> (c < nc f1)%nat -> pou_at (kvs f1) u1 ->
  (forall idx, co f2 idx (wcomp f2) <> 0) -> g_val f2 u2 (wcomp f2) <> 0 ->
  n_val (n_outer_sum (b_as_nurbs f1) f2) (u1 ++ u2) c = g_val f1 u1 c + n_val f2 u2 c
  /\ n_val (n_outer_product (b_as_nurbs f1) f2) (u1 ++ u2) c = g_val f1 u1 c * n_val f2 u2 c.
Proof. exact mixed_outer_spec_l. Qed.

(* UserFunction: __call__, pointwise_eval and grid_eval (utils.grid_eval: reversed mesh) of ANY callable agree,
   and so do the routes of its boundary restriction *)
Theorem user_routes_agree : forall (A B : Type) (fn : list A -> B) xs axis fixed,
  u_pw fn xs = u_call fn xs /\ u_grid fn (rev xs) = u_call fn xs
  /\ ((axis <= length xs)%nat ->
      bf_call (u_call fn) axis fixed xs = bf_grid (u_grid fn) axis fixed (rev xs)).
Proof. exact user_routes_agree_l. Qed.

(* ==== the arc constructors as functions of the model (coq/C07/ArcModel.v) ============================= *)
(* The quadratic B-splines of make_knots(2, 0, 1, n, mult=2) are the Bernstein polynomials of each span (bez_N2,
   arc5_N2, arc7_N2: proved from the Cox-de Boor recursion for every t in [0, 1]); hence the values g_val that all
   evaluation routes of the model compute for circular_arc_3pt / _5pt (semicircle) / _7pt (circle) -- numerator
   (X, Y), weight W -- satisfy X^2 + Y^2 = (r W)^2 for EVERY parameter value t in [0,1], every radius r and every
   (c, s) with c^2 + s^2 = 1 ((cos, sin) of alpha/2, alpha/4, alpha/6): the curve lies on the circle of radius r. *)
Theorem arc3_model_on_circle : forall c s r t, c * c + s * s = 1 -> 0 <= t -> t <= 1 ->
  let X := g_val (arc3_fn c s r) [t] 0 in let Y := g_val (arc3_fn c s r) [t] 1 in
  let W := g_val (arc3_fn c s r) [t] 2 in
  X * X + Y * Y = (r * W) * (r * W)
  /\ (W <> 0 -> n_val (arc3_fn c s r) [t] 0 * n_val (arc3_fn c s r) [t] 0
               + n_val (arc3_fn c s r) [t] 1 * n_val (arc3_fn c s r) [t] 1 = r * r).
Proof. exact arc3_model_on_circle_l. Qed.

Theorem arc5_model_on_circle : forall c s r t, c * c + s * s = 1 -> 0 <= t -> t <= 1 ->
  let X := g_val (arc5_fn c s r) [t] 0 in let Y := g_val (arc5_fn c s r) [t] 1 in
  let W := g_val (arc5_fn c s r) [t] 2 in
  X * X + Y * Y = (r * W) * (r * W).
Proof. exact arc5_model_on_circle_l. Qed.

(* the 5-point arc starts at (r, 0) and ends at r d_4 = r (cos alpha, sin alpha), both with weight 1 *)
Theorem arc5_model_endpoints : forall c s r,
  g_val (arc5_fn c s r) [0] 0 = r /\ g_val (arc5_fn c s r) [0] 1 = 0 /\ g_val (arc5_fn c s r) [0] 2 = 1
  /\ g_val (arc5_fn c s r) [1] 0 = co (arc5_fn c s r) [4%nat] 0
  /\ g_val (arc5_fn c s r) [1] 1 = co (arc5_fn c s r) [4%nat] 1 /\ g_val (arc5_fn c s r) [1] 2 = 1.
Proof. exact arc5_model_endpoints_l. Qed.

Theorem arc7_model_on_circle : forall c s r t, c * c + s * s = 1 -> 0 <= t -> t <= 1 ->
  let X := g_val (arc7_fn c s r) [t] 0 in let Y := g_val (arc7_fn c s r) [t] 1 in
  let W := g_val (arc7_fn c s r) [t] 2 in
  X * X + Y * Y = (r * W) * (r * W).
Proof. exact arc7_model_on_circle_l. Qed.

(* NOT PROVED -- clause by clause account of the property text (everything not listed has a theorem above):
   * routes agree / Jacobians / Hessians: proved for B-spline, NURBS, ComposedFunction with B-spline operands
     (composed_routes), any callable (user_routes_agree) and any boundary restriction (the boundary_function theorems).
     Without theorem: ComposedFunction with NURBS operands (same algebra, not stated); the Hessian of a
     ComposedFunction (pyiga has none); apply_tprod / np.einsum are modelled by their contract (tp_eval), their loops
     are C16/C09's subject.
   * "Jacobians and Hessians equal the derivatives": proved relative to the Cox-de Boor derivative recursion dNref
     (jacobian_is_derivative, hessian_is_derivative, nurbs_jacobian_quotient_rule, nurbs_hessian_quotient_rule, nurbs_hessian_is_derivative); that dNref
     is the analytic derivative of Nref as a real function is not stated in Coq (no calculus over Qc).
   * operations: translate, scale, rotate, matrix, outer sum/product, tensor product, extrusion, getitem, as_nurbs,
     boundary, support restriction, copy all have theorems for BSplineFunc and NurbsFunc operands, except:
     NurbsFunc.__getitem__/boundary/copy are stated on the premultiplied model (nurbs_getitem_spec,
     nurbs_boundary_is_trace, copy_spec) -- complete; tensor_product with more than two operands (a fold of the binary
     one), perturb (random) and find_inverse (scipy optimiser) have no theorem.
   * circular arcs / circles / disks / annuli: 3-, 5-, 7-point arcs proved on the model for every t (above), for
     rational (c, s); for arbitrary fields in Bezier form (arc_segment_on_circle). Without theorem on the model:
     the end point / angle of the 7-point arc (only arc_segment_endpoints + arc_segments_chain), the dispatch of
     circular_arc(alpha) on alpha < pi (real-number comparison), quarter_annulus and disk as model functions (their
     weight 1/sqrt 2 resp. cos(pi/4) is not rational: proved over an arbitrary field only, quarter_annulus_radii,
     disk_boundary_on_circle), the interior of the disk, np.cos / np.sin rounding (bounded by the tie).
   * "no operation alters the object": aliasing is not expressible in the functional model; monitored on the
     implementation by snapshots around every call (oracle only). *)

Print Assumptions nurbs_apply_matrix_spec.
Print Assumptions rotate_spec.
Print Assumptions nurbs_rotate_spec.
Print Assumptions rotate_isometry.
Print Assumptions nurbs_outer_sum_spec.
Print Assumptions nurbs_outer_product_spec.
Print Assumptions nurbs_tensor_product_spec.
Print Assumptions mixed_outer_spec.
Print Assumptions user_routes_agree.
Print Assumptions arc3_model_on_circle.
Print Assumptions arc5_model_on_circle.
Print Assumptions arc5_model_endpoints.
Print Assumptions arc7_model_on_circle.
