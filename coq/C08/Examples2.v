(* C08 -- non-vacuity of the theorems of Bsr.v, MlbLink.v, Memo.v *)
From Coq Require Import ZArith List Bool Arith Lia.
From Verif.C15 Require Model.
From Verif.C08 Require Import Model Proofs Bsr MlbLink Memo.
Import ListNotations.

(* seeded change C08-4: degree 2, breakpoints 0,1,2,3,4 (scaled by 4), 7 dofs; the double knot at
   breakpoint 1 resp. at breakpoint 3: equal key (p, numdofs, mesh), different sparsity patterns *)
Definition ex_kvA : kvec := (2%nat, [0;0;0;1;1;2;3;4;4;4]%Z).
Definition ex_kvB : kvec := (2%nat, [0;0;0;1;2;3;3;4;4;4]%Z).

Example ex_c084_same_key : c084_key ex_kvA = c084_key ex_kvB.
Proof. vm_compute. reflexivity. Qed.

Example ex_c084_patterns_differ : kv_pattern ex_kvA <> kv_pattern ex_kvB.
Proof. vm_compute. discriminate. Qed.

Example ex_c084_key_does_not_determine : ~ key_determines _ _ _ c084_key kv_pattern.
Proof. intro H. apply ex_c084_patterns_differ. apply H. exact ex_c084_same_key. Qed.

(* the history "first A, then B" in one process returns A's pattern for B *)
Example ex_c084_history :
  run_calls c084_key_eqb c084_key kv_pattern [] [ex_kvA; ex_kvB] = [kv_pattern ex_kvA; kv_pattern ex_kvA]
  /\ run_calls c084_key_eqb c084_key kv_pattern [] [ex_kvA; ex_kvB] <> map kv_pattern [ex_kvA; ex_kvB].
Proof. vm_compute. split; [reflexivity | discriminate]. Qed.

(* a sufficient key (the knots themselves) satisfies the hypothesis *)
Example ex_full_key_determines : key_determines kvec kvec _ (fun kv => kv) kv_pattern.
Proof. intros x y H. rewrite H. reflexivity. Qed.

(* BSR: two 2x3 blocks, one of them stored twice at the same block coordinate *)
Definition ex_BT : list ((Z * Z) * list Z) :=
  [((1, 0), [1; 2; 3; 4; 5; 6]); ((0, 2), [7; 8; 9; 10; 11; 12]); ((1, 0), [10; 20; 30; 40; 50; 60])]%Z.
Example ex_bsr : den 0%Z Z.add (expand_blocks 0%Z 2 3 ex_BT) (1 * 2 + 1, 0 * 3 + 2)%Z = 66%Z
  /\ bden Z 0%Z Z.add 0%Z 3 ex_BT (1, 0)%Z 1 2 = 66%Z.
Proof. vm_compute. auto. Qed.

Example ex_gather :
  gather Z 0%Z Z.add 2 2 [((0, 1), 5); ((3, 2), 7); ((1, 1), 2)]%Z [(0, 0); (1, 1)]%Z
  = [((0, 0), [0; 5; 0; 2]); ((1, 1), [0; 0; 7; 0])]%Z.
Proof. vm_compute. reflexivity. Qed.

(* MLB: two levels (2x2 dense, 2x3 with three entries) and a 2x3 component level *)
Definition ex_bs : list (Z * Z) := [(2, 2); (2, 3)]%Z.
Definition ex_lv : list (list (Z * Z)) := [[(0,0);(0,1);(1,0);(1,1)]; [(0,0);(1,1);(1,2)]]%Z.
Example ex_mlb :
  C15.Model.nonzero (ex_bs ++ [(2, 3)%Z]) (ex_lv ++ [C15.Model.compute_dense_ij 2 3]) false
    = Some (packed_keys ex_bs (2, 3)%Z ex_lv)
  /\ length (packed_keys ex_bs (2, 3)%Z ex_lv) = 72
  /\ nth 71 (packed_keys ex_bs (2, 3)%Z ex_lv) (0, 0)%Z = (7, 17)%Z.
Proof. vm_compute. auto. Qed.
