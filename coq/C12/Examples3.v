(* C12 -- non-vacuity for Props3.v: concrete runs of the extended controller with NaN / inf trial
   steps that reach the end time (tests, by vm_compute). *)
From Coq Require Import QArith Qabs List Bool.
From Verif.C12 Require Import Model Model3.
Import ListNotations.
Open Scope Q_scope.

(* tau0 = 64 is far too large: three NaN trial steps (x 0.2 each), then accepted steps *)
Definition evs1 : list xevent :=
  [XStepped XNaN XNaN; XStepped XNaN XNaN; XStepped XPInf (XFin 0); XStepped (XFin (1#2)) (XFin 2);
   XNewtonFail; XStepped (XFin 3) (XFin (1#2)); XStepped (XFin 0) XPInf; XStepped (XFin 1) (XFin 1)].

Example run1_times :
  option_map (map Qred) (xadaptive_times 0 64 1 evs1) = Some [0; 64#125; 96#125; 256#125].
Proof. vm_compute. reflexivity. Qed.

Example run1_accepts :
  xadaptive_accepts 1 (adaptive_init 0 64) evs1 = [false; false; false; true; false; false; true; true].
Proof. vm_compute. reflexivity. Qed.

Example run1_taus_factors :
  map Qred (xadaptive_taus 1 (adaptive_init 0 64) evs1) =
  map Qred [64; 64#5; 64#25; 64#125; 128#125; 64#125; 32#125; 160#125].
Proof. vm_compute. reflexivity. Qed.

(* hypotheses of the theorems are met: positive tau0, loop returns *)
Example run1_returns : exists st, xadaptive_loop 1 (adaptive_init 0 64) evs1 = Some st.
Proof. eexists. vm_compute. reflexivity. Qed.

(* the clamp on the four kinds of values *)
Example clamp_values :
  map xclip [XNaN; XPInf; XNInf; XFin 0; XFin (1#5); XFin 3; XFin 5; XFin 7] =
  [XFin (1#5); XFin 5; XFin (1#5); XFin (1#5); XFin (1#5); XFin 3; XFin 5; XFin 5].
Proof. vm_compute. reflexivity. Qed.

(* comparisons with NaN are False, so are min/max asymmetric *)
Example nan_comparisons :
  (xlt XNaN (XFin 1), xlt (XFin 1) XNaN, xle XNaN XNaN, xeq XNaN XNaN, pymax (XFin 1) XNaN, pymax XNaN (XFin 1))
  = (false, false, false, false, XFin 1, XNaN).
Proof. vm_compute. reflexivity. Qed.

(* newton: scalar problem over Q whose residual norm is NaN at the start point only *)
Definition nrm (v : Q) : xq := if Qeq_bool v 7 then XNaN else XFin (Qabs v).
Example newton_nan_start :
  xnewton Q (fun x => x - 1) (fun _ r => r) (fun a b => a - b) nrm (fun v => v) (1#10) 1 5 8 = Some (1, 0).
Proof. vm_compute. reflexivity. Qed.
Example newton_all_nan :
  xnewton Q (fun x => x) (fun _ r => r) (fun a b => a - b) (fun _ => XNaN) (fun v => v) (1#10) 1 5 8 = None.
Proof. vm_compute. reflexivity. Qed.
