(* C19 -- further lemmas (Greville points, uniform refinement). *)
From Coq Require Import QArith Qcanon ZArith List Arith Bool Lia Lqa Permutation.
From Verif.lib Require Import Bsp NpCore NpQ.
From Verif.C19 Require Import Model Proofs.
Import ListNotations.
Open Scope Qc_scope.

Lemma clip_bounds lo hi x : lo <= hi -> lo <= np_clip lo hi x /\ np_clip lo hi x <= hi.
Proof.
  intros H. unfold np_clip, qmin, qmax.
  destruct (qleb x lo) eqn:E1.
  - destruct (qleb lo hi) eqn:E2.
    + split; [apply Qcle_refl|exact H].
    + split; [exact H|apply Qcle_refl].
  - apply qleb_false_lt in E1. destruct (qleb x hi) eqn:E2.
    + apply NpQ.qleb_iff in E2. split; [apply Qclt_le_weak; exact E1|exact E2].
    + split; [exact H|apply Qcle_refl].
Qed.

(* every Greville point of a degree p >= 1 knot vector lies in the domain [kv[0], kv[-1]] *)
Lemma greville_in_domain_l kv p x : (1 <= p)%nat -> kn kv 0 <= kn kv (length kv - 1) ->
  In x (greville kv p) -> kn kv 0 <= x /\ x <= kn kv (length kv - 1).
Proof.
  intros Hp Hd Hx. unfold greville in Hx.
  destruct (Nat.eqb_spec p 0) as [E|E]; [lia|].
  apply in_map_iff in Hx. destruct Hx as [y [<- _]]. apply clip_bounds. exact Hd.
Qed.

(* uniform refinement is the sorted merge of the knots with the span midpoints *)
Lemma refine_uniform_sorted_union_l kv :
  Permutation (refine_uniform kv) (kv ++ midpoints (mesh kv)) /\ kv_valid (refine_uniform kv) = true.
Proof. unfold refine_uniform. apply refine_sorted_union_l. Qed.

(* ------------------------------------------------------------------ *)
(* Greville points: the running average lies between kv[i+1] and kv[i+p]; the clip is a no-op *)

Lemma nth_firstn_lt {A} (l : list A) m t d : (t < m)%nat -> nth t (firstn m l) d = nth t l d.
Proof.
  revert l t. induction m as [|m IH]; intros l t H; [lia|].
  destruct l as [|x l]; [destruct t; reflexivity|]. destruct t; [reflexivity|].
  cbn [firstn nth]. apply IH. lia.
Qed.

Lemma nth_skipn {A} (l : list A) i t d : nth t (skipn i l) d = nth (i + t) l d.
Proof.
  revert l. induction i as [|i IH]; intros l; [reflexivity|].
  destruct l as [|x l]; [destruct t; reflexivity|]. cbn [skipn plus nth]. apply IH.
Qed.

Lemma sl_range_length i j (l : list Qc) : length (sl_range i j l) = (length l - j - i)%nat.
Proof. unfold sl_range. rewrite firstn_length, skipn_length. lia. Qed.

Lemma nth_sl_range i j (l : list Qc) t d : (t < length l - j - i)%nat ->
  nth t (sl_range i j l) d = nth (i + t) l d.
Proof. intros H. unfold sl_range. rewrite nth_firstn_lt by exact H. apply nth_skipn. Qed.

Lemma convolve_length a w : length (np_convolve a w) = (length a + length w - 1)%nat.
Proof. unfold np_convolve. rewrite map_length, seq_length. reflexivity. Qed.

Lemma nth_convolve a w k : (k < length a + length w - 1)%nat -> nth k (np_convolve a w) 0 = conv_at a w k.
Proof. intros H. unfold np_convolve. rewrite nth_map_seq by exact H. reflexivity. Qed.

Lemma qsum_ge (f : nat -> Qc) l lo : (forall m, In m l -> lo <= f m) -> natq (length l) * lo <= qsum (map f l).
Proof.
  induction l as [|a t IH]; intros H.
  - cbn. rewrite natq_0. replace (0 * lo) with 0 by ring. apply Qcle_refl.
  - cbn [length map qsum fold_right]. fold (qsum (map f t)). rewrite natq_S.
    pose proof (H a (or_introl eq_refl)) as Ha.
    pose proof (IH (fun m Hm => H m (or_intror Hm))) as It.
    set (s := qsum (map f t)) in *. clearbody s. set (fa := f a) in *. clearbody fa.
    set (n := natq (length t)) in *. clearbody n. qcq. nra.
Qed.

Lemma qsum_le (f : nat -> Qc) l hi : (forall m, In m l -> f m <= hi) -> qsum (map f l) <= natq (length l) * hi.
Proof.
  induction l as [|a t IH]; intros H.
  - cbn. rewrite natq_0. replace (0 * hi) with 0 by ring. apply Qcle_refl.
  - cbn [length map qsum fold_right]. fold (qsum (map f t)). rewrite natq_S.
    pose proof (H a (or_introl eq_refl)) as Ha.
    pose proof (IH (fun m Hm => H m (or_intror Hm))) as It.
    set (s := qsum (map f t)) in *. clearbody s. set (fa := f a) in *. clearbody fa.
    set (n := natq (length t)) in *. clearbody n. qcq. nra.
Qed.

Definition avg_weights (p : nat) : list Qc := map (fun x => x / natq p) (repeat 1 p).

Lemma avg_weights_length p : length (avg_weights p) = p.
Proof. unfold avg_weights. rewrite map_length, repeat_length. reflexivity. Qed.

Lemma nth_avg_weights p m : (m < p)%nat -> nth m (avg_weights p) 0 = 1 / natq p.
Proof.
  intros H. unfold avg_weights.
  rewrite (nth_indep _ 0 ((fun x => x / natq p) 1)) by (rewrite map_length, repeat_length; exact H).
  rewrite (map_nth (fun x => x / natq p)). rewrite nth_repeat_lt by exact H. reflexivity.
Qed.

Lemma inv_p_pos p : (1 <= p)%nat -> 0 < 1 / natq p /\ natq p * (1 / natq p) = 1.
Proof.
  intros Hp. pose proof (natq_pos p ltac:(lia)) as Hq. pose proof (natq_neq0 p ltac:(lia)) as Hn.
  split; [|field; exact Hn].
  pose proof (step_pos 0 1 p ltac:(reflexivity) ltac:(lia)) as H.
  replace ((1 - 0) / natq p) with (1 / natq p) in H by (field; exact Hn). exact H.
Qed.

Lemma running_average_bounds kv p i : (1 <= p)%nat -> sorted_idx kv -> (i + p + 1 < length kv)%nat ->
  let g := nth i (sl_range p p (np_convolve kv (avg_weights p))) 0 in
  kn kv (i + 1) <= g /\ g <= kn kv (i + p).
Proof.
  intros Hp Hs Hi g. unfold g.
  rewrite nth_sl_range by (rewrite convolve_length, avg_weights_length; lia).
  rewrite nth_convolve by (rewrite avg_weights_length; lia).
  unfold conv_at. rewrite avg_weights_length.
  destruct (inv_p_pos p Hp) as [Hc Hpc]. set (c := 1 / natq p) in *.
  split.
  - replace (kn kv (i + 1)) with (natq (length (seq 0 p)) * (c * kn kv (i + 1)))
      by (rewrite seq_length; rewrite Qcmult_assoc, Hpc; ring).
    apply qsum_ge. intros m Hm. apply in_seq in Hm.
    destruct (Nat.leb_spec m (p + i)) as [L|L]; [|lia].
    rewrite nth_avg_weights by lia. fold c.
    assert (Hk : kn kv (i + 1) <= nth (p + i - m) kv 0) by (apply (Hs (i + 1)%nat (p + i - m)%nat); lia).
    set (x := nth (p + i - m) kv 0) in *. clearbody x. set (y := kn kv (i + 1)) in *. clearbody y.
    clearbody c. qcq. nra.
  - replace (kn kv (i + p)) with (natq (length (seq 0 p)) * (c * kn kv (i + p)))
      by (rewrite seq_length; rewrite Qcmult_assoc, Hpc; ring).
    apply qsum_le. intros m Hm. apply in_seq in Hm.
    destruct (Nat.leb_spec m (p + i)) as [L|L]; [|lia].
    rewrite nth_avg_weights by lia. fold c.
    assert (Hk : nth (p + i - m) kv 0 <= kn kv (i + p)) by (apply (Hs (p + i - m)%nat (i + p)%nat); lia).
    set (x := nth (p + i - m) kv 0) in *. clearbody x. set (y := kn kv (i + p)) in *. clearbody y.
    clearbody c. qcq. nra.
Qed.

Lemma clip_id lo hi x : lo <= x -> x <= hi -> np_clip lo hi x = x.
Proof.
  intros H1 H2. unfold np_clip, qmin, qmax.
  destruct (qleb x lo) eqn:E1.
  - apply NpQ.qleb_iff in E1. assert (x = lo) by (apply Qcle_antisym; assumption). subst x.
    destruct (qleb lo hi) eqn:E2; [reflexivity|]. apply qleb_false_lt in E2.
    apply Qcle_antisym; [|exact H2]. apply Qclt_le_weak. exact E2.
  - destruct (qleb x hi) eqn:E2; [reflexivity|]. apply qleb_false_lt in E2.
    apply Qcle_antisym; [|exact H2]. apply Qclt_le_weak. exact E2.
Qed.

(* Greville point i is the average of kv[i+1..i+p] (the clip does nothing in exact arithmetic),
   hence inside the support [kv[i], kv[i+p+1]] of B-spline i and inside the domain *)
Lemma greville_in_support_l kv p i : (1 <= p)%nat -> kv_valid kv = true -> (i < numdofs kv p)%nat ->
  let g := nth i (greville kv p) 0 in
  g = nth i (sl_range p p (np_convolve kv (avg_weights p))) 0 /\
  kn kv (i + 1) <= g /\ g <= kn kv (i + p) /\
  kn kv i <= g /\ g <= kn kv (i + p + 1) /\ kn kv 0 <= g /\ g <= kn kv (length kv - 1) /\
  length (greville kv p) = numdofs kv p.
Proof.
  intros Hp Hv Hi g. unfold numdofs in Hi. apply sortedb_idx in Hv.
  destruct (running_average_bounds kv p i Hp Hv ltac:(lia)) as [A B].
  set (r := nth i (sl_range p p (np_convolve kv (avg_weights p))) 0) in *.
  assert (Hlen : length (sl_range p p (np_convolve kv (avg_weights p))) = (length kv - p - 1)%nat)
    by (rewrite sl_range_length, convolve_length, avg_weights_length; lia).
  assert (Hg : g = r).
  { unfold g, greville. destruct (Nat.eqb_spec p 0) as [E|E]; [lia|].
    fold (avg_weights p).
    set (cl := np_clip (kn kv 0) (kn kv (length kv - 1))).
    rewrite (nth_indep _ 0 (cl 0)) by (rewrite map_length, Hlen; lia).
    rewrite (map_nth cl). fold r. unfold cl. apply clip_id.
    - eapply Qcle_trans; [|exact A]. apply Hv; lia.
    - eapply Qcle_trans; [exact B|]. apply Hv; lia. }
  rewrite Hg. repeat split; try assumption.
  - eapply Qcle_trans; [|exact A]. apply Hv; lia.
  - eapply Qcle_trans; [exact B|]. apply Hv; lia.
  - eapply Qcle_trans; [|exact A]. apply Hv; lia.
  - eapply Qcle_trans; [exact B|]. apply Hv; lia.
  - unfold greville. destruct (Nat.eqb_spec p 0) as [E|E]; [lia|]. fold (avg_weights p).
    rewrite map_length, Hlen. unfold numdofs. reflexivity.
Qed.

(* ------------------------------------------------------------------ *)
(* uniform refinement halves every span *)

Fixpoint interleave (m : list Qc) : list Qc :=
  match m with
  | a :: ((b :: _) as t) => a :: (b + a) / two :: interleave t
  | _ => m
  end.

Lemma interleave_cons a b t : interleave (a :: b :: t) = a :: (b + a) / two :: interleave (b :: t).
Proof. reflexivity. Qed.

Lemma midpoints_cons a b t : midpoints (a :: b :: t) = (b + a) / two :: midpoints (b :: t).
Proof. reflexivity. Qed.

Lemma interleave_In x m : In x (interleave m) <-> In x m \/ In x (midpoints m).
Proof.
  induction m as [|a t IH]; [cbn; tauto|].
  destruct t as [|b t']; [cbn; tauto|].
  rewrite interleave_cons, midpoints_cons. cbn [In]. rewrite IH. cbn [In]. tauto.
Qed.

Lemma interleave_length m : m <> [] -> length (interleave m) = (2 * length m - 1)%nat.
Proof.
  induction m as [|a t IH]; intros H; [congruence|].
  destruct t as [|b t']; [reflexivity|].
  rewrite interleave_cons. cbn [length]. rewrite IH by discriminate. cbn [length]. lia.
Qed.

Lemma mid_between a b : a < b -> a < (b + a) / two /\ (b + a) / two < b.
Proof.
  intros H. assert (E : (b + a) / two * two = b + a) by (unfold two; field; discriminate).
  set (m := (b + a) / two) in *. clearbody m. unfold two in E. split; qcq; nra.
Qed.

Lemma strict_cons a l : adjb qltb (a :: l) = match l with [] => true | b :: _ => qltb a b && adjb qltb l end.
Proof. destruct l; reflexivity. Qed.

Lemma interleave_strict m : adjb qltb m = true -> adjb qltb (interleave m) = true.
Proof.
  induction m as [|a t IH]; intros H; [reflexivity|].
  destruct t as [|b t']; [reflexivity|].
  rewrite strict_cons in H. apply andb_true_iff in H. destruct H as [Hab Ht].
  apply NpQ.qltb_iff in Hab. destruct (mid_between a b Hab) as [M1 M2].
  rewrite interleave_cons. specialize (IH Ht).
  destruct t' as [|c t''].
  - cbn [interleave]. cbn [adjb]. rewrite !andb_true_r. apply andb_true_iff.
    split; apply NpQ.qltb_iff; assumption.
  - rewrite interleave_cons in *.
    rewrite strict_cons. apply andb_true_iff. split; [apply NpQ.qltb_iff; exact M1|].
    rewrite strict_cons. apply andb_true_iff. split; [apply NpQ.qltb_iff; exact M2|exact IH].
Qed.

Lemma strict_head_lt a l : adjb qltb (a :: l) = true -> forall x, In x l -> a < x.
Proof.
  revert a. induction l as [|b t IH]; intros a H x Hx; [destruct Hx|].
  rewrite strict_cons in H. apply andb_true_iff in H. destruct H as [Hab Ht].
  apply NpQ.qltb_iff in Hab. destruct Hx as [<-|Hx]; [exact Hab|].
  eapply Qclt_trans; [exact Hab|]. apply IH; assumption.
Qed.

Lemma strict_tail a l : adjb qltb (a :: l) = true -> adjb qltb l = true.
Proof. rewrite strict_cons. destruct l; [reflexivity|]. intros H. apply andb_true_iff in H. tauto. Qed.

Lemma lt_irrefl_q (x : Qc) : ~ x < x.
Proof. apply Qcle_not_lt, Qcle_refl. Qed.

(* strictly increasing lists are determined by their elements *)
Lemma strict_ext l1 : forall l2, adjb qltb l1 = true -> adjb qltb l2 = true ->
  (forall x, In x l1 <-> In x l2) -> l1 = l2.
Proof.
  induction l1 as [|a t IH]; intros l2 H1 H2 E.
  - destruct l2 as [|b r]; [reflexivity|]. exfalso. apply (E b). left. reflexivity.
  - destruct l2 as [|b r]; [exfalso; apply (E a); left; reflexivity|].
    assert (Hab : a = b).
    { destruct (proj1 (E a) (or_introl eq_refl)) as [Hb|Hb]; [symmetry; exact Hb|].
      destruct (proj2 (E b) (or_introl eq_refl)) as [Ha|Ha]; [exact Ha|]. exfalso.
      pose proof (strict_head_lt b r H2 a Hb). pose proof (strict_head_lt a t H1 b Ha).
      apply (lt_irrefl_q a). eapply Qclt_trans; eassumption. }
    subst b. f_equal. apply IH; [eapply strict_tail; eassumption|eapply strict_tail; eassumption|].
    intros x. split; intros Hx.
    + destruct (proj1 (E x) (or_intror Hx)) as [Hb|Hb]; [|exact Hb]. subst x. exfalso.
      apply (lt_irrefl_q a). apply (strict_head_lt a t H1 a Hx).
    + destruct (proj2 (E x) (or_intror Hx)) as [Hb|Hb]; [|exact Hb]. subst x. exfalso.
      apply (lt_irrefl_q a). apply (strict_head_lt a r H2 a Hx).
Qed.

(* the mesh of the uniformly refined knot vector: every old break point, and between two
   consecutive ones exactly their midpoint -- every span is halved, numspans doubles *)
Lemma refine_uniform_halves_l kv : kv <> [] ->
  mesh (refine_uniform kv) = interleave (mesh kv) /\
  numspans (refine_uniform kv) = (2 * numspans kv)%nat.
Proof.
  intros Hne.
  assert (Hm : mesh (refine_uniform kv) = interleave (mesh kv)).
  { apply strict_ext; [apply mesh_strict_l|apply interleave_strict, mesh_strict_l|].
    intros x. rewrite mesh_In, interleave_In, mesh_In.
    destruct (refine_uniform_sorted_union_l kv) as [P _]. split; intros H.
    - apply (Permutation_in _ P) in H. apply in_app_or in H. exact H.
    - apply (Permutation_in _ (Permutation_sym P)). apply in_or_app. exact H. }
  split; [exact Hm|]. unfold numspans. rewrite Hm.
  assert (Hmn : mesh kv <> []).
  { destruct kv as [|a t]; [congruence|]. intros E.
    assert (In a (mesh (a :: t))) by (apply mesh_In; left; reflexivity). rewrite E in H. destruct H. }
  rewrite interleave_length by exact Hmn.
  destruct (mesh kv); [congruence|]. cbn [length]. lia.
Qed.
