(* C13 -- proofs about the cache keys, the memo tables and the reordering certificate. *)
From Coq Require Import String.
From Coq Require Import List ZArith Bool Lia Permutation.
From Verif.C13 Require Import Model.
Import ListNotations.
Open Scope Z_scope.

(* ------------------------------------------------------------------ *)
(* generic list facts *)

Lemma app_eq_length {A} (l1 l1' l2 l2' : list A) :
  length l1 = length l1' -> l1 ++ l2 = l1' ++ l2' -> l1 = l1' /\ l2 = l2'.
Proof.
  revert l1'. induction l1 as [|x l1 IH]; intros [|y l1'] L H; simpl in *; try discriminate.
  - auto.
  - injection H as -> H. injection L as L. destruct (IH _ L H) as [-> ->]. auto.
Qed.

Lemma map_eq_in {A B} (f g : A -> B) l x : map f l = map g l -> In x l -> f x = g x.
Proof.
  induction l as [|y l IH]; simpl; intros H I; [contradiction|].
  injection H as H0 H1. destruct I as [->|I]; auto.
Qed.

Lemma app_split_pred {A} (p : A -> bool) l1 l2 l1' l2' :
  (forall x, In x l1 -> p x = true) -> (forall x, In x l1' -> p x = true) ->
  (forall x, In x l2 -> p x = false) -> (forall x, In x l2' -> p x = false) ->
  l1 ++ l2 = l1' ++ l2' -> l1 = l1' /\ l2 = l2'.
Proof.
  revert l1'. induction l1 as [|x l1 IH]; intros [|y l1'] H1 H1' H2 H2' H; simpl in *.
  - auto.
  - exfalso. subst l2. specialize (H2 y (or_introl eq_refl)). specialize (H1' y (or_introl eq_refl)). congruence.
  - exfalso. subst l2'. specialize (H2' x (or_introl eq_refl)). specialize (H1 x (or_introl eq_refl)). congruence.
  - injection H as -> H. destruct (IH l1') as [-> ->]; auto.
Qed.

Lemma map_inj_on {A B} (f : A -> B) (ok : A -> bool) :
  (forall a b, ok a = true -> ok b = true -> f a = f b -> a = b) ->
  forall l l', forallb ok l = true -> forallb ok l' = true -> map f l = map f l' -> l = l'.
Proof.
  intros Hf. induction l as [|x l IH]; intros [|y l'] O O' H; simpl in *; try discriminate; auto.
  apply andb_true_iff in O as [Ox O]. apply andb_true_iff in O' as [Oy O'].
  injection H as H0 H. f_equal; auto.
Qed.

(* ------------------------------------------------------------------ *)
(* induction principles for the nested types *)

Section AtomInd.
  Variable Pa : atom -> Prop.
  Hypothesis Hi : forall z, Pa (AInt z).
  Hypothesis Hf : forall b, Pa (AFloat b).
  Hypothesis Hs : forall s, Pa (AStr s).
  Hypothesis Hn : Pa ANone.
  Hypothesis Ht : forall l, Forall Pa l -> Pa (ATup l).
  Fixpoint atom_ind' (a : atom) : Pa a :=
    match a with
    | AInt z => Hi z
    | AFloat b => Hf b
    | AStr s => Hs s
    | ANone => Hn
    | ATup l => Ht l ((fix go (l : list atom) : Forall Pa l :=
                         match l with
                         | [] => Forall_nil _
                         | x :: l' => Forall_cons _ (atom_ind' x) (go l')
                         end) l)
    end.
End AtomInd.

Section HvalInd.
  Variable Ph : hval -> Prop.
  Hypothesis H1 : forall z, Ph (HNum z).
  Hypothesis H2 : forall s, Ph (HStr s).
  Hypothesis H3 : Ph HNone.
  Hypothesis H4 : forall s, Ph (HType s).
  Hypothesis H5 : forall a, Ph (HRepr a).
  Hypothesis H6 : forall l, Forall Ph l -> Ph (HTup l).
  Fixpoint hval_ind' (h : hval) : Ph h :=
    match h with
    | HNum z => H1 z
    | HStr s => H2 s
    | HNone => H3
    | HType s => H4 s
    | HRepr a => H5 a
    | HTup l => H6 l ((fix go (l : list hval) : Forall Ph l :=
                         match l with
                         | [] => Forall_nil _
                         | x :: l' => Forall_cons _ (hval_ind' x) (go l')
                         end) l)
    end.
End HvalInd.

Section NodeInd.
  Variable Pn : node -> Prop.
  Hypothesis Hn : forall c sh a ch, Forall Pn ch -> Pn (Node c sh a ch).
  Fixpoint node_ind' (n : node) : Pn n :=
    match n with
    | Node c sh a ch => Hn c sh a ch ((fix go (l : list node) : Forall Pn l :=
                                         match l with
                                         | [] => Forall_nil _
                                         | x :: l' => Forall_cons _ (node_ind' x) (go l')
                                         end) ch)
    end.
End NodeInd.

(* ------------------------------------------------------------------ *)
(* CPython's numeric hash *)

Lemma P61_val : P61 = 2305843009213693951.
Proof. reflexivity. Qed.

Lemma inthash_id z : - P61 < z < P61 -> z <> -1 -> inthash z = z.
Proof.
  intros R N. unfold inthash, fix_m1. rewrite P61_val in *.
  rewrite Z.mod_small by lia.
  destruct (z <? 0) eqn:E.
  - apply Z.ltb_lt in E. replace (- Z.abs z) with z by lia.
    destruct (z =? -1) eqn:E1; [apply Z.eqb_eq in E1; lia|reflexivity].
  - apply Z.ltb_ge in E. replace (Z.abs z) with z by lia.
    destruct (z =? -1) eqn:E1; [apply Z.eqb_eq in E1; lia|reflexivity].
Qed.

(* the collisions behind the defects: hash(-1) == hash(-2), hash(-1.0) == hash(-2.0),
   hash(1.0) == hash(2.0**61), hash(0.5) == hash(2.0**60), hash(0.0) == hash(-0.0), hash(1.0) == hash(1) *)
Lemma int_collision : inthash (-1) = inthash (-2).
Proof. reflexivity. Qed.

Definition bits_m1 : Z := 13830554455654793216.   (* -1.0 = 0xBFF0000000000000 *)
Definition bits_m2 : Z := 13835058055282163712.   (* -2.0 = 0xC000000000000000 *)
Definition bits_1 : Z := 4607182418800017408.     (* 1.0 = 0x3FF0000000000000 *)
Definition bits_2p61 : Z := 4881901996069617664.  (* 2.0**61 = 0x43C0000000000000 *)

Lemma float_collision_m1_m2 : floathash bits_m1 = floathash bits_m2 /\ bits_m1 <> bits_m2.
Proof. split; [vm_compute; reflexivity | discriminate]. Qed.

Lemma float_collision_1_2p61 : floathash bits_1 = floathash bits_2p61 /\ bits_1 <> bits_2p61.
Proof. split; [vm_compute; reflexivity | discriminate]. Qed.

Lemma float_int_collision : pyhash (AFloat bits_1) = pyhash (AInt 1).
Proof. vm_compute. reflexivity. Qed.

Lemma const_key_by_hash_refuted_l :
  exists a b : atom, has_ty TFloat a = true /\ has_ty TFloat b = true /\ a <> b /\ encode EHash a = encode EHash b.
Proof.
  exists (AFloat bits_m1), (AFloat bits_m2). repeat split; try (vm_compute; reflexivity). discriminate.
Qed.

(* ------------------------------------------------------------------ *)
(* injectivity of the idealised tuple hash on hash-safe atoms *)

Lemma pyhash_inj : forall a, hash_safe a = true -> forall b, hash_safe b = true ->
  pyhash a = pyhash b -> a = b.
Proof.
  induction a as [z|bb|s| |l IH] using atom_ind'; intros Sa [z'|bb'|s'| |l'] Sb H; simpl in *;
    try discriminate; try reflexivity.
  - injection H as H.
    apply andb_true_iff in Sa as [Sa N]. apply andb_true_iff in Sa as [A B].
    apply andb_true_iff in Sb as [Sb N']. apply andb_true_iff in Sb as [A' B'].
    apply Z.ltb_lt in A, B, A', B'.
    apply negb_true_iff in N, N'. apply Z.eqb_neq in N, N'.
    rewrite !inthash_id in H by (auto; lia). congruence.
  - congruence.
  - injection H as H. f_equal.
    revert l' Sb H. induction IH as [|x l Hx _ IHl]; intros [|y l'] Sb H; simpl in *; try discriminate; auto.
    apply andb_true_iff in Sa as [Sx Sa]. apply andb_true_iff in Sb as [Sy Sb].
    injection H as H0 H. f_equal; auto.
Qed.

Lemma encode_inj e a b : e <> EOther ->
  (e = EHash -> hash_safe a = true /\ hash_safe b = true) -> encode e a = encode e b -> a = b.
Proof.
  destruct e; simpl; intros NO S H.
  - destruct (S eq_refl). apply pyhash_inj; auto.
  - congruence.
  - congruence.
Qed.

Lemma is_nat_safe a : is_nat a = true -> hash_safe a = true.
Proof.
  destruct a; simpl; try discriminate. intros H. apply andb_true_iff in H as [A B].
  apply Z.leb_le in A. apply Z.ltb_lt in B. rewrite P61_val in *.
  apply andb_true_iff; split; [apply andb_true_iff; split|].
  - apply Z.ltb_lt; lia.
  - apply Z.ltb_lt; lia.
  - apply negb_true_iff, Z.eqb_neq; lia.
Qed.

Lemma is_optnat_safe a : is_optnat a = true -> hash_safe a = true.
Proof. destruct a; simpl; try discriminate; auto. apply (is_nat_safe (AInt z)). Qed.

Lemma forallb_impl {A} (p q : A -> bool) l : (forall x, p x = true -> q x = true) ->
  forallb p l = true -> forallb q l = true.
Proof. intros I. induction l; simpl; auto. intros H. apply andb_true_iff in H as [X Y]. rewrite I, IHl; auto. Qed.

Lemma has_ty_safe t a : t <> TFloat -> has_ty t a = true -> hash_safe a = true.
Proof.
  intros NF H. destruct t; try congruence.
  - apply is_nat_safe; exact H.
  - destruct a; simpl in H; try discriminate. apply orb_true_iff in H as [E|E]; apply Z.eqb_eq in E; subst; reflexivity.
  - destruct a; simpl in H; try discriminate. reflexivity.
  - destruct a; simpl in H; try discriminate. simpl. eapply forallb_impl; [apply is_nat_safe|exact H].
  - apply is_optnat_safe; exact H.
  - destruct a as [| | | |l]; simpl in H; try discriminate.
    destruct l as [|[| |s| |] [|nc [|comp [|sp [|? ?]]]]]; try discriminate.
    apply andb_true_iff in H as [H C]. apply andb_true_iff in H as [A B].
    simpl. rewrite (is_optnat_safe _ A), (is_optnat_safe _ B), (is_nat_safe _ C). reflexivity.
Qed.

(* ------------------------------------------------------------------ *)
(* key_separates *)

Lemma assoc_enc_in n l e : assoc_enc n l = Some e -> In (n, e) l.
Proof.
  induction l as [|[k e'] l IH]; simpl; try discriminate.
  destruct (String.eqb n k) eqn:E.
  - apply String.eqb_eq in E. subst. intros H; injection H as ->. auto.
  - auto.
Qed.

Lemma attrs_separate cs a a' :
  class_ok cs = true ->
  forallb (fun nt => has_ty (snd nt) (lookup (fst nt) a)) (seml cs) = true ->
  forallb (fun nt => has_ty (snd nt) (lookup (fst nt) a')) (seml cs) = true ->
  key_attrs cs a = key_attrs cs a' -> sem_attrs cs a = sem_attrs cs a'.
Proof.
  unfold class_ok, key_attrs, sem_attrs. intros OK W W' H.
  apply map_ext_in. intros [n t] I. simpl. f_equal.
  rewrite forallb_forall in OK, W, W'.
  specialize (OK _ I). specialize (W _ I). specialize (W' _ I). simpl in *.
  unfold field_ok in OK. simpl in OK.
  destruct (assoc_enc n (keyl cs)) as [e|] eqn:E; try discriminate.
  apply assoc_enc_in in E.
  pose proof (map_eq_in _ _ _ _ H E) as HE. simpl in HE.
  apply (encode_inj e); auto.
  - intros ->. discriminate.
  - intros ->. destruct t; try discriminate; split; eapply has_ty_safe; eauto; discriminate.
Qed.

Lemma covers_lookup T c : covers T = true -> class_ok (tlookup T c) = true.
Proof.
  induction T as [|[k s] T IH]; simpl; intros H.
  - reflexivity.
  - apply andb_true_iff in H as [A B]. destruct (String.eqb c k); auto.
Qed.

Lemma key_attrs_length cs a a' : length (key_attrs cs a) = length (key_attrs cs a').
Proof. unfold key_attrs. rewrite !map_length. reflexivity. Qed.

Lemma key_separates_l T : covers T = true ->
  forall a b, well_typed T a = true -> well_typed T b = true -> key T a = key T b -> strip T a = strip T b.
Proof.
  intros CV. induction a as [c sh a ch IH] using node_ind'. intros [c' sh' a' ch'] W W' H.
  simpl in H. injection H as Hc Hs Hk. subst c'.
  simpl in W, W'.
  apply andb_true_iff in W as [W Wc]. apply andb_true_iff in W as [Wsh Wa].
  apply andb_true_iff in W' as [W' Wc']. apply andb_true_iff in W' as [Wsh' Wa'].
  destruct (app_eq_length _ _ _ _ (key_attrs_length _ a a') Hk) as [Ka Kc].
  assert (sh = sh') as <-.
  { apply pyhash_inj; auto; eapply (has_ty_safe TNatTup); eauto; discriminate. }
  simpl. f_equal.
  - apply attrs_separate; auto. apply covers_lookup; exact CV.
  - clear Hk Ka Wa Wa'. revert ch' Wc' Kc.
    induction IH as [|x ch Hx _ IHl]; intros [|y ch'] Wc' Kc; simpl in *; try discriminate; auto.
    apply andb_true_iff in Wc as [Wx Wc]. apply andb_true_iff in Wc' as [Wy Wc'].
    injection Kc as K0 Kc. f_equal; auto.
Qed.

Lemma same_key_same_code_l T : covers T = true ->
  forall (Code : Type) (gen : node -> Code) a b,
    well_typed T a = true -> well_typed T b = true -> key T a = key T b ->
    gen (strip T a) = gen (strip T b).
Proof. intros CV Code gen a b W W' H. f_equal. apply key_separates_l; auto. Qed.

(* ------------------------------------------------------------------ *)
(* the records and the flat VForm tuple *)

Lemma natZ_range z : natZ z = true -> - P61 < z < P61 /\ z <> -1.
Proof. unfold natZ. intros H. apply andb_true_iff in H as [A B]. apply Z.leb_le in A. apply Z.ltb_lt in B. rewrite P61_val in *. lia. Qed.

Lemma hnum_inj a b : natZ a = true -> natZ b = true -> inthash a = inthash b -> a = b.
Proof.
  intros A B H.
  destruct (natZ_range _ A), (natZ_range _ B). rewrite !inthash_id in H; auto.
Qed.

Lemma hbool_inj (a b : bool) : inthash (if a then 1 else 0) = inthash (if b then 1 else 0) -> a = b.
Proof. destruct a, b; intros H; try reflexivity; vm_compute in H; discriminate. Qed.

Lemma hopt_inj a b : optnatZ a = true -> optnatZ b = true -> hopt a = hopt b -> a = b.
Proof.
  destruct a, b; simpl; intros A B H; try discriminate; auto. f_equal. injection H as H. apply hnum_inj; auto.
Qed.

Lemma hshape_inj l l' : forallb natZ l = true -> forallb natZ l' = true -> map hnum l = map hnum l' -> l = l'.
Proof.
  intros A B H. eapply map_inj_on; eauto. intros a b Na Nb E. injection E as E. apply hnum_inj; auto.
Qed.

Lemma bf_key_inj a b : wf_bf a = true -> wf_bf b = true -> bf_key a = bf_key b -> a = b.
Proof.
  destruct a as [n nc co sp], b as [n' nc' co' sp']. unfold wf_bf, bf_key; simpl. intros A B H.
  apply andb_true_iff in A as [A A3]. apply andb_true_iff in A as [A1 A2].
  apply andb_true_iff in B as [B B3]. apply andb_true_iff in B as [B1 B2].
  injection H as -> H1 H2 H3.
  apply hopt_inj in H1; auto. apply hopt_inj in H2; auto. apply hnum_inj in H3; auto. subst. reflexivity.
Qed.

Lemma in_key_inj a b : wf_in a = true -> wf_in b = true -> in_key a = in_key b -> a = b.
Proof.
  destruct a as [n sh ph up], b as [n' sh' ph' up']. unfold wf_in, in_key; simpl. intros A B H.
  injection H as -> H1 H2 H3.
  apply hshape_inj in H1; auto.
  apply hbool_inj in H2. apply hbool_inj in H3. subst. reflexivity.
Qed.

Lemma pa_key_inj a b : wf_pa a = true -> wf_pa b = true -> pa_key a = pa_key b -> a = b.
Proof.
  destruct a as [n sh], b as [n' sh']. unfold wf_pa, pa_key; simpl. intros A B H.
  injection H as -> H1.
  apply hshape_inj in H1; auto. subst. reflexivity.
Qed.

Lemma src_key_sep T : covers T = true -> forall a b, wf_src T a = true -> wf_src T b = true ->
  src_key T a = src_key T b -> strip_src T a = strip_src T b.
Proof.
  intros CV [n|i|p] [n'|i'|p'] A B H; simpl in *.
  - f_equal. apply key_separates_l; auto.
  - destruct n; simpl in H. unfold in_key in H. discriminate.
  - destruct n; simpl in H. unfold pa_key in H. discriminate.
  - destruct n'; simpl in H. unfold in_key in H. discriminate.
  - f_equal. apply in_key_inj; auto.
  - unfold in_key, pa_key in H. discriminate.
  - destruct n'; simpl in H. unfold pa_key in H. discriminate.
  - unfold in_key, pa_key in H. discriminate.
  - f_equal. apply pa_key_inj; auto.
Qed.

Lemma var_key_sep T : covers T = true -> forall a b, wf_var T a = true -> wf_var T b = true ->
  var_key T a = var_key T b -> strip_var T a = strip_var T b.
Proof.
  intros CV [n s sh sy de] [n' s' sh' sy' de']. unfold wf_var, var_key, strip_var; simpl. intros A B H.
  apply andb_true_iff in A as [A A3]. apply andb_true_iff in A as [A1 A2].
  apply andb_true_iff in B as [B B3]. apply andb_true_iff in B as [B1 B2].
  injection H as -> H1 H2 H3 H4.
  apply (src_key_sep T CV) in H1; auto.
  apply hshape_inj in H2; auto.
  apply hbool_inj in H3. apply hopt_inj in H4; auto. subst. rewrite H1. reflexivity.
Qed.

(* which segment of the flat VForm tuple an entry belongs to, read off the entry itself *)
Definition seg (h : hval) : nat :=
  match h with
  | HTup (HType _ :: _) => 3
  | HTup [HStr _; HTup _; _; _] => 1
  | HTup [HStr _; _; _; _] => 0
  | HTup [HStr _; _; _; _; _] => 2
  | _ => 4
  end%nat.

Lemma seg_bf b : seg (bf_key b) = 0%nat.
Proof. destruct b as [n [z|] co sp]; reflexivity. Qed.
Lemma seg_in i : seg (in_key i) = 1%nat.
Proof. reflexivity. Qed.
Lemma seg_var T v : seg (var_key T v) = 2%nat.
Proof. destruct v as [n [[c sh a ch]|i|p] s sy de]; reflexivity. Qed.
Lemma seg_expr T n : seg (key T n) = 3%nat.
Proof. destruct n; reflexivity. Qed.

Lemma in_map_seg {A} (f : A -> hval) k l : (forall a, seg (f a) = k) -> forall x, In x (map f l) -> seg x = k.
Proof. intros H x I. apply in_map_iff in I as [a [<- _]]. apply H. Qed.

Lemma map_strip_sep {A} (k : A -> hval) (st : A -> A) (ok : A -> bool) :
  (forall a b, ok a = true -> ok b = true -> k a = k b -> st a = st b) ->
  forall l l', forallb ok l = true -> forallb ok l' = true -> map k l = map k l' -> map st l = map st l'.
Proof.
  intros Hf. induction l as [|x l IH]; intros [|y l'] O O' H; simpl in *; try discriminate; auto.
  apply andb_true_iff in O as [Ox O]. apply andb_true_iff in O' as [Oy O'].
  injection H as H0 H. f_equal; auto.
Qed.

Lemma form_key_separates_l T : covers T = true ->
  forall f g, wf_form T f = true -> wf_form T g = true -> form_key T f = form_key T g ->
  strip_form T f = strip_form T g.
Proof.
  intros CV [d a v s b bfs ins vars es] [d' a' v' s' b' bfs' ins' vars' es'].
  unfold wf_form, form_key, strip_form; simpl. intros W W' H.
  do 6 (apply andb_true_iff in W as [W ?]). do 6 (apply andb_true_iff in W' as [W' ?]).
  injection H as Hd Ha Hv Hs Hb H.
  apply (hnum_inj d d') in Hd; auto. apply (hnum_inj a a') in Ha; auto. apply (hnum_inj v v') in Hv; auto.
  apply hbool_inj in Hs. apply hbool_inj in Hb. subst.
  (* split off the basis functions *)
  apply (app_split_pred (fun h => Nat.eqb (seg h) 0)) in H as [Hbf H].
  2,3: intros x I; rewrite (in_map_seg _ 0%nat _ seg_bf x I); reflexivity.
  2,3: intros x I; repeat (apply in_app_or in I as [I|I]);
       [rewrite (in_map_seg _ 1%nat _ seg_in x I)|rewrite (in_map_seg _ 2%nat _ (seg_var T) x I)
       |rewrite (in_map_seg _ 3%nat _ (seg_expr T) x I)]; reflexivity.
  apply (app_split_pred (fun h => Nat.eqb (seg h) 1)) in H as [Hin H].
  2,3: intros x I; rewrite (in_map_seg _ 1%nat _ seg_in x I); reflexivity.
  2,3: intros x I; apply in_app_or in I as [I|I];
       [rewrite (in_map_seg _ 2%nat _ (seg_var T) x I)|rewrite (in_map_seg _ 3%nat _ (seg_expr T) x I)]; reflexivity.
  apply (app_split_pred (fun h => Nat.eqb (seg h) 2)) in H as [Hvar Hex].
  2,3: intros x I; rewrite (in_map_seg _ 2%nat _ (seg_var T) x I); reflexivity.
  2,3: intros x I; rewrite (in_map_seg _ 3%nat _ (seg_expr T) x I); reflexivity.
  f_equal.
  - eapply map_inj_on; eauto. apply bf_key_inj.
  - eapply map_inj_on; eauto. apply in_key_inj.
  - eapply (map_strip_sep (var_key T)); eauto. apply var_key_sep; auto.
  - eapply (map_strip_sep (key T)); eauto. apply key_separates_l; auto.
Qed.

(* ------------------------------------------------------------------ *)
(* boolean equality on hash values decides equality *)

Lemma atom_eqb_eq : forall a b, atom_eqb a b = true <-> a = b.
Proof.
  induction a as [z|bb|s| |l IH] using atom_ind'; intros [z'|bb'|s'| |l']; simpl;
    try (split; [discriminate|congruence]).
  - rewrite Z.eqb_eq. split; congruence.
  - rewrite Z.eqb_eq. split; congruence.
  - rewrite String.eqb_eq. split; congruence.
  - split; reflexivity.
  - revert l'. induction IH as [|x l Hx _ IHl]; intros [|y l']; try (split; [discriminate|congruence]).
    + split; reflexivity.
    + rewrite andb_true_iff, Hx, IHl. split.
      * intros [-> E]. injection E as ->. reflexivity.
      * intros E. injection E as -> ->. auto.
Qed.

Lemma hval_eqb_eq : forall a b, hval_eqb a b = true <-> a = b.
Proof.
  induction a as [z|s| |s|x|l IH] using hval_ind'; intros [z'|s'| |s'|x'|l']; simpl;
    try (split; [discriminate|congruence]).
  - rewrite Z.eqb_eq. split; congruence.
  - rewrite String.eqb_eq. split; congruence.
  - split; reflexivity.
  - rewrite String.eqb_eq. split; congruence.
  - rewrite atom_eqb_eq. split; congruence.
  - revert l'. induction IH as [|x l Hx _ IHl]; intros [|y l']; try (split; [discriminate|congruence]).
    + split; reflexivity.
    + rewrite andb_true_iff, Hx, IHl. split.
      * intros [-> E]. injection E as ->. reflexivity.
      * intros E. injection E as -> ->. auto.
Qed.

(* ------------------------------------------------------------------ *)
(* memo tables *)

Section MemoProofs.
  Variables (K R C : Type).
  Variable keq : K -> K -> bool.
  Variable keyof : R -> K.
  Variable build : R -> C.
  Hypothesis keq_spec : forall a b, keq a b = true <-> a = b.
  Variable ok : R -> Prop.
  (* requests with equal keys build the same object *)
  Hypothesis key_sound : forall a b, ok a -> ok b -> keyof a = keyof b -> build a = build b.

  Definition inv (st : memo K C) : Prop :=
    forall r c, ok r -> mlookup K C keq (keyof r) st = Some c -> c = build r.

  Lemma inv_cons st r : ok r -> inv st -> inv ((keyof r, build r) :: st).
  Proof.
    intros Or I r' c Or' H. simpl in H. destruct (keq (keyof r') (keyof r)) eqn:E.
    - injection H as <-. apply keq_spec in E. symmetry. apply key_sound; auto.
    - apply I; auto.
  Qed.

  Lemma request_correct st r : ok r -> inv st ->
    inv (fst (request K R C keq keyof build st r)) /\ snd (request K R C keq keyof build st r) = build r.
  Proof.
    intros Or I. unfold request. destruct (mlookup K C keq (keyof r) st) as [c|] eqn:E; simpl.
    - split; auto.
    - split; auto. apply inv_cons; auto.
  Qed.

  Lemma serve_correct : forall rs st, inv st -> Forall ok rs ->
    snd (serve K R C keq keyof build st rs) = map build rs.
  Proof.
    induction rs as [|r rs IH]; intros st I F; simpl; auto.
    inversion F as [|? ? Or F']; subst.
    destruct (request_correct st r Or I) as [I1 E1].
    destruct (request K R C keq keyof build st r) as [st1 c] eqn:Rq. simpl in *.
    specialize (IH st1 I1 F').
    destruct (serve K R C keq keyof build st1 rs) as [st2 cs]. simpl in *. congruence.
  Qed.

  Lemma preseed_inv seed :
    (forall r c, In (r, c) seed -> ok r /\ c = build r) -> inv (preseed K R C keyof seed).
  Proof.
    unfold preseed. intros H.
    assert (G : forall st, inv st -> (forall r c, In (r, c) seed -> ok r /\ c = build r) ->
                           inv (fold_left (fun st rc => (keyof (fst rc), snd rc) :: st) seed st)).
    { clear H. induction seed as [|[r c] seed IH]; intros st I H; simpl; auto.
      apply IH.
      - destruct (H r c (or_introl eq_refl)) as [Or ->]. apply inv_cons; auto.
      - intros r' c' In'. apply H. right; exact In'. }
    apply G; auto. intros r c _ E. discriminate.
  Qed.

  Theorem memo_returns_requested seed rs :
    (forall r c, In (r, c) seed -> ok r /\ c = build r) -> Forall ok rs ->
    snd (serve K R C keq keyof build (preseed K R C keyof seed) rs) = map build rs.
  Proof. intros H F. apply serve_correct; auto. apply preseed_inv; auto. Qed.
End MemoProofs.

(* level 1: (vf.hash(), (on_demand,)) -> class *)
Lemma keq1_spec a b : keq1 a b = true <-> a = b.
Proof.
  destruct a as [h o], b as [h' o']. unfold keq1; simpl.
  rewrite andb_true_iff, hval_eqb_eq, Bool.eqb_true_iff. split; [intros [-> ->]; reflexivity|intros E; injection E; auto].
Qed.

Lemma cache_returns_requested_l :
  forall (T : table) (C : Type) (gen : bool -> form -> C) (seed : list ((form * bool) * C)) (reqs : list (form * bool)),
    covers T = true ->
    let build := fun r : form * bool => gen (snd r) (strip_form T (fst r)) in
    (forall r c, In (r, c) seed -> wf_form T (fst r) = true /\ c = build r) ->
    Forall (fun r => wf_form T (fst r) = true) reqs ->
    snd (serve _ _ _ keq1 (keyof1 T) build (preseed _ _ _ (keyof1 T) seed) reqs) = map build reqs.
Proof.
  intros T C gen seed reqs CV build HS HR.
  apply (memo_returns_requested _ _ _ keq1 (keyof1 T) build keq1_spec (fun r => wf_form T (fst r) = true)); auto.
  intros [f o] [g o'] Wf Wg E. unfold keyof1 in E. cbn [fst snd] in *.
  assert (E1 : form_key T f = form_key T g) by congruence.
  assert (E2 : o = o') by congruence. subst o'.
  unfold build; cbn [fst snd]. f_equal. apply form_key_separates_l; auto.
Qed.

(* level 2: module name -> loaded module *)
Lemma disk_name_functional_l digest s1 s2 : s1 = s2 -> modname digest s1 = modname digest s2.
Proof. intros ->; reflexivity. Qed.

Lemma append_inj_l (p a b : string) : (p ++ a = p ++ b)%string -> a = b.
Proof. induction p; simpl; intros H; auto. injection H as H. auto. Qed.

Lemma disk_cache_returns_requested_l :
  forall (M : Type) (digest : string -> string) (compile : string -> M) (seen : string -> Prop)
         (disk : list (string * M)) (srcs : list string),
    (* idealisation: the 64-bit SHAKE-128 prefix is injective on the sources that occur *)
    (forall a b, seen a -> seen b -> digest a = digest b -> a = b) ->
    (forall s m, In (s, m) disk -> seen s /\ m = compile s) ->
    Forall seen srcs ->
    snd (serve _ _ _ String.eqb (modname digest) compile (preseed _ _ _ (modname digest) disk) srcs) = map compile srcs.
Proof.
  intros M digest compile seen disk srcs Inj HD HS.
  apply (memo_returns_requested _ _ _ String.eqb (modname digest) compile String.eqb_eq seen); auto.
  intros a b Sa Sb E. unfold modname in E. apply append_inj_l in E. f_equal. apply Inj; auto.
Qed.

(* ------------------------------------------------------------------ *)
(* the reordering certificate *)

Lemma memb_in x l : memb x l = true <-> In x l.
Proof.
  unfold memb. rewrite existsb_exists. split.
  - intros [y [I E]]. apply Nat.eqb_eq in E. subst; auto.
  - intros I. exists x. split; auto. apply Nat.eqb_refl.
Qed.

Lemma disjoint_notin a b x : disjoint a b = true -> In x a -> memb x b = false.
Proof.
  unfold disjoint. rewrite forallb_forall. intros H I. specialize (H x I). apply negb_true_iff in H. exact H.
Qed.

Lemma list_eqb_eq a b : list_eqb a b = true -> a = b.
Proof.
  revert b. induction a as [|x a IH]; intros [|y b]; simpl; try discriminate; auto.
  intros H. apply andb_true_iff in H as [E H]. apply Nat.eqb_eq in E. f_equal; auto.
Qed.

Lemma stmt_eqb_eq s t : stmt_eqb s t = true -> s = t.
Proof.
  destruct s, t. unfold stmt_eqb; simpl. intros H.
  apply andb_true_iff in H as [H C]. apply andb_true_iff in H as [A B].
  apply Nat.eqb_eq in A. apply list_eqb_eq in B, C. subst. reflexivity.
Qed.

Section ExecProofs.
  Variable V : Type.
  Variable rhs : nat -> nat -> list V -> V.

  Definition eqenv (e1 e2 : env V) : Prop := forall x, e1 x = e2 x.

  Lemma exec1_ext s e1 e2 : eqenv e1 e2 -> eqenv (exec1 V rhs s e1) (exec1 V rhs s e2).
  Proof.
    intros H x. unfold exec1. destruct (memb x (defs s)); auto.
    f_equal. apply map_ext. exact H.
  Qed.

  Lemma exec_ext l : forall e1 e2, eqenv e1 e2 -> eqenv (exec V rhs l e1) (exec V rhs l e2).
  Proof.
    induction l as [|s l IH]; intros e1 e2 H; simpl; auto.
    apply IH. apply exec1_ext. exact H.
  Qed.

  Lemma map_unchanged t e l : disjoint (defs t) l = true -> map (exec1 V rhs t e) l = map e l.
  Proof.
    intros D. apply map_ext_in. intros y I. unfold exec1.
    destruct (memb y (defs t)) eqn:M; auto.
    apply memb_in in M. pose proof (disjoint_notin _ _ _ D M) as N.
    apply memb_in in I. congruence.
  Qed.

  Lemma exec1_comm s t e : indep s t = true ->
    eqenv (exec1 V rhs s (exec1 V rhs t e)) (exec1 V rhs t (exec1 V rhs s e)).
  Proof.
    unfold indep. intros H. apply andb_true_iff in H as [H D3]. apply andb_true_iff in H as [D1 D2].
    intros x. unfold exec1 at 1 3.
    destruct (memb x (defs s)) eqn:Ms; destruct (memb x (defs t)) eqn:Mt.
    - apply memb_in in Ms. rewrite (disjoint_notin _ _ _ D1 Ms) in Mt. discriminate.
    - rewrite (map_unchanged t e _ D3). unfold exec1. rewrite Ms. reflexivity.
    - rewrite (map_unchanged s e _ D2). unfold exec1. rewrite Mt. reflexivity.
    - unfold exec1. rewrite Ms, Mt. reflexivity.
  Qed.

  Lemma pull_sound t : forall a a', pull t a = Some a' ->
    forall e, eqenv (exec V rhs a e) (exec V rhs (t :: a') e).
  Proof.
    induction a as [|s a IH]; intros a' H e; simpl in H; try discriminate.
    destruct (stmt_eqb s t) eqn:E.
    - apply stmt_eqb_eq in E. injection H as <-. subst. intros x; reflexivity.
    - destruct (indep s t) eqn:I; try discriminate.
      destruct (pull t a) as [r|] eqn:Pl; try discriminate. injection H as <-.
      intros x. simpl.
      rewrite (IH r eq_refl (exec1 V rhs s e) x). simpl.
      apply exec_ext. intros y. symmetry. apply exec1_comm. exact I.
  Qed.

  Lemma reorder_sound_l : forall b a, reorder_ok a b = true ->
    forall e, eqenv (exec V rhs a e) (exec V rhs b e).
  Proof.
    induction b as [|t b IH]; intros a H e; simpl in H.
    - destruct a; try discriminate. intros x; reflexivity.
    - destruct (pull t a) as [a'|] eqn:Pl; try discriminate.
      intros x. rewrite (pull_sound t a a' Pl e x). simpl. apply IH. exact H.
  Qed.
End ExecProofs.

Lemma pull_perm t : forall a a', pull t a = Some a' -> Permutation a (t :: a').
Proof.
  induction a as [|s a IH]; intros a' H; simpl in H; try discriminate.
  destruct (stmt_eqb s t) eqn:E.
  - apply stmt_eqb_eq in E. injection H as <-. subst. apply Permutation_refl.
  - destruct (indep s t); try discriminate.
    destruct (pull t a) as [r|] eqn:Pl; try discriminate. injection H as <-.
    eapply Permutation_trans; [apply perm_skip; apply IH; reflexivity|apply perm_swap].
Qed.

Lemma reorder_perm_l : forall b a, reorder_ok a b = true -> Permutation a b.
Proof.
  induction b as [|t b IH]; intros a H; simpl in H.
  - destruct a; try discriminate. constructor.
  - destruct (pull t a) as [a'|] eqn:Pl; try discriminate.
    eapply Permutation_trans; [apply pull_perm; exact Pl|]. apply perm_skip. apply IH. exact H.
Qed.

Lemma reorder_refl : forall a, reorder_ok a a = true.
Proof.
  induction a as [|s a IH]; simpl; auto.
  assert (stmt_eqb s s = true) as ->.
  { destruct s. unfold stmt_eqb; simpl. rewrite Nat.eqb_refl.
    assert (R : forall l, list_eqb l l = true) by (induction l; simpl; auto; rewrite Nat.eqb_refl; auto).
    rewrite !R. reflexivity. }
  exact IH.
Qed.

(* ------------------------------------------------------------------ *)
(* histories of add / hash / compile on form objects with a memoised hash *)

Lemma Forall_firstn_ {A} (P : A -> Prop) i l : Forall P l -> Forall P (firstn i l).
Proof. intros F. rewrite <- (firstn_skipn i l) in F. apply Forall_app in F. tauto. Qed.
Lemma Forall_skipn_ {A} (P : A -> Prop) i l : Forall P l -> Forall P (skipn i l).
Proof. intros F. rewrite <- (firstn_skipn i l) in F. apply Forall_app in F. tauto. Qed.

Lemma Forall_upd {A} (P : A -> Prop) i x l : Forall P l -> P x -> Forall P (upd i x l).
Proof.
  intros F Px. unfold upd. apply Forall_app. split.
  - apply Forall_firstn_; auto.
  - constructor; auto. apply Forall_skipn_; auto.
Qed.

Lemma nth_error_Forall {A} (P : A -> Prop) l i x : Forall P l -> nth_error l i = Some x -> P x.
Proof. intros F H. rewrite Forall_forall in F. apply F. eapply nth_error_In; eauto. Qed.

Lemma wf_add_expr T f e : wf_form T f = true -> well_typed T e = true -> wf_form T (add_expr f e) = true.
Proof.
  unfold wf_form, add_expr; cbn [f_dim f_arity f_vec f_bfs f_inputs f_vars f_exprs]. intros W We.
  rewrite forallb_app. cbn [forallb]. rewrite We. cbn [andb]. rewrite andb_true_r. exact W.
Qed.

Section HistoryProofs.
  Variable T : table.
  Variable C : Type.
  Variable gen : bool -> form -> C.
  Hypothesis CV : covers T = true.

  Let build := fun r : form * bool => gen (snd r) (strip_form T (fst r)).
  Let okr := fun r : form * bool => wf_form T (fst r) = true.
  Let cinv := inv (hval * bool) (form * bool) C keq1 (keyof1 T) build okr.

  (* an object is consistent when its memoised hash (if any) is the key of its current content *)
  Definition obj_ok (o : obj) : Prop :=
    wf_form T (o_form o) = true /\ (forall k, o_memo o = Some k -> k = form_key T (o_form o)).

  Definition hinv (st : hstate C) : Prop := cinv (fst st) /\ Forall obj_ok (snd st).

  Definition op_ok (o : op) : Prop := match o with OAdd _ e => well_typed T e = true | _ => True end.

  Lemma key_sound1 : forall a b, okr a -> okr b -> keyof1 T a = keyof1 T b -> build a = build b.
  Proof.
    intros [f o] [f' o'] Wf Wg E. unfold keyof1, okr in *. cbn [fst snd] in *.
    assert (E1 : form_key T f = form_key T f') by congruence.
    assert (E2 : o = o') by congruence. subst o'.
    unfold build; cbn [fst snd]. f_equal. apply form_key_separates_l; auto.
  Qed.

  Lemma obj_hash_ok o : obj_ok o ->
    obj_ok (fst (obj_hash T o)) /\ snd (obj_hash T o) = form_key T (o_form o)
    /\ o_form (fst (obj_hash T o)) = o_form o /\ o_memo (fst (obj_hash T o)) = Some (form_key T (o_form o)).
  Proof.
    intros [W M]. unfold obj_hash. destruct (o_memo o) as [k|] eqn:E; cbn [fst snd o_form o_memo].
    - assert (Hk := M k eq_refl). subst k. repeat split; auto. intros k0 H. congruence.
    - repeat split; auto. cbn [o_memo o_form]. intros k H. congruence.
  Qed.

  (* with the guard `self.__hash is not None` every step preserves the invariant and every class
     handed out is the one of the object's current content *)
  Lemma hstep_good st o : hinv st -> op_ok o ->
    hinv (fst (hstep GHash T C gen st o)) /\ good_outcome T C gen st o (snd (hstep GHash T C gen st o)).
  Proof.
    destruct st as [cache objs]. intros [CI OI] Oo. simpl in CI, OI.
    destruct o as [i e|i|i od]; simpl.
    - destruct (nth_error objs i) as [ob|] eqn:N; simpl; [|split; [split|]; auto].
      pose proof (nth_error_Forall _ _ _ _ OI N) as [W M].
      unfold blocked. destruct (o_memo ob) as [k|] eqn:E; simpl; [split; [split|]; auto|].
      split; auto. split; auto. simpl. apply Forall_upd; auto.
      split; simpl.
      + apply wf_add_expr; auto.
      + intros k H. congruence.
    - destruct (nth_error objs i) as [ob|] eqn:N; simpl; [|split; [split|]; auto].
      pose proof (nth_error_Forall _ _ _ _ OI N) as OK.
      destruct (obj_hash_ok ob OK) as [OK' _].
      destruct (obj_hash T ob) as [ob' k]; simpl in *. split; auto. split; auto. simpl. apply Forall_upd; auto.
    - destruct (nth_error objs i) as [ob|] eqn:N; simpl; [|split; [split|]; auto].
      pose proof (nth_error_Forall _ _ _ _ OI N) as OK.
      destruct (obj_hash_ok ob OK) as [OK' [Hk [Hf Hm]]].
      destruct (obj_hash T ob) as [ob' k]; simpl in *. subst k.
      destruct OK as [W M].
      destruct (mlookup (hval * bool) C keq1 (form_key T (o_form ob), od) cache) as [c|] eqn:L; simpl.
      + split; [split; auto; simpl; apply Forall_upd; auto|].
        exists ob. split; auto.
        apply (CI (o_form ob, od) c); auto.
      + destruct (o_final ob'); simpl.
        * split; auto. split; auto. simpl. apply Forall_upd; auto.
        * split.
          -- split; simpl.
             ++ unfold cinv. rewrite <- Hf.
                apply (inv_cons _ _ _ keq1 (keyof1 T) build keq1_spec okr key_sound1 cache (o_form ob', od)); auto.
                unfold okr; simpl. rewrite Hf. exact W.
             ++ apply Forall_upd; auto.
          -- exists ob. split; auto. rewrite Hf. reflexivity.
  Qed.

  Lemma hist_returns_requested_l : forall ops st, hinv st -> Forall op_ok ops ->
    hrun_good GHash T C gen st ops.
  Proof.
    induction ops as [|o ops IH]; intros st I F; simpl; auto.
    inversion F as [|? ? Oo F']; subst.
    destruct (hstep_good st o I Oo) as [I' G].
    destruct (hstep GHash T C gen st o) as [st' r]. simpl in *. split; auto.
  Qed.

  (* fresh objects over a cache pre-seeded with fresh pairs *)
  Lemma hist_from_fresh_l : forall seed forms ops,
    (forall r c, In (r, c) seed -> okr r /\ c = build r) ->
    Forall (fun f => wf_form T f = true) forms -> Forall op_ok ops ->
    hrun_good GHash T C gen
      (preseed _ _ _ (keyof1 T) seed, map (fun f => mk_obj f None false) forms) ops.
  Proof.
    intros seed forms ops HS HF HO. apply hist_returns_requested_l; auto.
    split; simpl.
    - apply (preseed_inv _ _ _ keq1 (keyof1 T) build keq1_spec okr key_sound1). exact HS.
    - apply Forall_forall. intros o I. apply in_map_iff in I as [f [<- If]].
      rewrite Forall_forall in HF. split; simpl; auto. intros k H. discriminate.
  Qed.
End HistoryProofs.
