(* C07 -- the B-spline basis of an open knot vector is interpolatory at both ends:
   N_0(a) = 1, N_{n-1}(b) = 1, all other basis functions vanish there.  This discharges the
   hypothesis Hend of boundary_is_trace (Proofs.v).  Uses the end-point values of the
   Cox-de Boor reference (C02/Proofs_single.v), non-negativity and the partition of unity. *)
From Coq Require Import QArith Qcanon ZArith List Arith Bool Lia Lqa.
From Verif.lib Require Import Bsp.
From Verif.C02 Require Import Proofs Proofs_ref Proofs_ndu Proofs_deriv Proofs_single.
From Verif.C07 Require Import Model Proofs Discharge.
Import ListNotations.
Open Scope Qc_scope.

(* ---- non-negative terms that sum to the value of one of them ---------------------- *)

Lemma sumf_nonneg : forall f n a, (forall i, (a <= i < a + n)%nat -> 0 <= f i) -> 0 <= sumf f a n.
Proof.
  induction n; intros a H; cbn [sumf]; [apply Qcle_refl|].
  assert (A : 0 <= f a) by (apply H; lia).
  assert (B : 0 <= sumf f (S a) n) by (apply IHn; intros; apply H; lia).
  qc2q. lra.
Qed.

Lemma sumf_nonneg_zero : forall f n a, (forall i, (a <= i < a + n)%nat -> 0 <= f i) ->
  sumf f a n = 0 -> forall i, (a <= i < a + n)%nat -> f i = 0.
Proof.
  induction n; intros a H E i Hi; [lia|]. cbn [sumf] in E.
  assert (A : 0 <= f a) by (apply H; lia).
  assert (B : 0 <= sumf f (S a) n) by (apply sumf_nonneg; intros; apply H; lia).
  assert (Ea : f a = 0) by (qc2q; lra).
  assert (Eb : sumf f (S a) n = 0) by (qc2q; lra).
  destruct (Nat.eq_dec i a) as [->|Hne]; [exact Ea|].
  apply (IHn (S a)); [intros; apply H; lia|exact Eb|lia].
Qed.

Lemma unit_of_sum : forall f n j, (j < n)%nat -> (forall i, (i < n)%nat -> 0 <= f i) ->
  sumf f 0 n = 1 -> f j = 1 -> forall i, (i < n)%nat -> i <> j -> f i = 0.
Proof.
  intros f n j Hj Hpos Hsum Hone i Hi Hne.
  replace n with (j + (1 + (n - j - 1)))%nat in Hsum by lia.
  rewrite !sumf_app in Hsum. cbn [sumf Nat.add] in Hsum. rewrite Hone in Hsum.
  assert (A : 0 <= sumf f 0 j) by (apply sumf_nonneg; intros; apply Hpos; lia).
  assert (B : 0 <= sumf f (j + 1) (n - j - 1)) by (apply sumf_nonneg; intros; apply Hpos; lia).
  assert (Ea : sumf f 0 j = 0) by (qc2q; lra).
  assert (Eb : sumf f (j + 1) (n - j - 1) = 0) by (qc2q; lra).
  destruct (Nat.lt_ge_cases i j).
  - apply (sumf_nonneg_zero f j 0); [intros; apply Hpos; lia|exact Ea|lia].
  - apply (sumf_nonneg_zero f (n - j - 1) (j + 1)); [intros; apply Hpos; lia|exact Eb|lia].
Qed.

(* ---- the unit row as a functional --------------------------------------------------- *)

Lemma rdot_delta : forall n off j g,
  rdot off (map (fun i => if Nat.eqb i j then 1 else 0) (seq off n)) g
  = if ((off <=? j) && (j <? off + n))%nat then g j else 0.
Proof.
  induction n; intros off j g; cbn [seq map rdot].
  - destruct (Nat.leb_spec off j); destruct (Nat.ltb_spec j (off + 0)); simpl; try reflexivity; lia.
  - rewrite IHn. destruct (Nat.eqb_spec off j) as [->|Hne].
    + destruct (Nat.leb_spec (S j) j); [lia|]. simpl.
      destruct (Nat.leb_spec j j); [|lia]. destruct (Nat.ltb_spec j (j + S n)); [|lia]. simpl. ring.
    + destruct (Nat.leb_spec (S off) j); destruct (Nat.leb_spec off j); try lia;
      destruct (Nat.ltb_spec j (S off + n)); destruct (Nat.ltb_spec j (off + S n)); try lia; simpl; ring.
Qed.

(* the knots of an open knot vector: the first p+1 and the last p+1 coincide *)
Lemma first_knots : forall kv p m, kv_ok kv p -> (m <= p)%nat -> kn kv m = kn kv 0.
Proof.
  intros kv p m H Hm. pose proof (ok_sorted _ _ H) as Hs. pose proof (ok_len _ _ H) as Hl.
  apply Qcle_antisym.
  - rewrite <- (ok_first _ _ H). apply Hs; lia.
  - apply Hs; lia.
Qed.

Lemma last_knots : forall kv p m, kv_ok kv p -> (length kv - p - 1 <= m < length kv)%nat -> kn kv m = lastk kv.
Proof.
  intros kv p m H Hm. pose proof (ok_sorted _ _ H) as Hs. pose proof (ok_len _ _ H) as Hl.
  unfold lastk. apply Qcle_antisym.
  - apply Hs; lia.
  - rewrite <- (ok_last _ _ H). apply Hs; lia.
Qed.

(* ---- values of all basis functions at the two ends ----------------------------------- *)

Lemma N_at_left_end : forall kv p j, kv_ok kv p -> kn kv p < kn kv (S p) -> (j < numdofs kv p)%nat ->
  Nref kv p j (kn kv 0) = if Nat.eqb j 0 then 1 else 0.
Proof.
  intros kv p j H Hlt Hj. pose proof (ok_sorted _ _ H) as Hs. pose proof (ok_len _ _ H) as Hl.
  unfold numdofs in Hj.
  assert (H0 : Nref kv p 0 (kn kv 0) = 1).
  { apply N_left_end.
    - intros m Hm. simpl. apply (first_knots kv p m H Hm).
    - simpl. rewrite <- (first_knots kv p p H (Nat.le_refl p)). replace (p + 1)%nat with (S p) by lia. exact Hlt. }
  destruct (Nat.eqb_spec j 0) as [->|Hne]; [exact H0|].
  apply (unit_of_sum (fun i => Nref kv p i (kn kv 0)) (numdofs kv p) 0); unfold numdofs; try lia.
  - intros i Hi. apply N_nonneg_l; [exact Hs|lia].
  - apply N_partition_of_unity_all_l; [exact H|apply Qcle_refl|apply Hs; lia].
  - exact H0.
Qed.

Lemma N_at_right_end : forall kv p j, kv_ok kv p -> (j < numdofs kv p)%nat ->
  Nref kv p j (lastk kv) = if Nat.eqb j (numdofs kv p - 1) then 1 else 0.
Proof.
  intros kv p j H Hj. pose proof (ok_sorted _ _ H) as Hs. pose proof (ok_len _ _ H) as Hl.
  unfold numdofs in *.
  assert (H1 : Nref kv p (length kv - p - 1 - 1) (lastk kv) = 1).
  { apply N_right_end.
    - replace (length kv - p - 1 - 1)%nat with (length kv - p - 2)%nat by lia.
      rewrite <- (last_knots kv p (length kv - p - 1) H) by lia. apply (ok_last_span _ _ H).
    - intros m Hm. apply (last_knots kv p _ H). lia. }
  destruct (Nat.eqb_spec j (length kv - p - 1 - 1)) as [->|Hne]; [exact H1|].
  apply (unit_of_sum (fun i => Nref kv p i (lastk kv)) (length kv - p - 1) (length kv - p - 1 - 1)); try lia.
  - intros i Hi. apply N_nonneg_l; [exact Hs|lia].
  - apply (N_partition_of_unity_all_l kv p (lastk kv)); [exact H| |apply Qcle_refl].
    unfold lastk. apply Hs; lia.
  - exact H1.
Qed.

(* ---- Hend --------------------------------------------------------------------------- *)

(* an open knot vector whose first knot has multiplicity exactly p+1 (open_kv checks both) *)
Definition open_ends (kv : KV) : Prop :=
  kv_ok (fst kv) (snd kv) /\ kn (fst kv) (snd kv) < kn (fst kv) (S (snd kv)).

Definition end_coord (kv : KV) (side : nat) : Qc :=
  if Nat.eqb side 0 then kn (fst kv) 0 else lastk (fst kv).

Lemma end_in_dom : forall kv side, open_ends kv -> in_dom kv (end_coord kv side).
Proof.
  intros [kv p] side [H _]. pose proof (ok_sorted _ _ H) as Hs. pose proof (ok_len _ _ H) as Hl.
  unfold in_dom, end_coord, lastk. cbn [fst snd] in *. split; [exact H|].
  destruct (Nat.eqb side 0); split; try apply Qcle_refl; apply Hs; lia.
Qed.

Lemma hend_l : forall kv side, open_ends kv ->
  row_equiv (dense_row kv 0 0 (end_coord kv side)) ((if Nat.eqb side 0 then 0 else kv_n kv - 1)%nat, [1]).
Proof.
  intros kv side Ho g. pose proof (end_in_dom kv side Ho) as Hd.
  change (fst (dense_row kv 0 0 (end_coord kv side))) with 0%nat.
  rewrite (dense_row_ref kv 0 0 _ Hd (Nat.le_refl 0)).
  destruct kv as [kv p]. destruct Ho as [H Hlt]. cbn [fst snd] in *. unfold kv_n. cbn [fst snd].
  pose proof (ok_len _ _ H) as Hl.
  set (j0 := (if Nat.eqb side 0 then 0 else numdofs kv p - 1)%nat).
  assert (Hj0 : (j0 < numdofs kv p)%nat) by (unfold j0, numdofs; destruct (Nat.eqb side 0); lia).
  rewrite (map_ext_in _ (fun i => if Nat.eqb i j0 then 1 else 0)).
  - rewrite rdot_delta. cbn [rdot].
    destruct (Nat.leb_spec 0 j0); [|lia]. destruct (Nat.ltb_spec j0 (0 + numdofs kv p)); [|lia].
    simpl. ring.
  - intros j Hj. apply in_seq in Hj. cbn [dNref]. unfold end_coord, j0. cbn [fst].
    destruct (Nat.eqb side 0).
    + apply N_at_left_end; [exact H|exact Hlt|lia].
    + apply N_at_right_end; [exact H|lia].
Qed.

(* boundary(): coefficient slicing is the trace, without further hypotheses *)
Lemma boundary_trace_l : forall k1 kv k2 co0 m u1 u2 side c,
  length u1 = length k1 -> length u2 = length k2 -> open_ends kv ->
  let f := mk_bsp (k1 ++ kv :: k2) co0 m in
  g_val (boundary f (length k1) side) (u1 ++ u2) c = g_val f (u1 ++ end_coord kv side :: u2) c.
Proof.
  intros k1 kv k2 co0 m u1 u2 side c L1 L2 Ho f.
  exact (boundary_is_trace_l k1 kv k2 co0 m u1 u2 (end_coord kv side) side c L1 L2 (hend_l kv side Ho)).
Qed.

Lemma nurbs_boundary_trace_l : forall k1 kv k2 co0 m u1 u2 side c,
  length u1 = length k1 -> length u2 = length k2 -> open_ends kv ->
  let f := mk_bsp (k1 ++ kv :: k2) co0 m in
  n_val (boundary f (length k1) side) (u1 ++ u2) c = n_val f (u1 ++ end_coord kv side :: u2) c.
Proof.
  intros k1 kv k2 co0 m u1 u2 side c L1 L2 Ho f. unfold n_val.
  change (wcomp (boundary f (length k1) side)) with (wcomp f).
  unfold f. rewrite !boundary_trace_l by assumption. reflexivity.
Qed.

(* the generic route (_BoundaryFunction) and the coefficient route (boundary()) agree on a
   function whose support is not restricted *)
Lemma boundary_routes_coincide_l : forall k1 kv k2 co0 m u1 u2 side c,
  length u1 = length k1 -> length u2 = length k2 -> open_ends kv ->
  let f := mk_bsp (k1 ++ kv :: k2) co0 m in
  bf_grid (fun u => g_val f u c) (length k1) (bf_fixed f (length k1) side) (u1 ++ u2)
  = g_val (boundary f (length k1) side) (u1 ++ u2) c.
Proof.
  intros k1 kv k2 co0 m u1 u2 side c L1 L2 Ho f. unfold f. rewrite boundary_trace_l by assumption.
  unfold bf_grid, bf_fixed. cbn [kvs]. rewrite app_nth2 by lia. rewrite Nat.sub_diag. cbn [nth].
  unfold insert_at. rewrite firstn_app_len, skipn_app_len by exact L1.
  unfold end_coord, kv_support, lastk. destruct (Nat.eqb side 0); reflexivity.
Qed.

(* ---- support restriction ---------------------------------------------------------------- *)

(* boundary(bdspec) is the restriction of f to the coordinate support[axis][side], whether the support
   was restricted (generic _BoundaryFunction at the end of the RESTRICTED support) or not (sliced
   coefficients = trace at the end of the knot vector); evaluation itself never looks at the support *)
Lemma restricted_boundary_is_trace_l : forall ov k1 kv k2 co0 m u1 u2 side c,
  length u1 = length k1 -> length u2 = length k2 -> (ov = None -> open_ends kv) ->
  let f := mk_bsp (k1 ++ kv :: k2) co0 m in
  support_of ov f = match ov with Some s => s | None => map kv_support (k1 ++ kv :: k2) end
  /\ r_boundary_val ov f (length k1) side (u1 ++ u2) c
     = g_val f (u1 ++ r_fixed ov f (length k1) side :: u2) c.
Proof.
  intros ov k1 kv k2 co0 m u1 u2 side c L1 L2 Ho f. split; [destruct ov; reflexivity|].
  destruct ov as [s|].
  - unfold r_boundary_val, bf_grid, insert_at. rewrite firstn_app_len, skipn_app_len by exact L1. reflexivity.
  - unfold r_boundary_val. unfold f. rewrite boundary_trace_l by auto.
    unfold r_fixed, support_of. cbn [kvs]. rewrite map_app. cbn [map].
    rewrite app_nth2 by (rewrite map_length; lia). rewrite map_length, Nat.sub_diag. cbn [nth].
    unfold end_coord, kv_support, lastk. destruct (Nat.eqb side 0); reflexivity.
Qed.

(* ---- line_segment / cylinderize ------------------------------------------------------------ *)

Lemma line_kv_ok : forall s0 s1, s0 < s1 -> kv_ok (fst (line_kv s0 s1)) (snd (line_kv s0 s1)).
Proof.
  intros s0 s1 H. assert (Hle : s0 <= s1) by (apply Qclt_le_weak; exact H).
  constructor; cbn [line_kv fst snd length]; try lia; try reflexivity.
  - intros i j Hij Hj. cbn [length] in Hj.
    destruct i as [|[|[|[|i]]]]; destruct j as [|[|[|[|j]]]]; try lia; cbn [kn nth];
      try apply Qcle_refl; exact Hle.
  - cbn [kn nth Nat.sub]. exact H.
Qed.

Lemma line_in_dom : forall s0 s1 t, s0 < s1 -> s0 <= t -> t <= s1 -> in_dom (line_kv s0 s1) t.
Proof. intros. split; [apply line_kv_ok; assumption|]. split; assumption. Qed.

Lemma line_N1 : forall s0 s1 t, s0 < s1 -> s0 <= t -> t <= s1 ->
  Nref [s0; s0; s1; s1] 1 1 t = (t - s0) / (s1 - s0) /\ Nref [s0; s0; s1; s1] 1 0 t = (s1 - t) / (s1 - s0).
Proof.
  intros s0 s1 t H H0 H1.
  assert (E : Nref [s0; s0; s1; s1] 0 1 t = 1).
  { cbn [Nref]. rewrite in_span_intro; [reflexivity|]. unfold lastk. cbn [kn nth length Nat.sub].
    destruct (Qc_eq_dec t s1) as [->|Hne].
    - right. repeat split; auto.
    - left. split; [exact H0|]. qc2q. lra. }
  rewrite !Nref_S. cbn [kn nth Nat.add]. rewrite E.
  replace (s0 - s0) with 0 by ring. replace (s1 - s1) with 0 by ring. rewrite !Qcdiv_0_r.
  split; ring.
Qed.

Lemma line_value_l : forall z0 z1 s0 s1 t, s0 < s1 -> s0 <= t -> t <= s1 ->
  call_val (b_line z0 z1 s0 s1) [t] 0 = z0 + (z1 - z0) * ((t - s0) / (s1 - s0)).
Proof.
  intros z0 z1 s0 s1 t H H0 H1. unfold call_val. cbn [rev app].
  rewrite value_is_reference_l by (constructor; [apply line_in_dom; assumption|constructor]).
  unfold ref_rows, b_line, sdim, zerov, kv_n, numdofs. cbn [kvs co nc length repeat zip3 map line_kv fst snd seq Nat.sub tp_eval rdot dNref nth Nat.eqb].
  destruct (line_N1 s0 s1 t H H0 H1) as [E1 E0]. rewrite E1, E0.
  field. qc2q. lra.
Qed.

Lemma cylinderize_spec_l : forall f z0 z1 s0 s1 xs t c,
  s0 < s1 -> s0 <= t -> t <= s1 -> Forall2 in_dom (kvs f) (rev xs) ->
  call_val (b_cylinderize f z0 z1 s0 s1) (xs ++ [t]) c
  = if (c <? nc f)%nat then call_val f xs c
    else if Nat.eqb c (nc f) then z0 + (z1 - z0) * ((t - s0) / (s1 - s0))
    else call_val (b_line z0 z1 s0 s1) [t] (c - nc f).
Proof.
  intros f z0 z1 s0 s1 xs t c H H0 H1 Hd. unfold b_cylinderize.
  rewrite (tensor_product_dom_l (b_line z0 z1 s0 s1) f [t] xs c).
  - destruct (c <? nc f)%nat; [reflexivity|]. destruct (Nat.eqb_spec c (nc f)) as [->|]; [|reflexivity].
    rewrite Nat.sub_diag. apply line_value_l; assumption.
  - cbn [rev app b_line kvs]. constructor; [apply line_in_dom; assumption|constructor].
  - exact Hd.
Qed.

(* cylinderize with its documented defaults: without a support the new axis is parametrised over (0, 1)
   (NOT over (z0, z1)): z = z0 + t (z1 - z0); without any argument z = t *)
Lemma cylinderize_defaults_l : forall f z0 z1 xs t,
  0 <= t -> t <= 1 -> Forall2 in_dom (kvs f) (rev xs) ->
  call_val (b_cylinderize_default_support f z0 z1) (xs ++ [t]) (nc f) = z0 + t * (z1 - z0)
  /\ call_val (b_cylinderize_defaults f) (xs ++ [t]) (nc f) = t
  /\ forall c, (c < nc f)%nat ->
       call_val (b_cylinderize_default_support f z0 z1) (xs ++ [t]) c = call_val f xs c
       /\ call_val (b_cylinderize_defaults f) (xs ++ [t]) c = call_val f xs c.
Proof.
  intros f z0 z1 xs t H0 H1 Hd.
  assert (L : (0:Qc) < 1) by (qc2q; lra).
  unfold b_cylinderize_default_support, b_cylinderize_defaults.
  repeat split.
  - rewrite (cylinderize_spec_l f z0 z1 0 1 xs t (nc f) L H0 H1 Hd).
    rewrite Nat.ltb_irrefl, Nat.eqb_refl. field. qc2q. lra.
  - rewrite (cylinderize_spec_l f 0 1 0 1 xs t (nc f) L H0 H1 Hd).
    rewrite Nat.ltb_irrefl, Nat.eqb_refl. field. qc2q. lra.
  - rewrite (cylinderize_spec_l f z0 z1 0 1 xs t c L H0 H1 Hd).
    assert (E : (c <? nc f)%nat = true) by (apply Nat.ltb_lt; assumption). rewrite E. reflexivity.
  - rewrite (cylinderize_spec_l f 0 1 0 1 xs t c L H0 H1 Hd).
    assert (E : (c <? nc f)%nat = true) by (apply Nat.ltb_lt; assumption). rewrite E. reflexivity.
Qed.
