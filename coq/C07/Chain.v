(* C07 -- the chain rule of ComposedFunction.grid_jacobian as a matrix identity (over any commutative ring). *)
From Coq Require Import Ring.

(* ---- chain rule: the Jacobian of a composition, as a matrix identity --------------------- *)
Section Chain.
Variable F : Type.
Variables (f0 f1 : F) (fadd fmul fsub : F -> F -> F) (fopp : F -> F).
Hypothesis Rth : ring_theory f0 f1 fadd fmul fsub fopp (@eq F).
Add Ring Fring3 : Rth.
Notation "0" := f0.
Infix "+" := fadd.
Infix "*" := fmul.

Fixpoint sumn (n : nat) (f : nat -> F) : F := match n with O => 0 | S k => sumn k f + f k end.
(* np.matmul(jac2, jac1): (dim2 x m) . (m x s) *)
Definition matmul (m : nat) (A B : nat -> nat -> F) : nat -> nat -> F := fun i j => sumn m (fun a => A i a * B a j).
(* np.matmul(jac2[..., None, :], jac1)[..., 0, :] for a scalar geo2 whose Jacobian is the gradient g *)
Definition vecmat (m : nat) (g : nat -> F) (B : nat -> nat -> F) : nat -> F := fun j => sumn m (fun a => g a * B a j).
(* the first-order part of a map with Jacobian A in direction h *)
Definition mv (m : nat) (A : nat -> nat -> F) (h : nat -> F) : nat -> F := fun i => sumn m (fun a => A i a * h a).
Definition dot (m : nat) (g h : nat -> F) : F := sumn m (fun a => g a * h a).

Lemma sumn_ext : forall n f g, (forall k, f k = g k) -> sumn n f = sumn n g.
Proof. induction n; intros; simpl; [reflexivity|]. rewrite (IHn f g), H; auto. Qed.
Lemma sumn_add : forall n f g, sumn n (fun k => f k + g k) = sumn n f + sumn n g.
Proof. induction n; intros; simpl; [ring|]. rewrite IHn. ring. Qed.
Lemma sumn_scal_r : forall n c f, sumn n (fun k => f k * c) = sumn n f * c.
Proof. induction n; intros; simpl; [ring|]. rewrite IHn. ring. Qed.
Lemma sumn_scal_l : forall n c f, sumn n (fun k => c * f k) = c * sumn n f.
Proof. induction n; intros; simpl; [ring|]. rewrite IHn. ring. Qed.
Lemma sumn_swap : forall n m (f : nat -> nat -> F),
  sumn n (fun i => sumn m (fun j => f i j)) = sumn m (fun j => sumn n (fun i => f i j)).
Proof.
  induction n; intros; simpl.
  - induction m; simpl; [reflexivity|]. rewrite <- IHm. ring.
  - rewrite IHn, <- sumn_add. reflexivity.
Qed.

(* if geo1(x + e h) = y + e J1 h and geo2(y + e k) = z + e J2 k (first order), then
   geo2(geo1(x + e h)) = z + e J2 (J1 h): the Jacobian of the composition acts as matmul(J2, J1) *)
Lemma chain_rule_l : forall s m (J2 J1 : nat -> nat -> F) (h : nat -> F) i,
  mv s (matmul m J2 J1) h i = mv m J2 (mv s J1 h) i.
Proof.
  intros. unfold mv, matmul.
  rewrite (sumn_ext s _ (fun a => sumn m (fun a0 => J2 i a0 * J1 a0 a * h a))) by (intros; symmetry; apply sumn_scal_r).
  rewrite sumn_swap. apply sumn_ext. intros a.
  rewrite <- sumn_scal_l. apply sumn_ext. intros. ring.
Qed.

Lemma chain_rule_scalar_l : forall s m (g : nat -> F) (J1 : nat -> nat -> F) (h : nat -> F),
  dot s (vecmat m g J1) h = dot m g (mv s J1 h).
Proof.
  intros. unfold dot, vecmat, mv.
  rewrite (sumn_ext s _ (fun a => sumn m (fun a0 => g a0 * J1 a0 a * h a))) by (intros; symmetry; apply sumn_scal_r).
  rewrite sumn_swap. apply sumn_ext. intros a.
  rewrite <- sumn_scal_l. apply sumn_ext. intros. ring.
Qed.
End Chain.
