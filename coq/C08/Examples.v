(* C08 -- non-vacuity: concrete inputs meet the hypotheses of the theorems. *)
From Coq Require Import ZArith List Bool Arith Lia.
From Verif.C08 Require Import Model Proofs CoreSym Update Formats.
Import ListNotations.

(* chunk_tasks(range(10), 3) = [0..3], [4..7], [8,9]   (n = 10 // 3 + 1 = 4) *)
Example ex_chunks : chunk_tasks (seq 0 10) 3 = [[0;1;2;3];[4;5;6;7];[8;9]]%nat.
Proof. vm_compute. reflexivity. Qed.

(* more threads than tasks: one task per chunk, fewer chunks than threads *)
Example ex_chunks_small : chunk_tasks (seq 0 3) 8 = [[0];[1];[2]]%nat.
Proof. vm_compute. reflexivity. Qed.

(* a genuinely interleaved schedule of the pool's tasks for 5 indices, 2 threads
   (chunks [0,1,2] and [3,4]): thread 1 starts, thread 0 runs, thread 1 finishes *)
Definition ex_entry (i : nat) : Z := Z.of_nat (i * i + 1).
Definition ex_idx : list nat := [7; 3; 3; 0; 9]%nat.
Definition ex_sched : list (op nat Z) :=
  [Wr 3%nat (ex_entry 0); Wr 0%nat (ex_entry 7); Wr 1%nat (ex_entry 3); Wr 4%nat (ex_entry 9); Wr 2%nat (ex_entry 3)].

Example ex_pool_tasks : pool_tasks ex_entry ex_idx 2 =
  [[Wr 0%nat (ex_entry 7); Wr 1%nat (ex_entry 3); Wr 2%nat (ex_entry 3)]; [Wr 3%nat (ex_entry 0); Wr 4%nat (ex_entry 9)]].
Proof. vm_compute. reflexivity. Qed.

Example ex_interleave : interleave (pool_tasks ex_entry ex_idx 2) ex_sched.
Proof.
  rewrite ex_pool_tasks. unfold ex_sched.
  apply (il_step [[Wr 0%nat (ex_entry 7); Wr 1%nat (ex_entry 3); Wr 2%nat (ex_entry 3)]] _ [Wr 4%nat (ex_entry 9)] []).
  apply (il_step [] _ [Wr 1%nat (ex_entry 3); Wr 2%nat (ex_entry 3)] [[Wr 4%nat (ex_entry 9)]]).
  apply (il_step [] _ [Wr 2%nat (ex_entry 3)] [[Wr 4%nat (ex_entry 9)]]).
  apply (il_step [[Wr 2%nat (ex_entry 3)]] _ [] []).
  apply (il_step [] _ [] [[]]).
  constructor. repeat constructor.
Qed.

Example ex_pool_result :
  read_back 5 (exec Nat.eqb ex_sched (fun _ => 0%Z)) = map ex_entry ex_idx.
Proof. exact (pool_result_l nat Z ex_entry ex_idx 2 ex_sched (fun _ => 0%Z) ex_interleave). Qed.

(* symmetric pattern of a 3x3 tridiagonal matrix and a symmetric entry function *)
Open Scope Z_scope.
Definition ex_P : list (Z * Z) := [(0,0);(0,1);(1,0);(1,1);(1,2);(2,1);(2,2)].
Definition ex_e (p : Z * Z) : Z := 10 * (fst p + snd p) + fst p * snd p + 1.

Example ex_P_nodup : NoDup ex_P.
Proof. repeat (constructor; [simpl; intuition congruence|]). constructor. Qed.

Example ex_P_symmetric : forall p, In p ex_P -> In (swap p) ex_P.
Proof. intros p H. simpl in H. repeat (destruct H as [<-|H]; [simpl; tauto|]). destruct H. Qed.

Example ex_e_symmetric : forall p, In p ex_P -> ex_e (swap p) = ex_e p.
Proof. intros [a b] _. unfold ex_e, swap. cbn [fst snd]. ring. Qed.

Example ex_sym_triples :
  assemble_entries (fun v : Z => v) true ex_P ex_e =
  [((0,0),1); ((1,0),11); ((1,1),22); ((2,1),33); ((2,2),45); ((0,1),11); ((1,2),33)].
Proof. vm_compute. reflexivity. Qed.

Example ex_sym_upper : den 0 Z.add (assemble_entries (fun v : Z => v) true ex_P ex_e) (1,2) = 33.
Proof. vm_compute. reflexivity. Qed.

(* an unsymmetric entry function: the hypothesis of symmetric_equals_full is needed *)
Example ex_unsym_differs :
  den 0 Z.add (assemble_entries (fun v : Z => v) true ex_P (fun p => fst p)) (0,1) <>
  den 0 Z.add (assemble_entries (fun v : Z => v) false ex_P (fun p => fst p)) (0,1).
Proof. vm_compute. discriminate. Qed.

(* layouts: 2 levels of sizes (3,3) and (2,4), component block 3 x 2 (non-square) *)
Example ex_layout :
  key_packed [(3,3);(2,4)] (3,2) [(2,1);(1,3)] (2,1) = (17, 15) /\
  key_blocked [(3,3);(2,4)] (3,2) [(2,1);(1,3)] (2,1) = (17, 19) /\
  perm 6 3 17 = 17 /\ perm 12 2 15 = 19.
Proof. vm_compute. auto. Qed.

Example ex_layout_ranges :
  in_ranges (map fst [(2,1);(1,3)]) (map fst [(3,3);(2,4)]) /\ in_ranges (map snd [(2,1);(1,3)]) (map snd [(3,3);(2,4)]).
Proof. split; simpl; repeat (apply Forall2_cons; [lia|]); apply Forall2_nil. Qed.

(* generic core: one level with the dense 2x2 pattern, scalar "blocks"; B is NOT symmetric,
   so the result shows the skip rule (entry (0,1) never computed) and the mirrored store *)
Definition ex_b0 : list (Z * Z) := [(0,0);(0,1);(1,0);(1,1)].
Definition ex_t0 : list nat := [0;2;1;3]%nat.
Definition ex_B (i j : list Z) (c : nat) : Z := 10 * hd 0 i + hd 0 j + 1.

Example ex_transpose_idx : transpose_idx ex_b0 = Some ex_t0.
Proof. vm_compute. reflexivity. Qed.

Example ex_core_full : core_entries 0 1 1 ex_B false [(ex_b0, ex_t0)] = [1; 2; 11; 12].
Proof. vm_compute. reflexivity. Qed.

Example ex_core_sym : core_entries 0 1 1 ex_B true [(ex_b0, ex_t0)] = [1; 11; 11; 12].
Proof. vm_compute. reflexivity. Qed.

(* two levels, 2x2 component blocks: the tasks of the prange *)
Example ex_core_tasks_count :
  length (core_tasks 2 2 ex_B true [(ex_b0, ex_t0); (ex_b0, ex_t0)]) = 4%nat /\
  nth 1 (core_tasks 2 2 ex_B true [(ex_b0, ex_t0); (ex_b0, ex_t0)]) [] = [] /\
  length (nth 2 (core_tasks 2 2 ex_B true [(ex_b0, ex_t0); (ex_b0, ex_t0)]) []) = 32%nat.
Proof. vm_compute. auto. Qed.

Example ex_b0_nodup : NoDup (fst (ex_b0, ex_t0)).
Proof. simpl. repeat (constructor; [simpl; intuition congruence|]). constructor. Qed.

Example ex_transp_ok : transp_ok (ex_b0, ex_t0).
Proof.
  intros m Hm. simpl in Hm.
  destruct m as [|[|[|[|m]]]]; try (simpl in Hm; lia); vm_compute; split; try reflexivity; lia.
Qed.

(* symmetric_equals_full_core: two levels with the dense 2x2 pattern, 2x2 component blocks and a
   symmetric block function B(j,i)[col,row] = B(i,j)[row,col] *)
Definition ex_Bs (i j : list Z) (c : nat) : Z :=
  let r := Z.of_nat (c / 2) in let k := Z.of_nat (c mod 2) in
  (100 * (hd 0 i * hd 0 j) + 10 * (hd 0 (tl i) + hd 0 (tl j)) + (r + 1) * (k + 1) + (hd 0 i + r) * (hd 0 j + k))%Z.

Example ex_level_ok : Forall level_ok [(ex_b0, ex_t0); (ex_b0, ex_t0)].
Proof. repeat (apply Forall_cons; [split; [exact ex_b0_nodup | exact ex_transp_ok]|]). apply Forall_nil. Qed.

Example ex_core_sym_eq_full :
  core_entries 0%Z 2 2 ex_Bs true [(ex_b0, ex_t0); (ex_b0, ex_t0)] =
  core_entries 0%Z 2 2 ex_Bs false [(ex_b0, ex_t0); (ex_b0, ex_t0)]
  /\ nth 6 (core_entries 0%Z 2 2 ex_Bs true [(ex_b0, ex_t0); (ex_b0, ex_t0)]) 0%Z <> 0%Z.
Proof. vm_compute. split; [reflexivity | discriminate]. Qed.

(* update(): the layout of 'f*u*v*dx + inner(grad(f),grad(v))*u*dx' in 2D (input 2 = f):
   f_a at slot 0, f_grad_a at slots 1..2; a correct update() refreshes both *)
Close Scope Z_scope.
Definition ex_arrs : list arr := [(0, 2, 0, 1); (2, 2, 1, 2)].
Example ex_update_ok : update_okb ex_arrs [(2, ex_arrs)] [1] = true.
Proof. vm_compute. reflexivity. Qed.
(* the generated update() of seeded change C08-1 keeps only the last array per input: rejected *)
Example ex_update_seeded_rejected : update_okb ex_arrs [(2, [(2, 2, 1, 2)])] [1] = false.
Proof. vm_compute. reflexivity. Qed.
Example ex_update_stale :
  let D := fun (q : nat) (x : nat) (k : nat) => 100 * q + 10 * x + k in
  update D [(2, 2, 1, 2)] 7 (init D ex_arrs (fun _ => 3) (fun _ => 0)) 0 = 30 /\
  init D ex_arrs (override (fun _ => 3) 2 7) (fun _ => 0) 0 = 70.
Proof. vm_compute. auto. Qed.

(* formats: a COO list with a duplicate coordinate inside a 2 x 3 shape *)
Definition ex_T : list ((Z * Z) * Z) := [((1,0),5); ((0,1),2); ((1,0),7); ((1,2),1)]%Z.
Example ex_T_in_shape : forall t, In t ex_T ->
  (0 <= fst (fst t) < Z.of_nat 2)%Z /\ (0 <= snd (fst t) < Z.of_nat 3)%Z.
Proof. intros t H. simpl in H. repeat (destruct H as [<-|H]; [simpl; lia|]). destruct H. Qed.
Example ex_csr : coo_tocsr Z 2 ex_T = [[(1, 2)]; [(0, 5); (0, 7); (2, 1)]]%Z
  /\ den 0%Z Z.add (csr_triples Z (coo_tocsr Z 2 ex_T)) (1, 0)%Z = 12%Z
  /\ den 0%Z Z.add (csc_triples Z (coo_tocsc Z 3 ex_T)) (1, 0)%Z = 12%Z
  /\ canon_row Z Z.add [(2, 1); (0, 5); (0, 7)]%Z = [(0, 12); (2, 1)]%Z.
Proof. vm_compute. auto. Qed.
