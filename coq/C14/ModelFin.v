(* C14 -- histories with finalize() BETWEEN the joins (assemble.py, Multipatch.finalize):
   join..., finalize(), further joins, finalize() ...  finalize() removes the shared dofs emptied
   by merging, renumbers shared_per_patch through  new_idx = cumsum(nonempty) - 1  and truncates
   shared_dofs; the compacted state is what later joins (and later merges) continue from.
   Definitions only; proofs are in ProofsFin.v. *)
From Coq Require Import List Arith Bool.
From Verif.lib Require Import Slice.
From Verif.C14 Require Import Model.
Import ListNotations.

(* the renumbering branch of finalize *)
Definition compact (st : state) : state :=
  mk_state (map (fun e => (fst e, rank (sm st) (snd e))) (sm st)) (rank (sm st) (nsd st)).

(* finalize(): "if not all(self.shared_dofs): renumber" *)
Definition finalize_st (st : state) : state :=
  if forallb (used (sm st)) (seq 0 (nsd st)) then st else compact st.

(* histories of single dof identifications and finalize calls *)
Inductive pstep := PJoin (ab : dof * dof) | PFin.
Definition pstep_run (st : state) (s : pstep) : state :=
  match s with PJoin ab => join1 st ab | PFin => finalize_st st end.
Definition run_p (steps : list pstep) : state := fold_left pstep_run steps init.
Definition pairs_of (steps : list pstep) : list (dof * dof) :=
  flat_map (fun s => match s with PJoin ab => [ab] | PFin => [] end) steps.

(* histories of join_boundaries and finalize calls *)
Inductive hstep := HJoin (j : bjoin) | HFin.
Definition hstep_run (shapes : list (list nat)) (st : state) (s : hstep) : state :=
  match s with HJoin j => join_boundaries shapes st j | HFin => finalize_st st end.
Definition run_h (shapes : list (list nat)) (steps : list hstep) : state :=
  fold_left (hstep_run shapes) steps init.
Definition expand (shapes : list (list nat)) (s : hstep) : list pstep :=
  match s with HJoin j => map PJoin (bjoin_pairs shapes j) | HFin => [PFin] end.
Definition joins_of (steps : list hstep) : list bjoin :=
  flat_map (fun s => match s with HJoin j => [j] | HFin => [] end) steps.

(* what the correspondence run compares: numdofs and every patch_to_global_idx array after EVERY
   finalize of the history *)
Definition obs_t := (nat * list (list nat))%type.
Definition hstep_obs (shapes : list (list nat)) (Ns : list nat) (acc : state * list obs_t) (s : hstep)
  : state * list obs_t :=
  let st' := hstep_run shapes (fst acc) s in
  (st', match s with
        | HFin => snd acc ++ [(numdofs st' Ns, map (patch_to_global_idx st' Ns) (seq 0 (length Ns)))]
        | HJoin _ => snd acc
        end).
Definition observe_h (shapes : list (list nat)) (steps : list hstep) : list obs_t :=
  snd (fold_left (hstep_obs shapes (map prod_list shapes)) steps (init, [])).
