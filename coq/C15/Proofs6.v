(* C15 -- deepening round: zero part of asmatrix / reorder, kron_partial with repeated rows,
   sequential numbering and the reordered-tensor generator. *)
From Coq Require Import ZArith List Bool Lia Arith.
From Verif.C15 Require Import Model Spec Proofs Proofs3 Proofs4 Model2.
Import ListNotations.
Open Scope Z_scope.

(* ---- zero outside the pattern ---- *)
Lemma asmatrix_zero_outside_l : forall bs bidx data r c, length bs = length bidx ->
  ~ In (r, c) (kron_pattern bs bidx) -> dense_entry (asmatrix bs bidx data) r c = 0.
Proof. intros. rewrite asmatrix_spec_l by auto. apply dense_entry_combine_notin. auto. Qed.

Lemma reorder_zero_outside_l : forall bs bidx data axes r c,
  ~ In (r, c) (kron_pattern (reorder_bs bs axes) (reorder_bidx bidx axes)) ->
  dense_entry (reorder_asmatrix bs bidx data axes) r c = 0.
Proof.
  intros. unfold reorder_asmatrix. apply asmatrix_zero_outside_l; auto.
  unfold reorder_bs, reorder_bidx, pick. rewrite !map_length. reflexivity.
Qed.

Lemma wf_length : forall bs bidx, wf_structure bs bidx -> length bidx = length bs.
Proof. unfold wf_structure. induction 1; simpl; auto. Qed.

Lemma dims_pos_pick : forall (bs : list (Z * Z)) axes, Forall (fun a => (a < length bs)%nat) axes ->
  dims_pos (rowdims bs) -> dims_pos (coldims bs) ->
  dims_pos (rowdims (reorder_bs bs axes)) /\ dims_pos (coldims (reorder_bs bs axes)).
Proof.
  unfold dims_pos, rowdims, coldims, reorder_bs, pick. intros bs axes HA HR HC.
  rewrite Forall_forall in HR, HC.
  split; rewrite map_map; apply Forall_forall; intros x Hx; apply in_map_iff in Hx;
    destruct Hx as (a & <- & Ha); rewrite Forall_forall in HA; specialize (HA a Ha);
    [apply HR|apply HC]; apply in_map; apply nth_In; auto.
Qed.

(* the support of reorder(axes).asmatrix() lies inside the Kronecker product of the permuted
   level patterns *)
Lemma reorder_support_l : forall bs bidx data axes r c,
  wf_structure bs bidx -> dims_pos (rowdims bs) -> dims_pos (coldims bs) ->
  Forall (fun a => (a < length bidx)%nat) axes ->
  dense_entry (reorder_asmatrix bs bidx data axes) r c <> 0 ->
  kron_nonzero (reorder_bs bs axes) (reorder_bidx bidx axes) r c.
Proof.
  intros bs bidx data axes r c Hwf HR HC HA Hnz.
  assert (HA' : Forall (fun a => (a < length bs)%nat) axes) by (rewrite <- (wf_length _ _ Hwf); auto).
  destruct (dims_pos_pick bs axes HA' HR HC) as [P1 P2].
  apply kron_pattern_mem_l; auto; [apply wf_pick; auto|].
  destruct (in_dec (fun a b : Z * Z => ltac:(decide equality; apply Z.eq_dec)) (r, c)
              (kron_pattern (reorder_bs bs axes) (reorder_bidx bidx axes))) as [Hin|Hout]; auto.
  exfalso. apply Hnz. apply reorder_zero_outside_l. auto.
Qed.

(* ---- kron_partial, restrict=False, ANY list of valid rows: scipy sums duplicates, so row r
   of the result is (number of occurrences of r in rows) times row r of the Kronecker product ---- *)
Lemma kron_partial_dup_l : forall As rows ts, Forall rect As ->
  kron_partial As rows false = Some ts ->
  forall r c, 0 <= r < fst (shape (map mat_shape As)) -> 0 <= c < snd (shape (map mat_shape As)) ->
  dense_entry ts r c = occr rows r * kron_rec As r c.
Proof.
  intros As rows ts HR H r c Hr Hc. unfold kron_partial in H.
  destruct (nonzeros_for_rows (map mat_shape As) (map pattern_of As) rows) as [l|] eqn:E; [|discriminate].
  inversion H; subst ts. clear H. rewrite canon_dense.
  pose proof (wf_from_matrices As HR) as Hwf. destruct (shapes_pos As HR) as [P1 P2].
  apply rows_spec_l in E; auto.
  set (v := fun e : Z * Z => kron_pos As (fst e) (snd e)).
  replace (map _ l) with (map (fun e => (e, v e)) (map (fun t : Z * Z * Z => (fst (fst t), snd (fst t))) l)).
  2:{ rewrite map_map. apply map_ext. intros [[r0 c0] k]. reflexivity. }
  rewrite E, dense_entry_tagged, occ_rows. unfold v. simpl fst. simpl snd.
  unfold shape in Hr, Hc. simpl in Hr, Hc.
  rewrite <- (kron_pos_rec As r c) by (auto; lia).
  destruct (Z.eq_dec (kron_pos As r c) 0) as [Z0|NZ]; [rewrite Z0; ring|].
  rewrite occ_NoDup_in; [ring| |].
  - apply kron_pattern_NoDup; auto. apply Forall_forall. intros b Hb.
    apply in_map_iff in Hb. destruct Hb as (A & <- & _). apply pattern_of_NoDup.
  - apply kron_pattern_mem_l; auto. unfold kron_nonzero, shape. simpl. repeat split; try lia.
    apply prod_entries_nonzero; auto; apply from_seq_valid_l; auto.
Qed.

Lemma occr_count : forall rows r, occr rows r = Z.of_nat (count_occ Z.eq_dec rows r).
Proof.
  induction rows as [|r' rows IH]; intros r; simpl; auto.
  rewrite IH. destruct (Z.eq_dec r' r), (Z.eqb_spec r' r); try contradiction; lia.
Qed.

Lemma kron_partial_dup_count_l : forall As rows ts, Forall rect As ->
  kron_partial As rows false = Some ts ->
  forall r c, 0 <= r < fst (shape (map mat_shape As)) -> 0 <= c < snd (shape (map mat_shape As)) ->
  dense_entry ts r c = Z.of_nat (count_occ Z.eq_dec rows r) * kron_rec As r c.
Proof. intros. rewrite <- occr_count. eapply kron_partial_dup_l; eauto. Qed.

(* ---- sequential numbering of a level pattern and the reordered-tensor generator ---- *)
Lemma divmod_seq : forall n i j, 0 <= j < n -> (n * i + j) / n = i /\ (n * i + j) mod n = j.
Proof.
  intros n i j Hj. rewrite (Z.mul_comm n i). split.
  - rewrite Z.div_add_l by lia. rewrite Z.div_small by lia. lia.
  - rewrite Z.add_comm, Z.mod_add by lia. apply Z.mod_small. lia.
Qed.

Lemma gen_ms_cons : forall (s : list Z) sb k K, gen_ms (s :: sb) (k :: K) = nth k s 0 :: gen_ms sb K.
Proof. reflexivity. Qed.

Lemma rfm_gen : forall bs bidx K ii jj, wf_structure bs bidx -> cvalid bidx K ->
  rfm_acc ii jj (gen_ms (sequential_bidx_fixed bs bidx) K) bs =
  (to_seq_acc ii (map fst (sel_of (0, 0) bidx K)) (rowdims bs),
   to_seq_acc jj (map snd (sel_of (0, 0) bidx K)) (coldims bs)).
Proof.
  induction bs as [|[m n] bs IH]; intros bidx K ii jj Hwf Hc.
  - inversion Hwf; subst. reflexivity.
  - inversion Hwf as [|b mn bidx' bs' Hb Hwf']; subst.
    destruct K as [|k K]; [destruct Hc|]. destruct Hc as [Hk Hc].
    unfold sequential_bidx_fixed. cbn [combine map fst snd].
    rewrite gen_ms_cons.
    change (map (fun bb : Z * Z * pat => map (fun e : Z * Z => snd (fst bb) * fst e + snd e) (snd bb)) (combine bs bidx'))
      with (sequential_bidx_fixed bs bidx').
    cbn [rfm_acc sel_of map rowdims coldims fst snd to_seq_acc].
    set (f := fun e : Z * Z => n * fst e + snd e).
    rewrite (nth_indep (map f b) 0 (f (0, 0))) by (rewrite map_length; auto).
    rewrite map_nth.
    unfold pat_in_block in Hb. rewrite Forall_forall in Hb.
    specialize (Hb (nth k b (0, 0)) (nth_In b (0, 0) Hk)). simpl in Hb.
    unfold f. destruct (divmod_seq n (fst (nth k b (0, 0))) (snd (nth k b (0, 0)))) as [D1 D2]; [lia|].
    rewrite D1, D2. apply IH; auto.
Qed.

(* the entry the generator asks the assembler for at data index K is the matrix position of the
   K-th datum of the compact layout *)
Lemma tensor_gen_index_l : forall bs bidx K, wf_structure bs bidx -> cvalid bidx K ->
  tensor_gen_index bs bidx K = entry_of bs (sel_of (0, 0) bidx K)
  /\ tensor_gen_index bs bidx K = nth (pos_of bidx K) (kron_pattern bs bidx) (entry_of bs []).
Proof.
  intros bs bidx K Hwf Hc.
  assert (E : tensor_gen_index bs bidx K = entry_of bs (sel_of (0, 0) bidx K)).
  { unfold tensor_gen_index, reindex_from_multilevel. rewrite rfm_gen by auto. reflexivity. }
  split; auto. rewrite E. unfold kron_pattern. rewrite map_nth.
  destruct (product_nth (0, 0) bidx K Hc) as [_ ->]. reflexivity.
Qed.

(* the numbering as it stood is not injective on a rectangular block, and the generator built
   on it asks for a wrong matrix position *)
Lemma sequential_bidx_as_written_refuted_l :
  exists bs bidx K, wf_structure bs bidx /\ Forall (@NoDup (Z * Z)) bidx /\ cvalid bidx K /\
    tensor_gen_index_as_written bs bidx K <> entry_of bs (sel_of (0, 0) bidx K) /\
    nth 2 (nth 0 (sequential_bidx bs bidx) []) 0 = nth 3 (nth 0 (sequential_bidx bs bidx) []) 0.
Proof.
  exists [(2, 3)], [[(0, 0); (0, 1); (0, 2); (1, 0); (1, 1); (1, 2)]], [3%nat].
  split; [|split; [|split; [|split]]].
  - repeat constructor; simpl; lia.
  - constructor; [|constructor]. repeat (constructor; [simpl; intuition congruence|]). constructor.
  - simpl. lia.
  - vm_compute. congruence.
  - reflexivity.
Qed.
