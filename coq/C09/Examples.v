(* C09 -- non-vacuity: concrete inputs meeting the hypotheses of the theorems of Props.v. *)
From Coq Require Import QArith Qcanon ZArith List Arith Bool Lia.
From Verif.lib Require Import Bsp.
From Verif.C02 Require Import Proofs.
From Verif.C09 Require Import Model Proofs.
Import ListNotations.
Open Scope Qc_scope.

Definition q (n : Z) (d : positive) : Qc := Q2Qc (n # d).
(* degree 2, a double interior knot and a simple one, non-uniform *)
Definition ex_kv := map (fun z => q z 4) [0;0;0;1;1;2;4;4;4]%Z.
(* a 2-point rule with rational nodes (the theorems hold for ANY rule): weights sum to 2 *)
Definition ex_ref : rule := [(q (-1) 2, q 1 1); (q 1 2, q 1 1)].
Definition ex_pts := iterated ex_ref (mesh ex_kv).

Example ex_open : open_kv ex_kv 2 = true.
Proof. vm_compute. reflexivity. Qed.

Example ex_mesh : qc_list_eqb (mesh ex_kv) [q 0 1; q 1 4; q 1 2; q 1 1] = true /\ span_indices ex_kv = [2; 4; 5]%nat.
Proof. vm_compute. split; reflexivity. Qed.

Example ex_ref_weights : sumf snd ex_ref = Q2Qc (2 # 1).          (* hypothesis of iterated_weights_sum *)
Proof. apply Qc_is_canon. vm_compute. reflexivity. Qed.

Example ex_weights_positive : forallb (fun xw => qltb 0 (snd xw)) ex_pts = true.   (* hypothesis of gram_psd *)
Proof. vm_compute. reflexivity. Qed.

(* hypothesis of mass_sum: the collocation rows sum to one at every quadrature point *)
Example ex_pou : forallb (fun xw => qeqb (sumf (fun i => nth i (colloc_row ex_kv 2 0 (fst xw)) 0) (seq 0 6)) 1) ex_pts = true.
Proof. vm_compute. reflexivity. Qed.

(* hypothesis of stiff_kernel_const: the derivative rows sum to zero *)
Example ex_dsum : forallb (fun xw => qeqb (sumf (fun i => nth i (colloc_row ex_kv 2 1 (fst xw)) 0) (seq 0 6)) 0) ex_pts = true.
Proof. vm_compute. reflexivity. Qed.

(* the model on this input: a 6x6 matrix whose entries sum to the domain length, row sums of
   the stiffness matrix vanish, and the model equals the Gram form of the collocation rows *)
Example ex_mass_sum : sumq (map sumq (biform_1d ex_kv 2 0 0 ex_ref None)) = q 1 1.
Proof. apply Qc_is_canon. vm_compute. reflexivity. Qed.
Example ex_stiff_rows : forallb (fun row => qeqb (sumq row) 0) (biform_1d ex_kv 2 1 1 ex_ref None) = true
  /\ length (biform_1d ex_kv 2 1 1 ex_ref None) = 6%nat.
Proof. vm_compute. split; reflexivity. Qed.
Example ex_model_is_gram :
  mat_eqb (biform_1d ex_kv 2 1 0 ex_ref None) (gram_ref_mat ex_kv 2 ex_kv 2 1 0 ex_pts) = true.
Proof. vm_compute. reflexivity. Qed.

(* inverse closed forms: a matrix with non-zero determinant *)
Example ex_det3 : det3 (q 1 1) (q 2 1) (q 0 1) (q 0 1) (q 1 1) (q 3 1) (q 1 2) (q 0 1) (q 1 1) <> 0.
Proof. intro H. apply (f_equal (fun x : Qc => qeqb x 0)) in H. vm_compute in H. discriminate. Qed.

(* hypotheses of first_active_correct / asym_first_active / biform_1d_entry_partial:
   the example knot vector is a kv_ok one, the example rule has its nodes inside (-1,1) *)
Example ex_sorted : sorted ex_kv.
Proof.
  intros i j Hij Hj. change (length ex_kv) with 9%nat in Hj.
  assert (Hb : forallb (fun i => forallb (fun j => (j <? i)%nat || qleb (kn ex_kv i) (kn ex_kv j)) (seq 0 9)) (seq 0 9) = true)
    by (vm_compute; reflexivity).
  rewrite forallb_forall in Hb. specialize (Hb i ltac:(apply in_seq; lia)).
  rewrite forallb_forall in Hb. specialize (Hb j ltac:(apply in_seq; lia)).
  apply orb_true_iff in Hb. destruct Hb as [Hb|Hb].
  - apply Nat.ltb_lt in Hb. lia.
  - apply qleb_iff. exact Hb.
Qed.

Example ex_kv_ok : kv_ok ex_kv 2.
Proof.
  constructor.
  - vm_compute. lia.
  - exact ex_sorted.
  - apply qeqb_iff. vm_compute. reflexivity.
  - apply qeqb_iff. vm_compute. reflexivity.
  - apply qltb_iff. vm_compute. reflexivity.
Qed.

Example ex_ref_inside : forall xw, In xw ex_ref -> - (1) < fst xw /\ fst xw < 1.
Proof.
  intros xw H. assert (Hb : forallb (fun xw => qltb (- (1)) (fst xw) && qltb (fst xw) 1) ex_ref = true) by (vm_compute; reflexivity).
  rewrite forallb_forall in Hb. specialize (Hb xw H). apply andb_true_iff in Hb. destruct Hb as [A B].
  split; apply qltb_iff; assumption.
Qed.

Example ex_numspans : numspans ex_kv = 3%nat.
Proof. vm_compute. reflexivity. Qed.

(* and the conclusion on this input, computed: every node of every cell is found in the span the
   COO offsets assume *)
Example ex_first_active_computed :
  map (fun xw => first_active_at ex_kv 2 (fst xw)) ex_pts = [0; 0; 2; 2; 3; 3]%nat.
Proof. vm_compute. reflexivity. Qed.

(* ---- biform_1d_entry / biform_asym_entry / nqp_default_exact: hypotheses are satisfiable ---- *)
From Verif.C09 Require Import Proofs_entry.

(* the example knot vector and rule meet the hypotheses of biform_1d_entry (ex_kv_ok,
   ex_ref_inside); the grid hypothesis of biform_asym_entry holds for the default grid ... *)
Example ex_grid_refines : grid_refines ex_kv (mesh ex_kv).
Proof. exact (mesh_refines_self ex_kv 2 ex_kv_ok). Qed.

(* ... and for a second, coarser space of another degree on the same domain with the FINER mesh
   as quadrature grid (kv2 = degree 1, breakpoints 0, 1/2, 1) *)
Definition ex_kv2 := map (fun z => q z 4) [0;0;2;4;4]%Z.
Example ex_grid_refines2 : forall k, (S k < length (mesh ex_kv))%nat ->
  nth k (mesh ex_kv) 0 < nth (S k) (mesh ex_kv) 0 /\
  exists s, (S s < length ex_kv2)%nat /\ kn ex_kv2 s <= nth k (mesh ex_kv) 0 /\ nth (S k) (mesh ex_kv) 0 <= kn ex_kv2 (S s).
Proof.
  intros k Hk. change (length (mesh ex_kv)) with 4%nat in Hk.
  destruct k as [|[|[|k]]]; try lia.
  - split; [apply qltb_iff; vm_compute; reflexivity|]. exists 1%nat. repeat split; try (cbn; lia); apply qleb_iff; vm_compute; reflexivity.
  - split; [apply qltb_iff; vm_compute; reflexivity|]. exists 1%nat. repeat split; try (cbn; lia); apply qleb_iff; vm_compute; reflexivity.
  - split; [apply qltb_iff; vm_compute; reflexivity|]. exists 2%nat. repeat split; try (cbn; lia); apply qleb_iff; vm_compute; reflexivity.
Qed.

(* the conclusion of biform_1d_entry computed on the example: entry (1,2) of the (du,dv) = (1,0)
   matrix against the reference sum *)
Example ex_entry_computed :
  qeqb (entry1d ex_kv 2 1 0 ex_ref None 1 2)
       (sumf (fun xw => snd xw * (dNref ex_kv 0 2 1 (fst xw) * dNref ex_kv 1 2 2 (fst xw))) ex_pts) = true
  /\ qeqb (entry1d ex_kv 2 1 0 ex_ref None 1 2) 0 = false.
Proof. vm_compute. split; reflexivity. Qed.

(* nqp: default node counts, and an exact rule passing the table check with eps = 0 (midpoint rule) *)
Example ex_nqp : map (fun d => nqp_default 4 (fst d) (snd d)) [(0, 0); (1, 1); (2, 2); (1, 0)]%nat = [3; 2; 1; 2]%Z.
Proof. vm_compute. reflexivity. Qed.
Example ex_rule_ok : rule_ok 0 1 [(q 0 1, q 2 1)] = true.
Proof. vm_compute. reflexivity. Qed.
Example ex_nqp_is_one : Z.to_nat (nqp_default 4 2 2) = 1%nat.
Proof. vm_compute. reflexivity. Qed.

(* ---- polynomial form of the basis on a span, and the exact-integral theorems ---------------- *)
From Verif.C09 Require Import Poly Proofs_exact.

(* span 4 of ex_kv is (1/4, 1/2); function 2 of degree 2 restricted to it, as coefficients *)
Example ex_nref_poly : qc_list_eqb (nref_poly ex_kv 2 2 4) [q 4 1; q (-16) 1; q 16 1] = true
  /\ qeqb (Nref ex_kv 2 2 (q 3 8)) (peval (nref_poly ex_kv 2 2 4) (q 3 8)) = true
  /\ qeqb (Nref ex_kv 2 2 (q 3 8)) 0 = false.
Proof. vm_compute. repeat split; reflexivity. Qed.

Example ex_dnref_poly : qc_list_eqb (dnref_poly ex_kv 1 2 2 4) [q (-16) 1; q 32 1] = true.
Proof. vm_compute. reflexivity. Qed.

(* hypotheses of biform_1d_entry_exact_rule0 hold for (du,dv) = (2,2) with the midpoint rule
   (default node count 1, exact to degree 1, eps = 0): ex_kv_ok, ex_rule_ok, ex_nqp_is_one;
   and both sides of its conclusion, computed: a non-zero entry *)
Example ex_entry_exact :
  qeqb (entry1d ex_kv 2 2 2 [(q 0 1, q 2 1)] None 2 3)
       (sumf (fun k => span_half ex_kv (nth k (span_indices ex_kv) 0%nat)
                       * pint 0 (cell_poly ex_kv 2 2 2 2 3 (nth k (span_indices ex_kv) 0%nat))) (seq 0 (numspans ex_kv))) = true
  /\ qeqb (entry1d ex_kv 2 2 2 [(q 0 1, q 2 1)] None 2 3) 0 = false.
Proof. vm_compute. split; reflexivity. Qed.

(* hypothesis grid_in_spans of biform_asym_entry_exact_partial: the mesh of ex_kv inside the spans
   2, 4, 5 of ex_kv itself and inside the spans 1, 1, 2 of the coarser ex_kv2 *)
Example ex_grid_in_spans : grid_in_spans ex_kv (mesh ex_kv) [2; 4; 5]%nat /\ grid_in_spans ex_kv2 (mesh ex_kv) [1; 1; 2]%nat.
Proof.
  split; intros k Hk; change (length (mesh ex_kv)) with 4%nat in Hk;
    (destruct k as [|[|[|k]]]; [| | |lia]);
    (split; [apply qltb_iff; vm_compute; reflexivity|]); (split; [cbn; lia|]);
    split; apply qleb_iff; vm_compute; reflexivity.
Qed.
