(* C15 -- second model file (deepening round): sequential numbering of the level patterns and the
   index map of the reordered-tensor generator (mlmatrix.py:195-198, 467-482).  Definitions only. *)
From Coq Require Import ZArith List Bool Lia.
From Verif.C15 Require Import Model.
Import ListNotations.
Open Scope Z_scope.

(* MLStructure.sequential_bidx, REPAIRED (fixes/C15-sequential-bidx-rectangular.patch):
   `self.bs[j][1] * self.bidx[j][:,0] + self.bidx[j][:,1]`, i.e. n_k*i + j, the numbering that
   from_seq2 / reindex_from_multilevel / reindex_from_reordered decode (M // n_k, M % n_k).
   Model.sequential_bidx is the routine as it stood (m_k*i + j): identical on square blocks. *)
Definition sequential_bidx_fixed (bs : list (Z * Z)) (bidx : list pat) : list (list Z) :=
  map (fun bb => map (fun e => snd (fst bb) * fst e + snd e) (snd bb)) (combine bs bidx).

(* ReorderedTensorGenerator.multientryfunc (mlmatrix.py:474-480) for one multi-index K into the
   compact data tensor: Ms[k] = sparsidx[k][K[k]]; reindex_from_multilevel(Ms, bs) *)
Definition gen_ms (sb : list (list Z)) (K : list nat) : list Z :=
  map (fun sk => nth (snd sk) (fst sk) 0) (combine sb K).
Definition tensor_gen_index (bs : list (Z * Z)) (bidx : list pat) (K : list nat) : Z * Z :=
  reindex_from_multilevel (gen_ms (sequential_bidx_fixed bs bidx) K) bs.
(* the same with the numbering as it stood *)
Definition tensor_gen_index_as_written (bs : list (Z * Z)) (bidx : list pat) (K : list nat) : Z * Z :=
  reindex_from_multilevel (gen_ms (sequential_bidx bs bidx) K) bs.

(* all multi-indices into the data tensor, C order (what G[...] of the full tensor asks for) *)
Definition all_K (bidx : list pat) : list (list nat) := product (map (fun b => seq 0 (length b)) bidx).
Definition tensor_gen_all (bs : list (Z * Z)) (bidx : list pat) : list (Z * Z) :=
  map (tensor_gen_index bs bidx) (all_K bidx).
