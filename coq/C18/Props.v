(* C18 -- property theorems only.  Each is closed by [exact] of a lemma of Proofs.v and
   followed by Print Assumptions.  All ring statements hold for every commutative ring
   (R, 0, 1, +, *, -, opp) with Leibniz equality, in particular the reals; Model.centry /
   Model.tentry / Model.kentry are the entries of asarray() / asmatrix(). *)
From Coq Require Import List Arith ZArith Ring Field.
From Verif.C18 Require Import Model Proofs Proofs2 Proofs3 Proofs4 Proofs5.
Import ListNotations.

(* range(n)[i] for an int i (negative allowed) is an existing position. *)
Theorem int_index_in_range :
  forall (n : nat) (i : Z) (k : nat), wrap n i = Some k -> k < n.
Proof. exact wrap_in_range. Qed.
Print Assumptions int_index_in_range.

(* ... namely i itself, or i + n for a negative i (Python semantics). *)
Theorem int_index_wraps :
  forall (n : nat) (i : Z) (k : nat),
    wrap n i = Some k -> Z.of_nat k = (if (i <? 0)%Z then (i + Z.of_nat n)%Z else i).
Proof. exact wrap_value. Qed.
Print Assumptions int_index_wraps.

(* range(n)[start:stop:step]: for EVERY start/stop/step (None, negative, beyond the ends) only existing positions are selected. *)
Theorem slice_selects_existing_positions :
  forall (n : nat) (start stop step : option Z) (rs : list nat) (k : nat),
    slice_range n start stop step = Ok rs -> In k rs -> k < n.
Proof. exact slice_range_in_range. Qed.
Print Assumptions slice_selects_existing_positions.

(* the slice added for missing trailing axes selects everything in order. *)
Theorem slice_default_is_identity :
  forall n : nat, slice_range n None None None = Ok (seq 0 n).
Proof. exact slice_full. Qed.
Print Assumptions slice_default_is_identity.

(* _normalize_indices: on success there were at most ndim indices, the result has one entry per axis and every selected position exists. *)
Theorem normalize_indices_wellformed :
  forall (II : list index) (shape : list nat) (ax : list (list nat * bool)),
    normalize_indices II shape = Ok ax ->
    length II <= length shape /\
    length ax = length shape /\
    Forall2 (fun (n : nat) (a : list nat * bool) => forall k : nat, In k (fst a) -> k < n) shape ax.
Proof. exact normalize_indices_ok. Qed.
Print Assumptions normalize_indices_wellformed.

(* more indices than axes is a ValueError. *)
Theorem normalize_indices_too_many :
  forall (II : list index) (shape : list nat),
    length shape < length II -> normalize_indices II shape = Err ValueError.
Proof. exact normalize_indices_too_many. Qed.
Print Assumptions normalize_indices_too_many.

(* asarray(A + B) = asarray(A) + asarray(B) for canonical tensors of any order, shape and ranks (rank 0 included). *)
Theorem canon_add :
  forall (R : Type) (rO rI : R) (radd rmul rsub : R -> R -> R) (ropp : R -> R),
    ring_theory rO rI radd rmul rsub ropp eq ->
    forall (A B : list (mat R)) (idx : list nat) (ra rb : nat),
    uniform R A ra ->
    uniform R B rb ->
    length A = length B ->
    A <> [] ->
    centry R rO rI radd rmul (canon_add R A B) idx =
    radd (centry R rO rI radd rmul A idx) (centry R rO rI radd rmul B idx).
Proof. exact canon_add_spec. Qed.
Print Assumptions canon_add.

(* asarray(-A) = -asarray(A). *)
Theorem canon_neg :
  forall (R : Type) (rO rI : R) (radd rmul rsub : R -> R -> R) (ropp : R -> R),
    ring_theory rO rI radd rmul rsub ropp eq ->
    forall (A : list (mat R)) (idx : list nat),
    length idx = length A ->
    centry R rO rI radd rmul (canon_neg R ropp A) idx = ropp (centry R rO rI radd rmul A idx).
Proof. exact canon_neg_spec. Qed.
Print Assumptions canon_neg.

(* the row-selection half of CanonicalTensor.__getitem__: entry idx of the selected tensor is entry (rows[k][idx[k]])_k of the original, for arbitrary position lists (slices, steps, index lists). *)
Theorem canon_getitem_rows :
  forall (R : Type) (rO rI : R) (radd rmul : R -> R -> R) (A : list (mat R)) 
      (rss : list (list nat)) (idx : list nat),
    length rss = length A ->
    centry R rO rI radd rmul
      (map (fun p : mat R * list nat => mat_rows R (fst p) (snd p)) (combine A rss)) idx =
    centry R rO rI radd rmul A (sel_idx rss idx).
Proof. exact canon_rows_spec. Qed.
Print Assumptions canon_getitem_rows.

(* asarray(apply_tprod(Bs, A)) = apply_tprod(Bs, asarray(A)) for canonical A, None placeholders and fewer operators than axes included. *)
Theorem canon_nway :
  forall (R : Type) (rO rI : R) (radd rmul rsub : R -> R -> R) (ropp : R -> R),
    ring_theory rO rI radd rmul rsub ropp eq ->
    forall (A : list (mat R)) (Bs : list (option (mat R))) (idx : list nat),
    length Bs <= length A ->
    length idx = length A ->
    centry R rO rI radd rmul (factors_nway R rO radd rmul Bs A) idx =
    tprod R rO radd rmul (pad_ops R Bs (length A)) (centry R rO rI radd rmul A) idx.
Proof. exact canon_nway_spec. Qed.
Print Assumptions canon_nway.

(* modek_tprod(B, k, X): contracting axis k of a full array and leaving the new axis in position k
   (Y[..i_k..] = sum_j B[i_k,j] X[..j..]) is apply_tprod with identity placeholders on the first k axes,
   for every order, mode and rectangular B. *)
Theorem modek_tprod_spec :
  forall (R : Type) (rO : R) (radd rmul : R -> R -> R)
         (B : mat R) (k : nat) (f : list nat -> R) (idx : list nat),
  k < length idx ->
  tprod R rO radd rmul (modek_ops R B k) f idx = modek_entry R rO radd rmul B k f idx.
Proof. exact modek_spec. Qed.
Print Assumptions modek_tprod_spec.

(* asarray(-T) = -asarray(T) for Tucker tensors. *)
Theorem tucker_neg :
  forall (R : Type) (rO rI : R) (radd rmul rsub : R -> R -> R) (ropp : R -> R),
    ring_theory rO rI radd rmul rsub ropp eq ->
    forall (Us : list (mat R)) (X : full R) (idx : list nat),
    tentry R rO radd rmul Us (full_neg R ropp X) idx = ropp (tentry R rO radd rmul Us X idx).
Proof. exact tucker_neg_spec. Qed.
Print Assumptions tucker_neg.

(* asarray(apply_tprod(Bs, T)) = apply_tprod(Bs, asarray(T)) for Tucker T. *)
Theorem tucker_nway :
  forall (R : Type) (rO rI : R) (radd rmul rsub : R -> R -> R) (ropp : R -> R),
    ring_theory rO rI radd rmul rsub ropp eq ->
    forall (Us : list (mat R)) (X : full R) (Bs : list (option (mat R))) (idx : list nat),
    length Bs <= length Us ->
    length idx = length Us ->
    tentry R rO radd rmul (factors_nway R rO radd rmul Bs Us) X idx =
    tprod R rO radd rmul (pad_ops R Bs (length Us)) (tentry R rO radd rmul Us X) idx.
Proof. exact tucker_nway_spec. Qed.
Print Assumptions tucker_nway.

(* join_tucker_bases: TuckerTensor(U, X1) expands to T1 ... *)
Theorem join_bases_spec_first :
  forall (R : Type) (rO rI : R) (radd rmul rsub : R -> R -> R) (ropp : R -> R),
    ring_theory rO rI radd rmul rsub ropp eq ->
    forall (U1 : list (mat R)) (X1 : full R) (U2 : list (mat R)) (X2 : full R) (idx : list nat),
    core_ok R U1 X1 ->
    length U2 = length U1 ->
    length idx = length U1 ->
    tentry R rO radd rmul (join_U R U1 U2) (join_X1 R rO X1 X2) idx = tentry R rO radd rmul U1 X1 idx.
Proof. exact join_bases_1. Qed.
Print Assumptions join_bases_spec_first.

(* ... and TuckerTensor(U, X2) expands to T2. *)
Theorem join_bases_spec_second :
  forall (R : Type) (rO rI : R) (radd rmul rsub : R -> R -> R) (ropp : R -> R),
    ring_theory rO rI radd rmul rsub ropp eq ->
    forall (U1 : list (mat R)) (X1 : full R) (U2 : list (mat R)) (X2 : full R) (idx : list nat),
    core_ok R U1 X1 ->
    core_ok R U2 X2 ->
    length U2 = length U1 ->
    length idx = length U1 ->
    tentry R rO radd rmul (join_U R U1 U2) (join_X2 R rO X1 X2) idx = tentry R rO radd rmul U2 X2 idx.
Proof. exact join_bases_2. Qed.
Print Assumptions join_bases_spec_second.

(* asarray(T1 + T2) = asarray(T1) + asarray(T2). *)
Theorem tucker_add :
  forall (R : Type) (rO rI : R) (radd rmul rsub : R -> R -> R) (ropp : R -> R),
    ring_theory rO rI radd rmul rsub ropp eq ->
    forall (U1 : list (mat R)) (X1 : full R) (U2 : list (mat R)) (X2 : full R) (idx : list nat),
    core_ok R U1 X1 ->
    core_ok R U2 X2 ->
    length U2 = length U1 ->
    length idx = length U1 ->
    tentry R rO radd rmul (join_U R U1 U2) (full_add R radd (join_X1 R rO X1 X2) (join_X2 R rO X1 X2)) idx =
    radd (tentry R rO radd rmul U1 X1 idx) (tentry R rO radd rmul U2 X2 idx).
Proof. exact tucker_add_spec. Qed.
Print Assumptions tucker_add.

(* asarray(T1 - T2) = asarray(T1) - asarray(T2). *)
Theorem tucker_sub :
  forall (R : Type) (rO rI : R) (radd rmul rsub : R -> R -> R) (ropp : R -> R),
    ring_theory rO rI radd rmul rsub ropp eq ->
    forall (U1 : list (mat R)) (X1 : full R) (U2 : list (mat R)) (X2 : full R) (idx : list nat),
    core_ok R U1 X1 ->
    core_ok R U2 X2 ->
    length U2 = length U1 ->
    length idx = length U1 ->
    tentry R rO radd rmul (join_U R U1 U2) (full_sub R rsub (join_X1 R rO X1 X2) (join_X2 R rO X1 X2)) idx =
    rsub (tentry R rO radd rmul U1 X1 idx) (tentry R rO radd rmul U2 X2 idx).
Proof. exact tucker_sub_spec. Qed.
Print Assumptions tucker_sub.

(* TuckerTensor.from_tensor(CanonicalTensor) expands to the same array (order >= 1; with the repaired diagonal core, fixes/C18-tucker-from-1d-canonical.patch). *)
Theorem canon_to_tucker :
  forall (R : Type) (rO rI : R) (radd rmul rsub : R -> R -> R) (ropp : R -> R),
    ring_theory rO rI radd rmul rsub ropp eq ->
    forall (Xs : list (mat R)) (idx : list nat),
    uniform R Xs (crank R Xs) ->
    Xs <> [] ->
    length idx = length Xs ->
    tentry R rO radd rmul Xs (diag_core R rO rI (length Xs) (crank R Xs)) idx =
    centry R rO rI radd rmul Xs idx.
Proof. exact canon_to_tucker_spec. Qed.
Print Assumptions canon_to_tucker.

(* asmatrix(A.T) = asmatrix(A)^T, entry-wise. *)
Theorem canop_transpose :
  forall (R : Type) (rO rI : R) (radd rmul : R -> R -> R) (Op : canop R) (I J : list nat),
    kentry R rO rI radd rmul (canop_T R Op) I J = kentry R rO rI radd rmul Op J I.
Proof. exact canop_T_spec. Qed.
Print Assumptions canop_transpose.

(* asmatrix(A + B) = asmatrix(A) + asmatrix(B). *)
Theorem canop_add :
  forall (R : Type) (rO rI : R) (radd rmul rsub : R -> R -> R) (ropp : R -> R),
    ring_theory rO rI radd rmul rsub ropp eq ->
    forall (A B : canop R) (I J : list nat),
    kentry R rO rI radd rmul (canop_add R A B) I J =
    radd (kentry R rO rI radd rmul A I J) (kentry R rO rI radd rmul B I J).
Proof. exact canop_add_spec. Qed.
Print Assumptions canop_add.

(* asmatrix(-A) = -asmatrix(A). *)
Theorem canop_neg :
  forall (R : Type) (rO rI : R) (radd rmul rsub : R -> R -> R) (ropp : R -> R),
    ring_theory rO rI radd rmul rsub ropp eq ->
    forall (A : list (list (mat R))) (I J : list nat),
    Forall (fun t : list (mat R) => t <> []) A ->
    I <> [] ->
    J <> [] -> kentry R rO rI radd rmul (canop_neg R ropp A) I J = ropp (kentry R rO rI radd rmul A I J).
Proof. exact canop_neg_spec. Qed.
Print Assumptions canop_neg.

(* asmatrix(A * B) = asmatrix(A) . asmatrix(B): entry (I,J) is the sum over all intermediate multi-indices K. *)
Theorem canop_compose :
  forall (R : Type) (rO rI : R) (radd rmul rsub : R -> R -> R) (ropp : R -> R),
    ring_theory rO rI radd rmul rsub ropp eq ->
    forall (A B : list (list (mat R))) (I J dims : list nat),
    Forall (fun t : list (mat R) => map (mc R) t = dims) A ->
    Forall (fun t : list (mat R) => length t = length dims) B ->
    length I = length dims ->
    length J = length dims ->
    kentry R rO rI radd rmul (canop_mul R rO radd rmul A B) I J =
    ksum R rO radd dims
      (fun K : list nat => rmul (kentry R rO rI radd rmul A I K) (kentry R rO rI radd rmul B K J)).
Proof. exact canop_mul_spec. Qed.
Print Assumptions canop_compose.

(* asmatrix(A.kron(B)) is the Kronecker product of asmatrix(A) and asmatrix(B). *)
Theorem canop_kron :
  forall (R : Type) (rO rI : R) (radd rmul rsub : R -> R -> R) (ropp : R -> R),
    ring_theory rO rI radd rmul rsub ropp eq ->
    forall (A : list (list (mat R))) (B : canop R) (I1 I2 J1 J2 : list nat) (d : nat),
    Forall (fun t : list (mat R) => length t = d) A ->
    length I1 = d ->
    length J1 = d ->
    kentry R rO rI radd rmul (canop_kron R A B) (I1 ++ I2) (J1 ++ J2) =
    rmul (kentry R rO rI radd rmul A I1 J1) (kentry R rO rI radd rmul B I2 J2).
Proof. exact canop_kron_spec. Qed.
Print Assumptions canop_kron.

(* A.apply(X) on a full array is asmatrix(A) applied to vec(X). *)
Theorem canop_apply :
  forall (R : Type) (rO rI : R) (radd rmul rsub : R -> R -> R) (ropp : R -> R),
    ring_theory rO rI radd rmul rsub ropp eq ->
    forall (Op : list (list (mat R))) (f : list nat -> R) (I dims : list nat),
    Forall (fun t : list (mat R) => map (mc R) t = dims) Op ->
    length I = length dims ->
    canop_apply_entry R rO radd rmul Op f I =
    ksum R rO radd dims (fun J : list nat => rmul (kentry R rO rI radd rmul Op I J) (f J)).
Proof. exact canop_apply_spec. Qed.
Print Assumptions canop_apply.

(* rank_1_update: X[i,j] += alpha u[i] v[j]. *)
Theorem rank1_update_spec :
  forall (R : Type) (rO rI : R) (radd rmul rsub : R -> R -> R) (ropp : R -> R),
    ring_theory rO rI radd rmul rsub ropp eq ->
    forall (X : mat R) (alpha : R) (u v : nat -> R) (i j : nat),
    me R (rank_1_update R radd rmul X alpha u v) i j = radd (me R X i j) (rmul alpha (rmul (u i) (v j))).
Proof. exact rank1_update_entry. Qed.
Print Assumptions rank1_update_spec.

(* after one cross step of aca() with pivot (i, j0) the residual A - X vanishes on row i ... *)
Theorem aca_step_exact_on_cross_row :
  forall (R : Type) (rO rI : R) (radd rmul rsub : R -> R -> R) (ropp : R -> R),
    ring_theory rO rI radd rmul rsub ropp eq ->
    forall (A X : mat R) (i j0 : nat) (alpha : R) (j : nat),
    rmul alpha (aca_E_row R rsub A X i j0) = rI ->
    rsub (me R A i j) (me R (aca_step R radd rmul rsub A X i j0 alpha) i j) = rO.
Proof. exact aca_step_row. Qed.
Print Assumptions aca_step_exact_on_cross_row.

(* ... and on column j0 (alpha = 1 / E_row[j0]). *)
Theorem aca_step_exact_on_cross_col :
  forall (R : Type) (rO rI : R) (radd rmul rsub : R -> R -> R) (ropp : R -> R),
    ring_theory rO rI radd rmul rsub ropp eq ->
    forall (A X : mat R) (i j0 : nat) (alpha : R) (a : nat),
    rmul alpha (aca_E_row R rsub A X i j0) = rI ->
    rsub (me R A a j0) (me R (aca_step R radd rmul rsub A X i j0 alpha) a j0) = rO.
Proof. exact aca_step_col. Qed.
Print Assumptions aca_step_exact_on_cross_col.

(* PARTIAL: exact rank 1 is reproduced exactly by one cross at any non-zero pivot. *)
Theorem aca_rank_reduction_partial :
  forall (R : Type) (rO rI : R) (radd rmul rsub : R -> R -> R) (ropp : R -> R),
    ring_theory rO rI radd rmul rsub ropp eq ->
    forall (u v : nat -> R) (n m i j0 : nat) (alpha : R) (a b : nat),
    let A := {| mr := n; mc := m; me := fun p q : nat => rmul (u p) (v q) |} in
    let X := {| mr := n; mc := m; me := fun _ _ : nat => rO |} in
    rmul alpha (aca_E_row R rsub A X i j0) = rI ->
    me R (aca_step R radd rmul rsub A X i j0 alpha) a b = me R A a b.
Proof. exact aca_rank1. Qed.
Print Assumptions aca_rank_reduction_partial.

(* find_truncation_rank (the greedy loop of tensor.py:193-207 in exact arithmetic, any axis choice rule rltb): the squared Frobenius norm outside the returned shape is EXACTLY the accumulated error e of the slices cut off, and the test "tol^2 < e" is false - it never discards more than tol^2.  (The seeded change C18-1 broke the accumulator.) *)
Theorem truncation_error_bound :
  forall (R : Type) (rO rI : R) (radd rmul rsub : R -> R -> R) (ropp : R -> R),
    ring_theory rO rI radd rmul rsub ropp eq ->
    forall (rltb : R -> R -> bool) (X : full R) (tolsq : R) (shape' : list nat) (e : R),
    rltb tolsq rO = false ->
    find_truncation_rank R rO radd rmul rltb X tolsq = (shape', e) ->
    sqnorm R rO radd rmul (fsh R X) (fe R X) = radd (sqnorm R rO radd rmul shape' (fe R X)) e /\
    rltb tolsq e = false.
Proof. exact truncation_bound. Qed.
Print Assumptions truncation_error_bound.

(* the loop of apply_tprod as written (for i in reversed(range(n)): contract axis n-1 with ops[i] - or roll it for None - and put the new axis first) computes the multi-way product, for any number of operators, None placeholders and trailing axes. *)
Theorem apply_tprod_loop :
  forall (R : Type) (rO : R) (radd rmul : R -> R -> R) (Bs : list (option (mat R))) 
      (f : list nat -> R) (idx : list nat),
    length Bs <= length idx -> tprod_loop R rO radd rmul Bs f idx = tprod R rO radd rmul Bs f idx.
Proof. exact tprod_loop_spec. Qed.
Print Assumptions apply_tprod_loop.

(* entry (I,J) of asmatrix(A.slice(limits)) is entry (lo+I, lo+J) of asmatrix(A). *)
Theorem canop_slice :
  forall (R : Type) (rO rI : R) (radd rmul : R -> R -> R) (Op : list (list (mat R)))
      (lims : list (nat * nat)) (I J : list nat),
    Forall (fun t : list (mat R) => length t = length lims) Op ->
    kentry R rO rI radd rmul (canop_slice R Op lims) I J =
    kentry R rO rI radd rmul Op (add_idx I (map fst lims)) (add_idx J (map fst lims)).
Proof. exact canop_slice_spec. Qed.
Print Assumptions canop_slice.

(* pad: apply_tprod with the padding matrices is np.pad with zeros (entry idx is X[idx - before] inside the original block, 0 outside), None = (0,0). *)
Theorem pad_spec :
  forall (R : Type) (rO rI : R) (radd rmul rsub : R -> R -> R) (ropp : R -> R),
    ring_theory rO rI radd rmul rsub ropp eq ->
    forall (widths : list (option (nat * nat))) (shape : list nat) (f : list nat -> R) (idx : list nat),
    length shape = length widths ->
    length idx = length widths ->
    (forall J : list nat, all_lt J shape = false -> f J = rO) ->
    tprod R rO radd rmul (pad_ops_of R rO rI widths shape) f idx =
    (if (all_ge idx (pad_before widths) && all_lt (sub_idx idx (pad_before widths)) shape)%bool
     then f (sub_idx idx (pad_before widths))
     else rO).
Proof. exact pad_tprod. Qed.
Print Assumptions pad_spec.

(* ... for canonical tensors *)
Theorem pad_spec_canon :
  forall (R : Type) (rO rI : R) (radd rmul rsub : R -> R -> R) (ropp : R -> R),
    ring_theory rO rI radd rmul rsub ropp eq ->
    forall (widths : list (option (nat * nat))) (A : list (mat R)) (idx : list nat),
    length A = length widths ->
    length idx = length widths ->
    (forall J : list nat, all_lt J (cshape R A) = false -> centry R rO rI radd rmul A J = rO) ->
    centry R rO rI radd rmul (factors_nway R rO radd rmul (pad_ops_of R rO rI widths (cshape R A)) A) idx =
    (if (all_ge idx (pad_before widths) && all_lt (sub_idx idx (pad_before widths)) (cshape R A))%bool
     then centry R rO rI radd rmul A (sub_idx idx (pad_before widths))
     else rO).
Proof. exact pad_canon_spec. Qed.
Print Assumptions pad_spec_canon.

(* ... and Tucker tensors. *)
Theorem pad_spec_tucker :
  forall (R : Type) (rO rI : R) (radd rmul rsub : R -> R -> R) (ropp : R -> R),
    ring_theory rO rI radd rmul rsub ropp eq ->
    forall (widths : list (option (nat * nat))) (Us : list (mat R)) (X : full R) (idx : list nat),
    length Us = length widths ->
    length idx = length widths ->
    (forall J : list nat, all_lt J (tshape R Us) = false -> tentry R rO radd rmul Us X J = rO) ->
    tentry R rO radd rmul (factors_nway R rO radd rmul (pad_ops_of R rO rI widths (tshape R Us)) Us) X idx =
    (if (all_ge idx (pad_before widths) && all_lt (sub_idx idx (pad_before widths)) (tshape R Us))%bool
     then tentry R rO radd rmul Us X (sub_idx idx (pad_before widths))
     else rO).
Proof. exact pad_tucker_spec. Qed.
Print Assumptions pad_spec_tucker.

(* CanonicalTensor.squeeze(axes): the entry of the result at idx is the entry of the original with 0 at the squeezed axes, for any duplicate-free axes (in any order) that leave at least one axis. *)
Theorem canon_squeeze :
  forall (R : Type) (rO rI : R) (radd rmul rsub : R -> R -> R) (ropp : R -> R),
    ring_theory rO rI radd rmul rsub ropp eq ->
    forall (Xs : list (mat R)) (axes idx : list nat),
    uniform R Xs (crank R Xs) ->
    NoDup axes ->
    (forall a : nat, In a axes -> a < length Xs) ->
    keep 0 Xs axes <> [] ->
    length idx = length (keep 0 Xs axes) ->
    centry R rO rI radd rmul (canon_squeeze_some R rO rI rmul Xs axes) idx =
    centry R rO rI radd rmul Xs (unsqueeze (length Xs) axes idx).
Proof. exact canon_squeeze_spec. Qed.
Print Assumptions canon_squeeze.

(* CanonicalTensor.__getitem__ IN FULL: for every accepted index expression (ints, negative ints, slices with steps, index lists, missing trailing axes) the result - a tensor over the axes not indexed by an int, or the scalar when all are - has exactly the selected entries of the original. *)
Theorem canon_getitem :
  forall (R : Type) (rO rI : R) (radd rmul rsub : R -> R -> R) (ropp : R -> R),
    ring_theory rO rI radd rmul rsub ropp eq ->
    forall (Xs : list (mat R)) (II : list index) (ax : list (list nat * bool)) 
      (t' : tens R) (idx' : list nat),
    uniform R Xs (crank R Xs) ->
    Xs <> [] ->
    normalize_indices II (cshape R Xs) = Ok ax ->
    getitem R rO rI radd rmul (TCanon R Xs) II = Ok t' ->
    length idx' = length (filter negb (map snd ax)) ->
    entry R rO rI radd rmul t' idx' =
    centry R rO rI radd rmul Xs (sel_idx (sel_ranges ax) (unsqb (map snd ax) idx')).
Proof. exact canon_getitem_spec. Qed.
Print Assumptions canon_getitem.

(* TuckerTensor.squeeze(axes): same statement for Tucker tensors (core contracted with the singleton factors). *)
Theorem tucker_squeeze :
  forall (R : Type) (rO rI : R) (radd rmul rsub : R -> R -> R) (ropp : R -> R),
    ring_theory rO rI radd rmul rsub ropp eq ->
    forall (Us : list (mat R)) (X : full R) (axes idx : list nat),
    core_ok R Us X ->
    length idx = length (keep 0 Us axes) ->
    let
    '(Us', X') := tucker_squeeze_some R rO radd rmul Us X axes in
     tentry R rO radd rmul Us' X' idx = tentry R rO radd rmul Us X (unsqueeze (length Us) axes idx).
Proof. exact tucker_squeeze_spec. Qed.
Print Assumptions tucker_squeeze.

(* CanonicalTensor.from_tensor(TuckerTensor) expands to the same array whenever the dropped core entries are exactly zero. *)
Theorem tucker_to_canon :
  forall (R : Type) (rO rI : R) (radd rmul rsub : R -> R -> R) (ropp : R -> R),
    ring_theory rO rI radd rmul rsub ropp eq ->
    forall (nonzero : R -> bool) (Us : list (mat R)) (X : full R) (idx : list nat),
    (forall a : R, nonzero a = false -> a = rO) ->
    core_ok R Us X ->
    Us <> [] ->
    length idx = length Us ->
    centry R rO rI radd rmul (tucker_to_canon R rO rmul nonzero Us X) idx = tentry R rO radd rmul Us X idx.
Proof. exact tucker_to_canon_spec. Qed.
Print Assumptions tucker_to_canon.

(* PARTIAL: TensorGenerator.__getitem__ for index expressions without int indices (slices with steps,
   index lists, missing trailing axes): the returned array has shape shape_new and, at C-order position
   ravel(shape_new, idx), exactly the wrapped entry at the selected positions.
   NOT PROVED: the same with int indices, i.e. that np.squeeze of the unit axes leaves the C-order
   position unchanged (ravel invariance under dropping axes of length 1). *)
Theorem generator_getitem_spec_partial :
  forall (R : Type) (shape : list nat) (f : list nat -> R) (II : list index)
      (ax : list (list nat * bool)) (sh : list nat) (data : list R) (idx : list nat) 
      (d : R),
    normalize_indices II shape = Ok ax ->
    sel_singletons 0 ax = [] ->
    gen_getitem R shape f II = Ok (sh, data) ->
    length idx = length ax ->
    all_lt idx (sel_shape ax) = true ->
    sh = sel_shape ax /\ nth (ravel sh idx) data d = f (sel_idx (sel_ranges ax) idx).
Proof. exact generator_getitem_noint. Qed.
Print Assumptions generator_getitem_spec_partial.

(* TensorGenerator.__getitem__ for EVERY accepted index expression (ints, negative ints, slices with steps, index lists, missing trailing axes): the result has the shape of the axes not indexed by an int and holds, at C-order position ravel(shape, idx), exactly the wrapped entry at the selected positions (np.squeeze of the unit axes does not move the C-order position: Proofs4.ravel_keepb). *)
Theorem generator_getitem_spec :
  forall (R : Type) (shape : list nat) (f : list nat -> R) (II : list index)
      (ax : list (list nat * bool)) (sh : list nat) (data : list R) (idx : list nat) 
      (d : R),
    normalize_indices II shape = Ok ax ->
    gen_getitem R shape f II = Ok (sh, data) ->
    length idx = length (filter negb (map snd ax)) ->
    all_lt idx sh = true ->
    sh = keepb (sel_shape ax) (map snd ax) /\
    nth (ravel sh idx) data d = f (sel_idx (sel_ranges ax) (unsqb (map snd ax) idx)).
Proof. exact generator_getitem_full. Qed.
Print Assumptions generator_getitem_spec.

(* TuckerTensor.__getitem__ IN FULL (row selection of every factor + squeeze of the int-indexed axes, scalar for all ints), for every accepted index expression. *)
Theorem tucker_getitem :
  forall (R : Type) (rO rI : R) (radd rmul rsub : R -> R -> R) (ropp : R -> R),
    ring_theory rO rI radd rmul rsub ropp eq ->
    forall (Us : list (mat R)) (X : full R) (II : list index) (ax : list (list nat * bool)) 
      (t' : tens R) (idx' : list nat),
    core_ok R Us X ->
    Us <> [] ->
    normalize_indices II (tshape R Us) = Ok ax ->
    getitem R rO rI radd rmul (TTucker R Us X) II = Ok t' ->
    length idx' = length (filter negb (map snd ax)) ->
    entry R rO rI radd rmul t' idx' =
    tentry R rO radd rmul Us X (sel_idx (sel_ranges ax) (unsqb (map snd ax) idx')).
Proof. exact tucker_getitem_spec. Qed.
Print Assumptions tucker_getitem.

(* Wedderburn rank reduction, explicit: over a field, if R = sum_{k<r+1} u_k v_k^T, the pivot R[i,j0] is non-zero and v_m[j0] <> 0, the residual after the cross R - R[:,j0] R[i,:] / R[i,j0] is the sum of the r outer products u'_k v'_k^T (k <> m) with u'_k = u_k - (u_k[i]/p) R[:,j0], v'_k = v_k - (v_k[j0]/v_m[j0]) v_m. *)
Theorem wedderburn_rank_reduction_step :
  forall (F : Type) (rO rI : F) (radd rmul rsub : F -> F -> F) (ropp : F -> F) 
      (rdiv : F -> F -> F) (rinv : F -> F),
    field_theory rO rI radd rmul rsub ropp rdiv rinv eq ->
    forall (r : nat) (u v Rm : nat -> nat -> F) (i j0 m : nat),
    outer_sum F rO radd rmul (S r) u v Rm ->
    Rm i j0 <> rO ->
    m <= r ->
    v m j0 <> rO ->
    outer_sum F rO radd rmul r (fun k : nat => wu F rmul rsub rdiv u Rm i j0 (skip m k))
      (fun k : nat => wv F rmul rsub rdiv v j0 m (skip m k)) (wstep F rmul rsub rdiv Rm i j0).
Proof. exact wedderburn_explicit. Qed.
Print Assumptions wedderburn_rank_reduction_step.

(* one accepted cross at a non-zero pivot reduces the (outer-product) rank by one. *)
Theorem aca_rank_reduction_step :
  forall (F : Type) (rO rI : F) (radd rmul rsub : F -> F -> F) (ropp : F -> F) 
      (rdiv : F -> F -> F) (rinv : F -> F),
    field_theory rO rI radd rmul rsub ropp rdiv rinv eq ->
    (forall x y : F, {x = y} + {x <> y}) ->
    forall (r : nat) (Rm : nat -> nat -> F) (i j0 : nat),
    has_rank F rO radd rmul (S r) Rm ->
    Rm i j0 <> rO -> has_rank F rO radd rmul r (wstep F rmul rsub rdiv Rm i j0).
Proof. exact wedderburn_step. Qed.
Print Assumptions aca_rank_reduction_step.

(* after r crosses with non-zero pivots the residual of a sum of r outer products vanishes identically. *)
Theorem aca_rank_reduction_residual :
  forall (F : Type) (rO rI : F) (radd rmul rsub : F -> F -> F) (ropp : F -> F) 
      (rdiv : F -> F -> F) (rinv : F -> F),
    field_theory rO rI radd rmul rsub ropp rdiv rinv eq ->
    (forall x y : F, {x = y} + {x <> y}) ->
    forall (pivots : list (nat * nat)) (r : nat) (Rm : nat -> nat -> F),
    has_rank F rO radd rmul r Rm ->
    length pivots = r ->
    pivots_ok F rO rmul rsub rdiv pivots Rm ->
    forall a b : nat, Proofs3.resid F rmul rsub rdiv pivots Rm a b = rO.
Proof. exact rank_reduction. Qed.
Print Assumptions aca_rank_reduction_residual.

(* lowrank.aca in exact arithmetic (Model.aca_step iterated): if A - X is a sum of r outer products, r accepted crosses - alpha * E_row[j0] = 1, i.e. every pivot non-zero - reproduce A exactly. *)
Theorem aca_rank_reduction :
  forall (F : Type) (rO rI : F) (radd rmul rsub : F -> F -> F) (ropp : F -> F) 
      (rdiv : F -> F -> F) (rinv : F -> F),
    field_theory rO rI radd rmul rsub ropp rdiv rinv eq ->
    (forall x y : F, {x = y} + {x <> y}) ->
    forall (steps : list (nat * nat * F)) (r : nat) (A X : mat F),
    has_rank F rO radd rmul r (fun a b : nat => rsub (me F A a b) (me F X a b)) ->
    length steps = r ->
    steps_ok F rI radd rmul rsub A X steps ->
    forall a b : nat, me F (aca_run F radd rmul rsub A X steps) a b = me F A a b.
Proof. exact aca_exact_after_r. Qed.
Print Assumptions aca_rank_reduction.

(* energy identity behind the gta error history: extending an orthonormal family by q_m lowers the squared error of the orthogonal projection by exactly the square <q_m,a>^2 (hence the history is non-increasing in every ordered field). *)
Theorem error_history_energy_step :
  forall (R : Type) (rO rI : R) (radd rmul rsub : R -> R -> R) (ropp : R -> R),
    ring_theory rO rI radd rmul rsub ropp eq ->
    forall (n : nat) (q : nat -> nat -> R) (m : nat) (a : nat -> R),
    orthonormal R rO rI radd rmul n q (S m) ->
    dot R rO radd rmul n (resid R rO radd rmul rsub n q (S m) a) (resid R rO radd rmul rsub n q (S m) a) =
    rsub (dot R rO radd rmul n (resid R rO radd rmul rsub n q m a) (resid R rO radd rmul rsub n q m a))
      (rmul (coef R rO radd rmul n q a m) (coef R rO radd rmul n q a m)).
Proof. exact energy_step. Qed.
Print Assumptions error_history_energy_step.

(* ||a - P_m a||^2 = ||a||^2 - sum_{k<m} <q_k,a>^2 for the projection onto an orthonormal family. *)
Theorem error_history_energy_identity :
  forall (R : Type) (rO rI : R) (radd rmul rsub : R -> R -> R) (ropp : R -> R),
    ring_theory rO rI radd rmul rsub ropp eq ->
    forall (n : nat) (q : nat -> nat -> R) (m : nat) (a : nat -> R),
    orthonormal R rO rI radd rmul n q m ->
    dot R rO radd rmul n (resid R rO radd rmul rsub n q m a) (resid R rO radd rmul rsub n q m a) =
    rsub (dot R rO radd rmul n a a)
      (sumn R rO radd m (fun k : nat => rmul (coef R rO radd rmul n q a k) (coef R rO radd rmul n q a k))).
Proof. exact energy_identity. Qed.
Print Assumptions error_history_energy_identity.

(* NOT PROVED (these rest on the correspondence run only):

   error_history_monotone for grou: each als1 correction is only a stationary point of the rank-1 problem,
     not an orthogonal projection onto a fixed orthonormal family; for gta the statement is
     error_history_energy_step under the hypothesis that the bases are orthonormal (which the code
     maintains by Gram-Schmidt; the floating-point loss of orthogonality was the defect fixed by
     fixes/C18-gta-relative-span-guard.patch) - the identification of the Tucker projection with the
     projection onto the product basis q_(k1..kd) = u_1,k1 (x) ... (x) u_d,kd is not formalised.

   truncation with orthonormal factors: ||A - truncate(A)||_F^2 = discarded core mass needs the isometry
     of orthonormal mode products (QR/SVD are LAPACK's, not modelled); truncation_error_bound is the
     statement about the core.

   aca pivot SEARCH (argmax of |E_row|, random restarts, tolerance counters) is not modelled: the theorems
     are about any sequence of accepted crosses with non-zero pivots. *)
