(* C19 -- span search: array version, first-active indices, uniqueness on constructed vectors;
   support(), meshsize_avg; refinement is nested. *)
From Coq Require Import QArith Qcanon ZArith List Arith Bool Lia Lqa Permutation.
From Verif.lib Require Import Bsp NpCore NpQ.
From Verif.C02 Require Import Proofs.
From Verif.C19 Require Import Model Model2 Proofs Proofs2 Proofs4 Proofs8.
Import ListNotations.
Open Scope Qc_scope.

(* pyx_findspans is the scalar search applied entry by entry *)
Lemma findspans_spec_l kv p us : length (findspans kv p us) = length us /\
  forall i, (i < length us)%nat -> nth i (findspans kv p us) 0%nat = findspan kv p (nth i us 0).
Proof.
  unfold findspans. split; [apply map_length|]. intros i Hi.
  rewrite (nth_indep _ 0%nat (findspan kv p 0)) by (rewrite map_length; exact Hi).
  apply (map_nth (findspan kv p)).
Qed.

(* the p+1 active functions first_active .. first_active+p are valid dof indices *)
Lemma first_active_range_l kv p u : kv_ok kv p -> kn kv 0 <= u -> u <= kn kv (length kv - 1) ->
  (0 <= first_active_at_z kv p u)%Z /\
  (first_active_at_z kv p u + Z.of_nat p < Z.of_nat (numdofs kv p))%Z /\
  first_active_at_z kv p u = Z.of_nat (first_active_at kv p u).
Proof.
  intros Hok H0 H1. destruct (findspan_spec_l kv p u Hok H0 H1) as [A [B _]].
  unfold first_active_at_z, first_active, first_active_at, numdofs. lia.
Qed.

Lemma first_active_all_spec_l kv p us i : (i < length us)%nat ->
  nth i (first_active_all kv p us) 0%Z = first_active_at_z kv p (nth i us 0).
Proof.
  intros Hi. unfold first_active_all, first_active_at_z, first_active.
  set (f := fun s => (Z.of_nat s - Z.of_nat p)%Z).
  rewrite (nth_indep _ 0%Z (f 0%nat)) by (rewrite map_length; rewrite (proj1 (findspans_spec_l kv p us)); exact Hi).
  rewrite (map_nth f). unfold f. rewrite (proj2 (findspans_spec_l kv p us) i Hi). reflexivity.
Qed.

(* on a constructed knot vector the reported span is the only span containing u *)
Lemma make_knots_findspan_unique_l p a b n mult u t : a < b -> (1 <= n)%nat -> (1 <= mult)%nat ->
  a <= u -> u < b ->
  let kv := make_knots p a b n mult in
  (S t < length kv)%nat -> kn kv t <= u -> u < kn kv (S t) -> t = findspan kv p u.
Proof.
  intros Hab Hn Hm Hu0 Hu1 kv Ht H1 H2.
  pose proof (make_knots_kv_ok_l p a b n mult Hab Hn Hm) as Hok. fold kv in Hok.
  destruct (make_knots_ends p a b n mult Hn Hm) as [E0 E1]. fold kv in E0, E1.
  apply findspan_unique_l; try assumption; [rewrite E0; exact Hu0|rewrite E1; exact Hu1].
Qed.

(* support() and meshsize_avg of a constructed vector *)
Lemma make_knots_support_meshsize_l p a b n mult : a < b -> (1 <= n)%nat -> (1 <= mult)%nat ->
  let kv := make_knots p a b n mult in
  support_all kv = (a, b) /\ meshsize_avg kv = (b - a) / natq n.
Proof.
  intros Hab Hn Hm kv. destruct (make_knots_ends p a b n mult Hn Hm) as [E0 E1]. fold kv in E0, E1.
  split; [unfold support_all; rewrite E0, E1; reflexivity|].
  unfold meshsize_avg. rewrite E0, E1. unfold kv. rewrite make_knots_numspans_l by assumption.
  f_equal. unfold qabs. destruct (qleb 0 (b - a)) eqn:E; [reflexivity|exfalso].
  apply qleb_false_lt in E. qcq. lra.
Qed.

(* support() in mesh terms, any non-empty valid knot vector: (mesh[0], mesh[numspans]) *)
Lemma support_all_mesh_l kv : kv_valid kv = true -> kv <> [] ->
  support_all kv = (nth 0 (mesh kv) 0, nth (numspans kv) (mesh kv) 0).
Proof.
  intros Hv Hne. assert (H0 : (0 < length kv)%nat) by (destruct kv; [congruence|cbn; lia]).
  unfold support_all.
  destruct (k2m_spec kv 0 H0) as [_ A]. destruct (k2m_spec kv (length kv - 1) ltac:(lia)) as [_ B].
  rewrite k2m_first_l in A by assumption. rewrite k2m_last_l in B by assumption. rewrite A, B. reflexivity.
Qed.

(* refinement is nested: every old knot (with its multiplicity) and every new knot is a knot of the
   refined vector, the old mesh is contained in the new one, numdofs grows by the number of new knots *)
Lemma refine_nested_l kv new_knots p :
  (forall x, count_occ Qc_eq_dec (refine kv new_knots) x =
             (count_occ Qc_eq_dec kv x + count_occ Qc_eq_dec new_knots x)%nat) /\
  incl (mesh kv) (mesh (refine kv new_knots)) /\
  ((p + 1 <= length kv)%nat -> numdofs (refine kv new_knots) p = (numdofs kv p + length new_knots)%nat).
Proof.
  destruct (refine_sorted_union_l kv new_knots) as [P _]. split; [|split].
  - intros x. rewrite (Permutation_count_occ Qc_eq_dec) in P. rewrite P. apply count_occ_app.
  - intros x Hx. apply (proj2 (mesh_In _ x)). apply (proj1 (mesh_In kv x)) in Hx.
    apply (Permutation_in _ (Permutation_sym P)). apply in_or_app. left. exact Hx.
  - intros Hl. unfold numdofs. rewrite refine_length_l. lia.
Qed.
