(* C06 -- the emitted order: a schedule accepted by [wf_sched] evaluates every variable after
   its dependencies, the resulting environment satisfies every defining equation, and it is
   the only one that does. *)
From Coq Require Import List String Bool Arith Lia.
From Verif.C06 Require Import Model.
Import ListNotations.

Section Sched.
Variable F : Type.
Variables (f0 : F) (fadd fmul fsub fdiv : F -> F -> F) (fopp : F -> F).
Notation eval := (eval F fadd fmul fsub fdiv fopp).
Notation expr := (expr F).
Notation texpr := (texpr F).
Notation env := (env F).
Notation eval_defs := (eval_defs F f0 fadd fmul fsub fdiv fopp).
Notation bind := (bind F f0).

(* ---- the value of an expression depends only on the variables it mentions (pointwise) ---- *)
Lemma eval_ext_pw : forall (en1 en2 : env) e,
  e_pd en1 = e_pd en2 -> e_gw en1 = e_gw en2 -> e_dx en1 = e_dx en2 -> e_ds en1 = e_ds en2 ->
  e_fn en1 = e_fn en2 ->
  (forall n, In n (vrefs F e) -> forall Ix D p, e_vr en1 n Ix D p = e_vr en2 n Ix D p) ->
  eval en1 e = eval en2 e.
Proof.
  intros en1 en2 e Hpd Hgw Hdx Hds Hfn. induction e; simpl; intros Hv;
    try (rewrite ?Hpd, ?Hgw, ?Hdx, ?Hds; reflexivity).
  - apply Hv. left. reflexivity.
  - rewrite IHe; auto.
  - rewrite Hfn, IHe; auto.
  - rewrite IHe1, IHe2; auto; intros n Hn; apply Hv; apply in_or_app; auto.
Qed.

Lemma mem_true_in : forall s l, mem s l = true -> In s l.
Proof.
  intros s l H. unfold mem in H. apply existsb_exists in H. destruct H as [x [Hx He]].
  apply String.eqb_eq in He. subst. assumption.
Qed.

Lemma mem_false_notin : forall s l, mem s l = false -> ~ In s l.
Proof.
  intros s l H Hin. unfold mem in H.
  assert (existsb (String.eqb s) l = true).
  { apply existsb_exists. exists s. split; auto. apply String.eqb_refl. }
  congruence.
Qed.

(* ---- row-major indexing ----------------------------------------------------------------- *)
Lemma omap_nth_error : forall (A B : Type) (f : A -> option B) l ys k x,
  omap f l = Some ys -> nth_error l k = Some x ->
  exists y, f x = Some y /\ nth_error ys k = Some y.
Proof.
  intros A B f l. induction l as [|a l IH]; intros ys k x Ho Hn.
  - destruct k; discriminate.
  - simpl in Ho. destruct (f a) as [b|] eqn:Ea; [|discriminate].
    destruct (omap f l) as [bs|] eqn:Eo; [|discriminate]. inversion Ho; subst.
    destruct k; simpl in *.
    + inversion Hn; subst. exists b. auto.
    + apply (IH bs k x eq_refl Hn).
Qed.

Lemma nth_error_seq : forall n s k, k < n -> nth_error (seq s n) k = Some (s + k).
Proof.
  induction n; intros s k H; [lia|]. destruct k; simpl.
  - f_equal. lia.
  - rewrite IHn by lia. f_equal. lia.
Qed.

Lemma nth_error_pairs : forall c r s i j, i < r -> j < c ->
  nth_error (flat_map (fun a => map (fun b => (a, b)) (seq 0 c)) (seq s r)) (i * c + j) = Some (s + i, j).
Proof.
  intros c. induction r; intros s i j Hi Hj; [lia|]. simpl.
  destruct i.
  - simpl. rewrite nth_error_app1 by (rewrite map_length, seq_length; lia).
    rewrite (map_nth_error _ _ _ (nth_error_seq c 0 j Hj)). f_equal. f_equal; lia.
  - rewrite nth_error_app2 by (rewrite map_length, seq_length; simpl; lia).
    rewrite map_length, seq_length.
    replace (S i * c + j - c) with (i * c + j) by (simpl; lia).
    rewrite IHr by lia. f_equal. f_equal. lia.
Qed.

(* an index is inside a shape *)
Definition in_shape (shape Ix : list nat) : Prop := Forall2 lt Ix shape.

(* every in-shape index of a tensor whose entries exist is the entry at the row-major position *)
Lemma tentries_index : forall (t : texpr) es Ix,
  tentries F t = Some es -> in_shape (tshape F t) Ix ->
  exists e, tat F t Ix = Some e /\ nth_error es (flat_index (tshape F t) Ix) = Some e.
Proof.
  intros t es Ix He Hs. unfold tentries in He. unfold in_shape in Hs.
  destruct (tshape F t) as [|n [|c [|x sh]]] eqn:Esh.
  - inversion Hs; subst. destruct (tat F t []) as [e|] eqn:Et; [|discriminate].
    inversion He; subst. exists e. split; auto.
  - inversion Hs as [|i n' Ix' sh' Hi Hr]; subst. inversion Hr; subst.
    destruct (omap_nth_error _ _ _ _ _ i i He) as [e [H1 H2]].
    { rewrite nth_error_seq by assumption. reflexivity. }
    exists e. split; [exact H1 | exact H2].
  - inversion Hs as [|i n' Ix' sh' Hi Hr]; subst. inversion Hr as [|j c' Ix'' sh'' Hj Hr']; subst.
    inversion Hr'; subst.
    destruct (omap_nth_error _ _ _ _ _ (i * c + j) (i, j) He) as [e [H1 H2]].
    { rewrite (nth_error_pairs c n 0 i j Hi Hj). reflexivity. }
    exists e. simpl in H1. split; [exact H1 | exact H2].
  - discriminate.
Qed.

(* ---- frame properties of eval_defs -------------------------------------------------------- *)
Lemma eval_defs_frame : forall ds (en : env),
  e_pd (eval_defs en ds) = e_pd en /\ e_gw (eval_defs en ds) = e_gw en /\
  e_dx (eval_defs en ds) = e_dx en /\ e_ds (eval_defs en ds) = e_ds en /\
  e_fn (eval_defs en ds) = e_fn en /\
  (forall n, ~ In n (map fst ds) -> forall Ix D p, e_vr (eval_defs en ds) n Ix D p = e_vr en n Ix D p).
Proof.
  induction ds as [|[name t] r IH]; intros en; simpl.
  - repeat split; auto.
  - destruct (tentries F t) as [es|].
    + destruct (IH (bind en name (tshape F t) (map (eval en) es))) as [H1 [H2 [H3 [H4 [H5 H6]]]]].
      split; [exact H1|]. split; [exact H2|]. split; [exact H3|]. split; [exact H4|]. split; [exact H5|].
      intros n Hn Ix D p. rewrite H6 by tauto. simpl.
      destruct (String.eqb n name) eqn:E; [|reflexivity].
      apply String.eqb_eq in E. subst. exfalso. apply Hn. left. reflexivity.
    + destruct (IH en) as [H1 [H2 [H3 [H4 [H5 H6]]]]].
      split; [exact H1|]. split; [exact H2|]. split; [exact H3|]. split; [exact H4|]. split; [exact H5|].
      intros n Hn. apply H6. tauto.
Qed.

Lemma wf_sched_known_fresh : forall ds known,
  wf_sched F known ds = true -> forall n, In n known -> ~ In n (map fst ds).
Proof.
  induction ds as [|[name t] r IH]; intros known H n Hn; simpl; [tauto|].
  simpl in H. destruct (tentries F t) as [es|]; [|discriminate].
  apply andb_true_iff in H. destruct H as [H Hr]. apply andb_true_iff in H. destruct H as [_ Hf].
  apply negb_true_iff in Hf. apply mem_false_notin in Hf.
  intros [E|Hin].
  - subst. contradiction.
  - apply (IH (name :: known) Hr n); [right; assumption | assumption].
Qed.

(* an expression over [known] keeps its value while the rest of an accepted schedule runs *)
Lemma eval_defs_stable : forall ds known (en : env) e,
  wf_sched F known ds = true ->
  (forall v, In v (vrefs F e) -> In v known) ->
  eval (eval_defs en ds) e = eval en e.
Proof.
  intros ds known en e Hw Hv.
  destruct (eval_defs_frame ds en) as [H1 [H2 [H3 [H4 [H5 H6]]]]].
  apply eval_ext_pw; auto.
  intros n Hn. apply H6. apply (wf_sched_known_fresh ds known Hw). auto.
Qed.

Lemma forallb_vrefs_known : forall (es : list expr) known,
  forallb (fun e => forallb (fun v => mem v known) (vrefs F e)) es = true ->
  forall e, In e es -> forall v, In v (vrefs F e) -> In v known.
Proof.
  intros es known H e He v Hv.
  rewrite forallb_forall in H. specialize (H e He). rewrite forallb_forall in H.
  apply mem_true_in. auto.
Qed.

(* ---- soundness of the schedule checker ------------------------------------------------------ *)
(* after evaluating an accepted schedule, every variable has -- at every index inside its shape --
   the value of its defining entry IN THE FINAL ENVIRONMENT *)
Theorem schedule_wf_sound_l : forall ds known (en : env),
  wf_sched F known ds = true ->
  forall name t, In (name, t) ds ->
  forall Ix, in_shape (tshape F t) Ix ->
  exists e, tat F t Ix = Some e /\
            forall D p, e_vr (eval_defs en ds) name Ix D p = eval (eval_defs en ds) e.
Proof.
  induction ds as [|[name0 t0] r IH]; intros known en Hw name t Hin Ix Hs; [destruct Hin|].
  simpl in Hw. destruct (tentries F t0) as [es|] eqn:Ees; [|discriminate].
  apply andb_true_iff in Hw. destruct Hw as [Hw Hr]. apply andb_true_iff in Hw. destruct Hw as [Hrefs Hfresh].
  apply negb_true_iff in Hfresh. apply mem_false_notin in Hfresh.
  simpl. rewrite Ees.
  destruct Hin as [E|Hin].
  - inversion E; subst. clear E.
    destruct (tentries_index t es Ix Ees Hs) as [e [Hat Hnth]].
    exists e. split; [assumption|]. intros D p.
    set (en1 := bind en name (tshape F t) (map (eval en) es)).
    assert (Hine : In e es) by (apply (nth_error_In _ _ Hnth)).
    assert (Hk : forall v, In v (vrefs F e) -> In v known) by (apply (forallb_vrefs_known es known Hrefs e Hine)).
    destruct (eval_defs_frame r en1) as [_ [_ [_ [_ [_ H6]]]]].
    rewrite H6.
    2:{ apply (wf_sched_known_fresh r (name :: known) Hr). left. reflexivity. }
    rewrite (eval_defs_stable r (name :: known) en1 e Hr) by (intros v Hv; right; auto).
    unfold en1 at 1. simpl. rewrite String.eqb_refl.
    rewrite (nth_error_nth _ _ f0 (map_nth_error (eval en) _ _ Hnth)).
    symmetry. apply eval_ext_pw; try reflexivity.
    intros n Hn Ix' D' p'. simpl.
    destruct (String.eqb n name) eqn:En; [|reflexivity].
    apply String.eqb_eq in En. subst. exfalso. apply Hfresh. auto.
  - apply (IH (name0 :: known) _ Hr name t Hin Ix Hs).
Qed.

(* ---- uniqueness: the emitted order computes THE denotation ------------------------------------ *)
(* [solves en' ds]: en' satisfies the binding equation of every definition *)
Definition solves (en' : env) (ds : list (string * texpr)) : Prop :=
  forall name t es, In (name, t) ds -> tentries F t = Some es ->
  forall Ix D p, e_vr en' name Ix D p = nth (flat_index (tshape F t) Ix) (map (eval en') es) f0.

Theorem schedule_unique_l : forall ds known (en en' : env),
  wf_sched F known ds = true ->
  e_pd en' = e_pd en -> e_gw en' = e_gw en -> e_dx en' = e_dx en -> e_ds en' = e_ds en -> e_fn en' = e_fn en ->
  (forall n, In n known -> forall Ix D p, e_vr en' n Ix D p = e_vr en n Ix D p) ->
  solves en' ds ->
  forall n, In n (known ++ map fst ds) ->
  forall Ix D p, e_vr en' n Ix D p = e_vr (eval_defs en ds) n Ix D p.
Proof.
  induction ds as [|[name t] r IH]; intros known en en' Hw Hpd Hgw Hdx Hds Hfn Hk Hsol n Hn Ix D p.
  - simpl in *. rewrite app_nil_r in Hn. auto.
  - simpl in Hw. destruct (tentries F t) as [es|] eqn:Ees; [|discriminate].
    apply andb_true_iff in Hw. destruct Hw as [Hw Hr]. apply andb_true_iff in Hw. destruct Hw as [Hrefs Hfresh].
    simpl. rewrite Ees.
    set (en1 := bind en name (tshape F t) (map (eval en) es)).
    apply (IH (name :: known) en1 en' Hr); auto.
    + intros m [E|Hm] Ix' D' p'.
      * subst m. rewrite (Hsol name t es (or_introl eq_refl) Ees). unfold en1. simpl. rewrite String.eqb_refl.
        f_equal. apply map_ext_in. intros e He.
        apply eval_ext_pw; auto.
        intros v Hv. apply Hk. apply (forallb_vrefs_known es known Hrefs e He v Hv).
      * unfold en1. simpl. destruct (String.eqb m name) eqn:Em.
        -- apply String.eqb_eq in Em. subst m. apply negb_true_iff in Hfresh. apply mem_false_notin in Hfresh. contradiction.
        -- auto.
    + intros name' t' es' Hin'. apply Hsol. right. assumption.
    + simpl in Hn. apply in_app_or in Hn. apply in_or_app. destruct Hn as [Hn|[Hn|Hn]].
      * left. right. assumption.
      * left. left. assumption.
      * right. assumption.
Qed.

End Sched.
