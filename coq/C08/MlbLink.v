(* C08 -- the multi-level banded (MLB) format: the coordinates C08's model assigns to the data
   array of the generic vector core (Model.core_triples, packed layout) are, in the same order,
   C15's kron_pattern of the structure S_base.join(dense(nc)); by C15's nonzero_spec this is the
   list MLStructure.nonzero() returns, i.e. what MLMatrix.asmatrix() zips with data.ravel(). *)
From Coq Require Import ZArith List Bool Arith Lia.
From Verif.C15 Require Model Spec Props.
From Verif.C08 Require Import Model.
Import ListNotations.

Lemma to_seq_acc_same : forall I dims acc, C15.Model.to_seq_acc acc I dims = to_seq_acc acc I dims.
Proof.
  induction I as [|i I IH]; intros [|m dims] acc; simpl; try reflexivity. apply IH.
Qed.

Lemma ml_key_entry_of : forall bs sel, ml_key bs sel = C15.Model.entry_of bs sel.
Proof.
  intros. unfold ml_key, C15.Model.entry_of, C15.Model.to_seq, to_seq, C15.Model.rowdims, C15.Model.coldims.
  rewrite !to_seq_acc_same. reflexivity.
Qed.

Lemma flat_map_map : forall (A B C : Type) (f : B -> list C) (g : A -> B) l,
  flat_map f (map g l) = flat_map (fun x => f (g x)) l.
Proof. induction l as [|a l IH]; simpl; [reflexivity | rewrite IH; reflexivity]. Qed.

Lemma map_flat_map : forall (A B C : Type) (f : B -> C) (g : A -> list B) l,
  map f (flat_map g l) = flat_map (fun x => map f (g x)) l.
Proof. induction l as [|a l IH]; simpl; [reflexivity | rewrite map_app, IH; reflexivity]. Qed.

Lemma flat_map_flat_map : forall (A B C : Type) (f : B -> list C) (g : A -> list B) l,
  flat_map f (flat_map g l) = flat_map (fun x => flat_map f (g x)) l.
Proof. induction l as [|a l IH]; simpl; [reflexivity | rewrite flat_map_app, IH; reflexivity]. Qed.

Lemma flat_map_ext_all : forall (A B : Type) (f g : A -> list B) l,
  (forall a, f a = g a) -> flat_map f l = flat_map g l.
Proof. intros A B f g l H. induction l as [|a l IH]; simpl; [reflexivity | rewrite H, IH; reflexivity]. Qed.

Lemma list_as_nth : forall (A : Type) (d : A) (l : list A), l = map (fun i => nth i l d) (seq 0 (length l)).
Proof.
  induction l as [|a l IH]; [reflexivity|]. simpl. f_equal.
  rewrite <- seq_shift, map_map. exact IH.
Qed.

(* the Cartesian product of the level patterns = the per-level entries selected by the index
   tuples of the data array, in C order *)
Lemma product_sel_of : forall lv : list (list (Z * Z)),
  C15.Model.product lv = map (sel_of lv) (prod_idx (map (@length _) lv)).
Proof.
  induction lv as [|l lv IH]; [reflexivity|].
  simpl C15.Model.product. simpl map. simpl prod_idx.
  rewrite map_flat_map. rewrite (list_as_nth _ (0%Z, 0%Z) l) at 1. rewrite flat_map_map.
  apply flat_map_ext_all. intro i. rewrite IH, !map_map. reflexivity.
Qed.

Lemma product_snoc : forall (lv : list (list (Z * Z))) (D : list (Z * Z)),
  C15.Model.product (lv ++ [D]) = flat_map (fun sel => map (fun rc => sel ++ [rc]) D) (C15.Model.product lv).
Proof.
  induction lv as [|l lv IH]; intro D.
  - simpl. rewrite app_nil_r. induction D as [|x D IHD]; [reflexivity|]. simpl. rewrite IHD. reflexivity.
  - simpl app. simpl C15.Model.product. rewrite flat_map_flat_map.
    apply flat_map_ext_all. intro x. rewrite IH, map_flat_map, flat_map_map.
    apply flat_map_ext_all. intro sel. rewrite map_map. reflexivity.
Qed.

(* the coordinates of the packed layout, in data order *)
Definition packed_keys (bs : list (Z * Z)) (nc : Z * Z) (lv : list (list (Z * Z))) : list (Z * Z) :=
  flat_map (fun mu => map (fun c => key_packed bs nc (sel_of lv mu) (dense_ij (snd nc) (Z.of_nat c)))
                          (seq 0 (Z.to_nat (fst nc * snd nc))))
           (prod_idx (map (@length _) lv)).
Definition dense_level (nc : Z * Z) : list (Z * Z) :=
  map (fun c => dense_ij (snd nc) (Z.of_nat c)) (seq 0 (Z.to_nat (fst nc * snd nc))).

Lemma core_triples_keys : forall (V : Type) bs nc lv (data : list V),
  core_triples false bs nc lv data = combine (packed_keys bs nc lv) data.
Proof. reflexivity. Qed.

Theorem packed_keys_kron_l : forall bs nc lv,
  packed_keys bs nc lv = C15.Spec.kron_pattern (bs ++ [nc]) (lv ++ [dense_level nc]).
Proof.
  intros bs nc lv. unfold C15.Spec.kron_pattern. rewrite product_snoc, product_sel_of.
  rewrite flat_map_map, map_flat_map. unfold packed_keys.
  apply flat_map_ext_all. intro mu. unfold dense_level. rewrite !map_map.
  apply map_ext. intro c. unfold key_packed. apply ml_key_entry_of.
Qed.

(* ... hence exactly what MLStructure.nonzero() enumerates (C15.nonzero_spec), in data order *)
Theorem mlb_keys_are_nonzero_l : forall bs nc lv, length bs = length lv ->
  C15.Model.nonzero (bs ++ [nc]) (lv ++ [dense_level nc]) false = Some (packed_keys bs nc lv).
Proof.
  intros bs nc lv H. rewrite C15.Props.nonzero_spec by (rewrite !app_length; simpl; lia).
  rewrite <- packed_keys_kron_l. f_equal.
  induction (packed_keys bs nc lv) as [|k l IH]; [reflexivity|]. simpl. rewrite IH. reflexivity.
Qed.

Local Open Scope nat_scope.

Lemma flat_map_ext_on : forall (A B : Type) (f g : A -> list B) l,
  (forall a, In a l -> f a = g a) -> flat_map f l = flat_map g l.
Proof.
  induction l as [|a l IH]; intro H; simpl; [reflexivity|].
  rewrite (H a (or_introl eq_refl)), IH; [reflexivity|]. intros b Hb. apply H. right; exact Hb.
Qed.

(* the component level: compute_dense_ij(nr, ncl) enumerates (t / ncl, t mod ncl), t = 0..nr*ncl-1 *)
Lemma seq_add_map : forall n s, seq s n = map (fun j => s + j) (seq 0 n).
Proof.
  induction n as [|n IH]; intro s; [reflexivity|]. simpl. rewrite Nat.add_0_r. f_equal.
  rewrite (IH (S s)), <- seq_shift, map_map. apply map_ext. intro j. lia.
Qed.

Lemma map_seq_blocks : forall (A : Type) (g : nat -> A) N M s,
  map g (seq (s * N) (M * N)) = flat_map (fun i => map (fun j => g (i * N + j)) (seq 0 N)) (seq s M).
Proof.
  intros A g N. induction M as [|M IH]; intro s; [reflexivity|].
  simpl. rewrite seq_app, map_app. f_equal.
  - rewrite (seq_add_map N (s * N)), map_map. reflexivity.
  - replace (s * N + N) with (S s * N) by lia. apply IH.
Qed.

Theorem dense_level_is_compute_dense_ij_l : forall nr ncl : Z, (0 <= nr)%Z -> (0 < ncl)%Z ->
  dense_level (nr, ncl) = C15.Model.compute_dense_ij nr ncl.
Proof.
  intros nr ncl Hr Hc. unfold dense_level, C15.Model.compute_dense_ij, C15.Model.range. simpl fst; simpl snd.
  replace (Z.to_nat (nr * ncl)) with (Z.to_nat nr * Z.to_nat ncl) by (rewrite Z2Nat.inj_mul; lia).
  pose proof (map_seq_blocks _ (fun c => dense_ij ncl (Z.of_nat c)) (Z.to_nat ncl) (Z.to_nat nr) 0) as H.
  simpl Nat.mul in H at 1. rewrite H. rewrite flat_map_map.
  apply flat_map_ext_on. intros i Hi. rewrite map_map. apply map_ext_in. intros j Hj.
  apply in_seq in Hj. unfold dense_ij.
  assert (E : Z.of_nat (i * Z.to_nat ncl + j) = (Z.of_nat i * ncl + Z.of_nat j)%Z) by lia.
  rewrite E. rewrite Z.add_comm, Z.div_add, Z.mod_add by lia.
  rewrite Z.div_small, Z.mod_small by lia. rewrite Z.add_0_l. reflexivity.
Qed.

(* the whole statement with C15's own dense level *)
Theorem mlb_is_nonzero_order_l : forall bs (nr ncl : Z) lv,
  length bs = length lv -> (0 <= nr)%Z -> (0 < ncl)%Z ->
  C15.Model.nonzero (bs ++ [(nr, ncl)]) (lv ++ [C15.Model.compute_dense_ij nr ncl]) false
    = Some (packed_keys bs (nr, ncl) lv).
Proof.
  intros bs nr ncl lv H Hr Hc. rewrite <- dense_level_is_compute_dense_ij_l by assumption.
  apply mlb_keys_are_nonzero_l, H.
Qed.
