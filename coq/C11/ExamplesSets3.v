(* C11 -- non-vacuity of reachable_positions: C04's example history (3 levels, disparity 1, marks
   on two levels) meets its hypotheses, and the searches return non-empty lists there. *)
From Coq Require Import List Arith Lia Bool.
From Verif.lib Require Import FinSet.
From Verif.C04 Require Import Model Boundary Children Proofs.
From Verif.C04 Require Examples.
From Verif.C11 Require Import SmoothSets SmoothSets2 SmoothSets3.
From Verif.C11 Require ExamplesSets.
Import ListNotations.

Definition rx_bds : list bdspec := [(0, 0); (1, 1)]%nat.

Example rx_hyps :
  Forall ProofsMesh.axis_ok Examples.ex_axes /\ (forall d, Some 1 = Some d -> 1 <= d) /\
  ops_valid (hs_init Examples.ex_axes (Some 1)) Examples.ex_ops.
Proof. split; [exact Examples.ex_axes_ok|split; [exact Examples.ex_disp|exact Examples.ex_ops_valid]]. Qed.

Definition rx_out := Eval vm_compute in
  (smooth_new Examples.ex_st rx_bds 2, smooth_trunc Examples.ex_st rx_bds 2, smooth_func_supp Examples.ex_st rx_bds 2,
   smooth_cell_supp Examples.ex_st rx_bds 2, dirichlet_dofs Examples.ex_st rx_bds 2, length (vflat Examples.ex_st 2)).

Example rx_nontrivial :
  match rx_out with
  | (Some N, Some T, Some F, Some C, Some D, n) =>
      (0 < length N <= length T)%nat /\ (length N <= length F)%nat /\ (length N <= length C)%nat /\
      (0 < length D)%nat /\ (length C + length D <= n)%nat
  | _ => False
  end.
Proof. vm_compute. repeat split; lia. Qed.

(* the hypotheses of position_search_succeeds / dof_position_unique on the state of ExamplesSets *)
Example sx_sorted : all_sorted ExamplesSets.sx_st.
Proof. apply all_sorted_run, all_sorted_init. Qed.
Example sx_disjoint : forall x, In x (lv_actfun (lvl ExamplesSets.sx_st 1)) -> ~ In x (lv_deactfun (lvl ExamplesSets.sx_st 1)).
Proof. apply disjoint_spec. vm_compute. reflexivity. Qed.
