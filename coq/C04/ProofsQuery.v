(* C04 -- the incidence matrix and the cell/function support queries agree with the (index)
   geometry: theorems about the model's definitions on reachable states of valid hierarchies. *)
From Coq Require Import List Arith Bool Lia.
From Verif.lib Require Import FinSet.
From Verif.C04 Require Import Model Proofs ProofsFun ProofsMesh.
Import ListNotations.

(* every reachable state of a valid hierarchy carries the full invariant bundle *)
Lemma reachable_good2 : forall axes disp ops,
  Forall axis_ok axes -> (forall d, disp = Some d -> 1 <= d) ->
  ops_valid (hs_init axes disp) ops ->
  good2 (tpmesh_of axes) (run (hs_init axes disp) ops).
Proof.
  intros axes disp ops HA Hd V. pose proof (hier_ok_valid axes HA) as H.
  apply good2_run; auto. apply good2_init; auto.
Qed.

Lemma good2_dim : forall base st k, good2 base st -> k < numlevels st -> dim (msh st k) = dim base.
Proof. intros base st k G Hk. rewrite (g2_msh _ _ G k Hk). apply dim_iter. Qed.

(* ------------------------------------------------------------------------- *)
(* elementary characterisations                                                *)

Lemma In_support : forall ms fs c, In c (support ms fs) <-> exists f, In f fs /\ In c (support1 ms f).
Proof.
  intros ms fs c. unfold support.
  assert (G : forall acc, In c (fold_left (fun acc f => union acc (support1 ms f)) fs acc) <->
                          In c acc \/ exists f, In f fs /\ In c (support1 ms f)).
  { induction fs as [|f fs IH]; intros acc; simpl.
    - split; [auto | intros [H|[f [[] _]]]; auto].
    - rewrite IH, union_In. split.
      + intros [[H|H]|[f' [H1 H2]]]; auto.
        * right; exists f; auto.
        * right; exists f'; auto.
      + intros [H|[f' [[->|H1] H2]]]; auto. right; exists f'; auto. }
  rewrite G. simpl. split; [intros [[]|H]; auto | auto].
Qed.

Lemma anc_parent : forall n c, anc n (parent1 c) = anc (S n) c.
Proof. induction n; intros c; simpl; auto. unfold anc in *. simpl. rewrite IHn. reflexivity. Qed.

Lemma length_anc : forall n c, length (anc n c) = length c.
Proof. induction n; intros c; simpl; auto. unfold anc in *. simpl. unfold parent1 at 1. rewrite map_length. apply IHn. Qed.

Lemma In_cell_parent : forall cells c0, In c0 (cell_parent cells) <-> exists c, In c cells /\ c0 = parent1 c.
Proof.
  intros. unfold cell_parent. rewrite of_list_In, in_map_iff. split; intros [c [H1 H2]]; exists c; auto.
Qed.

(* cell_grandparent applies cell_parent n times: the level-(l-n) ancestors of the cells *)
Lemma In_cell_grandparent : forall n cells c0,
  In c0 (cell_grandparent n cells) <-> exists c, In c cells /\ c0 = anc n c.
Proof.
  induction n as [|n IH]; intros cells c0; simpl.
  - split; [intros H; exists c0; auto | intros [c [H ->]]; auto].
  - rewrite IH. split.
    + intros [c1 [H1 ->]]. apply In_cell_parent in H1. destruct H1 as [c [Hc ->]].
      exists c. split; auto. apply anc_parent.
    + intros [c [Hc ->]]. exists (parent1 c). split; [apply In_cell_parent; exists c; auto|].
      symmetry. apply anc_parent.
Qed.

(* the two tensor-product queries are dual to each other *)
Lemma supported_in_spec : forall ms cs f, mesh_ok ms -> (forall c, In c cs -> length c = dim ms) ->
  (In f (supported_in ms cs) <-> In f (tp_functions ms) /\ exists c, In c cs /\ In c (support ms [f])).
Proof.
  intros ms cs f MO Hl. rewrite In_supported_in. split.
  - intros [c [Hc Hf]]. apply (mo_dual _ MO c f (Hl c Hc)) in Hf. destruct Hf. split; auto. exists c; auto.
  - intros [HF [c [Hc Hs]]]. exists c. split; auto. apply (mo_dual _ MO c f (Hl c Hc)). auto.
Qed.

(* ------------------------------------------------------------------------- *)
(* incidence matrix                                                            *)

(* entry = 1 iff the level-k ancestor of the (level j >= k) cell lies in the support of the function *)
Lemma incidence_entry_spec : forall st k f j c,
  incidence_entry st (k, f) (j, c) = true <-> k <= j /\ In (anc (j - k) c) (support1 (msh st k) f).
Proof.
  intros. unfold incidence_entry. rewrite andb_true_iff, Nat.leb_le, mem_In. tauto.
Qed.

(* ... iff the function is one of those the mesh reports as supported in that ancestor cell *)
Lemma incidence_entry_supported_in : forall base st k f j c,
  good2 base st -> hier_ok base -> k <= j -> j < numlevels st ->
  In f (AF st k) -> In c (A st j) ->
  (incidence_entry st (k, f) (j, c) = true <-> In f (supported_in (msh st k) [anc (j - k) c])).
Proof.
  intros base st k f j c G H Hkj Hj Hf Hc.
  assert (Hk : k < numlevels st) by lia.
  pose proof (good2_meshes_fine base st H G k Hk) as MO.
  rewrite incidence_entry_spec.
  rewrite (supported_in_spec (msh st k) [anc (j - k) c] f MO).
  - assert (HF : In f (tp_functions (msh st k))).
    { apply (fi_act _ (g2_funcs _ _ G) k f Hk) in Hf. apply Hf. }
    split.
    + intros [_ Hin]. split; auto. exists (anc (j - k) c). split; [left; auto | exact Hin].
    + intros [_ [c0 [[<-|[]] Hin]]]. split; auto.
  - intros c0 [<-|[]]. rewrite length_anc. rewrite (g2_len _ _ G j c Hj (or_introl Hc)).
    rewrite (good2_dim base st j G Hj), (good2_dim base st k G Hk). reflexivity.
Qed.

(* the matrix is indexed by the canonical flat lists *)
Lemma incidence_nth : forall st i j, i < length (active_functions_flat st) -> j < length (active_cells_flat st) ->
  nth j (nth i (incidence st) []) false =
  incidence_entry st (nth i (active_functions_flat st) (0, [])) (nth j (active_cells_flat st) (0, [])).
Proof.
  intros st i j Hi Hj. unfold incidence.
  rewrite (nth_indep _ [] (map (incidence_entry st (0, [])) (active_cells_flat st))) by (rewrite map_length; auto).
  rewrite (map_nth (fun f => map (incidence_entry st f) (active_cells_flat st))).
  rewrite (nth_indep _ false (incidence_entry st (nth i (active_functions_flat st) (0, [])) (0, []))) by (rewrite map_length; auto).
  rewrite map_nth. reflexivity.
Qed.

Lemma incidence_shape : forall st,
  length (incidence st) = length (active_functions_flat st) /\
  Forall (fun r => length r = length (active_cells_flat st)) (incidence st).
Proof.
  intros st. unfold incidence. split; [apply map_length|].
  rewrite Forall_forall. intros r Hr. apply in_map_iff in Hr. destruct Hr as [f [<- _]]. apply map_length.
Qed.

(* ------------------------------------------------------------------------- *)
(* support extensions                                                          *)

Lemma cse_aux : forall l k cells, (if k =? l then cells else cell_grandparent (l - k) cells) = cell_grandparent (l - k) cells.
Proof.
  intros. destruct (k =? l) eqn:E; auto. apply Nat.eqb_eq in E. subst. rewrite Nat.sub_diag. reflexivity.
Qed.

(* cell_support_extension(l, cells, k): the cells of level k in the support of a level-k
   function that does not vanish on the level-k ancestor of one of the given cells *)
Lemma cell_support_extension_spec : forall base st l cells k c',
  good2 base st -> hier_ok base -> k <= l -> l < numlevels st ->
  (forall c, In c cells -> length c = dim base) ->
  (In c' (cell_support_extension st l cells k) <->
   exists f, In f (tp_functions (msh st k)) /\
             (exists c, In c cells /\ In (anc (l - k) c) (support1 (msh st k) f)) /\
             In c' (support1 (msh st k) f)).
Proof.
  intros base st l cells k c' G H Hkl Hl Hlen.
  assert (Hk : k < numlevels st) by lia.
  pose proof (good2_meshes_fine base st H G k Hk) as MO.
  unfold cell_support_extension. rewrite cse_aux. rewrite In_support.
  assert (Hl2 : forall c0, In c0 (cell_grandparent (l - k) cells) -> length c0 = dim (msh st k)).
  { intros c0 Hc0. apply In_cell_grandparent in Hc0. destruct Hc0 as [c [Hc ->]].
    rewrite length_anc, (Hlen c Hc), (good2_dim base st k G Hk). reflexivity. }
  split.
  - intros [f [Hf Hc']]. apply (supported_in_spec _ _ f MO Hl2) in Hf. destruct Hf as [HF [c0 [Hc0 Hs]]].
    apply In_cell_grandparent in Hc0. destruct Hc0 as [c [Hc ->]].
    exists f. split; auto. split; auto. exists c; auto.
  - intros [f [HF [[c [Hc Hs]] Hc']]]. exists f. split; auto.
    apply (supported_in_spec _ _ f MO Hl2). split; auto.
    exists (anc (l - k) c). split; auto. apply In_cell_grandparent. exists c; auto.
Qed.

(* function_support_extension(l, functions, k): the level-k functions that do not vanish on the
   level-k ancestor of a cell in the support of one of the given level-l functions *)
Lemma function_support_extension_spec : forall base st l fs k f',
  good2 base st -> hier_ok base -> k <= l -> l < numlevels st ->
  (forall f, In f fs -> In f (tp_functions (msh st l))) ->
  (In f' (function_support_extension st l fs k) <->
   In f' (tp_functions (msh st k)) /\
   exists f c, In f fs /\ In c (support1 (msh st l) f) /\ In (anc (l - k) c) (support1 (msh st k) f')).
Proof.
  intros base st l fs k f' G H Hkl Hl HF.
  assert (Hk : k < numlevels st) by lia.
  pose proof (good2_meshes_fine base st H G k Hk) as MO.
  pose proof (good2_meshes_fine base st H G l Hl) as MOl.
  unfold function_support_extension. rewrite cse_aux.
  assert (Hl2 : forall c0, In c0 (cell_grandparent (l - k) (support (msh st l) fs)) -> length c0 = dim (msh st k)).
  { intros c0 Hc0. apply In_cell_grandparent in Hc0. destruct Hc0 as [c [Hc ->]].
    apply In_support in Hc. destruct Hc as [f [Hf Hc]].
    rewrite length_anc. rewrite (mo_len _ MOl c (mo_incells _ MOl f c (HF f Hf) Hc)).
    rewrite (good2_dim base st l G Hl), (good2_dim base st k G Hk). reflexivity. }
  rewrite (supported_in_spec _ _ f' MO Hl2). split.
  - intros [HF' [c0 [Hc0 Hs]]]. split; auto.
    apply In_cell_grandparent in Hc0. destruct Hc0 as [c [Hc ->]].
    apply In_support in Hc. destruct Hc as [f [Hf Hc]]. exists f, c. auto.
  - intros [HF' [f [c [Hf [Hc Hs]]]]]. split; auto.
    exists (anc (l - k) c). split; auto. apply In_cell_grandparent. exists c. split; auto.
    apply In_support. exists f; auto.
Qed.

(* ------------------------------------------------------------------------- *)
(* statements for Props.v                                                      *)

Lemma incidence_spec_l : forall st i j,
  i < length (active_functions_flat st) -> j < length (active_cells_flat st) ->
  let f := nth i (active_functions_flat st) (0, []) in
  let c := nth j (active_cells_flat st) (0, []) in
  (nth j (nth i (incidence st) []) false = true <->
   fst f <= fst c /\ In (anc (fst c - fst f) (snd c)) (support1 (msh st (fst f)) (snd f))).
Proof.
  intros st i j Hi Hj f c. rewrite incidence_nth by auto. fold f. fold c.
  destruct f as [k fi]. destruct c as [jl ci]. simpl. apply incidence_entry_spec.
Qed.

Section Reachable.
  Variable axes : list axis.
  Variable disp : option nat.
  Variable ops : list op.
  Hypothesis HA : Forall axis_ok axes.
  Hypothesis Hd : forall d, disp = Some d -> 1 <= d.
  Hypothesis V : ops_valid (hs_init axes disp) ops.
  Let st := run (hs_init axes disp) ops.
  Let G : good2 (tpmesh_of axes) st := reachable_good2 axes disp ops HA Hd V.
  Let H : hier_ok (tpmesh_of axes) := hier_ok_valid axes HA.

  Lemma incidence_queries_agree_l : forall k f j c,
    k <= j -> j < numlevels st -> In f (AF st k) -> In c (A st j) ->
    (incidence_entry st (k, f) (j, c) = true <-> In f (supported_in (msh st k) [anc (j - k) c])).
  Proof. intros. apply (incidence_entry_supported_in (tpmesh_of axes)); auto. Qed.

  Lemma queries_dual_l : forall k cs f, k < numlevels st ->
    (forall c, In c cs -> In c (A st k) \/ In c (D st k)) ->
    (In f (supported_in (msh st k) cs) <->
     In f (tp_functions (msh st k)) /\ exists c, In c cs /\ In c (support (msh st k) [f])).
  Proof.
    intros k cs f Hk Hcs. apply supported_in_spec.
    - apply (good2_meshes_fine _ _ H G k Hk).
    - intros c Hc. apply (g2_len _ _ G k c Hk). auto.
  Qed.

  Lemma cse_spec_l : forall l cells k c', k <= l -> l < numlevels st ->
    (forall c, In c cells -> In c (A st l) \/ In c (D st l)) ->
    (In c' (cell_support_extension st l cells k) <->
     exists f, In f (tp_functions (msh st k)) /\
               (exists c, In c cells /\ In (anc (l - k) c) (support1 (msh st k) f)) /\
               In c' (support1 (msh st k) f)).
  Proof.
    intros l cells k c' Hkl Hl Hc. apply (cell_support_extension_spec (tpmesh_of axes)); auto.
    intros c Hin. rewrite (g2_len _ _ G l c Hl (Hc c Hin)). apply (good2_dim _ _ l G Hl).
  Qed.

  Lemma fse_spec_l : forall l fs k f', k <= l -> l < numlevels st ->
    (forall f, In f fs -> In f (tp_functions (msh st l))) ->
    (In f' (function_support_extension st l fs k) <->
     In f' (tp_functions (msh st k)) /\
     exists f c, In f fs /\ In c (support1 (msh st l) f) /\ In (anc (l - k) c) (support1 (msh st k) f')).
  Proof. intros. apply (function_support_extension_spec (tpmesh_of axes)); auto. Qed.

  (* A sufficient cell-level condition for admissibility: if around every active cell c of level j
     all cells of the support extension on every level k with k + d < j are deactivated, then no
     active function of level k < j - d is non-zero on c. *)
  Definition cell_condition (d : nat) : Prop :=
    forall j c k c', In c (A st j) -> j < numlevels st -> k + d < j ->
      In c' (cell_support_extension st j [c] k) -> In c' (D st k).

  Definition admissible (d : nat) : Prop :=
    forall k f j c, In f (AF st k) -> In c (A st j) -> j < numlevels st -> k + d < j ->
      ~ In (anc (j - k) c) (support1 (msh st k) f).

  Lemma admissible_from_cell_condition_l : forall d, cell_condition d -> admissible d.
  Proof.
    intros d CC k f j c Hf Hc Hj Hkd Hin.
    assert (Hk : k < numlevels st) by lia.
    pose proof (fi_act _ (g2_funcs _ _ G) k f Hk) as FA. apply FA in Hf. destruct Hf as [HF [_ NSD]].
    apply NSD. intros c' Hc'. apply (CC j c k c' Hc Hj Hkd).
    apply cse_spec_l; [lia | exact Hj | intros c0 [<-|[]]; left; exact Hc |].
    exists f. split; [exact HF|]. split; [|exact Hc']. exists c. split; [left; auto | exact Hin].
  Qed.

  (* admissible = the incidence matrix has no entry between levels more than d apart *)
  Lemma admissible_incidence_l : forall d, admissible d <->
    (forall k f j c, In f (AF st k) -> In c (A st j) -> j < numlevels st -> k + d < j ->
       incidence_entry st (k, f) (j, c) = false).
  Proof.
    intros d. split; intros Hadm k f j c Hf Hc Hj Hkd.
    - destruct (incidence_entry st (k, f) (j, c)) eqn:E; auto.
      apply incidence_entry_spec in E. destruct E as [_ E]. exfalso. eapply Hadm; eauto.
    - intros Hin. assert (E : incidence_entry st (k, f) (j, c) = true).
      { apply incidence_entry_spec. split; [lia | exact Hin]. }
      rewrite (Hadm k f j c Hf Hc Hj Hkd) in E. discriminate.
  Qed.
End Reachable.

(* executable form of the cell condition (for Examples / exploration) and its soundness *)
Definition cell_condition_b (st : hspace) (d : nat) : bool :=
  forallb (fun jc => let (j, c) := jc : nat * mi in
     forallb (fun k => negb (k + d <? j) || subset (cell_support_extension st j [c] k) (D st k)) (seq 0 j))
    (active_cells_flat st).

Lemma cell_condition_b_sound : forall axes disp ops d,
  cell_condition_b (run (hs_init axes disp) ops) d = true -> cell_condition axes disp ops d.
Proof.
  intros axes disp ops d Hb j c k c' Hc Hj Hkd Hin.
  unfold cell_condition_b in Hb. rewrite forallb_forall in Hb.
  specialize (Hb (j, c)). simpl in Hb.
  assert (Hflat : In (j, c) (active_cells_flat (run (hs_init axes disp) ops))) by (apply flat_cells_In; auto).
  specialize (Hb Hflat). rewrite forallb_forall in Hb. specialize (Hb k).
  assert (Hk : In k (seq 0 j)) by (apply in_seq; lia). specialize (Hb Hk).
  apply orb_true_iff in Hb. destruct Hb as [Hb|Hb].
  - apply negb_true_iff, Nat.ltb_ge in Hb. lia.
  - rewrite subset_spec in Hb. apply Hb; auto.
Qed.
