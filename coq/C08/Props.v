(* C08 -- property theorems only.  Each is closed by [exact] of a lemma of
   Proofs.v and followed by Print Assumptions. *)
From Coq Require Import ZArith List Bool Arith.
From Verif.C08 Require Import Model Proofs.
Import ListNotations.

(* chunk_tasks (assemble_tools_cy.pyx:387): for every task list and every requested
   number of chunks k >= 1 the chunks concatenate to the input, none is empty,
   there are at most k of them. *)
Theorem chunks_partition : forall (A : Type) (l : list A) (k : nat),
  (1 <= k)%nat ->
  concat (chunk_tasks l k) = l /\
  Forall (fun c => c <> [] /\ (length c <= chunk_size (length l) k)%nat) (chunk_tasks l k) /\
  (length (chunk_tasks l k) <= k)%nat.
Proof. exact chunks_partition_l. Qed.
Print Assumptions chunks_partition.

(* the chunks of the output array are the slices matching the chunks of the
   index array: chunking commutes with any elementwise map (it only looks at the length) *)
Theorem chunks_matching_slices : forall (A B : Type) (f : A -> B) (l : list A) (k : nat),
  chunk_tasks (map f l) k = map (map f) (chunk_tasks l k).
Proof. exact chunks_map_l. Qed.
Print Assumptions chunks_matching_slices.

(* Schedule independence, general form.  Tasks are lists of stores / copies; a
   schedule is any merge keeping each task's order.  If every location a task
   reads or writes is touched by that task only, all schedules end in the same memory. *)
Theorem schedule_independent : forall (L V : Type) (L_eqb : L -> L -> bool),
  (forall a b, L_eqb a b = true <-> a = b) ->
  forall (own : L -> nat) (ts : list (list (op L V))) s1 s2,
  owned L V own ts -> interleave ts s1 -> interleave ts s2 ->
  forall m l, exec L_eqb s1 m l = exec L_eqb s2 m l.
Proof. exact sched_own_independent. Qed.
Print Assumptions schedule_independent.

(* multi_entries / multi_blocks on an ARBITRARY index list (subset, rows, repeated
   or unsorted indices), any thread count T (T = 0 included) and any interleaving of
   the pool's chunk tasks: the result array is  map entry idx,  i.e. the
   corresponding entries of the full matrix, identical for every T and schedule. *)
Theorem pool_schedule_independent : forall (I V : Type) (entry : I -> V) (idx : list I) (T : nat)
    (s : list (op nat V)) (m0 : nat -> V),
  interleave (pool_tasks entry idx T) s ->
  read_back (length idx) (exec Nat.eqb s m0) = map entry idx.
Proof. exact pool_result_l. Qed.
Print Assumptions pool_schedule_independent.

Theorem pool_write_sets_disjoint : forall (I V : Type) (entry : I -> V) (idx : list I) (T : nat),
  NoDup (concat (map (locs nat V) (pool_tasks entry idx T))).
Proof. exact pool_writes_disjoint_l. Qed.
Print Assumptions pool_write_sets_disjoint.

(* the num_threads <= 1 path *)
Theorem subset_consistent_serial : forall (I V : Type) (entry : I -> V) (idx : list I) (m0 : nat -> V),
  read_back (length idx) (exec Nat.eqb (serial_task entry idx) m0) = map entry idx.
Proof. exact serial_result_l. Qed.
Print Assumptions subset_consistent_serial.

(* assemble_entries(symmetric=True) (assemble.py:742-754) and the packed/bsr path
   (770-786, V = component block, tr = block transpose): for a duplicate-free
   symmetric pattern and an entry function with e(j,i) = tr(e(i,j)) the matrix
   denoted by lower triangle + mirrored strictly lower part is the matrix of the full assembly.
   No algebraic law of vadd is used: each coordinate receives exactly one summand. *)
Theorem symmetric_equals_full : forall (V : Type) (vzero : V) (vadd : V -> V -> V) (tr : V -> V)
    (P : list (Z * Z)) (e : Z * Z -> V),
  NoDup P -> (forall p, In p P -> In (swap p) P) ->
  (forall p, In p P -> e (swap p) = tr (e p)) ->
  forall q, den vzero vadd (assemble_entries tr true P e) q = den vzero vadd (assemble_entries tr false P e) q.
Proof. exact symmetric_equals_full_l. Qed.
Print Assumptions symmetric_equals_full.

(* 'packed' vs 'blocked' (assemble.py:768, 803-805): the data element of the multi-level
   matrix addressed by the per-level pattern entries sel and component (r,c) sits at
   row/column perm(packed row/column) in the blocked layout, for any number of levels,
   square or non-square component blocks ... *)
Theorem packed_blocked_permutation : forall (bs : list (Z * Z)) (nc : Z * Z) (sel : list (Z * Z)) (rc : Z * Z),
  in_ranges (map fst sel) (map fst bs) -> in_ranges (map snd sel) (map snd bs) ->
  (0 <= fst rc < fst nc)%Z -> (0 <= snd rc < snd nc)%Z ->
  key_blocked bs nc sel rc =
    (perm (prodZ (map fst bs)) (fst nc) (fst (key_packed bs nc sel rc)),
     perm (prodZ (map snd bs)) (snd nc) (snd (key_packed bs nc sel rc))).
Proof. exact packed_blocked_l. Qed.
Print Assumptions packed_blocked_permutation.

(* ... and perm is a bijection of range(M*k) with inverse perm k M *)
Theorem layout_permutation_bijective : forall M k p : Z,
  (0 < M)%Z -> (0 < k)%Z -> (0 <= p < M * k)%Z ->
  (0 <= perm M k p < M * k)%Z /\ perm k M (perm M k p) = p.
Proof. exact perm_bijective_l. Qed.
Print Assumptions layout_permutation_bijective.

(* generic_assemble_core_vec_{1,2,3}d (cython.py:1088): the prange iterations mu0 = 0..MU0-1,
   each running the kernel loops incl. the mirrored copies into row transp0[mu0], for ANY
   number of inner levels, symmetric or not: every location an iteration reads or writes is
   owned by that iteration alone (rows with diag0 > 0 belong to the iteration of their
   transposed row, which is the only one writing them), hence every assignment and
   interleaving of the iterations to threads leaves the same `entries` array.
   Hypotheses: the level-0 pattern has no duplicates and transp0 is the index of the
   transposed pattern entry (what get_transpose_idx_for_bidx computes, tied exactly). *)
Theorem prange_schedule_independent : forall (V : Type) (nc0 nc1 : nat) (B : list Z -> list Z -> nat -> V)
    (sym : bool) (lv0 : level) (rest : list level) s1 s2,
  NoDup (fst lv0) -> transp_ok lv0 ->
  interleave (core_tasks nc0 nc1 B sym (lv0 :: rest)) s1 ->
  interleave (core_tasks nc0 nc1 B sym (lv0 :: rest)) s2 ->
  forall m l, exec eloc_eqb s1 m l = exec eloc_eqb s2 m l.
Proof. exact prange_schedule_independent_l. Qed.
Print Assumptions prange_schedule_independent.

(* NOT PROVED: symmetric_equals_full_core --
     forall V vzero nc B lv, (every level pattern duplicate-free, transp_ok) ->
       (forall i j row col, row < nc -> col < nc -> B j i (col*nc+row) = B i j (row*nc+col)) ->
       core_entries vzero nc nc B true lv = core_entries vzero nc nc B false lv.
   Missing: the induction over the kernel's nested loops showing that every index tuple with a
   lexicographically positive diagonal vector is written exactly by the mirror copy of its transposed
   tuple (coverage) -- the skip rule and the mirrored store are covered instead by the exact
   correspondence run, where core_entries .. true .. is compared with the implementation's array for
   symmetric AND unsymmetric forms in 1D, 2D and 3D.  The scalar and BSR paths are proved
   (symmetric_equals_full); the write-set side of the kernel is proved (prange_schedule_independent). *)
