(* C14 -- non-vacuity: a concrete reachable history meets the hypotheses. *)
From Coq Require Import List Arith Lia.
From Verif.lib Require Import Slice.
From Verif.C14 Require Import Model Spec Proofs.
Import ListNotations.

(* four bilinear 2x2-dof patches around a cross point, joined in the order
   (0,1),(2,3),(0,2),(1,3) that needs class merging *)
Definition ex_shapes := [[2;2];[2;2];[2;2];[2;2]].
Definition ex_joins := [
  mk_bjoin 0 1 1 1 1 0 [false];   (* right of 0 = left of 1 *)
  mk_bjoin 2 1 1 3 1 0 [false];
  mk_bjoin 0 0 1 2 0 0 [false];   (* top of 0 = bottom of 2 *)
  mk_bjoin 1 0 1 3 0 0 [false] ].

Example ex_numdofs : fst (observe ex_shapes ex_joins) = 9.
Proof. vm_compute. reflexivity. Qed.

Example ex_crosspoint_single_index :
  let st := run ex_shapes ex_joins in
  let Ns := map prod_list ex_shapes in
  glob st Ns (0, 3) = glob st Ns (1, 2) /\ glob st Ns (1, 2) = glob st Ns (2, 1)
  /\ glob st Ns (2, 1) = glob st Ns (3, 0).
Proof. vm_compute. auto. Qed.

Example ex_pairs_distinct : distinct_pairs (all_pairs ex_shapes ex_joins).
Proof.
  intros e He. vm_compute in He.
  repeat (destruct He as [<-|He]; [simpl; congruence|]). destruct He.
Qed.

Example ex_valid : valid (map prod_list ex_shapes) (3, 0).
Proof. unfold valid; simpl; split; repeat constructor. Qed.

From Verif.C14 Require Import ProofsBd.
Example ex_joins_wellformed : Forall (bjoin_ok ex_shapes) ex_joins.
Proof. repeat constructor; simpl; try lia; try discriminate. Qed.
