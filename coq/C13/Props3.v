(* C13 -- property theorems, deepening round: the cache theorems with the generator applied to the REQUESTED FORM
   ITSELF, for a generator that reads only the attributes in the read-set table R.  R is regenerated on every run by
   translate/c13_readsets.py from pyiga/codegen/cython.py and pyiga/vform.py (every `x.a` read, fail-closed) and
   [reads_within expr_reads current_table = true] is a generated obligation (coq/gen/C13_ReadSets.v). *)
From Coq Require Import String.
From Coq Require Import List ZArith Bool Permutation.
From Verif.C13 Require Import Model Spec Proofs ReadSets.
Import ListNotations.

(* a generator that reads only R does not distinguish a tree / a form from its code-relevant content *)
Theorem reads_only_factors_through_strip : forall R T, reads_within R T = true ->
  forall (Code : Type) (g : form -> Code), (forall f, g f = g (restrict_form R f)) -> forall f, g (strip_form T f) = g f.
Proof. exact reads_only_strip_form. Qed.
Print Assumptions reads_only_factors_through_strip.

(* equal Expr.hash => equal generated code, for every generator that reads only R *)
Theorem same_key_same_code_reads : forall T R, covers T = true -> reads_within R T = true ->
  forall (Code : Type) (g : node -> Code), (forall n, g n = g (restrict R n)) ->
  forall a b, well_typed T a = true -> well_typed T b = true -> key T a = key T b -> g a = g b.
Proof. exact same_key_same_code_reads_l. Qed.
Print Assumptions same_key_same_code_reads.

(* equal VForm.hash => equal generated code *)
Theorem form_same_key_same_code_reads : forall T R, covers T = true -> reads_within R T = true ->
  forall (Code : Type) (g : form -> Code), (forall f, g f = g (restrict_form R f)) ->
  forall f f', wf_form T f = true -> wf_form T f' = true -> form_key T f = form_key T f' -> g f = g f'.
Proof. exact form_same_key_same_code_reads_l. Qed.
Print Assumptions form_same_key_same_code_reads.

(* every request sequence returns what generating from the requested form itself gives *)
Theorem cache_returns_requested_reads :
  forall (T : table) (R : rtable) (C : Type) (gen : bool -> form -> C)
         (seed : list ((form * bool) * C)) (reqs : list (form * bool)),
    covers T = true -> reads_within R T = true ->
    (forall od f, gen od f = gen od (restrict_form R f)) ->
    let build := fun r : form * bool => gen (snd r) (fst r) in
    (forall r c, In (r, c) seed -> wf_form T (fst r) = true /\ c = build r) ->
    Forall (fun r => wf_form T (fst r) = true) reqs ->
    snd (serve _ _ _ keq1 (keyof1 T) (fun r => gen (snd r) (strip_form T (fst r)))
           (preseed _ _ _ (keyof1 T) seed) reqs) = map build reqs.
Proof. exact cache_returns_requested_reads_l. Qed.
Print Assumptions cache_returns_requested_reads.

(* record classes: reads inside key ++ derived, derived attributes functions of the keyed ones => anything computed
   from the read attributes is determined by the keyed ones *)
Theorem reads_determined : forall (V Code : Type) (R K D : list string) (g : store V -> Code)
    (defn : string -> store V -> V),
  subset R (K ++ D) = true -> reads_only V Code R g ->
  (forall d, In d D -> reads_only V V K (defn d)) ->
  forall s t, derived_by V K D defn s -> derived_by V K D defn t -> agree V K s t -> g s = g t.
Proof. exact reads_determined_l. Qed.
Print Assumptions reads_determined.

(* NOT PROVED (this round): that the Python generator reads attributes ONLY through the syntactic forms the
   translator collects (x.a, getattr/hasattr with a literal name; __getattr__ of VForm as modelled) is the semantics
   of Python, trusted; by-name attribution over-approximates the receiver's class.  Attributes assigned after
   construction ("late": VForm.kernel_deps/linear_deps/precomp, AsmVar.is_global/expr) are allowed because they are
   assigned only inside the analysed code, whose own reads are subject to the same obligation -- that induction over
   the execution of finalize() is an argument in prose, not a theorem.  The 'up to order of independent statements'
   relation as an inductive definition and the on-disk path theorems were not reached in this round. *)
