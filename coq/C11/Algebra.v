(* C11 -- algebra of finite sums and the energy identity for subspace corrections. *)
From Coq Require Import QArith Qcanon List Arith Bool Lia.
From Verif.C11 Require Import Spec.
Open Scope Qc_scope.

Lemma sumn_ext : forall n f g, (forall k, (k < n)%nat -> f k = g k) -> sumn n f = sumn n g.
Proof.
  induction n; intros f g H; simpl; [reflexivity|].
  rewrite (IHn f g), (H n); auto.
Qed.

Lemma sumn_plus : forall n f g, sumn n (fun k => f k + g k) = sumn n f + sumn n g.
Proof. induction n; intros; simpl; [ring|]. rewrite IHn. ring. Qed.

Lemma sumn_scal : forall n c f, sumn n (fun k => c * f k) = c * sumn n f.
Proof. induction n; intros; simpl; [ring|]. rewrite IHn. ring. Qed.

Lemma sumn_zero : forall n f, (forall k, (k < n)%nat -> f k = 0) -> sumn n f = 0.
Proof.
  induction n; intros f H; simpl; [reflexivity|].
  rewrite IHn by (intros; apply H; lia). rewrite H by lia. ring.
Qed.

Lemma sumn_opp : forall n f, sumn n (fun k => - f k) = - sumn n f.
Proof. induction n; intros; simpl; [ring|]. rewrite IHn. ring. Qed.

Lemma sumn_swap : forall n m (f : nat -> nat -> Qc),
  sumn n (fun i => sumn m (fun j => f i j)) = sumn m (fun j => sumn n (fun i => f i j)).
Proof.
  induction n; intros; simpl.
  - symmetry. apply sumn_zero. auto.
  - rewrite IHn. rewrite <- sumn_plus. reflexivity.
Qed.

(* sum with a Kronecker delta *)
Lemma sumn_delta : forall n i f, (i < n)%nat ->
  sumn n (fun k => if Nat.eqb k i then f k else 0) = f i.
Proof.
  induction n; intros i f Hi; [lia|]. simpl.
  destruct (Nat.eqb_spec n i).
  - subst. rewrite sumn_zero. ring.
    intros k Hk. destruct (Nat.eqb_spec k i); [lia|reflexivity].
  - rewrite IHn by lia. ring.
Qed.

Lemma sum_skip_split : forall n i f, (i < n)%nat -> sumn n f = sum_skip n i f + f i.
Proof.
  intros. unfold sum_skip.
  transitivity (sumn n (fun j => (if Nat.eqb j i then 0 else f j) + (if Nat.eqb j i then f j else 0))).
  - apply sumn_ext. intros k _. destruct (Nat.eqb k i); ring.
  - rewrite sumn_plus, (sumn_delta n i f H). reflexivity.
Qed.

Lemma mv_plus : forall n A u v i, mv n A (fun k => u k + v k) i = mv n A u i + mv n A v i.
Proof. intros. unfold mv. rewrite <- sumn_plus. apply sumn_ext. intros. ring. Qed.

Lemma mv_minus : forall n A u v i, mv n A (fun k => u k - v k) i = mv n A u i - mv n A v i.
Proof.
  intros. unfold mv. replace (sumn n (fun j => A i j * u j) - sumn n (fun j => A i j * v j))
    with (sumn n (fun j => A i j * u j) + - sumn n (fun j => A i j * v j)) by ring.
  rewrite <- sumn_opp, <- sumn_plus. apply sumn_ext. intros. ring.
Qed.

Lemma dotn_plus_l : forall n u v w, dotn n (fun k => u k + v k) w = dotn n u w + dotn n v w.
Proof. intros. unfold dotn. rewrite <- sumn_plus. apply sumn_ext. intros. ring. Qed.

Lemma dotn_plus_r : forall n u v w, dotn n w (fun k => u k + v k) = dotn n w u + dotn n w v.
Proof. intros. unfold dotn. rewrite <- sumn_plus. apply sumn_ext. intros. ring. Qed.

Lemma dotn_ext : forall n u v u' v', (forall k, (k < n)%nat -> u k = u' k) ->
  (forall k, (k < n)%nat -> v k = v' k) -> dotn n u v = dotn n u' v'.
Proof. intros. unfold dotn. apply sumn_ext. intros. rewrite H, H0; auto. Qed.

Lemma mv_ext : forall n A u v i, (forall k, (k < n)%nat -> u k = v k) -> mv n A u i = mv n A v i.
Proof. intros. unfold mv. apply sumn_ext. intros. rewrite H; auto. Qed.

(* u^T A v = v^T A u for symmetric A *)
Lemma sym_bilinear : forall n A u v, symmetric n A ->
  dotn n u (mv n A v) = dotn n v (mv n A u).
Proof.
  intros n A u v Hs. unfold dotn, mv.
  rewrite (sumn_ext n (fun k => u k * sumn n (fun j => A k j * v j))
                      (fun k => sumn n (fun j => u k * A k j * v j))).
  2:{ intros. rewrite <- sumn_scal. apply sumn_ext. intros. ring. }
  rewrite sumn_swap. apply sumn_ext. intros j Hj.
  rewrite <- sumn_scal. apply sumn_ext. intros k Hk. rewrite (Hs k j); auto. ring.
Qed.

(* ------------------------------------------------------------------------
   The energy identity for a subspace correction.
   If d is supported where the corrected residual equation holds
   (for every k: d k = 0, or (A d)_k = b_k - (A x)_k and (A xs)_k = b_k),
   then  E(x + d) = E(x) - d^T A d.
   Gauss-Seidel (one coordinate), the exact smoother (an index set) and the
   coarsest-level solve are all instances.
   ------------------------------------------------------------------------ *)
Lemma subspace_correction_energy : forall n A b xs x d,
  symmetric n A ->
  (forall k, (k < n)%nat -> d k = 0 \/ (mv n A d k = b k - mv n A x k /\ mv n A xs k = b k)) ->
  energy n A xs (fun k => x k + d k) = energy n A xs x - dotn n d (mv n A d).
Proof.
  intros n A b xs x d Hs Hd. unfold energy.
  set (e := fun k => x k - xs k).
  assert (E1 : dotn n (fun k => x k + d k - xs k) (mv n A (fun k => x k + d k - xs k))
             = dotn n (fun k => e k + d k) (mv n A (fun k => e k + d k))).
  { apply dotn_ext; intros; unfold e; [ring|]. apply mv_ext. intros. ring. }
  rewrite E1.
  rewrite (dotn_ext n (fun k => e k + d k) (mv n A (fun k => e k + d k))
                      (fun k => e k + d k) (fun k => mv n A e k + mv n A d k)).
  2:{ reflexivity. } 2:{ intros. apply mv_plus. }
  rewrite dotn_plus_l, !dotn_plus_r.
  rewrite (sym_bilinear n A e d Hs).
  assert (E2 : dotn n d (mv n A e) = - dotn n d (mv n A d)).
  { unfold dotn. rewrite <- sumn_opp. apply sumn_ext. intros k Hk.
    destruct (Hd k Hk) as [Z|[H1 H2]].
    - rewrite Z. ring.
    - unfold e. rewrite mv_minus, H1, H2. ring. }
  rewrite E2. ring.
Qed.

(* order facts on Qc *)
Lemma Qc_sq_nonneg : forall x : Qc, 0 <= x * x.
Proof.
  intros x. unfold Qcle, Qcmult, Q2Qc. cbn [this].
  rewrite !Qred_correct. destruct x as [q Hq]. cbn [this].
  destruct (Qlt_le_dec q 0%Q).
  - setoid_replace (q * q)%Q with ((-q) * (-q))%Q by ring.
    apply Qmult_le_0_compat; apply (Qopp_le_compat q 0%Q), Qlt_le_weak; assumption.
  - apply Qmult_le_0_compat; assumption.
Qed.

Lemma Qc_sub_nonneg_le : forall a b : Qc, 0 <= b -> a - b <= a.
Proof.
  intros. apply Qcle_minus_iff. replace (a + - (a - b)) with b by ring. assumption.
Qed.

Lemma Qc_mul_nonneg : forall x y : Qc, 0 <= x -> 0 <= y -> 0 <= x * y.
Proof.
  intros x y Hx Hy. replace 0 with (0 * y) by ring. apply Qcmult_le_compat_r; assumption.
Qed.

(* an exact subspace solve (A-orthogonal projection of the error) does not increase the energy *)
Lemma exact_correction_energy : forall n A b xs x d,
  symmetric n A -> psd n A ->
  (forall k, (k < n)%nat -> d k = 0 \/ (mv n A d k = b k - mv n A x k /\ mv n A xs k = b k)) ->
  energy n A xs (fun k => x k + d k) <= energy n A xs x.
Proof.
  intros. rewrite (subspace_correction_energy n A b xs x d); auto.
  apply Qc_sub_nonneg_le. apply H0.
Qed.
