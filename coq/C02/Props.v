(* C02 -- property theorems only.  Every statement is for every degree p, every knot vector kv
   and every parameter value u that meet the stated hypotheses (no bounds).
     kv_ok kv p   : length >= 2p+2, non-decreasing, kv[p] = kv[0], kv[n-p-1] = kv[n-1], kv[n-p-2] < kv[n-p-1]
     open_kv kv p : the boolean well-formedness check of an open knot vector (implies kv_ok)
     Nref / dNref : the Cox-de Boor recursion and its derivative recursion (coq/lib/Bsp.v)
     sumf f a n   : f a + f (a+1) + ... + f (a+n-1) *)
From Coq Require Import QArith Qcanon List Arith.
From Verif.lib Require Import Bsp.
From Verif.C02 Require Import Proofs Proofs_ref Proofs_ndu Proofs_single Proofs_deriv Proofs_tp.
Import ListNotations.
Open Scope Qc_scope.

(* Span lookup (the transcription of pyx_findspan) returns, for every open knot vector
   and every parameter value in its domain, a non-empty span p <= s < n-p-1 with
   kv[s] <= u < kv[s+1], or the last non-empty span when u is the right end point. *)
Theorem findspan_spec : forall kv p u,
  kv_ok kv p -> kn kv 0 <= u -> u <= kn kv (length kv - 1) ->
  let s := findspan kv p u in
  (p <= s)%nat /\ (s < length kv - p - 1)%nat /\ kn kv s < kn kv (S s) /\
  kn kv s <= u /\ (u < kn kv (S s) \/ (u = kn kv (length kv - 1) /\ kn kv (S s) = kn kv (length kv - 1))).
Proof. exact findspan_spec_l. Qed.
Print Assumptions findspan_spec.

(* ... and it is the unique such span. *)
Theorem findspan_unique : forall kv p u t,
  kv_ok kv p -> kn kv 0 <= u -> u < kn kv (length kv - 1) ->
  (S t < length kv)%nat -> kn kv t <= u -> u < kn kv (S t) -> t = findspan kv p u.
Proof. exact findspan_unique_l. Qed.
Print Assumptions findspan_unique.

(* The boolean well-formedness predicate implies the facts the theorems assume. *)
Theorem open_kv_ok : forall kv p, open_kv kv p = true -> kv_ok kv p.
Proof. exact open_kv_ok_l. Qed.
Print Assumptions open_kv_ok.

(* Non-negativity of every basis function of a non-decreasing knot vector, at every u. *)
Theorem N_nonneg : forall kv, sorted kv -> forall p i u,
  (i + p + 1 < length kv)%nat -> 0 <= Nref kv p i u.
Proof. exact N_nonneg_l. Qed.
Print Assumptions N_nonneg.

(* Support: N_{i,p}(u) <> 0 only for t_i <= u < t_{i+p+1}, or at the right end point u = t_last
   for a function whose support reaches it. *)
Theorem N_support_knots : forall kv p i u,
  sorted kv -> (i + p + 1 < length kv)%nat -> Nref kv p i u <> 0 ->
  (kn kv i <= u /\ u < kn kv (i + p + 1)) \/
  (u = kn kv (length kv - 1) /\ kn kv i < kn kv (length kv - 1) /\ kn kv (i + p + 1) = kn kv (length kv - 1)).
Proof. exact N_support_l. Qed.
Print Assumptions N_support_knots.

(* Locality in the form the property uses: only the p+1 functions s-p..s of the reported span
   can be non-zero. *)
Theorem N_local : forall kv p u i,
  kv_ok kv p -> kn kv 0 <= u -> u <= kn kv (length kv - 1) -> (i + p + 1 < length kv)%nat ->
  ~ (findspan kv p u - p <= i <= findspan kv p u)%nat -> Nref kv p i u = 0.
Proof. exact N_local_l. Qed.
Print Assumptions N_local.

(* Partition of unity over the active functions ... *)
Theorem N_partition_of_unity : forall kv p u,
  kv_ok kv p -> kn kv 0 <= u -> u <= kn kv (length kv - 1) ->
  sumf (fun i => Nref kv p i u) (findspan kv p u - p) (S p) = 1.
Proof. exact N_partition_of_unity_l. Qed.
Print Assumptions N_partition_of_unity.

(* ... and over all basis functions. *)
Theorem N_partition_of_unity_all : forall kv p u,
  kv_ok kv p -> kn kv 0 <= u -> u <= kn kv (length kv - 1) ->
  sumf (fun i => Nref kv p i u) 0 (numdofs kv p) = 1.
Proof. exact N_partition_of_unity_all_l. Qed.
Print Assumptions N_partition_of_unity_all.

(* Derivatives of order k >= 1 sum to zero (over the active functions; over all functions). *)
Theorem dN_sum_zero : forall kv p u k,
  kv_ok kv p -> kn kv 0 <= u -> u <= kn kv (length kv - 1) -> (1 <= k)%nat ->
  sumf (fun i => dNref kv k p i u) (findspan kv p u - p) (S p) = 0.
Proof. exact dN_sum_zero_l. Qed.
Print Assumptions dN_sum_zero.

Theorem dN_sum_zero_all : forall kv p u k,
  kv_ok kv p -> (1 <= k)%nat -> sumf (fun i => dNref kv k p i u) 0 (numdofs kv p) = 0.
Proof. exact dN_sum_zero_all_l. Qed.
Print Assumptions dN_sum_zero_all.

(* Derivatives of order > p vanish identically; derivatives of every order are local. *)
Theorem dN_high_zero : forall kv k p i u, (p < k)%nat -> dNref kv k p i u = 0.
Proof. exact dN_high_zero_l. Qed.
Print Assumptions dN_high_zero.

Theorem dN_local : forall kv p u k i,
  kv_ok kv p -> kn kv 0 <= u -> u <= kn kv (length kv - 1) -> (i + p + 1 < length kv)%nat ->
  ~ (findspan kv p u - p <= i <= findspan kv p u)%nat -> dNref kv k p i u = 0.
Proof. exact dN_local_l. Qed.
Print Assumptions dN_local.

(* Correctness of the NDU value loop of bspline_active_deriv_single (NURBS book A2.2):
   row 0 of active_deriv is the vector of reference values of the p+1 active functions. *)
Theorem active_values_eq_spec : forall kv p u nd,
  kv_ok kv p -> kn kv 0 <= u -> u <= kn kv (length kv - 1) ->
  nth 0 (active_deriv kv p u nd) [] =
  map (fun r => Nref kv p (findspan kv p u - p + r) u) (seq 0 (S p)).
Proof. exact active_values_eq_spec_l. Qed.
Print Assumptions active_values_eq_spec.

(* Every divisor of that loop (temp = ndu[r][j-1] / ndu[j][r], r < j <= p) is strictly positive,
   so the exact model never uses its x/0 = 0 convention where the C code would divide by zero. *)
Theorem ndu_divisors_pos : forall kv p u j r,
  kv_ok kv p -> kn kv 0 <= u -> u <= kn kv (length kv - 1) -> (r < j)%nat -> (j <= p)%nat ->
  0 < get2 (ndu_table kv p (findspan kv p u) u) j r.
Proof. exact ndu_divisors_pos_l. Qed.
Print Assumptions ndu_divisors_pos.

(* Correctness of _bspline_single_ev_single, for every function index and EVERY u (inside or
   outside the domain, on knots, at both end points). *)
Theorem single_ev_eq_spec : forall kv p i u,
  open_kv kv p = true -> (i + p + 1 < length kv)%nat -> single_ev kv p i u = Nref kv p i u.
Proof. exact single_ev_eq_spec_l. Qed.
Print Assumptions single_ev_eq_spec.

(* Collocation rows: length numdofs, the p+1 active entries at columns first_active..first_active+p,
   zeros elsewhere (any derivative order k) ... *)
Theorem colloc_row_spec : forall kv p k u j, (j < numdofs kv p)%nat ->
  nth j (colloc_row kv p k u) 0 =
  if ((first_active_at kv p u <=? j) && (j <=? first_active_at kv p u + p))%nat
  then nth (j - first_active_at kv p u) (nth k (active_deriv kv p u k) []) 0 else 0.
Proof. exact colloc_row_spec_l. Qed.
Print Assumptions colloc_row_spec.

Theorem colloc_row_len : forall kv p k u, length (colloc_row kv p k u) = numdofs kv p.
Proof. exact colloc_row_length. Qed.
Print Assumptions colloc_row_len.

(* ... and the value row is entry for entry the reference: B[u, j] = N_{j,p}(u) for every column j. *)
Theorem colloc_row_values : forall kv p u j,
  kv_ok kv p -> kn kv 0 <= u -> u <= kn kv (length kv - 1) -> (j < numdofs kv p)%nat ->
  nth j (colloc_row kv p 0 u) 0 = Nref kv p j u.
Proof. exact colloc_row_values_l. Qed.
Print Assumptions colloc_row_values.

(* The closed formula behind the derivative loop (NURBS book eq. 2.10), derived from the derivative
   recursion dNref for EVERY knot vector (no sortedness needed; x/0 = 0 on both sides):
   N^(k)_{i,p} = p(p-1)..(p-k+1) * sum_{j=0..k} a_{k,j} N_{i+j,p-k},
   a_{0,0} = 1, a_{k,j} = (a_{k-1,j} - a_{k-1,j-1}) / (t_{i+j+p-k+1} - t_{i+j}). *)
Theorem dN_formula : forall kv p i u k, (k <= p)%nat ->
  dNref kv k p i u = Zq (Ffac p k) * sumf (fun j => acoef kv p i k j * Nref kv (p - k) (j + i) u) 0 (S k).
Proof. exact dN_formula_l. Qed.
Print Assumptions dN_formula.

(* Correctness of the a1/a2 derivative loop of bspline_active_deriv_single (NURBS book A2.3), for
   EVERY derivative order k <= nd (including k > p, where the loop body is empty and the result 0):
   entry [k][r] of active_deriv is the k-th derivative of the r-th active function. *)
Theorem active_derivs_eq_spec : forall kv p u nd k r,
  kv_ok kv p -> kn kv 0 <= u -> u <= kn kv (length kv - 1) -> (k <= nd)%nat -> (r <= p)%nat ->
  nth r (nth k (active_deriv kv p u nd) []) 0 = dNref kv k p (findspan kv p u - p + r) u.
Proof. exact active_derivs_eq_spec_l. Qed.
Print Assumptions active_derivs_eq_spec.

Theorem active_deriv_row : forall kv p u nd k,
  kv_ok kv p -> kn kv 0 <= u -> u <= kn kv (length kv - 1) -> (k <= nd)%nat ->
  nth k (active_deriv kv p u nd) [] = map (fun r => dNref kv k p (findspan kv p u - p + r) u) (seq 0 (S p)).
Proof. exact active_deriv_row_l. Qed.
Print Assumptions active_deriv_row.

(* Derivative collocation rows of every order: B^(k)[u, j] = N^(k)_{j,p}(u) for every column j. *)
Theorem colloc_row_derivs : forall kv p k u j,
  kv_ok kv p -> kn kv 0 <= u -> u <= kn kv (length kv - 1) -> (j < numdofs kv p)%nat ->
  nth j (colloc_row kv p k u) 0 = dNref kv k p j u.
Proof. exact colloc_row_derivs_l. Qed.
Print Assumptions colloc_row_derivs.

(* The single-function route and the all-active/collocation route agree exactly (both equal Nref). *)
Theorem routes_agree : forall kv p u j,
  open_kv kv p = true -> kn kv 0 <= u -> u <= kn kv (length kv - 1) -> (j < numdofs kv p)%nat ->
  single_ev kv p j u = nth j (colloc_row kv p 0 u) 0.
Proof. exact routes_agree_l. Qed.
Print Assumptions routes_agree.

(* ---- routes built on the collocation rows ---------------------------------------------------
   spline_ev kv p k c u = (row of the k-th derivative collocation matrix at u) . c  is what
   bspline.ev (k = 0) and bspline.deriv (k >= 1) compute for degree > 5 and what scipy's splev is
   compared with for degree <= 5 (the harness compares the returned floats with this sum, formed in
   exact rationals from the active values that the exact tie has compared with the model). *)
Theorem spline_ev_spec : forall kv p k c u,
  kv_ok kv p -> kn kv 0 <= u -> u <= kn kv (length kv - 1) -> length c = numdofs kv p ->
  spline_ev kv p k c u = sumf (fun j => nth j c 0 * dNref kv k p j u) 0 (numdofs kv p).
Proof. exact spline_ev_spec_l. Qed.
Print Assumptions spline_ev_spec.

(* only the p+1 coefficients starting at the reported first-active index enter *)
Theorem spline_ev_local : forall kv p k c u,
  kv_ok kv p -> kn kv 0 <= u -> u <= kn kv (length kv - 1) -> length c = numdofs kv p ->
  spline_ev kv p k c u = sumf (fun j => nth j c 0 * dNref kv k p j u) (first_active_at kv p u) (S p).
Proof. exact spline_ev_local_l. Qed.
Print Assumptions spline_ev_local.

(* constants are reproduced, their derivatives of every order >= 1 vanish *)
Theorem spline_ev_const : forall kv p x u,
  kv_ok kv p -> kn kv 0 <= u -> u <= kn kv (length kv - 1) ->
  spline_ev kv p 0 (repeat x (numdofs kv p)) u = x.
Proof. exact spline_ev_const_l. Qed.
Print Assumptions spline_ev_const.

Theorem spline_deriv_const : forall kv p k x u,
  kv_ok kv p -> kn kv 0 <= u -> u <= kn kv (length kv - 1) -> (1 <= k)%nat ->
  spline_ev kv p k (repeat x (numdofs kv p)) u = 0.
Proof. exact spline_deriv_const_l. Qed.
Print Assumptions spline_deriv_const.

(* Tensor-product evaluators (BSplineFunc.grid_eval / grid_jacobian / grid_hessian at one grid point):
   applying one (derivative) collocation row per axis, axis by axis (tp_eval: the apply_tprod
   contraction), gives the defining nested sum  sum_{j1}..sum_{jd} c[j1..jd] prod_a N^(k_a)_{j_a}(u_a)
   (tp_ref), for ANY number of axes, degrees, knot vectors, derivative multi-orders and points. *)
Theorem tp_eval_spec : forall axes ks c pt, axes_ok axes pt -> tp_eval axes ks c pt = tp_ref axes ks c pt.
Proof. exact tp_eval_spec_l. Qed.
Print Assumptions tp_eval_spec.

(* the two-axis case written out: entry of  C2 * c * C1^T  (what the harness compares grid_eval and
   grid_jacobian with) *)
Theorem tp_eval_2d : forall kv2 p2 k2 kv1 p1 k1 (c : nat -> nat -> Qc) v u,
  kv_ok kv2 p2 -> kn kv2 0 <= v -> v <= kn kv2 (length kv2 - 1) ->
  kv_ok kv1 p1 -> kn kv1 0 <= u -> u <= kn kv1 (length kv1 - 1) ->
  tp_eval [(kv2, p2); (kv1, p1)] [k2; k1]
          (fun idx => match idx with [a; b] => c a b | _ => 0 end) [v; u] =
  sumf (fun a => sumf (fun b => c a b * (dNref kv2 k2 p2 a v * dNref kv1 k1 p1 b u)) 0 (numdofs kv1 p1))
       0 (numdofs kv2 p2).
Proof. exact tp_eval_2d_l. Qed.
Print Assumptions tp_eval_2d.

(* the tensor-product basis is a partition of unity (constant coefficients give the constant) and
   every derivative of a constant vanishes; non-negative coefficients give a non-negative value *)
Theorem tp_eval_const : forall axes ks x pt, axes_ok axes pt -> length ks = length axes ->
  tp_eval axes ks (fun _ => x) pt = if all_zero ks then x else 0.
Proof. exact tp_eval_const_l. Qed.
Print Assumptions tp_eval_const.

Theorem tp_nonneg : forall axes c pt, axes_ok axes pt -> (forall idx, 0 <= c idx) ->
  0 <= tp_ref axes (repeat 0%nat (length axes)) c pt.
Proof. exact tp_ref_nonneg_l. Qed.
Print Assumptions tp_nonneg.

(* NOT PROVED (tie/oracle only): that FITPACK's splev/splder (the degree <= 5 route of ev/deriv)
   computes spline_ev -- it is compared with the sum above per point; the float error bounds of every
   route; BSplineFunc's caching of collocation matrices per grid (history tie on one object). *)
