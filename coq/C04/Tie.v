(* C04 -- glue for the correspondence run: the observations the implementation driver
   (harness/impl/c04_driver.py: observe) reports after every call, computed by the model and
   flattened to one nested list of naturals so that one equality test compares everything. *)
From Coq Require Import List Arith Bool NArith.
From Verif.lib Require Import FinSet.
From Verif.C04 Require Import Model Boundary Supports Children.
Import ListNotations.

Definition ob := list N.

Definition b2n (b : bool) : nat := if b then 1 else 0.

(* np.ravel_multi_index(idx, shape), C order *)
Fixpoint ravel_aux (acc : nat) (shape idx : list nat) : nat :=
  match shape, idx with
  | n :: shape', i :: idx' => ravel_aux (acc * n + i) shape' idx'
  | _, _ => acc
  end.
Definition ravel (shape idx : list nat) : nat := ravel_aux 0 shape idx.

Fixpoint inboxb (shape idx : list nat) : bool :=
  match shape, idx with
  | [], [] => true
  | n :: shape', i :: idx' => (i <? n) && inboxb shape' idx'
  | _, _ => false
  end.

(* a set of multi-indices inside the box [shape] as (bit mask over the raveled indices, cut into
   60-bit words, little endian; number of elements); a set with an element outside the box gets
   the impossible size 999999.  For duplicate-free sets inside the box the encoding is injective.
   (Words instead of one big number: Coq reads long number literals in superlinear time.) *)
Fixpoint words (m : N) (n : nat) : list N :=
  match n with 0 => [] | S n' => N.land m 1152921504606846975%N :: words (N.shiftr m 60) n' end.

Definition nwords (bits : nat) : nat := (bits + 59) / 60.

Definition enc (shape : list nat) (s : list mi) : list N :=
  let nw := nwords (fold_left Nat.mul shape 1) in
  if forallb (inboxb shape) s
  then words (fold_left (fun acc x => N.lor acc (N.shiftl 1 (N.of_nat (ravel shape x)))) s 0%N) nw
       ++ [N.of_nat (length s)]
  else repeat 0%N nw ++ [999999%N].

Fixpoint row_mask (j : N) (r : list bool) : N :=
  match r with [] => 0%N | b :: r' => N.lor (if b then N.shiftl 1 j else 0%N) (row_mask (N.succ j) r') end.

Fixpoint bits (l : list bool) : N :=
  match l with [] => 1%N | b :: l' => N.add (if b then 1%N else 0%N) (N.mul 2 (bits l')) end.

Definition rel4 (p hs : hspace) : list bool :=
  [is_subspace_of p hs; is_subspace_of hs p; spans_same_space_as hs p; spans_same_space_as p hs].

(* (l, k, cells, funcs): arguments of the support queries *)
Definition query := (nat * nat * list mi * list mi)%type.

Definition pairs_N (l : list (nat * nat)) : list N := flat_map (fun r => [N.of_nat (fst r); N.of_nat (snd r)]) l.

Definition cshape (st : hspace) (k : nat) := tp_numspans (msh st k).
Definition fshape (st : hspace) (k : nat) := tp_numdofs (msh st k).

Definition obs_of (ok : bool) (st : hspace) (ret : list set) (prev root : hspace)
                  (first with_inc with_tables : bool) (qs : list query) : ob :=
  let L := numlevels st in
  [N.of_nat (b2n ok); N.of_nat L]
  ++ flat_map (fun k => let l := lvl st k in
        enc (cshape st k) (lv_active l) ++ enc (cshape st k) (lv_deact l)
        ++ enc (fshape st k) (lv_actfun l) ++ enc (fshape st k) (lv_deactfun l)) (seq 0 L)
  ++ flat_map (fun k => enc (cshape st k) (nth k ret [])) (seq 0 L)
  ++ (if with_inc then N.of_nat (length (active_functions_flat st))
                      :: flat_map (fun r => words (row_mask 0%N r) (nwords (length r))) (incidence st) else [])
  ++ [bits (rel4 prev st ++ (if first then [] else rel4 root st))]
  ++ (if with_tables then
        flat_map (fun k => let m := msh st k in
                 map N.of_nat (tp_numspans m) ++ map N.of_nat (tp_numdofs m)
                 ++ flat_map pairs_N (tp_ms m) ++ flat_map pairs_N (tp_sf m)) (seq 0 L)
      else [])
  ++ flat_map (fun q => let '(l, k, cells, funcs) := q in
        enc (cshape st k) (cell_support_extension st l cells k)
        ++ enc (fshape st k) (function_support_extension st l funcs k)
        ++ enc (cshape st l) (support (msh st l) funcs)
        ++ enc (fshape st l) (supported_in (msh st l) cells)) qs.

(* ordered list of multi-indices inside a box: length, then the raveled indices in order *)
Definition encl (shape : list nat) (l : list mi) : list N :=
  if forallb (inboxb shape) l
  then N.of_nat (length l) :: map (fun x => N.of_nat (ravel shape x)) l
  else [999999%N].

Definition enco (o : option (list nat)) : list N :=
  match o with None => [0%N] | Some l => 1%N :: N.of_nat (length l) :: map N.of_nat l end.

(* the boundary / Dirichlet / smoothing observations of the driver (boundary_obs) *)
Definition bd_obs (st : hspace) (bds : list bdspec) (bd : bdspec) (with_boundary : bool) : ob :=
  let L := numlevels st in
  let lv_i := flat_map (fun lv => map (pair lv) (seq 0 L)) (seq 0 L) in
  flat_map (fun p => enc (fshape st (snd p)) (index_dirichlet st bds (fst p) (snd p))) lv_i
  ++ flat_map (fun p => encl (fshape st (snd p)) (new_indices st bds (fst p) (snd p))) lv_i
  ++ flat_map (fun p => encl (fshape st (snd p)) (cell_supp_indices st bds true (hs_disparity st) (fst p) (snd p))) lv_i
  ++ flat_map (fun p => encl (fshape st (snd p)) (cell_supp_indices st bds false (hs_disparity st) (fst p) (snd p))) lv_i
  ++ flat_map (fun p => encl (fshape st (snd p)) (global_indices st (fst p) (snd p))) lv_i
  ++ flat_map (fun lv => enco (smooth_new st bds lv)) (seq 0 L)
  ++ flat_map (fun lv => enco (smooth_cell_supp st bds lv)) (seq 0 L)
  ++ flat_map (fun lv => enco (dirichlet_dofs st bds lv)) (seq 0 L)
  ++ enco (non_dirichlet_dofs st bds)
  ++ (if with_boundary then
        match boundary_space st bd with
        | None => [0%N]
        | Some b =>
            1%N :: N.of_nat (numlevels b)
            :: flat_map (fun k => let l := lvl b k in
                  enc (cshape b k) (lv_active l) ++ enc (cshape b k) (lv_deact l)
                  ++ enc (fshape b k) (lv_actfun l) ++ enc (fshape b k) (lv_deactfun l)) (seq 0 (numlevels b))
            ++ enco (boundary_mapping st bd)
        end
      else []).

(* the hierarchical support queries of the driver (support_obs): all active functions, a seeded
   multi-level selection of functions, a seeded multi-level selection of cells, and the virtual
   supports of the global index lists *)
Definition enc_dict (st : hspace) (n : nat) (r : list set) : ob :=
  flat_map (fun k => enc (cshape st k) (nth k r [])) (seq 0 n).

(* function_children / grandchildren (two levels up) / parents / grandparents (two levels down) of the
   seeded functions of every level *)
Definition kids_obs (st : hspace) (funcs : list (list mi)) : ob :=
  let L := numlevels st in
  flat_map (fun l =>
    let fs := nth l funcs [] in
    if is_empty fs then []
    else (if S l <? L
          then enc (fshape st (S l)) (function_children st l fs)
               ++ enc (fshape st (Nat.min (L - 1) (l + 2))) (function_grandchildren st (Nat.min (L - 1) (l + 2) - l) l fs)
          else [])
         ++ (if 1 <=? l
             then enc (fshape st (l - 1)) (function_parents st l fs)
                  ++ enc (fshape st (l - 2)) (function_grandparents st (l - (l - 2)) l fs)
             else [])) (seq 0 L).

Definition sup_obs (st : hspace) (funcs cells : list (list mi)) : ob :=
  let L := numlevels st in
  enc_dict st L (compute_supports st (map (fun l => lv_actfun (lvl st l)) (seq 0 L)))
  ++ enc_dict st L (compute_supports st funcs)
  ++ enc_dict st L (hmesh_cells st cells)
  ++ flat_map (fun p => enc_dict st (S (fst p)) (snd p))
       (combine (seq 0 L) (compute_virtual_supports st (global_lists st)))
  ++ kids_obs st funcs.

Definition step_full (st : hspace) (o : op) : hspace * bool * list set :=
  match o with
  | Refine raw trunc =>
      match hs_refine st raw trunc with Ok (st', m) => (st', true, m) | _ => (st, false, []) end
  | RefineRegion lv sel =>
      match hs_refine_region st lv (fun c => mem c sel) with
      | (_, Ok (st', m)) => (st', true, m)
      | (st1, _) => (st1, false, [])
      end
  end.

(* per call: the op, whether the incidence matrix / the mesh tables are compared, the query
   arguments, and whether this step is compared at all *)
Definition stepinfo := (op * bool * bool * list query * option (list bdspec * bdspec * bool)
                     * option (list (list mi) * list (list mi)) * bool)%type.

Fixpoint obs_steps (root st : hspace) (first : bool) (steps : list stepinfo) : list (option ob) :=
  match steps with
  | [] => []
  | (o, with_inc, with_tables, qs, bq, sq, cmp) :: rest =>
      let '(st', ok, ret) := step_full st o in
      (if cmp then Some (obs_of ok st' ret st root first with_inc with_tables qs
                         ++ match bq with None => [] | Some (bds, bd, wb) => bd_obs st' bds bd wb end
                         ++ match sq with None => [] | Some (fs, cs) => sup_obs st' fs cs end)
       else None)
      :: obs_steps root st' false rest
  end.

Definition model_obs (axes : list axis) (disp : option nat) (steps : list stepinfo) : list (option ob) :=
  let root := hs_init axes disp in obs_steps root root true steps.

Fixpoint ob_eqb (a b : ob) : bool :=
  match a, b with
  | [], [] => true
  | x :: a', y :: b' => N.eqb x y && ob_eqb a' b'
  | _, _ => false
  end.
Definition oob_eqb (a b : option ob) : bool :=
  match a, b with
  | None, None => true
  | Some x, Some y => ob_eqb x y
  | _, _ => false
  end.
Fixpoint all2 (a b : list (option ob)) : bool :=
  match a, b with
  | [], [] => true
  | x :: a', y :: b' => oob_eqb x y && all2 a' b'
  | _, _ => false
  end.

Definition case := (list axis * option nat * list stepinfo * list (option ob))%type.

Definition agrees (c : case) : bool :=
  let '(axes, disp, steps, expected) := c in all2 (model_obs axes disp steps) expected.

Fixpoint bad (k : nat) (cs : list case) : list nat :=
  match cs with [] => [] | c :: cs' => if agrees c then bad (S k) cs' else k :: bad (S k) cs' end.

(* the executable property predicates on the model state after a history (self-check of the model) *)
Definition model_props (axes : list axis) (disp : option nat) (ops : list op) : bool :=
  let st := run (hs_init axes disp) ops in
  cells_inv_b st && funcs_inv_b st.
