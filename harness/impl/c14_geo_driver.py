"""C14 geometric tie: conforming decompositions of a box into patches; automatic
interface detection, gluing by physical location, assemble_system consistency and
multipatch Dirichlet data on the real code."""
import json
import os
import sys

import numpy as np


def main():
    import pyiga
    assert os.path.realpath(pyiga.__file__).startswith(os.path.realpath(os.environ['VERIF_IMPL_DIR'])), pyiga.__file__
    from pyiga import bspline, assemble, geometry
    payload = json.load(sys.stdin)
    out = []
    for case in payload['cases']:
        res = {'status': 'Ok'}
        try:
            dim = case['dim']
            patches = []
            if case.get('kind') == 'ring':
                # k annulus sectors of angle 2*pi/k (NURBS), sector i rotated by i*2*pi/k: for k = 2 the
                # two patches share TWO faces
                k = case['k']
                sector = geometry.outer_product(geometry.circular_arc(2 * np.pi / k), geometry.line_segment(case['r1'], case['r2']))
                for i in case['order']:
                    geo = sector if i == 0 else sector.rotate_2d(i * 2 * np.pi / k)
                    kvs = (bspline.make_knots(case['p'], 0.0, 1.0, case['nspans'][0]),
                           bspline.make_knots(case['p'], 0.0, 1.0, case['nspans'][1]))
                    patches.append((kvs, geo))
            for pt in ([] if case.get('kind') == 'ring' else case['patches']):
                # axis-aligned box [lo, hi] in physical (x, y(, z)) order, parametrised over [0,1]^dim
                # with optional reversal of the parametrisation per axis
                g = geometry.unit_square() if dim == 2 else geometry.unit_cube()
                coeffs = np.array(g.coeffs, dtype=float)
                lo, hi = np.array(pt['lo'], float), np.array(pt['hi'], float)
                coeffs = lo + coeffs * (hi - lo)
                # parameter axis k corresponds to physical axis dim-1-k
                for phys_ax, fl in enumerate(pt['flip']):
                    if fl:
                        coeffs = np.flip(coeffs, axis=dim - 1 - phys_ax)
                geo = bspline.BSplineFunc(g.kvs, np.ascontiguousarray(coeffs))
                kvs = tuple(bspline.make_knots(case['p'], 0.0, 1.0, n) for n in pt['nspans'])
                patches.append((kvs, geo))
            connected, intf = assemble.detect_interfaces(patches)
            res['connected'] = bool(connected)
            res['interfaces'] = [[int(p1), [int(b1[0]), int(b1[1])], int(p2), [int(b2[0]), int(b2[1])], [bool(f) for f in fl]]
                                 for (p1, b1, p2, b2, fl) in intf]
            mp = assemble.Multipatch(patches, automatch=True)
            res['numdofs'] = int(mp.numdofs)
            idx = [mp.patch_to_global_idx(p) for p in range(len(patches))]
            res['idx'] = [[int(i) for i in ix] for ix in idx]
            # physical location of every local dof (image of the Greville point)
            locs = []
            for (kvs, geo) in patches:
                grev = [kv.greville() for kv in kvs]
                X = geo.grid_eval(grev).reshape(-1, dim)
                locs.append([[float(v) for v in row] for row in X])
            res['locs'] = locs
            # mass matrix and load vector for f = 1:  M 1 = b, sum = area
            from pyiga import assemblers
            MA = assemblers.MassAssembler2D if dim == 2 else assemblers.MassAssembler3D
            FA = assemblers.L2FunctionalAssemblerPhys2D if dim == 2 else assemblers.L2FunctionalAssemblerPhys3D
            A, b = mp.assemble_system(MA, FA, args={'f': (lambda *x: 1.0)})
            one = np.ones(mp.numdofs)
            res['mass_consistency'] = float(np.max(np.abs(A @ one - b)))
            res['mass_sum'] = float(A.sum())
            res['mass_sym'] = float(abs(A - A.T).max())
            # multipatch Dirichlet data for an affine function on all outer faces
            w = np.array(case['affine'], float)
            g = (lambda x, y: w[0] + w[1] * x + w[2] * y) if dim == 2 else (lambda x, y, z: w[0] + w[1] * x + w[2] * y + w[3] * z)
            bd = [(int(p), (int(ax), int(sd)), g) for (p, ax, sd) in case['outer_faces']]
            if bd:
                bi, bv = mp.compute_dirichlet_bcs(bd)
                res['bc_idx'] = [int(i) for i in bi]
                res['bc_val'] = [float(v) for v in bv]
        except Exception as e:  # noqa
            res['status'] = type(e).__name__
            res['msg'] = str(e)[:300]
        out.append(res)
    print(json.dumps({'results': out}))


if __name__ == '__main__':
    main()
