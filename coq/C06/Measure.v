(* C06 -- measure and normal expansion (vform.py:46-54, 197-211, 270-272): transcription of the
   expanded expressions and the algebraic identities that do not need sqrt/abs. *)
From Coq Require Import List String Bool Arith Lia Field Ring.
From Verif.C06 Require Import Model.
Import ListNotations.

Section Measure.
Variable F : Type.
Variables (f0 f1 : F) (fadd fmul fsub fdiv : F -> F -> F) (fopp finv : F -> F).
Hypothesis Fth : field_theory f0 f1 fadd fmul fsub fopp fdiv finv (@eq F).
Add Field Ffield6 : Fth.
Infix "+" := fadd. Infix "*" := fmul. Infix "-" := fsub. Infix "/" := fdiv.
Notation "- x" := (fopp x).
Notation eval := (eval F fadd fmul fsub fdiv fopp).
Notation expr := (expr F).
Notation env := (env F).

(* ---- transcription ------------------------------------------------------------------------ *)
(* _gaussweight, 270-272: reduce(operator.mul, [GaussWeightExpr(i) for i in range(dim)]) *)
Definition e_gaussweight (d : nat) : option expr :=
  match map (fun i => GW i) (seq 0 d) with
  | [] => None
  | x :: r => Some (fold_left (fun acc t => Op OMul acc t) r x)
  end.

(* _volume_weight, 197-200: GaussWeight * abs(det(Jac)); GaussWeight and Jac are variables *)
Definition e_volume_weight (d : nat) (jac : list (list expr)) : option expr :=
  match e_det F f1 fopp (S d) jac with
  | Some dt => Some (Op OMul (VR "GaussWeight" [] (zerosD d) false) (Fn "abs" dt))
  | None => None
  end.

(* _jac_to_unscaled_normal, 46-54: a line in the plane and a surface in space *)
Definition e_unscaled_normal_21 (x0 x1 : expr) : list expr := [Neg x1; x0].
Definition e_unscaled_normal_32 (x0 x1 x2 y0 y1 y2 : expr) : list expr :=
  [Op OSub (Op OMul x1 y2) (Op OMul x2 y1); Op OSub (Op OMul x2 y0) (Op OMul x0 y2);
   Op OSub (Op OMul x0 y1) (Op OMul x1 y0)].

(* norm(x) = sqrt(inner(x, x)), 1710-1715; _surface_weight 202-205; _surface_normal 207-211 *)
Definition e_norm (xs : list expr) : option expr :=
  match e_inner F xs xs with Some s => Some (Fn "sqrt" s) | None => None end.
Definition e_surface_weight (d : nat) (un : list expr) : option expr :=
  match e_norm un with
  | Some nn => Some (Op OMul (VR "GaussWeight" [] (zerosD d) false) nn)
  | None => None
  end.
Definition e_surface_normal (un : list expr) : option (list expr) :=
  match e_norm un with
  | Some nn => Some (map (fun c => Op ODiv c nn) un)
  | None => None
  end.

(* ---- theorems -------------------------------------------------------------------------------- *)
(* GaussWeight is the product of the axis weights (dims 1-3) *)
Lemma gaussweight_spec_l : forall (en : env),
  (exists e, e_gaussweight 1 = Some e /\ eval en e = e_gw en 0) /\
  (exists e, e_gaussweight 2 = Some e /\ eval en e = e_gw en 0 * e_gw en 1) /\
  (exists e, e_gaussweight 3 = Some e /\ eval en e = e_gw en 0 * e_gw en 1 * e_gw en 2).
Proof. intros. repeat split; eexists; split; reflexivity. Qed.

(* dx = GaussWeight * |det J| with det by the Leibniz formula, dims 2 and 3 *)
Lemma volume_weight_spec_2_l : forall (en : env) a00 a01 a10 a11,
  exists e, e_volume_weight 2 [[a00; a01]; [a10; a11]] = Some e /\
  eval en e = e_vr en "GaussWeight" [] [0; 0] false *
              e_fn en "abs" (eval en a00 * eval en a11 - eval en a01 * eval en a10).
Proof.
  intros. eexists. split; [reflexivity|]. simpl. f_equal. f_equal. ring.
Qed.

Lemma volume_weight_spec_3_l : forall (en : env) a00 a01 a02 a10 a11 a12 a20 a21 a22,
  exists e, e_volume_weight 3 [[a00; a01; a02]; [a10; a11; a12]; [a20; a21; a22]] = Some e /\
  eval en e = e_vr en "GaussWeight" [] [0; 0; 0] false *
    e_fn en "abs"
      (eval en a00 * eval en a11 * eval en a22 + eval en a01 * eval en a12 * eval en a20
       + eval en a02 * eval en a10 * eval en a21 - eval en a02 * eval en a11 * eval en a20
       - eval en a01 * eval en a10 * eval en a22 - eval en a00 * eval en a12 * eval en a21).
Proof.
  intros. eexists. split; [reflexivity|]. simpl. f_equal. f_equal. ring.
Qed.

(* line in the plane: n . t = 0 and |n|^2 = |t|^2 = det(J^T J) *)
Lemma normal_21_l : forall (en : env) x0 x1,
  let n := map (eval en) (e_unscaled_normal_21 x0 x1) in
  nth 0 n f0 * eval en x0 + nth 1 n f0 * eval en x1 = f0 /\
  nth 0 n f0 * nth 0 n f0 + nth 1 n f0 * nth 1 n f0 = eval en x0 * eval en x0 + eval en x1 * eval en x1.
Proof. cbv zeta. intros. simpl. split; ring. Qed.

(* surface in space: n . x = n . y = 0 and |n|^2 = det(J^T J) = |x|^2 |y|^2 - (x . y)^2 *)
Lemma normal_32_l : forall (en : env) x0 x1 x2 y0 y1 y2,
  let n := map (eval en) (e_unscaled_normal_32 x0 x1 x2 y0 y1 y2) in
  let X i := eval en (nth i [x0; x1; x2] (Const f0)) in
  let Y i := eval en (nth i [y0; y1; y2] (Const f0)) in
  let N i := nth i n f0 in
  N 0 * X 0 + N 1 * X 1 + N 2 * X 2 = f0 /\
  N 0 * Y 0 + N 1 * Y 1 + N 2 * Y 2 = f0 /\
  N 0 * N 0 + N 1 * N 1 + N 2 * N 2 =
    (X 0 * X 0 + X 1 * X 1 + X 2 * X 2) * (Y 0 * Y 0 + Y 1 * Y 1 + Y 2 * Y 2)
    - (X 0 * Y 0 + X 1 * Y 1 + X 2 * Y 2) * (X 0 * Y 0 + X 1 * Y 1 + X 2 * Y 2).
Proof. cbv zeta. intros. simpl. repeat split; ring. Qed.

(* the argument of the sqrt in the surface weight is |n|^2 -- the Gram determinant by the two lemmas
   above -- and the weight is GaussWeight * sqrt(.) *)
Lemma surface_weight_spec_32_l : forall (en : env) x0 x1 x2 y0 y1 y2,
  let un := e_unscaled_normal_32 x0 x1 x2 y0 y1 y2 in
  let n := map (eval en) un in
  exists e, e_surface_weight 2 un = Some e /\
  eval en e = e_vr en "GaussWeight" [] [0; 0] false *
              e_fn en "sqrt" (nth 0 n f0 * nth 0 n f0 + nth 1 n f0 * nth 1 n f0 + nth 2 n f0 * nth 2 n f0).
Proof. cbv zeta. intros. eexists. split; [reflexivity|]. reflexivity. Qed.

Lemma surface_weight_spec_21_l : forall (en : env) x0 x1,
  let un := e_unscaled_normal_21 x0 x1 in
  let n := map (eval en) un in
  exists e, e_surface_weight 1 un = Some e /\
  eval en e = e_vr en "GaussWeight" [] [0] false *
              e_fn en "sqrt" (nth 0 n f0 * nth 0 n f0 + nth 1 n f0 * nth 1 n f0).
Proof. cbv zeta. intros. eexists. split; [reflexivity|]. reflexivity. Qed.

(* the normalised normal: still orthogonal to the tangents, and its squared length times the square of
   the norm value is |un|^2 (so it is a unit vector exactly when sqrt(s)^2 = s) *)
Lemma surface_normal_32_l : forall (en : env) x0 x1 x2 y0 y1 y2,
  let un := e_unscaled_normal_32 x0 x1 x2 y0 y1 y2 in
  exists nn, e_surface_normal un = Some nn /\
  let N i := eval en (nth i nn (Const f0)) in
  let U i := eval en (nth i un (Const f0)) in
  let X i := eval en (nth i [x0; x1; x2] (Const f0)) in
  let Y i := eval en (nth i [y0; y1; y2] (Const f0)) in
  let s := e_fn en "sqrt" (U 0 * U 0 + U 1 * U 1 + U 2 * U 2) in
  N 0 * X 0 + N 1 * X 1 + N 2 * X 2 = f0 /\
  N 0 * Y 0 + N 1 * Y 1 + N 2 * Y 2 = f0 /\
  (s <> f0 -> (N 0 * N 0 + N 1 * N 1 + N 2 * N 2) * (s * s) = U 0 * U 0 + U 1 * U 1 + U 2 * U 2).
Proof.
  cbv zeta. intros. eexists. split; [reflexivity|]. simpl.
  set (s := e_fn en "sqrt" _).
  repeat split.
  - rewrite !(Fdiv_def Fth). ring.
  - rewrite !(Fdiv_def Fth). ring.
  - intro Hs. field. exact Hs.
Qed.

Lemma surface_normal_21_l : forall (en : env) x0 x1,
  let un := e_unscaled_normal_21 x0 x1 in
  exists nn, e_surface_normal un = Some nn /\
  let N i := eval en (nth i nn (Const f0)) in
  let U i := eval en (nth i un (Const f0)) in
  let s := e_fn en "sqrt" (U 0 * U 0 + U 1 * U 1) in
  N 0 * eval en x0 + N 1 * eval en x1 = f0 /\
  (s <> f0 -> (N 0 * N 0 + N 1 * N 1) * (s * s) = U 0 * U 0 + U 1 * U 1).
Proof.
  cbv zeta. intros. eexists. split; [reflexivity|]. simpl.
  set (s := e_fn en "sqrt" _).
  split.
  - rewrite !(Fdiv_def Fth). ring.
  - intro Hs. field. exact Hs.
Qed.

End Measure.
