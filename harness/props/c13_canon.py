"""C13 -- canonical form of generated assembler source.

compile.generate() is not a function of the form text-wise: the numbering of the `_tmpN`
variables of common-subexpression extraction and the order of independent statements /
storage slots depend on the iteration order of sets of AsmVar objects (vform.py:497, 525,
671-672; hashing by id).  Two outputs for the same form differ by
  * the names of temporaries,
  * the order of independent declarations/statements,
  * which slot of `fields` / `temp_fields` / `constants` a computed variable occupies.
The canonical form removes exactly that: comments are dropped, temporaries are inlined,
computed slots are named after the variable they store (`# name` comment the generator
puts in front of every assignment group) and input slots after their source expression,
and (optionally) maximal runs of statements are sorted.  Pure text processing; trusted.
"""
import re

REF = re.compile(r'([A-Za-z_][\w\.]*)(\[\d+\])?')
ASSIGN = re.compile(r'^(\s*)([A-Za-z_][\w\.]*(?:\[\d+\])?)\s*(\+=|=)\s*(\S.*)$')
LOAD = re.compile(r'^(\s*)(self\.fields|temp_fields)\.base\[(.*?), (\d+):(\d+)\] = (.*)\.reshape\(N \+ \(-1,\)\)$')
CDEF_TMP = re.compile(r'^\s*cdef double _tmp\d+(\[\d+\])?$')
VARCOMMENT = re.compile(r'^# ([A-Za-z_]\w*)$')
SLOT = re.compile(r'^(fields|temp_fields|constants)\[(\d+)\]$')


def _apply(sub, text):
    def rep(m):
        whole = m.group(0)
        if whole in sub:
            return sub[whole]
        if m.group(2) and m.group(1) in sub:       # array temporary as a whole is never referenced; keep
            return whole
        return whole
    return REF.sub(rep, text)


def canon_code(text, sort_runs=True):
    out = []
    sub = {}
    count = {}
    curvar = None
    for line in text.split('\n'):
        st = line.strip()
        if st.startswith('cdef class '):
            sub, count, curvar = {}, {}, None
        if st.startswith('#'):
            m = VARCOMMENT.match(st)
            if m:
                curvar = m.group(1)
            continue
        if CDEF_TMP.match(line):
            continue
        m = LOAD.match(line)
        if m:
            ind, arr, dims, a, b, src = m.groups()
            name = 'fields' if arr == 'self.fields' else 'temp_fields'
            for j, k in enumerate(range(int(a), int(b))):
                sub['%s[%d]' % (name, k)] = '%s<%s#%d>' % (name, src, j)
            out.append('%s%s.base[%s, <%s>] = %s.reshape(N + (-1,))' % (ind, arr, dims, src, src))
            curvar = None
            continue
        m = ASSIGN.match(line)
        if m and st.count('(') == st.count(')') and not st.endswith((':', ',', '(')) and not st.startswith(('cdef ', 'def ', 'for ', 'if ', 'self.')):
            ind, lhs, op, rhs = m.groups()
            rhs2 = _apply(sub, rhs)
            ms = SLOT.match(lhs)
            if curvar is not None and op == '=':
                if curvar.startswith('_tmp'):
                    base = lhs.split('[')[0]
                    if base == curvar or ms:
                        sub[lhs] = '(' + rhs2 + ')'
                        continue
                elif ms:
                    j = count.get(curvar, 0)
                    count[curvar] = j + 1
                    nm = '%s<%s#%d>' % (ms.group(1), curvar, j)
                    sub[lhs] = nm
                    out.append('%s%s = %s' % (ind, nm, rhs2))
                    continue
            if op == '+=':
                curvar = None
            out.append('%s%s %s %s' % (ind, _apply(sub, lhs), op, rhs2))
            continue
        curvar = None
        out.append(_apply(sub, line) if st else line)
    if not sort_runs:
        return '\n'.join(out)
    # sort maximal runs of simple statements with the same indentation
    res = []
    run = []
    ind0 = None

    def flush():
        res.extend(sorted(run))
        del run[:]
    for line in out:
        st = line.strip()
        ind = len(line) - len(line.lstrip())
        is_stmt = bool(st) and (ASSIGN.match(line) or re.match(r'^\s*[\w\.]+<[^>]*>\s*=', line) or st.startswith('cdef double ') or st.startswith('cdef size_t ')) \
            and not st.endswith((':', ',', '(')) and st.count('(') == st.count(')') and not st.startswith(('def ', 'for ', 'if ', 'cdef class'))
        if is_stmt and (not run or ind == ind0):
            run.append(line)
            ind0 = ind
        else:
            flush()
            if is_stmt:
                run.append(line)
                ind0 = ind
            else:
                res.append(line)
    flush()
    return '\n'.join(res)
