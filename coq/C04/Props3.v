(* C04 -- the rational-matrix conjuncts (THB partition of unity, non-negativity, HB<->THB inverse,
   same space, linear independence): property theorems only, each closed by [exact] of a lemma of
   ProofsThb.v and followed by Print Assumptions.

   Setting (C05/Hier.v, section Multilevel; any number of levels, any dimension): n k = number of
   tensor-product B-splines of level k, B k i = the i-th of them (raveled index), P k = the
   prolongator tp_prolongation(k) with the two-scale relation
   two_scale_hyp n B P Lmax :  B k i x = sum_j P k j i * B (k+1) j x   (k < Lmax)
   (C05.tp_two_scale: holds for tensor-product B-splines of dyadically refined knot vectors).
   actb l i / deactb l i: function i of level l is active / deactivated.  Coefficient arrays
   u : level -> index -> Qc stand for split_coeffs + _reindex (zero outside the active functions).
     RF n P Z T m J i         the block of level T-m of represent_fine(lv=T); Z = noZ: HB, Z = actb: THB
     fine_coeff n P Z T u J   (represent_fine(lv=T, truncate) @ u)[J]
     hfun .. Z T l i x        the (truncated, for Z = actb) basis function i of level l, through its
                              representation on the finest level T
     t2h n P actb T u         thb_to_hb @ u = truncate_one_level(T-1) @ .. @ truncate_one_level(0) @ u
     h2t n P actb T u         hb_to_thb @ u = truncate_one_level(0, inverse=True) @ .. @ (T-1, inverse=True) @ u
   Tie: the implementation's matrices are checked against these statements within MAT_TOL only
   (harness/props/c04.py); an exact Gallina evaluation of the model is not in place yet. *)
From Coq Require Import QArith Qcanon List Bool Arith.
From Verif.C05 Require Import Model Hier HierThb.
From Verif.C04 Require Import ProofsThb.
Open Scope Qc_scope.

(* thb_to_hb and hb_to_thb are mutually inverse (both products), for every number of levels, every
   prolongator family and every set of active functions: truncate_one_level(k) = I -+ A with A
   strictly level-raising (rows on level k+1, columns on levels <= k). *)
Theorem hb_thb_inverse : forall n P actb T u l j,
  h2t n P actb T (t2h n P actb T u) l j = u l j.
Proof. exact h2t_t2h_l. Qed.
Print Assumptions hb_thb_inverse.

Theorem thb_hb_inverse : forall n P actb T u l j,
  t2h n P actb T (h2t n P actb T u) l j = u l j.
Proof. exact t2h_h2t_l. Qed.
Print Assumptions thb_hb_inverse.

(* both transforms map coefficient arrays supported on the active functions to such arrays *)
Theorem thb_to_hb_keeps_active_support : forall n P actb T u,
  act_supp actb u -> act_supp actb (t2h n P actb T u).
Proof. exact t2h_supp. Qed.
Print Assumptions thb_to_hb_keeps_active_support.
Theorem hb_to_thb_keeps_active_support : forall n P actb T u,
  act_supp actb u -> act_supp actb (h2t n P actb T u).
Proof. exact h2t_supp. Qed.
Print Assumptions hb_to_thb_keeps_active_support.

(* Same space, function level: every combination of THB functions is the combination of HB functions
   with coefficients thb_to_hb @ u, and every combination of HB functions is the combination of THB
   functions with coefficients hb_to_thb @ u (any number of levels, any dimension). *)
Theorem hb_thb_same_space : forall (X : Type) n (B : nat -> nat -> X -> Qc) P Lmax actb,
  two_scale_hyp n B P Lmax ->
  forall T u x, (T <= Lmax)%nat ->
    thb_eval X n B P actb T u x = levelwise X n B T (t2h n P actb T u) x.
Proof. exact thb_is_hb_l. Qed.
Print Assumptions hb_thb_same_space.

Theorem hb_thb_same_space_converse : forall (X : Type) n (B : nat -> nat -> X -> Qc) P Lmax actb,
  two_scale_hyp n B P Lmax ->
  forall T u x, (T <= Lmax)%nat ->
    levelwise X n B T u x = thb_eval X n B P actb T (h2t n P actb T u) x.
Proof. exact hb_is_thb_l. Qed.
Print Assumptions hb_thb_same_space_converse.

(* ... and matrix level: represent_fine(truncate=True) @ hb_to_thb = represent_fine(truncate=False)
   (the other identity, represent_fine(False) @ thb_to_hb = represent_fine(True), is
   C05.thb_to_hb_represent_fine) *)
Theorem represent_fine_thb_hb_to_thb : forall n P actb T u J, (J < n T)%nat ->
  fine_coeff n P actb T (h2t n P actb T u) J = fine_coeff n P noZ T u J.
Proof. exact rthb_h2t_l. Qed.
Print Assumptions represent_fine_thb_hb_to_thb.

(* Non-negativity: with non-negative two-scale coefficients every entry of represent_fine (HB or
   THB) is non-negative, and every basis function is non-negative wherever the finest-level
   B-splines are. *)
Theorem represent_fine_nonneg : forall n (P : nat -> nat -> nat -> Qc) Z T,
  (forall k j i, 0 <= P k j i) -> forall m J i, 0 <= RF n P Z T m J i.
Proof. exact RF_nonneg. Qed.
Print Assumptions represent_fine_nonneg.

Theorem thb_nonneg : forall (X : Type) n (B : nat -> nat -> X -> Qc) (P : nat -> nat -> nat -> Qc) Z T l i x,
  (forall k j i, 0 <= P k j i) -> (forall J, (J < n T)%nat -> 0 <= B T J x) ->
  0 <= hfun X n B P Z T l i x.
Proof. exact hfun_nonneg_l. Qed.
Print Assumptions thb_nonneg.

(* Partition of unity, matrix form: represent_fine(lv=T, truncate=True) applied to the all-ones vector
   gives 1 in every row that is not a deactivated function of level T (on the finest level: every row).
   Hypotheses: rows of the prolongators sum to one; every level-0 function is active or deactivated;
   children of deactivated functions are active or deactivated (C04.children_closed on reachable
   states). *)
Theorem thb_partition_of_unity_coeff : forall n (P : nat -> nat -> nat -> Qc) actb deactb Lmax,
  (forall k j, (k < Lmax)%nat -> (j < n (S k))%nat -> bigsum (n k) (fun i => P k j i) = 1) ->
  (forall i, (i < n 0%nat)%nat -> actb 0%nat i = true \/ deactb 0%nat i = true) ->
  (forall k i j, (k < Lmax)%nat -> (i < n k)%nat -> (j < n (S k))%nat ->
     deactb k i = true -> P k j i <> 0 -> actb (S k) j = true \/ deactb (S k) j = true) ->
  forall T J, (T <= Lmax)%nat -> (J < n T)%nat -> deactb T J = false ->
  fine_coeff n P actb T (ind actb) J = 1.
Proof. exact thb_pou_coeff_l. Qed.
Print Assumptions thb_partition_of_unity_coeff.

(* Partition of unity, function level: the truncated active functions sum to one at every point
   where the finest-level B-splines do. *)
Theorem thb_partition_of_unity : forall (X : Type) n (B : nat -> nat -> X -> Qc) (P : nat -> nat -> nat -> Qc) Lmax
    (actb deactb : nat -> nat -> bool) T x,
  (T <= Lmax)%nat ->
  (forall k j, (k < Lmax)%nat -> (j < n (S k))%nat -> bigsum (n k) (fun i => P k j i) = 1) ->
  (forall i, (i < n 0%nat)%nat -> actb 0%nat i = true \/ deactb 0%nat i = true) ->
  (forall k i j, (k < Lmax)%nat -> (i < n k)%nat -> (j < n (S k))%nat ->
     deactb k i = true -> P k j i <> 0 -> actb (S k) j = true \/ deactb (S k) j = true) ->
  (forall J, (J < n T)%nat -> deactb T J = false) ->
  bigsum (n T) (fun J => B T J x) = 1 ->
  bigsum (S T) (fun l => bigsum (n l) (fun i => if actb l i then hfun X n B P actb T l i x else 0)) = 1.
Proof. exact thb_pou_l. Qed.
Print Assumptions thb_partition_of_unity.

(* The row-sum hypothesis is a consequence of level-wise partition of unity and linear independence of
   the finer level's B-splines on the domain. *)
Theorem prolongator_rows_sum_one_from_pou : forall (X : Type) n (B : nat -> nat -> X -> Qc) P Lmax,
  two_scale_hyp n B P Lmax ->
  forall (Dom : X -> Prop) k, (k < Lmax)%nat ->
  (forall x, Dom x -> bigsum (n k) (fun i => B k i x) = 1) ->
  (forall x, Dom x -> bigsum (n (S k)) (fun j => B (S k) j x) = 1) ->
  (forall a : nat -> Qc, (forall x, Dom x -> bigsum (n (S k)) (fun j => a j * B (S k) j x) = 0) ->
     forall j, (j < n (S k))%nat -> a j = 0) ->
  forall j, (j < n (S k))%nat -> bigsum (n k) (fun i => P k j i) = 1.
Proof. exact rowsum_from_pou_l. Qed.
Print Assumptions prolongator_rows_sum_one_from_pou.

(* Linear independence of the active HB functions on Dom, under the two NAMED hypotheses
     local_lin_indep l c      the level-l B-splines that do not vanish on cell c of level l are linearly
                              independent on that cell (a B-spline fact, not proved here);
     active_cell_witness      every active function has an active cell of its own level in its support,
                              on which all active functions of finer levels vanish (geometry: C04's
                              activity_characterisation -- supp not contained in Omega_{l+1}; the bridge
                              from C04's index tables to point sets is not formalised). *)
Theorem hb_independent : forall (X : Type) n (B : nat -> nat -> X -> Qc) actb cellpts nz (Dom : X -> Prop) T u,
  (forall l c, (l <= T)%nat -> local_lin_indep X n B cellpts nz l c) ->
  active_cell_witness X n B actb cellpts nz Dom T ->
  act_supp actb u ->
  (forall x, Dom x -> levelwise X n B T u x = 0) ->
  forall l i, (l <= T)%nat -> (i < n l)%nat -> u l i = 0.
Proof. exact hb_independent_l. Qed.
Print Assumptions hb_independent.

(* NOT PROVED: local linear independence of B-splines on a cell (hypothesis local_lin_indep) and the
   bridge from C04's integer tables to point sets (active_cell_witness, children_closed as a statement
   about non-zero prolongator entries; C05.children_closed_reachable has the latter for the index
   pattern); linear independence of the THB functions is the composition of hb_independent with
   hb_thb_same_space and hb_thb_inverse and is not stated separately. *)
