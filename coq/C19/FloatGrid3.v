(* C19 -- bounded binary64 statement, part 3 of 4 (computed): for the intervals
   [0.0,10.0], [0.001,1000.0], [100.0,100.1], [-3.7,12.9] (nearest doubles) and every n = 1..2000 the break points of the repaired
   make_knots pass NpF.bp_ok. *)
From Coq Require Import PrimFloat List Arith Bool.
From Verif.lib Require Import NpCore NpF.
Import ListNotations.
Open Scope float_scope.

Definition grid3 : list (float * float) :=
  [(0x0.0p+0, 0x1.4000000000000p+3);
   (0x1.0624dd2f1a9fcp-10, 0x1.f400000000000p+9);
   (0x1.9000000000000p+6, 0x1.9066666666666p+6);
   ((-0x1.d99999999999ap+1), 0x1.9cccccccccccdp+3)].

Lemma grid3_ok : grid_check 2000 grid3 = true.
Proof. vm_compute. reflexivity. Qed.
