(* C07 -- executable side of the correspondence run: compares the implementation's
   floats (handed over as exact rationals) with the exact model of Model.v.
   Definitions only. *)
From Coq Require Import QArith Qcanon Qcabs ZArith List Arith Bool.
From Verif.lib Require Import Bsp.
From Verif.C07 Require Import Model.
Import ListNotations.
Open Scope Qc_scope.

Definition q (n : Z) (d : positive) : Qc := Q2Qc (n # d).
Definition close (bound a b : Qc) : bool := qleb (Qcabs (a - b)) bound.
Fixpoint close_list (bound : Qc) (a b : list Qc) : bool :=
  match a, b with
  | [], [] => true
  | x :: a', y :: b' => close bound x y && close_list bound a' b'
  | _, _ => false
  end.
(* an empty implementation list = route not available for this function class
   (decided and reported by the harness, e.g. Hessians of matrix-valued functions) *)
Definition cmp (bound : Qc) (model impl : list Qc) : bool :=
  match impl with [] => true | _ => close_list bound model impl end.
Definition cmpo (bound : Qc) (model : option (list Qc)) (impl : list Qc) : bool :=
  match impl with [] => true | _ => match model with Some m => close_list bound m impl | None => false end end.

Definition lst (l : list Qc) : nat -> Qc := fun c => nth c l 0.
Definition mat (rows : list (list Qc)) : nat -> nat -> Qc := fun r c => nth c (nth r rows []) 0.

Definition comps (m : nat) (g : nat -> Qc) : list Qc := map g (seq 0 m).
Definition compsl (m : nat) (g : nat -> list Qc) : list Qc := flat_map g (seq 0 m).
Definition ocomps (m : nat) (g : nat -> option Qc) : option (list Qc) := opt_all (map g (seq 0 m)).
Definition ocompsl (m : nat) (g : nat -> option (list Qc)) : option (list Qc) :=
  match opt_all (map g (seq 0 m)) with Some ll => Some (concat ll) | None => None end.

(* one evaluation point: coordinates xs (xyz order), rounding bounds for values / first /
   second derivatives, and the implementation's outputs per route:
     values:    __call__, grid_eval, pointwise_eval           (m numbers each)
     Jacobians: grid_jacobian, pointwise_jacobian             (m x sdim, row-major)
     Hessians:  grid_hessian                                  (m x sdim(sdim+1)/2) *)
Definition ptrec := (list Qc * (Qc * Qc * Qc) * (list Qc * list Qc * list Qc) * (list Qc * list Qc) * list Qc)%type.

Definition check_pt (nurbs : bool) (f : bsp) (m : nat) (pt : ptrec) : bool :=
  let '(xs, (b0, b1, b2), (vcall, vgrid, vpw), (jgrid, jpw), hgrid) := pt in
  let us := rev xs in
  if nurbs then
    cmp b0 (comps m (n_call f xs)) vcall
    && cmp b0 (comps m (n_val f us)) vgrid
    && cmpo b0 (ocomps m (n_pw_val sel_fixed f xs)) vpw
    && cmp b1 (compsl m (n_jac f us)) jgrid
    && cmpo b1 (ocompsl m (n_pw_jac sel_fixed f xs)) jpw
    && cmp b2 (compsl m (n_hess f us)) hgrid
  else
    cmp b0 (comps m (call_val f xs)) vcall
    && cmp b0 (comps m (g_val f us)) vgrid
    && cmpo b0 (ocomps m (pw_val sel_fixed f xs)) vpw
    && cmp b1 (compsl m (g_jac f us)) jgrid
    && cmpo b1 (ocompsl m (pw_jac sel_fixed f xs)) jpw
    && cmp b2 (compsl m (g_hess f us)) hgrid.

Definition check_fn (nurbs : bool) (f : bsp) (m : nat) (pts : list ptrec) : bool :=
  forallb (fun kv => open_kv (fst kv) (snd kv)) (kvs f) && forallb (check_pt nurbs f m) pts.

(* coefficient arrays of constructed objects *)
Definition check_arr (bound : Qc) (f : bsp) (impl : list Qc) : bool := close_list bound (flatten f) impl.

(* __getitem__ with the Python index kinds; None (IndexError in the model) never matches *)
Definition check_sel (nurbs : bool) (bound : Qc) (f : bsp) (lead n : nat) (oks : option (list nat)) (impl : list Qc) : bool :=
  match oks with
  | Some ks => if nurbs then check_arr bound (n_select f ks) impl
               else check_arr bound (b_select f (sel_comps lead n ks)) impl
  | None => false
  end.
Definition ix_int (n : nat) (i : Z) : option (list nat) :=
  match py_wrap n i with Some k => Some (k :: nil) | None => None end.

Fixpoint supp_eqb (a b : list (Qc * Qc)) : bool :=
  match a, b with
  | [], [] => true
  | (x, y) :: a', (x', y') :: b' => qeqb x x' && qeqb y y' && supp_eqb a' b'
  | _, _ => false
  end.

Definition opair_eqb (a : option (nat * nat)) (b : option (nat * nat)) : bool :=
  match a, b with
  | Some (x, y), Some (x', y') => Nat.eqb x x' && Nat.eqb y y'
  | None, None => true
  | _, _ => false
  end.

Fixpoint bad_cases (k : nat) (rs : list bool) : list nat :=
  match rs with
  | [] => []
  | true :: rs' => bad_cases (S k) rs'
  | false :: rs' => k :: bad_cases (S k) rs'
  end.
