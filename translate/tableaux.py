"""Translator for C12: pyiga/solvers.py coefficient tables -> exact rationals.

Fail-closed `ast` walker.  It never imports pyiga.  It

  * finds every `coeffs_*` function and every module-level binding
        name = dirk_method(<table>, 'name', ...)
        name = adaptive_dirk_method(*coeffs_x(), 'name', ...)
        name = adaptive_rosenbrock_method(*coeffs_x(), 'name', ...)
    (the "shipped methods" are exactly these bindings),
  * rejects a table definition that uses anything but float/int literals,
    local names, + - * / **, unary minus, np.sqrt, np.array, list displays,
    np.fill_diagonal(local, local), chained assignments and a final return
    of local names / small int literals,
  * executes exactly those definitions with numpy (namespace: `np` only) and
    dumps each entry as the exact rational value of the double the code uses,
  * extracts the documented order from the comment lines of the function
    ("order 3", "4th order", "embedded rule of order 1", "embedded rule has
    order 2", "embedded method has order 3"); a method whose source carries no
    order phrase gets its order from translate/tableaux_orders.json (trusted
    data, see DESIGN.md section 6); neither -> abort,
  * records d = the number of significant digits of the shortest float literal
    that has at least 8 significant digits (shorter literals such as 0.25,
    0.72, -0.049392 are exact decimals of the method's definition, not
    truncations); d = 17 if there is none.

Any deviation raises TranslateError: the check then reports a broken tie.
"""
import ast
import io
import json
import os
import re
import tokenize
from fractions import Fraction

import numpy as np


class TranslateError(Exception):
    pass


ORDERS_JSON = os.path.join(os.path.dirname(os.path.abspath(__file__)), 'tableaux_orders.json')

CONSTRUCTORS = {
    'dirk_method': 'dirk',
    'adaptive_dirk_method': 'dirk',
    'rosenbrock_method': 'ros',
    'adaptive_rosenbrock_method': 'ros',
}

_BINOPS = (ast.Add, ast.Sub, ast.Mult, ast.Div, ast.Pow)


def _is_np_attr(node, attr):
    return (isinstance(node, ast.Attribute) and isinstance(node.value, ast.Name)
            and node.value.id == 'np' and node.attr == attr)


def _check_expr(node, localnames, where):
    """Fail closed on anything outside the table-expression grammar."""
    if isinstance(node, ast.Constant):
        if isinstance(node.value, bool) or not isinstance(node.value, (int, float)):
            raise TranslateError('%s: constant %r not allowed' % (where, node.value))
        return
    if isinstance(node, ast.Name):
        if node.id not in localnames:
            raise TranslateError('%s: name %s is not a local of the table' % (where, node.id))
        return
    if isinstance(node, ast.BinOp):
        if not isinstance(node.op, _BINOPS):
            raise TranslateError('%s: operator %s not allowed' % (where, type(node.op).__name__))
        _check_expr(node.left, localnames, where)
        _check_expr(node.right, localnames, where)
        return
    if isinstance(node, ast.UnaryOp):
        if not isinstance(node.op, (ast.USub, ast.UAdd)):
            raise TranslateError('%s: unary operator not allowed' % where)
        _check_expr(node.operand, localnames, where)
        return
    if isinstance(node, ast.List):
        for e in node.elts:
            _check_expr(e, localnames, where)
        return
    if isinstance(node, ast.Call):
        if node.keywords:
            raise TranslateError('%s: keyword arguments not allowed' % where)
        if (_is_np_attr(node.func, 'sqrt') or _is_np_attr(node.func, 'array')) and len(node.args) == 1:
            _check_expr(node.args[0], localnames, where)
            return
        raise TranslateError('%s: call %s not allowed' % (where, ast.dump(node.func)))
    raise TranslateError('%s: syntax %s not allowed' % (where, type(node).__name__))


def _check_coeffs_function(fn):
    where = '%s (line %d)' % (fn.name, fn.lineno)
    a = fn.args
    if a.args or a.vararg or a.kwarg or a.kwonlyargs or a.posonlyargs or fn.decorator_list:
        raise TranslateError('%s: must take no arguments' % where)
    localnames = set()
    body = list(fn.body)
    if body and isinstance(body[0], ast.Expr) and isinstance(body[0].value, ast.Constant) \
            and isinstance(body[0].value.value, str):
        body = body[1:]
    if not body or not isinstance(body[-1], ast.Return):
        raise TranslateError('%s: last statement must be return' % where)
    for st in body[:-1]:
        if isinstance(st, ast.Assign):
            _check_expr(st.value, localnames, where)
            for t in st.targets:
                if not isinstance(t, ast.Name):
                    raise TranslateError('%s: assignment target must be a name' % where)
            for t in st.targets:
                localnames.add(t.id)
        elif (isinstance(st, ast.Expr) and isinstance(st.value, ast.Call)
              and _is_np_attr(st.value.func, 'fill_diagonal') and len(st.value.args) == 2
              and not st.value.keywords and all(isinstance(x, ast.Name) and x.id in localnames for x in st.value.args)):
            pass
        else:
            raise TranslateError('%s: statement %s not allowed' % (where, type(st).__name__))
    rv = body[-1].value
    elts = rv.elts if isinstance(rv, ast.Tuple) else [rv]
    for e in elts:
        if isinstance(e, ast.Name) and e.id in localnames:
            continue
        if isinstance(e, ast.Constant) and isinstance(e.value, int) and not isinstance(e.value, bool):
            continue
        raise TranslateError('%s: return value must be local names / int literals' % where)


class _NP:
    """The only numpy surface the table definitions may touch."""
    sqrt = staticmethod(np.sqrt)
    array = staticmethod(np.array)
    fill_diagonal = staticmethod(np.fill_diagonal)


def _exec_function(fn):
    mod = ast.Module(body=[fn], type_ignores=[])
    ns = {'np': _NP, '__builtins__': {}}
    exec(compile(mod, '<solvers.py:%s>' % fn.name, 'exec'), ns)
    return ns[fn.name]()


def _exec_expr(expr):
    return eval(compile(ast.Expression(expr), '<solvers.py:expr>', 'eval'), {'np': _NP, '__builtins__': {}})


def _sig_digits(text):
    t = text.lower().lstrip('+-')
    if 'e' in t:
        t = t.split('e')[0]
    t = t.replace('.', '').replace('_', '').lstrip('0')
    return len(t)


def _literal_digits(src, node):
    """d for a table: min #significant digits over float literals with >= 8 of them."""
    d = 17
    shortest = None
    for n in ast.walk(node):
        if isinstance(n, ast.Constant) and isinstance(n.value, float):
            seg = ast.get_source_segment(src, n)
            if seg is None:
                raise TranslateError('cannot recover literal text at line %d' % n.lineno)
            k = _sig_digits(seg)
            if k >= 8 and k < d:
                d, shortest = k, seg
    return d, shortest


_RE_EMB = re.compile(r'embedded\s+(?:rule|method|scheme)\s+(?:of|has)\s+order\s+(\d)')
_RE_MAIN1 = re.compile(r'(?<![a-z])order\s+(\d)\b')
_RE_MAIN2 = re.compile(r'\b(\d)(?:st|nd|rd|th)\s+order\b')


def _orders_from_comments(comments):
    """comments: list of comment strings of one table.  Returns (order|None, emb|None, texts)."""
    main = emb = None
    used = []
    for c in comments:
        m = _RE_EMB.search(c)
        rest = c
        if m:
            if emb is not None and emb != int(m.group(1)):
                raise TranslateError('contradictory embedded orders in comments: %r' % comments)
            emb = int(m.group(1))
            used.append(c.strip())
            rest = c[:m.start()] + c[m.end():]
        m1 = _RE_MAIN1.search(rest) or _RE_MAIN2.search(rest)
        if m1:
            if main is not None and main != int(m1.group(1)):
                raise TranslateError('contradictory orders in comments: %r' % comments)
            main = int(m1.group(1))
            if c.strip() not in used:
                used.append(c.strip())
    return main, emb, used


def _fr_matrix(a):
    a = np.asarray(a, dtype=float)
    if a.ndim != 2:
        raise TranslateError('table is not 2-dimensional')
    if not np.all(np.isfinite(a)):
        raise TranslateError('table has non-finite entries')
    return [[Fraction(float(v)) for v in row] for row in a]


def _fr_vector(a):
    a = np.asarray(a, dtype=float)
    if a.ndim != 1 or not np.all(np.isfinite(a)):
        raise TranslateError('weight vector is not a finite 1-d array')
    return [Fraction(float(v)) for v in a]


def translate(solvers_path):
    """Returns (methods, info): methods = {name: dict}, in source order."""
    src = open(solvers_path, encoding='utf-8').read()
    try:
        tree = ast.parse(src)
    except SyntaxError as e:
        raise TranslateError('solvers.py does not parse: %s' % e)
    comments = {}
    for tok in tokenize.generate_tokens(io.StringIO(src).readline):
        if tok.type == tokenize.COMMENT:
            comments.setdefault(tok.start[0], tok.string)
    trusted_orders = json.load(open(ORDERS_JSON))['orders']

    funcs = {}
    for node in tree.body:
        if isinstance(node, ast.FunctionDef) and node.name.startswith('coeffs_'):
            if node.name in funcs:
                raise TranslateError('duplicate definition of %s' % node.name)
            _check_coeffs_function(node)
            funcs[node.name] = node
    # a coeffs_ function defined anywhere else (nested, conditional) is not understood
    for node in ast.walk(tree):
        if isinstance(node, ast.FunctionDef) and node.name.startswith('coeffs_') and funcs.get(node.name) is not node:
            raise TranslateError('coeffs function %s defined outside module level' % node.name)

    methods = {}
    rebinding = {}
    for node in tree.body:
        if not isinstance(node, ast.Assign):
            continue
        val = node.value
        if not (isinstance(val, ast.Call) and isinstance(val.func, ast.Name) and val.func.id in CONSTRUCTORS):
            # any other module-level assignment to an already shipped name would change the binding
            for t in node.targets:
                if isinstance(t, ast.Name):
                    rebinding[t.id] = node.lineno
            continue
        if len(node.targets) != 1 or not isinstance(node.targets[0], ast.Name):
            raise TranslateError('line %d: method binding must have one plain target' % node.lineno)
        name = node.targets[0].id
        ctor = val.func.id
        kind = CONSTRUCTORS[ctor]
        where = '%s (line %d)' % (name, node.lineno)
        if val.keywords or len(val.args) != 3:
            raise TranslateError('%s: expected (table, name, displayname)' % where)
        if not (isinstance(val.args[1], ast.Constant) and val.args[1].value == name):
            raise TranslateError('%s: second argument must be the literal %r' % (where, name))
        targ = val.args[0]
        adaptive = ctor.startswith('adaptive_')
        fn = None
        if isinstance(targ, ast.Starred):
            call = targ.value
            star = True
        else:
            call = targ
            star = False
        if isinstance(call, ast.Call) and isinstance(call.func, ast.Name) and call.func.id in funcs \
                and not call.args and not call.keywords:
            fn = funcs[call.func.id]
            ret = _exec_function(fn)
            digits, shortest = _literal_digits(src, fn)
            lo, hi = fn.lineno, fn.end_lineno
            srcname = fn.name
        elif not star:
            _check_expr(call, set(), where)
            ret = _exec_expr(call)
            digits, shortest = _literal_digits(src, call)
            lo, hi = node.lineno, node.end_lineno
            srcname = 'literal'
        else:
            raise TranslateError('%s: table argument not understood' % where)
        if star != isinstance(ret, tuple):
            raise TranslateError('%s: star-argument / tuple return mismatch' % where)
        m = {'name': name, 'kind': kind, 'adaptive': adaptive, 'source': srcname, 'line': lo,
             'digits': digits, 'shortest_literal': shortest, 'ctor': ctor}
        if kind == 'dirk':
            if adaptive:
                if len(ret) != 2:
                    raise TranslateError('%s: adaptive DIRK table must return (A, err_order)' % where)
                tab, err_order = ret
            else:
                tab, err_order = ret, None
            T = _fr_matrix(tab)
            s = len(T[0])
            if len(T) != (s + 2 if adaptive else s + 1):
                raise TranslateError('%s: table has %d rows for %d stages' % (where, len(T), s))
            m.update(s=s, A=T[:s], b=T[s], b_hat=T[s + 1] if adaptive else None, Gamma=None)
        else:
            if not adaptive or len(ret) != 5:
                raise TranslateError('%s: Rosenbrock table must return (A, Gamma, b, b_hat, err_order)' % where)
            A, G, b, bh, err_order = ret
            A, G = _fr_matrix(A), _fr_matrix(G)
            b, bh = _fr_vector(b), _fr_vector(bh)
            s = len(b)
            if not (len(A) == len(G) == len(bh) == s and all(len(r) == s for r in A + G)):
                raise TranslateError('%s: inconsistent table shapes' % where)
            m.update(s=s, A=A, b=b, b_hat=bh, Gamma=G)
        if err_order is not None:
            if isinstance(err_order, bool) or not isinstance(err_order, int) or err_order < 1:
                raise TranslateError('%s: err_order %r' % (where, err_order))
        m['err_order'] = err_order
        cm = [comments[l] for l in range(lo, hi + 1) if l in comments]
        main, emb, used = _orders_from_comments(cm)
        tr = trusted_orders.get(name, {})
        m['order_source'] = 'comment' if main is not None else 'tableaux_orders.json'
        if main is None:
            main = tr.get('order')
        if emb is None and adaptive:
            emb = tr.get('embedded')
            m['emb_order_source'] = 'tableaux_orders.json'
        elif adaptive:
            m['emb_order_source'] = 'comment'
        if main is None or (adaptive and emb is None):
            raise TranslateError('%s: no documented order (comment phrase gone and not in tableaux_orders.json)' % where)
        if not (1 <= main <= 4) or (adaptive and not (1 <= emb <= 4)):
            raise TranslateError('%s: documented order outside 1..4' % where)
        m['order'] = main
        m['emb_order'] = emb if adaptive else None
        m['order_comments'] = used
        if name in methods:
            raise TranslateError('%s: bound twice' % where)
        methods[name] = m
    for n, ln in rebinding.items():
        if n in methods:
            raise TranslateError('shipped method %s is also assigned at line %d' % (n, ln))
    if not methods:
        raise TranslateError('no shipped methods found')
    return methods


# ---------------------------------------------------------------------------
# Gallina output
# ---------------------------------------------------------------------------

def _q(fr):
    return '((%d) # %d)' % (fr.numerator, fr.denominator)


def _qlist(v):
    return '[' + '; '.join(_q(x) for x in v) + ']'


def _qmat(m):
    return '[' + ';\n    '.join(_qlist(r) for r in m) + ']'


def tol_of(m):
    """max(64 eps, 8 * 10^-d) as a Fraction (DESIGN.md C12)."""
    return max(Fraction(64, 2 ** 52), Fraction(8, 10 ** m['digits']))


def coq_method(m):
    """Definitions + obligations for one shipped method."""
    n = m['name']
    out = ['(* %s: %s, source %s line %d, %d stages, documented order %d (%s)%s, d = %d *)' % (
        n, m['ctor'], m['source'], m['line'], m['s'], m['order'], m['order_source'],
        (', embedded %d (%s)' % (m['emb_order'], m['emb_order_source'])) if m['adaptive'] else '', m['digits'])]
    out.append('Definition A_%s : list (list Q) :=\n   %s.' % (n, _qmat(m['A'])))
    out.append('Definition b_%s : list Q := %s.' % (n, _qlist(m['b'])))
    if m['Gamma'] is not None:
        out.append('Definition G_%s : list (list Q) :=\n   %s.' % (n, _qmat(m['Gamma'])))
        beta = 'madd A_%s G_%s' % (n, n)
    else:
        beta = 'A_%s' % n
    out.append('Definition tol_%s : Q := %s.' % (n, _q(tol_of(m))))
    out.append('Goal well_shaped %d A_%s (%s) b_%s = true. Proof. vm_compute. reflexivity. Qed.' % (m['s'], n, beta, n))
    out.append('Goal failing tol_%s A_%s (%s) b_%s %d = []. Proof. vm_compute. reflexivity. Qed.' % (n, n, beta, n, m['order']))
    if m['b_hat'] is not None:
        out.append('Definition bh_%s : list Q := %s.' % (n, _qlist(m['b_hat'])))
        out.append('Goal well_shaped %d A_%s (%s) bh_%s = true. Proof. vm_compute. reflexivity. Qed.' % (m['s'], n, beta, n))
        out.append('Goal failing tol_%s A_%s (%s) bh_%s %d = []. Proof. vm_compute. reflexivity. Qed.' % (
            n, n, beta, n, m['emb_order']))
    if m['Gamma'] is not None:
        out.append('Goal const_diag G_%s = true. Proof. vm_compute. reflexivity. Qed.' % n)
        out.append('Goal strictly_lower A_%s = true. Proof. vm_compute. reflexivity. Qed.' % n)
    else:
        out.append('Goal lower_triangular A_%s = true. Proof. vm_compute. reflexivity. Qed.' % n)
    return '\n'.join(out) + '\n'


HEADER = '''(* GENERATED by translate/tableaux.py from pyiga/solvers.py on every run.  Do not edit. *)
From Coq Require Import QArith List.
From Verif.C12 Require Import Model.
Import ListNotations.
Open Scope Q_scope.
'''
