"""C18 -- case generators and the harness-side reference semantics (dense numpy oracle).
Nothing here imports pyiga."""
import numpy as np

ERR = ('IndexError', 'ValueError', 'AssertionError', 'TypeError')


class Expect(Exception):
    """The reference semantics says the operation must raise this error class."""
    def __init__(self, cls):
        self.cls = cls


# ---------------------------------------------------------------------------
# index expressions
# ---------------------------------------------------------------------------

def o_normalize(I, shape):
    """Documented semantics of an index expression: per axis the selected positions
    (Python's own slice/negative-index rules) and whether the axis is dropped."""
    items = I['items']
    d = len(shape)
    if len(items) > d:
        raise Expect('ValueError')
    items = list(items) + [{'s': [None, None, None]}] * (d - len(items))
    sel, sing = [], []
    for k, ik in enumerate(items):
        n = shape[k]
        if 'i' in ik:
            i = ik['i']
            if not (-n <= i < n):
                raise Expect('IndexError')
            sel.append([i % n])
            sing.append(k)
        elif 's' in ik:
            if ik['s'][2] == 0:
                raise Expect('ValueError')
            sel.append(list(range(n))[slice(*ik['s'])])
        else:
            l = ik['l'] if 'l' in ik else ik['a']
            for i in l:
                if not (-n <= i < n):
                    raise Expect('IndexError')
            sel.append([i % n for i in l])
    return sel, sing


def o_getitem(D, I):
    sel, sing = o_normalize(I, D.shape)
    out = D
    for k, s in enumerate(sel):
        out = np.take(out, np.array(s, dtype=int), axis=k)
    out = out.reshape([len(s) for s in sel])
    if len(sing) == D.ndim and D.ndim > 0:
        return float(out.ravel()[0])
    return np.squeeze(out, axis=tuple(sing))


def gen_index(rng, shape, malformed=False, lists=True, maxlists=4):
    d = len(shape)
    nitems = d if rng.random() < 0.7 else rng.randint(0 if d > 1 else 1, d)
    nitems = max(nitems, 1)
    if malformed and rng.random() < 0.4:
        nitems = d + rng.randint(1, 2)
    items = []
    nl = 0
    for k in range(nitems):
        n = shape[k] if k < d else 3
        c = rng.random()
        if c < 0.3:
            if malformed and rng.random() < 0.5:
                i = rng.choice([n, n + 1, -n - 1, -n - 3])
            else:
                i = rng.randint(-n, n - 1) if n > 0 else 0
                if n == 0:
                    i = 0   # out of range on an empty axis: IndexError expected
            items.append({'i': i})
        elif c < 0.8 or not lists or nl >= maxlists:
            def ep():
                return None if rng.random() < 0.35 else rng.randint(-n - 2, n + 2)
            st = rng.choice([None, None, 1, 1, 2, 3, -1, -1, -2, -3])
            if malformed and rng.random() < 0.15:
                st = 0
            items.append({'s': [ep(), ep(), st]})
        else:
            nl += 1
            ln = rng.randint(0, 4)
            l = [rng.randint(-n, n - 1) for _ in range(ln)] if n > 0 else []
            if malformed and rng.random() < 0.5 and l:
                l[rng.randrange(len(l))] = rng.choice([n, -n - 1])
            items.append({'a': l} if rng.random() < 0.3 else {'l': l})
    I = {'items': items}
    if len(items) == 1 and rng.random() < 0.5:
        I['bare'] = True
    return I


# ---------------------------------------------------------------------------
# tensors with small integer entries
# ---------------------------------------------------------------------------

def rint_mat(rng, r, c, lo=-3, hi=3):
    return {'r': r, 'c': c, 'd': [[float(rng.randint(lo, hi)) for _ in range(c)] for _ in range(r)]}


def rint_full(rng, shape, lo=-3, hi=3):
    n = int(np.prod(shape)) if shape else 1
    return {'sh': list(shape), 'd': [float(rng.randint(lo, hi)) for _ in range(n)]}


def gen_shape(rng, d=None, allow_one=True):
    if d is None:
        d = rng.choice([1, 2, 2, 3, 3, 3, 4])
    return [rng.choice([1, 1, 2, 3, 4] if allow_one else [2, 3, 4]) for _ in range(d)]


def gen_tensor(rng, shape, fmt=None):
    fmt = fmt or rng.choice(['canon', 'canon', 'tucker', 'tucker', 'full'])
    if fmt == 'canon':
        R = rng.choice([0, 1, 1, 2, 2, 3])
        return {'t': 'canon', 'Xs': [rint_mat(rng, n, R) for n in shape]}
    if fmt == 'tucker':
        Rs = [rng.choice([0, 1, 1, 2, 2, 3]) if rng.random() < 0.15 else rng.choice([1, 2, 2, 3]) for _ in shape]
        return {'t': 'tucker', 'Us': [rint_mat(rng, n, r) for n, r in zip(shape, Rs)],
                'X': rint_full(rng, Rs, -2, 2)}
    return dict(rint_full(rng, shape), t='full')


def mat_np(M):
    return np.array(M['d'], dtype=float).reshape(M['r'], M['c'])


def dense_of(spec):
    """Expansion of a structural dump (ours or the implementation's) by the definition of the format."""
    t = spec['t']
    if t == 'scal':
        return np.array(spec['v'], dtype=float)
    if t == 'full':
        return np.array(spec['d'], dtype=float).reshape(spec['sh'])
    if t == 'canon':
        Xs = [mat_np(X) for X in spec['Xs']]
        out = np.zeros([X.shape[0] for X in Xs])
        for r in range(Xs[0].shape[1]):
            term = np.array(1.0)
            for X in Xs:
                term = np.multiply.outer(term, X[:, r])
            out = out + term
        return out
    if t == 'tucker':
        A = np.array(spec['X']['d'], dtype=float).reshape(spec['X']['sh'])
        for k, U in enumerate(spec['Us']):
            A = np.moveaxis(np.tensordot(mat_np(U), A, axes=([1], [k])), 0, k)
        return A
    if t == 'sum':
        out = dense_of(spec['Xs'][0])
        for y in spec['Xs'][1:]:
            out = out + dense_of(y)
        return out
    if t == 'prod':
        out = np.array(1.0)
        for y in spec['Xs']:
            out = np.multiply.outer(out, dense_of(y))
        return out
    raise ValueError(t)


def o_nway(D, Bs):
    if len(Bs) > D.ndim:
        raise Expect('ValueError')
    A = D
    for k, B in enumerate(Bs):
        if B is not None:
            A = np.moveaxis(np.tensordot(mat_np(B), A, axes=([1], [k])), 0, k)
    return A


# result format of a binary +/- according to the documented coercions (test_coercion)
def fmt_addsub(fa, fb):
    if fa == 'sum':
        return 'sum'
    if fa == 'prod':
        return 'sum'
    if fa in ('canon', 'tucker'):
        if fb == 'full':
            return 'full'
        if fb in ('canon', 'tucker'):
            return 'canon' if (fa == 'canon' and fb == 'canon') else 'tucker'
    return None     # not a documented combination


def gen_sequence(rng, maxlen=8, malformed=False):
    """One operation sequence.  Returns (case for the driver, per-step expectation list).
    Every step's expectation is ('ok', dense ndarray or float, fmt) or ('err', class) or
    ('any',) when the reference semantics does not determine the outcome."""
    shape = gen_shape(rng)
    init = [gen_tensor(rng, shape) for _ in range(rng.randint(2, 3))]
    if rng.random() < 0.3:
        init.append(gen_tensor(rng, gen_shape(rng)))
    slots = [{'fmt': s['t'], 'D': dense_of(s)} for s in init]   # None for failed / scalar
    ops, exps = [], []
    nops = rng.randint(3, maxlen)

    def live(fmts=None, shape=None):
        return [i for i, s in enumerate(slots) if s is not None and (fmts is None or s['fmt'] in fmts)
                and (shape is None or list(s['D'].shape) == list(shape))]

    for _ in range(nops):
        kinds = ['add', 'sub', 'neg', 'getitem', 'getitem', 'squeeze', 'nway', 'to_tucker', 'to_canon', 'asarray',
                 'truncate', 'pad', 'join', 'tsum', 'tprod', 'copy', 'zeros', 'from_terms']
        k = rng.choice(kinds)
        op, exp = None, None
        try:
            if k in ('add', 'sub'):
                ca = live(('canon', 'tucker', 'sum', 'prod'))
                if not ca:
                    continue
                a = rng.choice(ca)
                fa = slots[a]['fmt']
                if malformed and rng.random() < 0.5:
                    cb = [i for i in live(('canon', 'tucker')) if slots[i]['D'].shape != slots[a]['D'].shape
                          and slots[i]['D'].ndim == slots[a]['D'].ndim]
                    if not cb or fa not in ('canon', 'tucker'):
                        continue
                    b = rng.choice(cb)
                    op = {'op': k, 'a': a, 'b': b}
                    raise Expect('AssertionError')
                okb = ('canon', 'tucker', 'full') if fa in ('canon', 'tucker') else ('canon', 'tucker', 'full', 'sum', 'prod')
                cb = [i for i in live(okb, slots[a]['D'].shape)]
                if not cb:
                    continue
                b = rng.choice(cb)
                fb = slots[b]['fmt']
                if fa in ('sum', 'prod') and k == 'sub' and fb == 'sum' and False:
                    continue
                op = {'op': k, 'a': a, 'b': b}
                D = slots[a]['D'] + slots[b]['D'] if k == 'add' else slots[a]['D'] - slots[b]['D']
                exp = ('ok', D, fmt_addsub(fa, fb))
            elif k == 'neg':
                ca = live(('canon', 'tucker', 'sum', 'prod'))
                if not ca:
                    continue
                a = rng.choice(ca)
                op = {'op': 'neg', 'a': a}
                exp = ('ok', -slots[a]['D'], slots[a]['fmt'])
            elif k == 'getitem':
                ca = live(('canon', 'tucker', 'sum', 'prod'))
                if not ca:
                    continue
                a = rng.choice(ca)
                fa = slots[a]['fmt']
                # sums/products may hold ndarray terms: the same per-axis semantics is required of them
                I = gen_index(rng, list(slots[a]['D'].shape), malformed=malformed and rng.random() < 0.7,
                              lists=True)
                op = {'op': 'getitem', 'a': a, 'I': I}
                D = o_getitem(slots[a]['D'], I)
                exp = ('ok', D, 'scal' if isinstance(D, float) else fa)
            elif k == 'squeeze':
                ca = live(('canon', 'tucker'))
                if not ca:
                    continue
                a = rng.choice(ca)
                shp = list(slots[a]['D'].shape)
                ones = [i for i, n in enumerate(shp) if n == 1]
                c = rng.random()
                if c < 0.4:
                    axis = None
                    axes = ones
                elif malformed and c < 0.7 and len(ones) < len(shp):
                    axis = rng.choice([i for i in range(len(shp)) if i not in ones])
                    op = {'op': 'squeeze', 'a': a, 'axis': axis}
                    raise Expect('ValueError')
                else:
                    axes = sorted(rng.sample(ones, rng.randint(0, len(ones))))
                    axis = axes[0] if (len(axes) == 1 and rng.random() < 0.5) else axes
                op = {'op': 'squeeze', 'a': a, 'axis': axis}
                D = np.squeeze(slots[a]['D'], axis=tuple(axes))
                if len(axes) == len(shp):
                    exp = ('ok', float(D), 'scal')
                else:
                    exp = ('ok', D, slots[a]['fmt'])
            elif k == 'nway':
                ca = live(('canon', 'tucker', 'full', 'sum', 'prod'))
                if not ca:
                    continue
                a = rng.choice(ca)
                shp = list(slots[a]['D'].shape)
                nb = rng.randint(1, len(shp)) if rng.random() < 0.4 else len(shp)
                if slots[a]['fmt'] in ('prod',):
                    nb = len(shp)
                if malformed and rng.random() < 0.5 and slots[a]['fmt'] in ('canon', 'tucker'):
                    nb = len(shp) + 1
                Bs = []
                for j in range(nb):
                    n = shp[j] if j < len(shp) else 2
                    Bs.append(None if rng.random() < 0.3 else rint_mat(rng, rng.choice([1, 2, 3]), n, -2, 2))
                op = {'op': 'nway', 'a': a, 'Bs': Bs, 'sparse': rng.random() < 0.3 and slots[a]['fmt'] != 'full'}
                D = o_nway(slots[a]['D'], Bs)
                exp = ('ok', D, slots[a]['fmt'])
            elif k in ('to_tucker', 'copy', 'from_terms'):
                fm = {'to_tucker': ('canon', 'tucker', 'full'), 'copy': ('canon', 'tucker'), 'from_terms': ('canon',)}[k]
                ca = live(fm)
                if k == 'from_terms':
                    ca = [i for i in ca if True]
                if not ca:
                    continue
                a = rng.choice(ca)
                op = {'op': k, 'a': a}
                exp = ('ok', slots[a]['D'], 'tucker' if k == 'to_tucker' else slots[a]['fmt'])
                if k == 'from_terms' and slots[a].get('R0'):
                    exp = ('any',)
            elif k == 'to_canon':
                ca = live(('tucker',))
                if not ca:
                    continue
                a = rng.choice(ca)
                op = {'op': k, 'a': a}
                exp = ('ok', slots[a]['D'], 'canon')
            elif k == 'asarray':
                a = rng.choice(live())
                op = {'op': 'asarray', 'a': a}
                exp = ('ok', slots[a]['D'], 'full')
            elif k == 'truncate':
                ca = live(('tucker',))
                if not ca:
                    continue
                a = rng.choice(ca)
                nd = slots[a]['D'].ndim
                kk = rng.randint(0, 3) if rng.random() < 0.3 else [rng.randint(0, 4) for _ in range(nd)]
                op = {'op': 'truncate', 'a': a, 'k': kk}
                exp = ('struct-truncate', a, kk)
            elif k == 'pad':
                ca = live(('canon', 'tucker', 'full'))
                if not ca:
                    continue
                a = rng.choice(ca)
                nd = slots[a]['D'].ndim
                w = [None if rng.random() < 0.3 else [rng.randint(0, 2), rng.randint(0, 2)] for _ in range(nd)]
                if malformed and rng.random() < 0.5:
                    w = w + [None]
                    op = {'op': 'pad', 'a': a, 'w': w}
                    raise Expect('AssertionError')
                if any(x is not None and n + x[0] + x[1] > 6 for x, n in zip(w, slots[a]['D'].shape)):
                    continue
                op = {'op': 'pad', 'a': a, 'w': w}
                D = np.pad(slots[a]['D'], [(0, 0) if x is None else tuple(x) for x in w], 'constant')
                exp = ('ok', D, slots[a]['fmt'])
            elif k == 'join':
                ca = live(('tucker',))
                if not ca:
                    continue
                a = rng.choice(ca)
                cb = live(('tucker',), slots[a]['D'].shape)
                b = rng.choice(cb)
                which = rng.choice(['join1', 'join2'])
                op = {'op': which, 'a': a, 'b': b}
                exp = ('ok', slots[a]['D'] if which == 'join1' else slots[b]['D'], 'tucker')
            elif k == 'tsum':
                a = rng.choice(live(('canon', 'tucker', 'full', 'prod')))
                xs = [a] + [i for i in live(('canon', 'tucker', 'full', 'prod', 'sum'), slots[a]['D'].shape) if i != a][:rng.randint(0, 2)]
                op = {'op': 'tsum', 'xs': xs}
                D = sum(slots[i]['D'] for i in xs[1:]) + slots[a]['D'] if len(xs) > 1 else slots[a]['D'].copy()
                exp = ('ok', D, 'sum')
            elif k == 'tprod':
                cands = [i for i in live(('canon', 'tucker', 'full')) if slots[i]['D'].ndim <= 2]
                if not cands:
                    continue
                xs = [rng.choice(cands) for _ in range(rng.randint(1, 2))]
                if sum(slots[i]['D'].ndim for i in xs) > 4:
                    continue
                op = {'op': 'tprod', 'xs': xs}
                D = np.array(1.0)
                for i in xs:
                    D = np.multiply.outer(D, slots[i]['D'])
                exp = ('ok', D, 'prod')
            elif k == 'zeros':
                which = rng.choice(['zerosC', 'onesC', 'zerosT', 'onesT'])
                shp = gen_shape(rng) if rng.random() < 0.5 else list(shape)
                op = {'op': which, 'shape': shp}
                D = np.zeros(shp) if which.startswith('zeros') else np.ones(shp)
                exp = ('ok', D, 'canon' if which.endswith('C') else 'tucker')
        except Expect as e:
            if op is None:
                # the index expression itself is malformed
                exp = ('err', e.cls)
                if k == 'getitem':
                    op = {'op': 'getitem', 'a': a, 'I': I}
                else:
                    continue
            else:
                exp = ('err', e.cls)
        if op is None:
            continue
        ops.append(op)
        exps.append(exp)
        # results with an empty axis are checked but not fed to further operations (outside the stated
        # quantifier: shapes incl. singleton axes and rank-0 terms, not empty axes)
        if (exp[0] == 'ok' and exp[2] != 'scal' and not isinstance(exp[1], float) and op['op'] != 'from_terms'
                and 0 not in np.shape(exp[1])):
            slots.append({'fmt': exp[2], 'D': np.asarray(exp[1], dtype=float)})
        else:
            slots.append(None)     # errors, scalars and truncations are not reused
    return {'init': init, 'ops': ops}, exps


def gen_directed_sum_index(rng):
    """TensorSum / TensorProd holding an ndarray term, indexed by expressions that mix ints, slices
    and index lists (per-axis semantics required of every term)."""
    shape = [rng.choice([2, 3]), 2, 2] if rng.random() < 0.5 else [rng.choice([2, 3, 4]) for _ in range(3)]
    init = [gen_tensor(rng, shape, 'full'), gen_tensor(rng, shape, rng.choice(['canon', 'tucker']))]
    D = [dense_of(s) for s in init]
    ops = [{'op': 'tsum', 'xs': [0, 1]}]
    exps = [('ok', D[0] + D[1], 'sum')]
    pats = [[{'i': 0}, {'s': [None, None, None]}, {'l': [0, 1]}],
            [{'l': [0, 1]}, {'l': [1, 0]}],
            [{'l': [1, 0]}, {'s': [None, None, -1]}, {'i': -1}],
            [{'s': [None, None, None]}, {'l': [1]}, {'l': [0, 1, 1]}]]
    I = {'items': rng.choice(pats)}
    ops.append({'op': 'getitem', 'a': 2, 'I': I})
    exps.append(('ok', o_getitem(D[0] + D[1], I), 'sum'))
    return {'init': init, 'ops': ops}, exps
