(* C19 -- property theorems only.  Each is closed by [exact] of a lemma of Proofs.v /
   FloatProofs.v and followed by Print Assumptions.
   Model: coq/C19/Model.v (exact, Qc), coq/lib/NpF.v (binary64), coq/lib/Bsp.v (findspan). *)
From Coq Require Import QArith Qcanon ZArith List Arith Bool Permutation.
From Verif.lib Require Import Bsp NpCore NpQ NpF.
From Verif.C02 Require Import Proofs.
From Verif.C02 Require Proofs_ref.
From Verif.C19 Require Import Model Model2 Proofs Proofs2 Proofs3 Proofs4 Proofs5 Proofs6 Proofs7 Proofs8 Proofs9 Proofs10 Proofs11 FloatProofs.
Import ListNotations.
Open Scope Qc_scope.

(* ---- the constructor, exact arithmetic, every p, a < b, n >= 1, mult >= 1 ---- *)

(* number of basis functions p + 1 + mult (n-1) *)
Theorem make_knots_numdofs : forall p a b n mult,
  numdofs (make_knots p a b n mult) p = (p + 1 + mult * (n - 1))%nat.
Proof. exact make_knots_numdofs_l. Qed.
Print Assumptions make_knots_numdofs.

(* closed form of every knot: the first p+1 are a, then break point 1 + (i-p-1)/mult
   (each interior break point exactly mult times), the last p+1 are b *)
Theorem make_knots_mult : forall p a b n mult i, (1 <= n)%nat -> (1 <= mult)%nat ->
  (i < 2 * (p + 1) + mult * (n - 1))%nat ->
  kn (make_knots p a b n mult) i = a + natq (bpidx p n mult i) * ((b - a) / natq n).
Proof. exact kn_make_knots. Qed.
Print Assumptions make_knots_mult.

(* the requested multiplicities, by counting: break point j = a + j(b-a)/n occurs exactly p+1 times
   in the knot vector for j = 0 and j = n, and exactly mult times for 0 < j < n *)
Theorem make_knots_multiplicity : forall p a b n mult j,
  a < b -> (1 <= n)%nat -> (1 <= mult)%nat -> (j <= n)%nat ->
  count_occ Qc_eq_dec (make_knots p a b n mult) (a + natq j * ((b - a) / natq n)) =
  if (Nat.eqb j 0 || Nat.eqb j n)%bool then (p + 1)%nat else mult.
Proof. exact make_knots_multiplicity_l. Qed.
Print Assumptions make_knots_multiplicity.

(* non-decreasing, open (first/last knot p+1 times), last span non-empty: the hypotheses
   of C02's findspan theorems *)
Theorem make_knots_open : forall p a b n mult, a < b -> (1 <= n)%nat -> (1 <= mult)%nat ->
  kv_ok (make_knots p a b n mult) p.
Proof. exact make_knots_kv_ok_l. Qed.
Print Assumptions make_knots_open.

(* exactly n non-empty spans *)
Theorem make_knots_spans : forall p a b n mult, a < b -> (1 <= n)%nat -> (1 <= mult)%nat ->
  numspans (make_knots p a b n mult) = n.
Proof. exact make_knots_numspans_l. Qed.
Print Assumptions make_knots_spans.

(* equally spaced break points, the last one exactly b *)
Theorem make_knots_equispaced : forall p a b n mult i,
  a < b -> (1 <= n)%nat -> (1 <= mult)%nat -> (i <= n)%nat ->
  nth i (mesh (make_knots p a b n mult)) 0 = a + natq i * ((b - a) / natq n) /\
  nth n (mesh (make_knots p a b n mult)) 0 = b.
Proof. exact make_knots_equispaced_l. Qed.
Print Assumptions make_knots_equispaced.

(* span lookup on the constructed knot vector *)
Theorem make_knots_findspan : forall p a b n mult u, a < b -> (1 <= n)%nat -> (1 <= mult)%nat ->
  a <= u -> u <= b ->
  let kv := make_knots p a b n mult in
  let s := findspan kv p u in
  (p <= s)%nat /\ (s < length kv - p - 1)%nat /\ kn kv s < kn kv (S s) /\
  kn kv s <= u /\ (u < kn kv (S s) \/ (u = b /\ kn kv (S s) = b)).
Proof. exact make_knots_findspan_l. Qed.
Print Assumptions make_knots_findspan.

(* the boolean well-formedness predicate of lib/Bsp.v (non-decreasing, end knots p+1 times, first and
   last span non-empty, interior multiplicity <= max p 1) holds whenever mult <= max p 1 *)
Theorem make_knots_open_kv : forall p a b n mult, a < b -> (1 <= n)%nat -> (1 <= mult)%nat ->
  (mult <= Nat.max p 1)%nat -> open_kv (make_knots p a b n mult) p = true.
Proof. exact make_knots_open_kv_l. Qed.
Print Assumptions make_knots_open_kv.

(* hence C02's theorems hold on EVERY constructed knot vector, at every u in [a,b]: partition of unity,
   non-negativity, locality (only functions s-p..s of the reported span are non-zero), the single-function
   evaluator and the collocation row both equal the Cox-de Boor reference, derivatives of every order
   >= 1 sum to zero *)
Theorem make_knots_basis_properties : forall p a b n mult u,
  a < b -> (1 <= n)%nat -> (1 <= mult)%nat -> (mult <= Nat.max p 1)%nat -> a <= u -> u <= b ->
  let kv := make_knots p a b n mult in
  open_kv kv p = true /\
  Proofs_ref.sumf (fun i => Nref kv p i u) 0 (numdofs kv p) = 1 /\
  (forall i, (i < numdofs kv p)%nat -> 0 <= Nref kv p i u) /\
  (forall i, (i < numdofs kv p)%nat -> ~ (findspan kv p u - p <= i <= findspan kv p u)%nat -> Nref kv p i u = 0) /\
  (forall i, (i < numdofs kv p)%nat ->
     single_ev kv p i u = Nref kv p i u /\ nth i (colloc_row kv p 0 u) 0 = Nref kv p i u) /\
  (forall k, (1 <= k)%nat -> Proofs_ref.sumf (fun i => dNref kv k p i u) 0 (numdofs kv p) = 0).
Proof. exact make_knots_basis_properties_l. Qed.
Print Assumptions make_knots_basis_properties.

(* ---- the constructor in binary64 (bounded; computed, then lifted over p and mult) ---- *)

(* for the 16 intervals [a,b] listed in the statement (a, b the doubles nearest to the given
   rationals: f_of_q num/den is the correctly rounded quotient of two exact doubles, i.e. what the
   decimal or rational literal denotes), every n <= 2000, EVERY degree and EVERY interior
   multiplicity: non-decreasing, the mesh is the list of n+1 strictly increasing break points,
   p+1+mult(n-1)+p+1 knots, first knot a, last knot exactly b.
   (The list is short because the thorough tier re-checks this file with coqchk, which has no VM:
   37 s per interval; see FloatGridDefs.v.  The correspondence run evaluates the same computed
   check NpF.bp_ok on further intervals in every run.) *)
Theorem make_knots_float_bounded_2000 : forall qa qb n p mult,
  In (qa, qb)
  [(0, 1); (-1, 1); (9 # 10, 1); (1 # 10, 7 # 10); (1 # 3, 2 # 3); (0, 3 # 10); (2, 3); (-1 # 2, 1 # 4);
   (0, 10); (1 # 1000, 1000); (100, 1001 # 10); (-37 # 10, 129 # 10); (1 # 1000000, 1 # 100000);
   (1234567 # 10, 6543219 # 10); (0, 1 # 1000000); (-1000000, 1000000)]%Q ->
  (1 <= n <= 2000)%nat -> (1 <= mult)%nat ->
  let a := f_of_q qa in let b := f_of_q qb in
  let kv := make_knots_f p a b n mult in
  sorted_f kv = true /\ mesh_f kv = bp_f a b n /\ length (mesh_f kv) = (n + 1)%nat /\
  strict_f (mesh_f kv) = true /\
  length kv = (2 * (p + 1) + mult * (n - 1))%nat /\ last kv a = b /\ nth 0 kv b = a.
Proof. exact make_knots_float_bounded_l. Qed.
Print Assumptions make_knots_float_bounded_2000.

(* the np.arange formula of the unrepaired source has one span too many (p=2, [0,1], n=49) *)
Theorem make_knots_float_old_refuted :
  exists p a b n mult, (1 <= n)%nat /\ (1 <= mult)%nat /\
    length (mesh_f (make_knots_old_f p a b n mult)) <> (n + 1)%nat.
Proof. exact make_knots_float_old_refuted_l. Qed.
Print Assumptions make_knots_float_old_refuted.

(* ---- mesh / support / span queries, every knot vector ---- *)

Theorem mesh_strict : forall kv, adjb qltb (mesh kv) = true.
Proof. exact mesh_strict_l. Qed.
Print Assumptions mesh_strict.

Theorem k2m_mesh : forall kv i, (i < length kv)%nat ->
  (nth i (knots_to_mesh kv) 0 < length (mesh kv))%nat /\
  nth (nth i (knots_to_mesh kv) 0%nat) (mesh kv) 0 = kn kv i.
Proof. exact k2m_mesh_l. Qed.
Print Assumptions k2m_mesh.

Theorem support_mesh_support : forall kv p j, (j + p + 1 < length kv)%nat ->
  let '(lo, hi) := mesh_support_idx kv p j in
  (nth lo (mesh kv) 0, nth hi (mesh kv) 0) = support kv p j.
Proof. exact support_mesh_support_l. Qed.
Print Assumptions support_mesh_support.

Theorem mesh_support_idx_all_eq : forall kv p j, (j < numdofs kv p)%nat ->
  nth j (mesh_support_idx_all kv p) (0%nat, 0%nat) = mesh_support_idx kv p j /\
  length (mesh_support_idx_all kv p) = numdofs kv p.
Proof. exact mesh_support_idx_all_l. Qed.
Print Assumptions mesh_support_idx_all_eq.

(* i is listed iff span i is non-empty; the list has numspans entries; findspan's answer is listed *)
Theorem span_indices_spec : forall kv i, kv_valid kv = true ->
  (In i (mesh_span_indices kv) <-> ((S i < length kv)%nat /\ kn kv i < kn kv (S i))).
Proof. exact span_indices_sorted_In. Qed.
Print Assumptions span_indices_spec.

Theorem span_indices_length : forall kv, kv_valid kv = true -> kv <> [] ->
  length (mesh_span_indices kv) = numspans kv.
Proof. exact span_indices_length_l. Qed.
Print Assumptions span_indices_length.

Theorem findspan_listed : forall kv p u, kv_valid kv = true -> kv_ok kv p ->
  kn kv 0 <= u -> u <= kn kv (length kv - 1) -> In (findspan kv p u) (mesh_span_indices kv).
Proof. exact findspan_listed_l. Qed.
Print Assumptions findspan_listed.

(* ---- Greville points ---- *)

(* for p >= 1 Greville point i is the average of kv[i+1..i+p] (the clip of the source does
   nothing in exact arithmetic); it lies in [kv[i+1], kv[i+p]], hence in the support of
   B-spline i and in the domain; there are numdofs of them *)
Theorem greville_in_support : forall kv p i, (1 <= p)%nat -> kv_valid kv = true -> (i < numdofs kv p)%nat ->
  let g := nth i (greville kv p) 0 in
  g = nth i (sl_range p p (np_convolve kv (avg_weights p))) 0 /\
  kn kv (i + 1) <= g /\ g <= kn kv (i + p) /\
  kn kv i <= g /\ g <= kn kv (i + p + 1) /\ kn kv 0 <= g /\ g <= kn kv (length kv - 1) /\
  length (greville kv p) = numdofs kv p.
Proof. exact greville_in_support_l. Qed.
Print Assumptions greville_in_support.

Theorem greville_in_domain : forall kv p x, (1 <= p)%nat -> kn kv 0 <= kn kv (length kv - 1) ->
  In x (greville kv p) -> kn kv 0 <= x /\ x <= kn kv (length kv - 1).
Proof. exact greville_in_domain_l. Qed.
Print Assumptions greville_in_domain.

(* Schoenberg-Whitney position of the Greville points of an open knot vector, p >= 1: the first and the
   last are the end points of the domain; every other one lies STRICTLY inside the support
   (kv[i], kv[i+p+1]) of its B-spline (the part of unisolvence C17 uses).
   NOT PROVED: that this position makes the Greville collocation matrix non-singular
   (Schoenberg-Whitney theorem / total positivity), hence the name. *)
Theorem greville_unisolvent_partial : forall kv p, (1 <= p)%nat -> open_kv kv p = true ->
  nth 0 (greville kv p) 0 = kn kv 0 /\
  nth (numdofs kv p - 1) (greville kv p) 0 = kn kv (length kv - 1) /\
  forall i, (1 <= i)%nat -> (i + 1 < numdofs kv p)%nat ->
    kn kv i < nth i (greville kv p) 0 /\ nth i (greville kv p) 0 < kn kv (i + p + 1).
Proof. exact greville_schoenberg_whitney_l. Qed.
Print Assumptions greville_unisolvent_partial.

(* B-splines of any non-decreasing knot vector are strictly positive inside their support: for
   t_i <= u < t_{i+p+1}, provided u > t_i or the left end has full multiplicity (t_{i+p} <= u) *)
Theorem N_pos_inside_support : forall kv u, sorted kv -> forall p i, (i + p + 1 < length kv)%nat ->
  kn kv i <= u -> u < kn kv (i + p + 1) -> (kn kv i < u \/ kn kv (i + p) <= u) -> 0 < Nref kv p i u.
Proof. exact N_pos_l. Qed.
Print Assumptions N_pos_inside_support.

(* ... and the function whose support ends with the full-multiplicity last knot is 1 there *)
Theorem N_right_end : forall kv i, sorted kv -> kn kv i < kn kv (S i) -> kn kv (S i) = kn kv (length kv - 1) ->
  forall p, (i + p + 1 < length kv)%nat -> Nref kv p i (kn kv (length kv - 1)) = 1.
Proof. exact N_right_end_l. Qed.
Print Assumptions N_right_end.

(* Schoenberg-Whitney condition in its usual form: the diagonal of the Greville collocation matrix of
   an open knot vector (p >= 1) is strictly positive, N_{i,p}(g_i) > 0 for EVERY i *)
Theorem greville_diag_pos : forall kv p i, (1 <= p)%nat -> open_kv kv p = true -> (i < numdofs kv p)%nat ->
  0 < Nref kv p i (nth i (greville kv p) 0).
Proof. exact greville_diag_pos_l. Qed.
Print Assumptions greville_diag_pos.

(* for any non-decreasing knot vector, without the open_kv hypothesis: strict whenever the support
   is not degenerate on that side *)
Theorem greville_strict_support : forall kv p i, (1 <= p)%nat -> sorted_idx kv -> (i + p + 1 < length kv)%nat ->
  let g := nth i (sl_range p p (np_convolve kv (avg_weights p))) 0 in
  (kn kv i < kn kv (i + p) -> kn kv i < g) /\ (kn kv (i + 1) < kn kv (i + p + 1) -> g < kn kv (i + p + 1)).
Proof. exact running_average_strict. Qed.
Print Assumptions greville_strict_support.

(* degree 0: numdofs cell midpoints (kv[i+1]+kv[i])/2, inside [kv[i], kv[i+1]] = the support of
   function i, strictly inside when the cell is non-empty *)
Theorem greville_p0 : forall kv i, kv_valid kv = true -> (i < numdofs kv 0)%nat ->
  length (greville kv 0) = numdofs kv 0 /\
  nth i (greville kv 0) 0 = (kn kv (S i) + kn kv i) / two /\
  kn kv i <= nth i (greville kv 0) 0 /\ nth i (greville kv 0) 0 <= kn kv (i + 0 + 1) /\
  (kn kv i < kn kv (S i) -> kn kv i < nth i (greville kv 0) 0 /\ nth i (greville kv 0) 0 < kn kv (S i)).
Proof. exact greville_p0_l. Qed.
Print Assumptions greville_p0.

(* ---- refinement ---- *)

Theorem refine_sorted_union : forall kv new_knots,
  Permutation (refine kv new_knots) (kv ++ new_knots) /\ kv_valid (refine kv new_knots) = true.
Proof. exact refine_sorted_union_l. Qed.
Print Assumptions refine_sorted_union.

(* uniform refinement: the new mesh is the old one with the midpoint of every span inserted
   (every span is halved), so the number of spans doubles *)
Theorem refine_uniform_halves : forall kv, kv <> [] ->
  mesh (refine_uniform kv) = interleave (mesh kv) /\
  numspans (refine_uniform kv) = (2 * numspans kv)%nat.
Proof. exact refine_uniform_halves_l. Qed.
Print Assumptions refine_uniform_halves.

(* ---- equality (repaired, symmetric tolerance) ---- *)

Theorem eq_refl : forall kv p, kv_eq kv p kv p = true.
Proof. exact eq_refl_l. Qed.
Print Assumptions eq_refl.

Theorem eq_sym : forall kv1 p1 kv2 p2, kv_eq kv1 p1 kv2 p2 = kv_eq kv2 p2 kv1 p1.
Proof. exact eq_sym_l. Qed.
Print Assumptions eq_sym.

(* the np.allclose form of the unrepaired source is not symmetric *)
Theorem eq_sym_old_refuted :
  exists kv1 kv2 p, kv_eq_old kv1 p kv2 p = true /\ kv_eq_old kv2 p kv1 p = false.
Proof. exact eq_sym_old_refuted_l. Qed.
Print Assumptions eq_sym_old_refuted.

(* ---- Spline.derivative ---- *)

(* for every open knot vector of degree p = q+1 >= 1, every coefficient vector and every u:
   the spline returned by derivative() (knots kv[1:-1], degree p-1, coefficients
   p (c[i+1]-c[i]) / (t[i+p+1]-t[i+1])) evaluates to the pointwise derivative
   sum_i c_i N'_{i,p}(u), N' being C02's derivative recursion dNref *)
Theorem derivative_spline : forall kv q c u, let p := S q in
  kv_ok kv p -> length c = numdofs kv p ->
  spline_ev (derivative_kv kv) q (derivative_coeffs kv p c) u = spline_dev kv p c u.
Proof. exact derivative_spline_l. Qed.
Print Assumptions derivative_spline.

(* ---- knots_to_mesh as order isomorphism; spans <-> mesh cells; mesh-support pairs (every knot vector) ---- *)
(* k2m kv i = knots_to_mesh[i] *)

(* monotone; strictly increasing exactly where the knot values increase *)
Theorem k2m_monotone : forall kv i j, kv_valid kv = true -> (i <= j)%nat -> (j < length kv)%nat ->
  (k2m kv i <= k2m kv j)%nat.
Proof. exact k2m_monotone_l. Qed.
Print Assumptions k2m_monotone.

Theorem k2m_strict_iff : forall kv i j, kv_valid kv = true -> (i <= j)%nat -> (j < length kv)%nat ->
  ((k2m kv i < k2m kv j)%nat <-> kn kv i < kn kv j).
Proof. exact k2m_lt_iff. Qed.
Print Assumptions k2m_strict_iff.

(* across a non-empty span the mesh index advances by exactly one; it starts at 0 and ends at numspans *)
Theorem k2m_step : forall kv i, kv_valid kv = true -> (S i < length kv)%nat -> kn kv i < kn kv (S i) ->
  k2m kv (S i) = S (k2m kv i).
Proof. exact k2m_step_l. Qed.
Print Assumptions k2m_step.

Theorem k2m_first : forall kv, kv_valid kv = true -> kv <> [] -> k2m kv 0 = 0%nat.
Proof. exact k2m_first_l. Qed.
Print Assumptions k2m_first.

Theorem k2m_last : forall kv, kv_valid kv = true -> kv <> [] -> k2m kv (length kv - 1) = numspans kv.
Proof. exact k2m_last_l. Qed.
Print Assumptions k2m_last.

(* the listed spans are, in order, the knot spans of mesh cells 0, 1, ..., numspans-1 *)
Theorem span_indices_cells : forall kv, kv_valid kv = true -> kv <> [] ->
  map (k2m kv) (mesh_span_indices kv) = seq 0 (numspans kv).
Proof. exact span_indices_cells_l. Qed.
Print Assumptions span_indices_cells.

(* ... i.e. for the m-th listed span i, mesh cell m is exactly [kv[i], kv[i+1]] *)
Theorem span_cell : forall kv m, kv_valid kv = true -> kv <> [] -> (m < numspans kv)%nat ->
  let i := nth m (mesh_span_indices kv) 0%nat in
  (S i < length kv)%nat /\ k2m kv i = m /\ k2m kv (S i) = S m /\
  nth m (mesh kv) 0 = kn kv i /\ nth (S m) (mesh kv) 0 = kn kv (S i) /\ kn kv i < kn kv (S i).
Proof. exact span_cell_l. Qed.
Print Assumptions span_cell.

(* mesh_support_idx j = (lo, hi) is an ordered pair of mesh indices <= numspans, strictly ordered iff
   the support of function j is not degenerate *)
Theorem mesh_support_idx_ordered : forall kv p j, kv_valid kv = true -> (j + p + 1 < length kv)%nat ->
  let '(lo, hi) := mesh_support_idx kv p j in
  (lo <= hi)%nat /\ (hi <= numspans kv)%nat /\ ((lo < hi)%nat <-> kn kv j < kn kv (j + p + 1)).
Proof. exact mesh_support_idx_ordered_l. Qed.
Print Assumptions mesh_support_idx_ordered.

(* the non-empty knot spans inside the support of B-spline j (nonempty_span kv i = kv[i] < kv[i+1]) are, in
   order, the mesh cells lo .. hi-1 of mesh_support_idx j = (lo, hi): there are hi - lo of them and they
   are exactly the entries of mesh_span_indices lying in j .. j+p *)
Theorem support_cells : forall kv p j, kv_valid kv = true -> (j + p + 1 < length kv)%nat ->
  let '(lo, hi) := mesh_support_idx kv p j in
  let spans := filter (nonempty_span kv) (seq j (p + 1)) in
  map (k2m kv) spans = seq lo (hi - lo) /\ length spans = (hi - lo)%nat /\
  (forall i, In i spans <-> (In i (mesh_span_indices kv) /\ (j <= i < j + p + 1)%nat)).
Proof. exact support_cells_l. Qed.
Print Assumptions support_cells.

(* support() = (mesh[0], mesh[numspans]) *)
Theorem support_all_mesh : forall kv, kv_valid kv = true -> kv <> [] ->
  support_all kv = (nth 0 (mesh kv) 0, nth (numspans kv) (mesh kv) 0).
Proof. exact support_all_mesh_l. Qed.
Print Assumptions support_all_mesh.

(* ---- span search: array version, first-active indices, uniqueness on constructed vectors ---- *)

Theorem findspans_spec : forall kv p us, length (findspans kv p us) = length us /\
  forall i, (i < length us)%nat -> nth i (findspans kv p us) 0%nat = findspan kv p (nth i us 0).
Proof. exact findspans_spec_l. Qed.
Print Assumptions findspans_spec.

(* first_active_at(u) .. first_active_at(u)+p are valid dof indices *)
Theorem first_active_range : forall kv p u, kv_ok kv p -> kn kv 0 <= u -> u <= kn kv (length kv - 1) ->
  (0 <= first_active_at_z kv p u)%Z /\
  (first_active_at_z kv p u + Z.of_nat p < Z.of_nat (numdofs kv p))%Z /\
  first_active_at_z kv p u = Z.of_nat (first_active_at kv p u).
Proof. exact first_active_range_l. Qed.
Print Assumptions first_active_range.

(* pyx_findspans(kv, p, nodes) - p, as used by collocation_info, is first_active_at entry by entry *)
Theorem first_active_all_spec : forall kv p us i, (i < length us)%nat ->
  nth i (first_active_all kv p us) 0%Z = first_active_at_z kv p (nth i us 0).
Proof. exact first_active_all_spec_l. Qed.
Print Assumptions first_active_all_spec.

Theorem make_knots_findspan_unique : forall p a b n mult u t, a < b -> (1 <= n)%nat -> (1 <= mult)%nat ->
  a <= u -> u < b ->
  let kv := make_knots p a b n mult in
  (S t < length kv)%nat -> kn kv t <= u -> u < kn kv (S t) -> t = findspan kv p u.
Proof. exact make_knots_findspan_unique_l. Qed.
Print Assumptions make_knots_findspan_unique.

(* support() and meshsize_avg() of a constructed vector *)
Theorem make_knots_support_meshsize : forall p a b n mult, a < b -> (1 <= n)%nat -> (1 <= mult)%nat ->
  let kv := make_knots p a b n mult in
  support_all kv = (a, b) /\ meshsize_avg kv = (b - a) / natq n.
Proof. exact make_knots_support_meshsize_l. Qed.
Print Assumptions make_knots_support_meshsize.

(* refinement is nested: multiplicities add up, the old mesh is contained in the new one, numdofs grows by
   the number of inserted knots *)
Theorem refine_nested : forall kv new_knots p,
  (forall x, count_occ Qc_eq_dec (refine kv new_knots) x =
             (count_occ Qc_eq_dec kv x + count_occ Qc_eq_dec new_knots x)%nat) /\
  incl (mesh kv) (mesh (refine kv new_knots)) /\
  ((p + 1 <= length kv)%nat -> numdofs (refine kv new_knots) p = (numdofs kv p + length new_knots)%nat).
Proof. exact refine_nested_l. Qed.
Print Assumptions refine_nested.

(* Spline.derivative returns a well-formed spline: kv[1:-1] satisfies kv_ok at degree p-1 (so the
   theorems of C02 and derivative_spline apply to it again) and the coefficient vector has exactly its
   numdofs = numdofs - 1 entries (the assertion of Spline.__init__) *)
Theorem derivative_wellformed : forall kv q c, let p := S q in kv_ok kv p -> length c = numdofs kv p ->
  kv_ok (derivative_kv kv) q /\
  length (derivative_coeffs kv p c) = numdofs (derivative_kv kv) q /\
  numdofs (derivative_kv kv) q = (numdofs kv p - 1)%nat.
Proof. exact derivative_wellformed_l. Qed.
Print Assumptions derivative_wellformed.

(* NOT PROVED -- what remains without a theorem, clause by clause of the property text:
   "open, non-decreasing, exactly n spans, equally spaced ending at b, multiplicities, numdofs":
       all theorems over exact rationals (the make_knots_... theorems).  In binary64 only the bounded
       make_knots_float_bounded_2000 (16 listed intervals, n <= 2000, every p and mult); other
       intervals / n > 2000 / the accuracy |y_i - (a+i(b-a)/n)| <= 4 eps|b-a| + 2 eps max|a|,|b| of the
       float break points are decided by the bit-exact tie and the Fraction oracle only.
   "span lookup returns the unique non-empty span (last one at the right end)": theorems (C02
       findspan_spec/unique, make_knots_findspan(_unique), findspans_spec, first_active_range, first_active_all_spec).  That the
       compiled pyx_findspan on doubles equals the Qc model is the exact tie (floats are exact rationals).
   "mesh, support, span-index, mesh-support and Greville queries mutually consistent, Greville inside the
       domain": theorems for every knot vector (mesh_strict .. support_all_mesh, the greville_... theorems).  Without
       theorem: non-singularity of the Greville collocation matrix (Schoenberg-Whitney theorem); proved are
       its hypotheses greville_unisolvent_partial and greville_diag_pos.  The binary64 Greville points
       (np.convolve rounding, the clip that exists for it) are bounded by the tie (2(p+2) eps max|kv|).
   "refinement returns the sorted union (uniform refinement halves every span)": theorems for every knot
       vector (refine_sorted_union, refine_nested, refine_uniform_halves).  The float midpoint (x+y)/2 is
       compared within 2 eps max|kv| by the tie.
   "equality is reflexive and symmetric": theorems about the rational model of the repaired tolerance
       (eq_refl, eq_sym; np.allclose form refuted).  The binary64 evaluation of __eq__ is compared away
       from the threshold and scanned over adjacent floats for asymmetry; no theorem about the float
       comparison (it is symmetric by commutativity of IEEE |x-y| and max, which is not formalised).
   "derivative of a spline as a spline equals its pointwise derivative": theorems (derivative_spline,
       derivative_wellformed) against
       C02's dNref; that dNref is the analytic derivative of Nref away from knots is C02's business;
       scipy's splev (Spline.eval / deriv) is not modelled, only compared with itself by the oracle.
   Not modelled at all: KnotVector.copy/__str__/__repr__, numdofs(kvs) for tuples. *)
