"""C03 -- Hierarchical assembly is the level-wise Galerkin restriction of TP assembly.

Stage 1: Coq theorems (coq/C03/Props.v) about the model coq/C03/Model.v (on top of coq/C04/Model.v).
Stage 2: correspondence run.  The implementation is run on refinement histories; the model (a literal
         transcription of HDiscretization.assemble_matrix / assemble_functional / represent_fine /
         thb_to_hb over exact dyadic numbers) receives the implementation's OWN full tensor-product level
         matrices, load vectors and 1-D prolongators, so the comparison isolates the hierarchical
         bookkeeping.  Integer outputs (rows handed to _assemble_level, bounding boxes,
         cell_supp_indices) are compared exactly; float outputs against the model's exact value v with
         the bound |x - v| <= GAMMA * b, b = sum of |terms| accumulated by the model (coq/C03/Tie.v).
Stage 3: the property itself on the implementation's results with an independent oracle (exact Boehm
         two-scale relations in Fractions, numpy): entry characterisation, I^T A_fine I for polynomial
         integrands, THB congruence, symmetric = general, independence of bdspecs.
"""
import itertools
import json
import os
from fractions import Fraction

from harness.core import cbool, log, parse_coq_list_of_nat

PROPS = 'C03/Props.v'

# Bound of the tie: |impl - model| <= GAMMA * (sum of |terms| of the model's evaluation of that entry).
# Every entry is obtained from the inputs by at most (a) d-1 products for a Kronecker entry, (b) per level
# a sparse dot product of at most (p+2)^d terms (represent_fine, at most 3 levels), (c) two sparse matrix
# products with at most |interlevel_ix| <= 2000 and (2p+1)^d <= 729 terms per entry, (d) for THB two more
# products with at most numdofs <= 1500 terms: fewer than 6000 roundings in sequence, each of relative
# size u = 2^-53 with respect to the running sum of absolute values: 6000 * 1.01 * 2^-53 < 2^-40.
# GAMMA = 2^-38 leaves a factor 4.
GAMMA = (1, -38)
# Oracle (stage 3) tolerance: both sides are float evaluations of sums of products of the same level
# matrices (impl: bookkeeping above; oracle: dense numpy products with exact two-scale coefficients rounded
# once); relative to B = |I|^T |A| |I| each is below 1e4 * u ~ 1e-12; the implementation's prolongators
# carry the error of a sparse collocation solve (< 1e-13 relative, C05).  1e-10 * B_ij + 1e-13 * max B.
ORACLE_REL = 1e-10
ORACLE_FLOOR = 1e-13


# ---------------------------------------------------------------------------
# independent oracle: exact two-scale relation by Boehm knot insertion
# ---------------------------------------------------------------------------

def boehm_matrix(kv, p, u):
    """Insert knot u once into kv (Fractions, sorted).  Returns (new kv, (n+1) x n matrix as list of rows)."""
    n = len(kv) - p - 1
    k = max(i for i in range(len(kv) - 1) if kv[i] <= u and kv[i] < kv[i + 1] and u < kv[i + 1])
    M = [[Fraction(0)] * n for _ in range(n + 1)]
    for i in range(n + 1):
        if i <= k - p:
            a = Fraction(1)
        elif i <= k:
            a = (u - kv[i]) / (kv[i + p] - kv[i])
        else:
            a = Fraction(0)
        if i < n:
            M[i][i] = a
        if i >= 1:
            M[i][i - 1] = 1 - a
    return kv[:k + 1] + [u] + kv[k + 1:], M


def prolongation_exact(kv1, kv2, p):
    import collections
    c1 = collections.Counter(kv1)
    c2 = collections.Counter(kv2)
    new = []
    for x in sorted(c2):
        new += [x] * (c2[x] - c1.get(x, 0))
        assert c2[x] >= c1.get(x, 0)
    kv = list(kv1)
    n = len(kv) - p - 1
    P = [[Fraction(int(i == j)) for j in range(n)] for i in range(n)]
    for u in new:
        kv, M = boehm_matrix(kv, p, u)
        P = [[sum(M[i][t] * P[t][j] for t in (i - 1, i) if 0 <= t < len(P)) for j in range(n)] for i in range(len(M))]
    assert kv == list(kv2)
    return P


class Oracle:
    """Representation of every active function on every level >= its own, from the knot vectors and the
    active/deactivated sets only (numpy, two-scale coefficients exact then rounded once)."""

    def __init__(self, cfg, res):
        import numpy as np
        self.np = np
        self.L = res['L']
        self.dim = len(cfg['axes'])
        self.ps = [ax['p'] for ax in cfg['axes']]
        self.shape = [tuple(s) for s in res['numdofs_lv']]
        kvs = [[[Fraction(x) for x in kv] for kv in lv] for lv in res['kvs']]
        self.P = []
        for k in range(self.L - 1):
            self.P.append([np.array([[float(x) for x in row] for row in prolongation_exact(kvs[k][d], kvs[k + 1][d], self.ps[d])])
                           for d in range(self.dim)])
        self.act = [[tuple(f) for f in lv[2]] for lv in res['levels']]
        self.deact = [[tuple(f) for f in lv[3]] for lv in res['levels']]
        self.n = sum(len(a) for a in self.act)
        self.level_of = [l for l in range(self.L) for _ in self.act[l]]

    def prolong(self, k, X):
        """X: array of shape shape[k] + (m,) -> shape[k+1] + (m,)"""
        np = self.np
        for d in range(self.dim):
            X = np.moveaxis(np.tensordot(self.P[k][d], X, axes=([1], [d])), 0, d)
        return X

    def rep(self, k, truncate=False):
        """N_k x (number of active functions of levels <= k) matrix: columns in canonical order."""
        np = self.np
        cols = []
        for l in range(k + 1):
            m = len(self.act[l])
            X = np.zeros(self.shape[l] + (m,))
            for t, f in enumerate(self.act[l]):
                X[f + (t,)] = 1.0
            for j in range(l, k):
                X = self.prolong(j, X)
                if truncate:
                    for f in self.act[j + 1] + self.deact[j + 1]:
                        X[f] = 0.0
            cols.append(X.reshape(int(np.prod(self.shape[k])), m))
        return np.concatenate(cols, axis=1) if cols else np.zeros((0, 0))


def dense(rows, shape):
    import numpy as np
    M = np.zeros(shape)
    for i, r in enumerate(rows):
        for j, v in r:
            M[i, j] = v
    return M


def check_form_on_impl(cfg, res, fs, fr, orc):
    """The property predicate on one form.  Returns None or (slug, text)."""
    import numpy as np
    out = fr.get('out', {})
    L = res['L']
    n = res['numdofs']
    for key, o in out.items():
        if 'error' in o:
            slug = 'default-bdspecs' if (cfg['bdspecs'] in (None, 'default') and o['error'].startswith('TypeError')) else 'assemble-raises'
            return (slug + ':' + o['error'].split(':')[0], 'assembling %s (%s) over the hierarchical space raised %s' % (fs['name'], key, o['error']))
    lev_of = orc.level_of
    if fr['arity'] == 2:
        A = [dense(rows, (int(np.prod(s)),) * 2) for rows, s in zip(fr['lev'], orc.shape)]
        # entry characterisation: form on the finer of the two levels
        E = np.zeros((n, n))
        B = np.zeros((n, n))
        for k in range(L):
            Rk = orc.rep(k)
            nk = Rk.shape[1]
            Ek = Rk.T @ A[k] @ Rk
            Bk = abs(Rk).T @ abs(A[k]) @ abs(Rk)
            for i in range(nk):
                for j in range(nk):
                    if max(lev_of[i], lev_of[j]) == k:
                        E[i, j] = Ek[i, j]
                        B[i, j] = Bk[i, j]
        tol = ORACLE_REL * B + ORACLE_FLOOR * (B.max() if B.size else 0.0)
        hb = out.get('hb')
        if hb is None:
            return None
        if hb['shape'] != [n, n]:
            return ('shape', 'matrix of shape %s for numdofs=%d' % (hb['shape'], n))
        H = dense(hb['rows'], (n, n))
        if not np.isfinite(H).all():
            return ('non-finite', 'assembled matrix has non-finite entries')
        D = abs(H - E) - tol
        if (D > 0).any():
            i, j = [int(x) for x in np.unravel_index(np.argmax(D), D.shape)]
            kind = 'lost-entry' if H[i, j] == 0.0 else 'entry'
            if kind == 'lost-entry' and cfg['disparity'] is not None and abs(lev_of[i] - lev_of[j]) > cfg['disparity']:
                kind = 'disparity-window'      # interaction across more levels than the disparity of the space
            return (kind, 'entry (%d,%d) [levels %d,%d] of the HB matrix is %r; the form applied to the two basis functions with the '
                          'quadrature of level %d gives %r' % (i, j, lev_of[i], lev_of[j], float(H[i, j]), max(lev_of[i], lev_of[j]), float(E[i, j])))
        # Galerkin projection of the finest level for polynomial integrands
        Rf = orc.rep(L - 1)
        Bf = abs(Rf).T @ abs(A[L - 1]) @ abs(Rf)
        tolf = ORACLE_REL * Bf + ORACLE_FLOOR * Bf.max()
        if fs.get('polynomial'):
            G = Rf.T @ A[L - 1] @ Rf
            D = abs(H - G) - 10 * tolf
            if (D > 0).any():
                i, j = [int(x) for x in np.unravel_index(np.argmax(D), D.shape)]
                return ('galerkin', 'entry (%d,%d): %r but (I^T A_fine I) = %r for a piecewise polynomial integrand' % (i, j, float(H[i, j]), float(G[i, j])))
        if 'hb_sym' in out:
            S = dense(out['hb_sym']['rows'], (n, n))
            D = abs(S - H) - 2 * tol
            if (D > 0).any():
                i, j = [int(x) for x in np.unravel_index(np.argmax(D), D.shape)]
                return ('symmetric', 'symmetric=True gives %r at (%d,%d), symmetric=False gives %r for a symmetric form' % (float(S[i, j]), i, j, float(H[i, j])))
        # THB: congruence with the THB-to-HB matrix determined by the two bases (R_thb = R_hb T)
        Rt = orc.rep(L - 1, truncate=True)
        T = np.linalg.lstsq(Rf, Rt, rcond=None)[0]
        if abs(Rf @ T - Rt).max() > 1e-9:
            return None     # the oracle cannot determine T (should not happen for a valid hierarchy)
        for key in ('thb', 'thb_sym'):
            if key in out:
                Th = dense(out[key]['rows'], (n, n))
                ref = T.T @ (E if key == 'thb' else E) @ T
                Bt = abs(T).T @ B @ abs(T)
                D = abs(Th - ref) - (1e-8 * Bt + 1e-11 * (Bt.max() if Bt.size else 0.0))
                if (D > 0).any():
                    i, j = [int(x) for x in np.unravel_index(np.argmax(D), D.shape)]
                    return ('thb-congruence', '%s entry (%d,%d) is %r, T^T A_hb T with the THB-to-HB matrix gives %r' % (key, i, j, float(Th[i, j]), float(ref[i, j])))
                if fs.get('polynomial'):
                    G = Rt.T @ A[L - 1] @ Rt
                    D = abs(Th - G) - (1e-8 * Bt + 1e-11 * Bt.max())
                    if (D > 0).any():
                        i, j = [int(x) for x in np.unravel_index(np.argmax(D), D.shape)]
                        return ('thb-galerkin', '%s entry (%d,%d) is %r, (I_thb^T A_fine I_thb) = %r' % (key, i, j, float(Th[i, j]), float(G[i, j])))
        if fr.get('partial_rows_dev', 0.0) > 1e-12 * max(fr.get('amax', 0.0), 1e-300):
            return ('partial-rows', 'rows assembled through _assemble_partial_rows differ from the full level matrix by %g' % fr['partial_rows_dev'])
    else:
        b = [np.array(v) for v in fr['lev']]
        E = np.zeros(n)
        B = np.zeros(n)
        for k in range(L):
            Rk = orc.rep(k)
            ek = Rk.T @ b[k]
            bk = abs(Rk).T @ abs(b[k])
            for i in range(Rk.shape[1]):
                if lev_of[i] == k:
                    E[i] = ek[i]
                    B[i] = bk[i]
        tol = ORACLE_REL * B + ORACLE_FLOOR * (B.max() if B.size else 0.0)
        hb = out.get('hb')
        if hb is None:
            return None
        h = np.array(hb['vec'])
        if h.shape != (n,):
            return ('shape', 'vector of length %s for numdofs=%d' % (h.shape, n))
        D = abs(h - E) - tol
        if (D > 0).any():
            i = int(np.argmax(D))
            return ('functional-entry', 'entry %d [level %d] of the HB load vector is %r, the functional on that basis function gives %r' % (i, lev_of[i], float(h[i]), float(E[i])))
        Rf = orc.rep(L - 1)
        if fs.get('polynomial'):
            G = Rf.T @ b[L - 1]
            Bf = abs(Rf).T @ abs(b[L - 1])
            D = abs(h - G) - 10 * (ORACLE_REL * Bf + ORACLE_FLOOR * Bf.max())
            if (D > 0).any():
                i = int(np.argmax(D))
                return ('functional-galerkin', 'entry %d: %r but (I^T b_fine) = %r' % (i, float(h[i]), float(G[i])))
        if 'thb' in out:
            Rt = orc.rep(L - 1, truncate=True)
            T = np.linalg.lstsq(Rf, Rt, rcond=None)[0]
            t = np.array(out['thb']['vec'])
            ref = T.T @ E
            Bt = abs(T).T @ B
            D = abs(t - ref) - (1e-8 * Bt + 1e-11 * (Bt.max() if Bt.size else 0.0))
            if (D > 0).any():
                i = int(np.argmax(D))
                return ('thb-functional', 'THB load vector entry %d is %r, T^T b_hb gives %r' % (i, float(t[i]), float(ref[i])))
    return None


# ---------------------------------------------------------------------------
# Coq literals
# ---------------------------------------------------------------------------

def cmi(t):
    return '[' + ';'.join(str(int(i)) for i in t) + ']'


def cset(s):
    return '[' + ';'.join(cmi(t) for t in s) + ']'


def cfl(x):
    x = float(x)
    if x == 0.0:
        return '0'
    return '(%s)' % float.hex(x) if x < 0 else float.hex(x)


def crow(r, keep=None):
    return '[' + ';'.join('E %d %s' % (j, cfl(v)) for j, v in r if keep is None or j in keep) + ']'


def cmat(rows, keeprows=None, keepcols=None):
    return '[' + ';\n'.join((crow(r, keepcols) if keeprows is None or i in keeprows else '[]') for i, r in enumerate(rows)) + ']'


def copt(x, f):
    return 'None' if x is None else '(Some %s)' % f(x)


CONT = {'set': 'CSet', 'list': 'CList', 'tuple': 'CTuple'}


def coq_op(op):
    raw = '[' + ';'.join('(%d,(%s,%s))' % (lv, CONT[op['container']], cset(cells)) for lv, cells in op['marks']) + ']'
    return '(Refine %s %s)' % (raw, cbool(bool(op.get('trunc'))))


def ravel(shape, idx):
    r = 0
    for n, i in zip(shape, idx):
        r = r * n + i
    return r


def coq_form(res, fs, fr, variants):
    out = fr.get('out', {})
    L = res['L']
    if fr['arity'] == 2:
        calls = fr.get('calls') or []
        keep = {k: set(rows or []) for k, rows, _bb in calls}
        lev = '[' + ';\n'.join(cmat(fr['lev'][k], keep.get(k, set()), keep.get(k, set())) for k in range(L)) + ']'
        mats = []
        for key in ('hb', 'hb_sym', 'thb', 'thb_sym'):
            o = out.get(key)
            mats.append('None' if (o is None or key not in variants or 'rows' not in o) else '(Some %s)' % cmat(o['rows']))
        cl = '[' + ';'.join('(%d,[%s]%%N,[%s])' % (k, ';'.join(str(r) for r in rows), ';'.join('(%d,%d)' % (a, b) for a, b in bb))
                            for k, rows, bb in calls) + ']'
        return 'mk_form 2 %s [] %s %s %s %s None None %s' % (lev, mats[0], mats[1], mats[2], mats[3], cl)
    vecs = []
    for key in ('hb', 'thb'):
        o = out.get(key)
        vecs.append('None' if (o is None or key not in variants or 'vec' not in o) else '(Some [%s])' % ';'.join('F ' + cfl(x) for x in o['vec']))
    blev = '[' + ';\n'.join('[' + ';'.join('F ' + cfl(x) for x in v) + ']' for v in fr['lev']) + ']'
    return 'mk_form 1 [] %s None None None None %s %s []' % (blev, vecs[0], vecs[1])


def coq_case(case, res, variants_per_form, samples, with_T):
    cfg = case['cfg']
    axes = '[' + ';'.join('mk_axis %d %s' % (ax['p'], cmi(ax['mults'])) for ax in cfg['axes']) + ']'
    disp = 'None' if cfg['disparity'] is None else '(Some %d)' % cfg['disparity']
    ops = '[' + ';'.join(coq_op(op) for op in res['ops']) + ']'
    bd = cfg['bdspecs']
    bds = 'None' if bd in (None, 'default') else '(Some [%s])' % ';'.join('(%d,%d)' % (a, b) for a, b in bd)
    P = '[' + ';\n'.join('[' + ';'.join(cmat(m) for m in lv) + ']' for lv in res['P']) + ']'
    levels = '[' + ';\n'.join('[' + ';'.join(cset(s) for s in lv) + ']' for lv in res['levels']) + ']'
    shapes = res['numdofs_lv']
    cs = '[' + ';'.join('[' + ';'.join('[' + ';'.join(str(ravel(shapes[i], f)) for f in e) + ']%N' for i, e in enumerate(row)) + ']'
                        for row in res['cell_supp']) + ']'
    T = copt(res.get('T') if with_T else None, cmat)
    forms = '[' + ';\n'.join(coq_form(res, fs, fr, v) for (fs, fr), v in zip(
        [(a, b) for a, b in zip(case['forms'], res['forms']) if 'setup_error' not in b and 'out' in b], variants_per_form)) + ']'
    smp = '[' + ';'.join('(%d,%d)' % (i, j) for i, j in samples) + ']'
    return 'mk_case %s %s %s %s\n %s\n %s\n %s\n %s\n %s\n %s' % (axes, disp, ops, bds, P, levels, cs, T, forms, smp)


HEADER = '''From Coq Require Import List Arith Bool ZArith NArith PrimFloat.
From Verif.lib Require Import FinSet.
From Verif.C04 Require Import Model.
From Verif.C03 Require Import Model Tie.
Import ListNotations.
Open Scope float_scope.
Open Scope N_scope.
Open Scope nat_scope.
'''


def case_file(texts):
    body = HEADER
    for k, t in enumerate(texts):
        body += 'Definition case%d : ccase := %s.\n' % (k, t)
    body += 'Eval vm_compute in codes (%d%%Z, (%d)%%Z) [%s].\n' % (GAMMA[0], GAMMA[1], ';'.join('case%d' % k for k in range(len(texts))))
    return body


# ---------------------------------------------------------------------------
# cases
# ---------------------------------------------------------------------------

def uniform_axis(p, n, mult=1):
    # parameter domain [0, 1] (the geometries and input fields are defined there)
    return {'p': p, 'breaks': [i / n for i in range(n + 1)], 'mults': [p + 1] + [mult] * (n - 1) + [p + 1]}


FIELD1 = {'deg': 1}


def forms_for(dim, rng, flavour):
    """Scalar forms; `polynomial` = integrand piecewise polynomial of degree <= 2p+1 per direction
    (identity / affine geometry, coefficient of degree <= 1)."""
    coeffs = [rng.choice([1, 2, 3, 5, -1, 4]) for _ in range(2 ** dim)]
    field = {'f': {'deg': 1, 'coeffs': coeffs}}
    stiff = {'name': 'stiffness', 'expr': 'inner(grad(u),grad(v))*dx', 'symmetric': True}
    mass = {'name': 'mass', 'expr': 'u*v*dx', 'symmetric': True}
    conv = {'name': 'convection-field', 'expr': 'inner(grad(u),grad(f))*v*dx', 'fields': field}
    load = {'name': 'load', 'expr': 'f*v*dx', 'fields': field}
    if flavour == 4:
        # a SESSION: one bilinear form and three different functionals (one of them the default right-hand side with f
        # in physical coordinates) assembled on ONE HDiscretization object per basis, in listed / reverse order
        G = rng.choice(['id', 'curved', 'id'])
        poly = G == 'id'
        # (the parametric input field is called g here: 'f' is the physical right-hand side function of assemble_rhs)
        gfield = {'g': field['f']}
        load = {'name': 'load', 'expr': 'g*v*dx', 'fields': gfield}
        gradload = {'name': 'grad-load', 'expr': 'inner(grad(g),grad(v))*dx', 'fields': gfield}
        rhs = {'name': 'rhs-default', 'kind': 'assemble_rhs', 'expr': '<f,v> with f physical',
               'fphys': [rng.choice([1, 2, -1]), rng.choice([1, 3, -2]), rng.choice([0, 2, 5]), 1][:dim + 1]}
        fl = [dict(mass, geo=G, polynomial=poly, entry='session'), dict(load, geo=G, polynomial=poly, entry='session'),
              dict(gradload, geo=G, polynomial=poly, entry='session'), dict(rhs, geo=G, polynomial=poly, entry='session')]
        rng.shuffle(fl)
        return fl if dim < 3 else [dict(mass, geo='id', polynomial=True)]
    if flavour == 0:
        fl = [dict(stiff, geo='id', polynomial=True), dict(load, geo='id', polynomial=True, entry='hdiscr')]
    elif flavour == 1:
        fl = [dict(mass, geo='curved', polynomial=False), dict(conv, geo='id', polynomial=True, entry='hdiscr')]
    elif flavour == 2:
        fl = [dict(conv, geo='curved', polynomial=False), dict(load, geo='curved', polynomial=False)]
    else:
        fl = [dict(mass, geo='scaled', polynomial=True), dict(stiff, geo='curved', polynomial=False, entry='hdiscr')]
    if dim == 3:
        fl = [dict(mass, geo='id', polynomial=True)]
    return fl


def gen_cases(ctx):
    rng = ctx.rng
    thorough = ctx.tier == 'thorough'
    cases = []

    def add(axes, d, trunc, bd, ops, flavour, what, maxdofs, between=None):
        dim = len(axes)
        if between is None:
            between = rng.random() < 0.5
        cases.append({'cfg': {'axes': axes, 'disparity': d, 'truncate': trunc, 'bdspecs': bd}, 'ops': ops,
                      'seed': rng.randrange(1 << 30), 'forms': forms_for(dim, rng, flavour), 'what': what, 'maxdofs': maxdofs,
                      # assemble over the SAME HSpace object after every intermediate refinement
                      'assemble_between': ({'expr': 'u*v*dx', 'geo': 'id'} if between and dim < 3 else None)})

    def rand_ops(dim, nops, maxlv):
        ops = []
        for _ in range(nops):
            kind = rng.choice(['corner', 'isolated', 'nested', 'multi', 'random', 'multi', 'inner-edge', 'inner-edge'])
            op = {'pick': kind, 'container': rng.choice(['set', 'list', 'tuple']), 'maxlv': maxlv,
                  'trunc': rng.random() < 0.2}
            if kind == 'corner':
                op['corner'] = [rng.randint(0, 1) for _ in range(dim)]
                op['n'] = rng.randint(1, 3)
            if kind in ('nested', 'inner-edge'):
                op['n'] = rng.randint(1, 2)
            ops.append(op)
        return ops

    bd_choices_1 = [None, 'default', [], [[0, 0]], [[0, 0], [0, 1]]]
    bd_choices_2 = [None, 'default', [], [[0, 0]], [[1, 1], [0, 0]], [[0, 0], [0, 1], [1, 0], [1, 1]]]
    # hand-written: the documented default constructor, nested corner refinement over 4 levels
    add([uniform_axis(2, 3)], None, False, 'default',
        [{'kind': 'refine', 'marks': [[0, [[0]]]], 'container': 'set'}, {'kind': 'refine', 'marks': [[1, [[0]]]], 'container': 'set'},
         {'kind': 'refine', 'marks': [[2, [[0]]], [0, [[2]]]], 'container': 'list'}], 0, 'hand-1d-corner-4-levels', 400)
    add([uniform_axis(2, 2), uniform_axis(1, 3)], 1, True, None,
        [{'kind': 'refine', 'marks': [[0, [[0, 0], [1, 2]]]], 'container': 'set'},
         {'kind': 'refine', 'marks': [[1, [[1, 1]]], [0, [[1, 0]]]], 'container': 'tuple'}], 1, 'hand-2d-two-corners', 400)
    # refine(..., truncate=True) marking with disparity 1: the mesh is admissible for the truncated basis only, HB
    # functions of levels 1 and 3 interact (the history of Props.window_sufficient_old_refuted)
    add([uniform_axis(2, 3)], 1, True, [],
        [{'kind': 'refine', 'marks': [[0, [[0]]]], 'container': 'set'}, {'kind': 'refine', 'marks': [[1, [[0]]]], 'container': 'tuple'},
         {'kind': 'refine', 'marks': [[2, [[0], [1]]], [1, [[3], [5]]]], 'container': 'list', 'trunc': True}], 3, 'hand-1d-trunc-marking', 400)
    # C^0 interior knot and a convection form: blocks with explicitly stored zeros
    add([uniform_axis(2, 2, mult=2)], None, True, None,
        [{'kind': 'refine', 'marks': [[0, [[0]]]], 'container': 'list'}, {'kind': 'refine', 'marks': [[1, [[1]]]], 'container': 'set'}], 1,
        'hand-1d-stored-zeros', 400)
    # non-graded hierarchies in which the boundary of Omega_2 touches that of Omega_1 in the interior: a coarse function
    # meets an active level-1 function only over cells that are refined further
    add([uniform_axis(1, 4)], None, False, [],
        [{'kind': 'refine', 'marks': [[0, [[2], [3]]]], 'container': 'set'}, {'kind': 'refine', 'marks': [[1, [[4], [5]]]], 'container': 'set'}],
        0, 'hand-1d-touching-boundaries', 400, between=True)
    add([uniform_axis(1, 4), uniform_axis(1, 4)], None, True, None,
        [{'kind': 'refine', 'marks': [[0, [[2, 2], [2, 3], [3, 2], [3, 3]]]], 'container': 'list'},
         {'kind': 'refine', 'marks': [[1, [[4, 4], [4, 5], [5, 4], [5, 5]]]], 'container': 'set'}], 3, 'hand-2d-touching-boundaries', 400, between=False)
    # refine -> assemble -> refine -> assemble on one object without Dirichlet specification; the later calls
    # deactivate functions of existing levels and add a level
    add([uniform_axis(2, 3)], 2, False, 'default',
        [{'kind': 'refine', 'marks': [[0, [[0]]]], 'container': 'set'}, {'kind': 'refine', 'marks': [[0, [[1]]]], 'container': 'set'},
         {'kind': 'refine', 'marks': [[1, [[0], [1]]]], 'container': 'tuple'}], 1, 'hand-1d-assemble-between', 400, between=True)
    # isolated deep refinement with high degree: EMPTY intermediate levels (numactive (7, 0, 0, 4)), THB
    add([uniform_axis(4, 3)], None, True, [],
        [{'kind': 'refine', 'marks': [[0, [[1]]]], 'container': 'set'}, {'kind': 'refine', 'marks': [[1, [[2], [3]]]], 'container': 'set'},
         {'kind': 'refine', 'marks': [[2, [[4], [5], [6], [7]]]], 'container': 'list'}], 4, 'hand-1d-empty-levels', 400, between=True)
    for c in range(6 if thorough else 1):
        # an interior cell, then all its children, then all grandchildren (+ sometimes one more call)
        p = 4 if c % 2 == 0 else 3
        ops = [{'pick': 'interior', 'container': 'set', 'maxlv': 2}, {'pick': 'deepen', 'container': 'list', 'maxlv': 2},
               {'pick': 'deepen', 'container': 'set', 'maxlv': 2}]
        if rng.random() < 0.4:
            ops.append({'pick': 'isolated', 'container': 'set', 'maxlv': 2})
        add([uniform_axis(p, rng.randint(3, 4))], rng.choice([None, None, 2]), True, rng.choice(bd_choices_1), ops, c % 5, 'deep-1d', 400)
    for c in range(2 if thorough else 0):
        add([uniform_axis(4, 3), uniform_axis(4 - c, 3)], None, True, rng.choice(bd_choices_2),
            [{'pick': 'interior', 'container': 'set', 'maxlv': 2}, {'pick': 'deepen', 'container': 'list', 'maxlv': 2},
             {'pick': 'deepen', 'container': 'set', 'maxlv': 2, 'cap': 16}], 3, 'deep-2d', 900)
    n1 = 40 if thorough else 7
    n2 = 60 if thorough else 5
    n3 = 4 if thorough else 0
    for c in range(n1):
        p = 1 + c % 4
        n = rng.randint(2, 4)
        ax = uniform_axis(p, n, mult=rng.choice([1, 1, min(2, p)]))
        add([ax], rng.choice([1, 2, None]), rng.random() < 0.5, rng.choice(bd_choices_1),
            rand_ops(1, rng.randint(2, 5), 2), c % 5, 'random-1d', 400)
    for c in range(n2):
        p = [rng.choice([1, 2, 2, 3]) if not thorough else rng.randint(1, 4) for _ in range(2)]
        n = [rng.randint(2, 3), rng.randint(1, 3)]
        maxlv = 1 if (max(p) >= 3 or not thorough) else rng.choice([1, 2])
        add([uniform_axis(p[0], n[0]), uniform_axis(p[1], n[1])], rng.choice([1, 2, None]), rng.random() < 0.5, rng.choice(bd_choices_2),
            rand_ops(2, rng.randint(2, 4), maxlv), c % 5, 'random-2d', 400)
    for c in range(n3):
        add([uniform_axis(rng.randint(1, 2), 2), uniform_axis(1, 2), uniform_axis(rng.randint(1, 2), 1)], rng.choice([1, None]),
            rng.random() < 0.5, rng.choice([None, [], [[2, 0]]]), rand_ops(3, 2, 0), 0, 'random-3d', 300)
    return cases


def run_driver(ctx, cases, nproc=4):
    from concurrent.futures import ThreadPoolExecutor
    ctx.impl.build()
    k = max(1, min(nproc, len(cases) // 3))
    groups = [cases[i::k] for i in range(k)]

    def one(grp):
        return ctx.impl.run('harness/impl/c03_driver.py', {'cases': grp}, timeout=3000,
                            extra_env={'OMP_NUM_THREADS': '1', 'OPENBLAS_NUM_THREADS': '1', 'MKL_NUM_THREADS': '1'})['results']
    # the first group alone first: it compiles the on-demand assemblers into the shared cache
    with ThreadPoolExecutor(max_workers=nproc) as ex:
        outs = list(ex.map(one, groups))
    res = {}
    for grp, rs in zip(groups, outs):
        for c, r in zip(grp, rs):
            res[id(c)] = r
    return [res[id(c)] for c in cases]


def size_of(res, fr):
    n = 0
    for o in fr.get('out', {}).values():
        n += sum(len(r) for r in o.get('rows', [])) + len(o.get('vec', []))
    return n


def run(ctx):
    ctx.obligations_stage(PROPS, extra_targets=['C03/Examples.vo', 'C03/Tie.vo'], gate_dirs=['C04'])
    ctx.assumptions += [
        'model: hand transcription of HDiscretization.assemble_matrix/assemble_functional (_hdiscr.py), cell_supp_indices, '
        'function_grandchildren, represent_fine(rows, restrict), truncate_one_level, thb_to_hb (hierarchical.py) into Gallina '
        '(coq/C03/Model.v) on top of the C04 state model; scipy sparse matrices are modelled as values (rows of (column, value), '
        'duplicates summed); kron_partial(needed_rows) is modelled by the full Kronecker product (pure optimisation)',
        'the level-k tensor-product matrices, load vectors and 1-D prolongators are inputs of the model (arbitrary data in the theorems; '
        'in the tie the implementation\'s own full level assemblies, floats read as exact dyadic numbers)',
        'tie bound: |impl - model| <= 2^%d * sum|terms| per entry (derivation in harness/props/c03.py); integer outputs exact' % GAMMA[1],
        'repaired behaviour modelled for HSpace(bdspecs=None) (fixes/C03-default-bdspecs.patch), for blocks with explicitly stored '
        'zeros (fixes/C03-insert-block-stored-zeros.patch) and for the level window of the assembly (every coarser level instead of '
        'the disparity window, fixes/C03-assembly-disparity-window.patch; window_sufficient_old_refuted)',
        'the link between the sparse-matrix program and the entry form of the blocks (blk_entry, the object of hassemble_entry_partial) '
        'is a per-case exact comparison on sampled positions (a test, not a theorem)',
        'case files carry binary64 literals as PrimFloat constants converted exactly by Prim2SF (no float arithmetic in Coq)',
        'not modelled: the level-k entries themselves (quadrature, geometry: C01), on-demand code generation, bbox offsets inside the '
        'generated assembler (observed through the values only)',
    ]
    cases = gen_cases(ctx)
    lim = os.environ.get('VERIF_C03_LIMIT')
    if lim:
        cases = cases[:int(lim)]
        ctx.assumptions.append('VERIF_C03_LIMIT=%s: reduced case set (development run)' % lim)
    log('[C03] %d histories (%s)' % (len(cases), ctx.tier))
    import time
    t0 = time.time()
    results = run_driver(ctx, cases)
    log('[C03] implementation runs done in %.0fs' % (time.time() - t0))
    t0 = time.time()

    # ---- stage 3 (always): the property on the implementation with the independent oracle
    nfail = 0
    dist = {}
    formdist = {}
    ok_cases = []
    for c, r in zip(cases, results):
        dim = len(c['cfg']['axes'])
        dist[c['what']] = dist.get(c['what'], 0) + 1
        key = (json.dumps(c['cfg'], sort_keys=True), json.dumps(r.get('ops'), sort_keys=True), json.dumps(c['forms'], sort_keys=True))
        ctx.count(key, nontrivial=bool(r.get('ops')))
        replay = {'cfg': c['cfg'], 'ops': r.get('ops', c['ops']), 'forms': c['forms'], 'assemble_between': c.get('assemble_between'),
                  'how': 'HSpace(kvs from breaks/mults, truncate, disparity, bdspecs [omitted when "default"]); hs.refine({lv: container(cells)}, truncate=trunc) per op; '
                         'assemble.assemble(parse_vf(expr), hs, symmetric, geo=..., f=...) or HDiscretization(hs, vf, args).assemble_matrix/assemble_functional; '
                         'with assemble_between: assemble.assemble(expr, hs, geo) and hs.dirichlet_dofs() after every refinement but the last, on the same object; '
                         'forms with entry=session: ONE hd = HDiscretization(hs, the bilinear session form, merged args) per basis (hs.truncate False: forms in listed order, '
                         'True: reverse order): hd.assemble_matrix(), hd.assemble_functional(vf), hd.assemble_rhs() for kind=assemble_rhs (f(x..) = fphys[0] + sum fphys[i] x_i physical)'}
        if r['status'] != 'Ok':
            nfail += 1
            ctx.report('impl:construct:%dd' % dim, 'constructing / refining the space raised %s' % r['status'], replay)
            continue
        if 'cell_supp_error' in r or 'T_error' in r:
            nfail += 1
            e = r.get('cell_supp_error') or r.get('T_error')
            slug = 'default-bdspecs' if (c['cfg']['bdspecs'] in (None, 'default') and e.startswith('TypeError')) else 'bookkeeping-raises'
            ctx.report('impl:%s:%s' % (slug, e.split(':')[0]), 'cell_supp_indices(remove_dirichlet=False) / thb_to_hb raised %s' % e, replay)
            continue
        orc = None
        bad_case = False
        for b in r.get('between', []):
            if isinstance(b, str):
                nfail += 1
                bad_case = True
                ctx.report('impl:assemble-between-raises:%s:%dd' % (b.split(':')[0], dim),
                           'assembling over the same HSpace object after an intermediate refinement raised %s' % b, replay)
                break
        for fs, fr in zip(c['forms'], r['forms']):
            formdist[fs['name'] + '/' + fs['geo']] = formdist.get(fs['name'] + '/' + fs['geo'], 0) + 1
            if 'setup_error' in fr:
                ctx.broken.append('driver could not set up form %s: %s' % (fs['name'], fr['setup_error']))
                bad_case = True
                continue
            if orc is None:
                orc = Oracle(c['cfg'], r)
            bad = check_form_on_impl(c['cfg'], r, fs, fr, orc)
            if bad:
                nfail += 1
                bad_case = True
                sig = 'impl:%s' % bad[0] if bad[0].startswith('default-bdspecs') else 'impl:%s:%s:%dd' % (bad[0], fs['name'], dim)
                ctx.report(sig, bad[1], dict(replay, failing_form=fs))
        if not bad_case:
            ok_cases.append((c, r))
    ctx.cov['traces_validated_against_impl'] = len(cases)
    ctx.cov['property_failures_on_impl'] = nfail
    log('[C03] oracle done in %.0fs' % (time.time() - t0))
    t0 = time.time()

    # ---- stage 2: correspondence with the model inside Coq
    budget = 9000 if ctx.tier != 'thorough' else 30000        # float literals per case file (parsing dominates)
    files, chunks = [], []
    cur, cur_n = [], 0
    ncase = 0
    for c, r in ok_cases:
        pairs = [(fs, fr) for fs, fr in zip(c['forms'], r['forms']) if 'out' in fr]
        variants = []
        n = 0
        small = r['numdofs'] <= 45
        for t, (fs, fr) in enumerate(pairs):
            if fr['arity'] == 2:
                v = {'hb'}
                # the symmetric path and the THB congruence: every small case, otherwise alternating
                if small:
                    v |= {'hb_sym', 'thb', 'thb_sym'}
                elif t == 0:
                    v |= {['hb_sym', 'thb'][ncase % 2]}
            else:
                v = {'hb', 'thb'}
            variants.append(v)
            n += sum(sum(len(row) for row in fr['out'][k].get('rows', [])) + len(fr['out'][k].get('vec', [])) for k in v if k in fr['out'])
            n += sum(sum(len(row) for row in m) for m in fr['lev']) if fr['arity'] == 2 else sum(len(b) for b in fr['lev'])
        if n > 4 * budget:
            continue                      # too large for a case file of this tier; still covered by stage 3
        nd = r['numdofs']
        samples = [(ctx.rng.randrange(nd), ctx.rng.randrange(nd)) for _ in range(4)] + [(0, nd - 1), (nd - 1, 0)] if pairs and pairs[0][1]['arity'] == 2 else []
        txt = coq_case(c, r, variants, samples, with_T=(small or ncase % 3 == 0))
        ncase += 1
        if cur and cur_n + n > budget:
            chunks.append(cur)
            cur, cur_n = [], 0
        cur.append((c, r, txt, len(pairs)))
        cur_n += n
    if cur:
        chunks.append(cur)
    for k, ch in enumerate(chunks):
        files.append(('C03_cases_%03d' % k, case_file([t for _, _, t, _ in ch])))
    # differ self-test: one perturbed float of an implementation result must be flagged
    st_expected = None
    for c, r in ok_cases:
        pairs = [(fs, fr) for fs, fr in zip(c['forms'], r['forms']) if 'out' in fr and fr['arity'] == 2 and fr['out'].get('hb', {}).get('rows')]
        if pairs and r['numdofs'] <= 60:
            mut = json.loads(json.dumps(r))
            for fr in mut['forms']:
                if fr.get('arity') == 2 and 'out' in fr:
                    row = next(rw for rw in fr['out']['hb']['rows'] if rw)
                    row[0][1] = row[0][1] * (1 + 1e-9) + 1e-300
                    break
            nform = len([1 for fr in r['forms'] if 'out' in fr])
            vs = [{'hb'} if fr['arity'] == 2 else set() for fr in r['forms'] if 'out' in fr]
            files.append(('C03_cases_selftest', case_file([coq_case(c, r, vs, [], False), coq_case(c, mut, vs, [], False)])))
            st_expected = nform
            break
    log('[C03] %d case files (%d histories in Coq)' % (len(chunks), ncase))
    disagreements = []
    outs = ctx.coq_eval_many(files, timeout=2400)
    log('[C03] case files evaluated in %.0fs (%s bytes)' % (time.time() - t0, [len(t) for _, t in files]))
    for (name, ok, out), ch in zip(outs, chunks + [None]):
        ctx.obligations += 1
        codes = parse_coq_list_of_nat(out) if ok else None
        if ch is None:
            if codes is not None and len(codes) == 2 * (1 + st_expected) and not any(codes[:1 + st_expected]) and any(codes[1 + st_expected:]):
                ctx.discharged += 1
            else:
                ctx.broken.append('differ self-test failed (perturbed result not flagged or clean one flagged): %s' % (out[-300:],))
            continue
        if not ok or codes is None or len(codes) != sum(1 + nf for _, _, _, nf in ch):
            ctx.broken.append('case file %s did not evaluate: %s' % (name, out[-600:]))
            continue
        ctx.discharged += 1
        pos = 0
        for c, r, _t, nf in ch:
            cc = codes[pos:pos + 1 + nf]
            pos += 1 + nf
            if any(cc):
                disagreements.append((c, r, cc))
    ctx.cov['disagreements_checked'] = len(disagreements)
    ctx.cov['histories_in_coq'] = ncase
    names = {1: 'state', 2: 'cell_supp_indices', 4: 'rows/bbox of _assemble_level', 8: 'HB matrix', 16: 'HB matrix symmetric=True',
             32: 'THB matrix', 64: 'THB matrix symmetric=True', 128: 'HB vector', 256: 'THB vector', 512: 'thb_to_hb', 1024: 'sparse program vs entry form'}
    seen = set()
    for c, r, cc in disagreements:
        what = []
        for t, code in enumerate(cc):
            parts = [nm for bit, nm in names.items() if code & bit]
            if parts:
                what.append(('shared' if t == 0 else c['forms'][t - 1]['name']) + ': ' + ', '.join(parts))
        key = tuple(sorted(set(p for w in what for p in w.split(': ')[1].split(', '))))
        if key in seen:
            continue
        seen.add(key)
        dim = len(c['cfg']['axes'])
        ctx.broken.append('correspondence C03 model<->impl differs (%s): %s' % (c['what'], '; '.join(what)))
        ctx.report('tie:%s:%dd' % ('+'.join(k.split(' ')[0] for k in key)[:60], dim),
                   'model and implementation differ (%s) although the oracle accepts the implementation\'s results on this history' % '; '.join(what),
                   {'cfg': c['cfg'], 'ops': r['ops'], 'forms': c['forms'], 'codes': cc}, found_input=False)
    ctx.cov['rule'] = ('refinement histories (hand-written + seeded: corner / isolated / nested / multi-level simultaneous / random marks, '
                       'set/list/tuple containers, default and truncated marking) x p 1..4 x dim 1..2 (3 thorough) x disparity 1/2/inf x '
                       'truncate x bdspecs None/default/[]/faces x forms (stiffness, mass, convection with input field, load functional) x '
                       'identity/affine/curved geometry; non-trivial = at least one refinement; distinct by (configuration, explicit ops, forms)')
    ctx.cov['input_distribution'] = {'histories_by_family': dist, 'forms': formdist}
    ctx.cov['exhaustive'] = False
    ctx.cov['float_bound'] = 'gamma=2^%d relative to the accumulated absolute sum (tie); %g relative + %g floor (oracle)' % (GAMMA[1], ORACLE_REL, ORACLE_FLOOR)
    for c, r in ok_cases[:2]:
        ctx.sample({'cfg': c['cfg'], 'ops': r['ops'], 'numdofs': r['numdofs'], 'forms': [f['name'] for f in c['forms']]})
    return ctx.finish()


META = {
    'technique': 'Rocq theorems about an executable model of the hierarchical assembly (index bookkeeping on the C04 state model + literal '
                 'sparse-matrix program + entry form of the blocks, generic in the scalar ring) + correspondence run in which the model is '
                 'fed the implementation\'s own level matrices and prolongators as exact dyadic numbers (integer outputs exact, floats within '
                 'a derived running error bound) + independent Fraction/numpy oracle on the implementation',
    'level_text': 'Theorems (Coq 8.16, unbounded; scalars = any commutative ring, level matrices a_k / prolongators = arbitrary data): '
                  'neighbors_complete (every space, any dimension/degree/disparity: an active coarse function whose support meets the '
                  'support of an active level-k function inside the disparity window is in neighbors[k][i]; under the C04 table duality '
                  'mesh_ok of that level), bdspecs_irrelevant (neighbors, hence the matrix, does not depend on the Dirichlet specification), '
                  'default_space_assembles (+ _old_refuted: the unpatched loop over bdspecs=None is a TypeError), symmetric_equals_general '
                  '(entry form of the blocks, every symmetric a_k, arbitrary neighbour/interlevel sets), hassemble_entry_diag, '
                  'hassemble_galerkin (entry = form on the finer level ==> entry of I^T A_fine I when the level forms are nested, any number '
                  'of levels), thb_congruence (T^T M T of a Galerkin matrix is the Galerkin matrix of the transformed basis), '
                  'functional_entry (entry offset_k+p of the HB load vector is the level-k vector at the p-th active function of level k: '
                  'every function is integrated with its own level\'s quadrature), coo_merge_sums_duplicates (COO->CSR returns the sum of '
                  'all triplets at (i,j)), insert_block_entries, fancy_index_rows / fancy_index_columns (numpy semantics of M[idx], M[:,idx]), '
                  'sm_mul_entry and sm_transpose_entry (entry semantics of the sparse product and transpose, via axpy_spec for sorted sparse vectors), '
                  'kron2_entry (entry (i1*nB+i2, j1*mB+j2) of the sparse Kronecker product), multi_kron_entry (the Kronecker product of the 1-D '
                  'prolongators has the product of the 1-D entries at the raveled multi-indices), hstack_entry, representation_associative '
                  '(the representation coefficients can be built from the coarse or from the fine end), interlevel_in_index_box, '
                  'window_sufficient_old_refuted. PARTIAL: hassemble_entry_pattern_partial (for every REACHABLE space and every prolongator data whose '
                  'stored 1-D sparsity pattern lies inside the children pattern of C04/Children.v, every local family of level forms: the blocks equal '
                  'the form applied to the two basis functions on the finer level; P_local and the shape condition are discharged from C04 '
                  'children_inside_parent_support; remaining hypotheses: locality and pattern_ok), hassemble_entry_reachable_partial (the same as hassemble_entry_partial for every '
                  'REACHABLE space run (hs_init axes disp) ops: the C04 invariants mesh_ok / dimensions / active functions are functions are '
                  'discharged from tables_consistent and activity_characterisation; remaining hypotheses: locality, P_local, prolongator shape), '
                  'hassemble_entry_partial (for the CONCRETE neighbors / interlevel_ix / '
                  'to_assemble of the model and representations = products of Kronecker prolongators, every pair of active functions of '
                  'every level pair: the blocks equal the form applied to the two basis functions on the finer level; from locality of the '
                  'level forms, P_local (children inside the parent\'s support, a hypothesis on the prolongator data), C04\'s mesh_ok and '
                  'index-box facts; the support-pattern lemma for products of Kronecker matrices is proved), '
                  'hassemble_entry_lower_partial / hassemble_entry_upper_partial (the abstract-set versions). NOT PROVED: that the '
                  'represent_fine loop and the chaining of the kernels through level_blocks evaluate the entry form '
                  '(compared exactly per history on sampled entries and with the implementation); pattern_ok for the exact Boehm matrices of C05. '
                  'Tie: per history the model is run inside Coq on the implementation\'s own level matrices/vectors/prolongators (exact '
                  'dyadic arithmetic): rows and bounding boxes passed to _assemble_level and cell_supp_indices exact; HB/THB matrices '
                  '(general and symmetric), load vectors, thb_to_hb within |x - v| <= 2^-38 * sum|terms|. Oracle on the implementation: entry '
                  'characterisation, I^T A_fine I for polynomial integrands, THB congruence, symmetric = general (exact Boehm two-scale '
                  'relations, numpy).',
    'level_note': 'Trusted: Coq kernel + vm_compute; hand transcription of _hdiscr.py / hierarchical.py (sparse matrices as values, '
                  'kron_partial(needed_rows) as the full Kronecker product) validated by the correspondence run; PrimFloat literals + Prim2SF '
                  'as carrier of binary64 inputs (no float arithmetic in Coq); the running error bound (GAMMA, derivation in '
                  'harness/props/c03.py); harness generators and the numpy oracle. Not covered: the level-k entries themselves '
                  '(quadrature/geometry: C01), code generation of on-demand assemblers, bbox offsets inside generated code (seen through '
                  'values only). Quick tier: ~14 histories in Coq (case-file parsing of float literals dominates).',
}
