(* C13 -- non-vacuity of the separation theorems and of the two-level theorem: the hypotheses are
   met by concrete forms (the conclusions are obtained from the theorems, not by computation). *)
From Coq Require Import String.
From Coq Require Import List ZArith Bool.
From Verif.C13 Require Import Model Proofs Examples Separation.
Import ListNotations.
Open Scope string_scope.
Open Scope Z_scope.

(* function name three levels deep in the kernel expression *)
Example ex_differs_sin_cos : differs ex_table e_sin e_cos.
Proof.
  unfold e_sin, e_cos, mul.
  apply (d_child ex_table _ _ _ _ _ _ [] [] _ _ [dxm] [dxm]); [reflexivity|].
  apply (d_child ex_table _ _ _ _ _ _ [] [] _ _ [pd "v"] [pd "v"]); [reflexivity|].
  apply (d_child ex_table _ _ _ _ _ _ [] [] _ _ [pd "u"] [pd "u"]); [reflexivity|].
  unfold fn. apply (d_attr ex_table "BuiltinFuncExpr" _ _ _ _ _ _ "funcname" TStr).
  - vm_compute. auto.
  - vm_compute. discriminate.
Qed.

Example ex_sin_cos_keys : form_key ex_table (mk false e_sin) <> form_key ex_table (mk false e_cos).
Proof.
  apply (expr_token_separates_l ex_table ex_covers (mk false e_sin) (mk false e_cos)) with
    (pre := []) (pre' := []) (x := e_sin) (y := e_cos) (post := []) (post' := []); try reflexivity.
  exact ex_differs_sin_cos.
Qed.

(* constant: -1.0 / -2.0 *)
Example ex_differs_m1_m2 : differs ex_table e_m1 e_m2.
Proof.
  unfold e_m1, e_m2, mul.
  apply (d_child ex_table _ _ _ _ _ _ [] [] _ _ [dxm] [dxm]); [reflexivity|].
  apply (d_child ex_table _ _ _ _ _ _ [] [] _ _ [pd "v"] [pd "v"]); [reflexivity|].
  apply (d_child ex_table _ _ _ _ _ _ [] [] _ _ [pd "u"] [pd "u"]); [reflexivity|].
  unfold const. apply (d_attr ex_table "ConstExpr" _ _ _ _ _ _ "value" TFloat).
  - vm_compute. auto.
  - vm_compute. discriminate.
Qed.

(* measure: dx / ds are different classes *)
Definition dsm := Node "SurfaceMeasureExpr" scal [] [].
Example ex_differs_measure : differs ex_table (mul (pd "u") dxm) (mul (pd "u") dsm).
Proof.
  unfold mul. apply (d_child ex_table _ _ _ _ _ _ [pd "u"] [pd "u"] _ _ [] []); [reflexivity|].
  apply d_class. discriminate.
Qed.

(* derivative tuple of a basis function *)
Definition pdD (n : string) (D : list atom) :=
  Node "PartialDerivExpr" scal [("basisfun", bf n); ("D", ATup D); ("physical", AInt 0)] [].
Example ex_differs_derivative : differs ex_table (pdD "u" [AInt 1; AInt 0]) (pdD "u" [AInt 0; AInt 1]).
Proof.
  unfold pdD. apply (d_attr ex_table "PartialDerivExpr" _ _ _ _ _ _ "D" TNatTup).
  - vm_compute. auto.
  - vm_compute. discriminate.
Qed.

(* operator of an elementwise operation inside a let-bound matrix variable *)
Definition ex_table2 : table := ("TensorOperExpr", mk_cspec [("oper", EHash)] [("oper", TStr)]) :: ex_table.
Example ex_covers2 : covers ex_table2 = true.
Proof. vm_compute. reflexivity. Qed.
Definition mat22 := ATup [AInt 2; AInt 2].
Definition pref (n : string) (i j : Z) :=
  Node "VarRefExpr" scal [("var", AStr n); ("I", ATup [AInt i; AInt j]); ("D", ATup [AInt 0; AInt 0]); ("parametric", AInt 0)] [].
Definition matlit (n : string) := Node "LiteralMatrixExpr" mat22 [] [pref n 0 0; pref n 0 1; pref n 1 0; pref n 1 1].
Definition tens (o : string) := Node "TensorOperExpr" mat22 [("oper", AStr o)] [matlit "A"; matlit "B"].
Definition letK (o : string) := mk_avar "K" (SExpr (tens o)) [2; 2] false None.
Definition formK (o : string) := mk_form 2 2 0 false false [ubf; vbf] [geo_in] [geo_var; letK o] [mul (mul (pd "u") (pd "v")) dxm].

Example ex_wf_formK : wf_form ex_table2 (formK "+") = true /\ wf_form ex_table2 (formK "-") = true.
Proof. split; vm_compute; reflexivity. Qed.

Example ex_let_operator_separated : form_key ex_table2 (formK "+") <> form_key ex_table2 (formK "-").
Proof.
  destruct ex_wf_formK as [W1 W2].
  apply (let_token_separates_l ex_table2 ex_covers2 (formK "+") (formK "-") W1 W2
           [geo_var] [geo_var] (letK "+") (letK "-") [] [] (tens "+") (tens "-")); try reflexivity.
  unfold tens. apply (d_attr ex_table2 "TensorOperExpr" _ _ _ _ _ _ "oper" TStr).
  - vm_compute. auto.
  - vm_compute. discriminate.
Qed.

(* boundary flag, through the form-field theorem *)
Example ex_boundary_keys : form_key ex_table (mk false e_sin) <> form_key ex_table (mk true e_sin).
Proof.
  apply form_field_difference_separates_l; try (vm_compute; reflexivity).
  do 4 right. left. simpl. discriminate.
Qed.

(* the two levels composed: hypotheses met with the identity as (injective) digest *)
Definition gen2 (od : bool) (f : form) : string :=
  if od then (if f_boundary f then "od-b" else "od") else (if f_boundary f then "b" else "v").
Example ex_two_level :
  snd (serve2 string string ex_table gen2 (fun s => s) (fun s => s) (fun m => m)
         (preseed _ _ _ (keyof1 ex_table) [((mk false e_sin, false), "v")], preseed _ _ _ (modname (fun s => s)) [("b", "b")])
         [(mk true e_sin, false); (mk false e_sin, false); (mk false e_cos, true); (mk true e_sin, false)])
  = ["b"; "v"; "od"; "b"].
Proof.
  rewrite (two_level_returns_requested_l string string ex_table gen2 (fun s => s) (fun s => s) (fun m => m)
             ex_covers (fun _ => True)).
  - reflexivity.
  - intros a b _ _ E. exact E.
  - intros r _. exact I.
  - intros r c [E|[]]. injection E as <- <-. split; vm_compute; reflexivity.
  - intros s m [E|[]]. injection E as <- <-. split; auto.
  - repeat constructor; vm_compute; reflexivity.
Qed.
