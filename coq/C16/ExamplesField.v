(* C16 -- non-vacuity for PropsField.v: a concrete instance over mathcomp's integers meets eigh_ok
   (with a non-diagonal U), and the derived right-inverse identity evaluates as stated. *)
From mathcomp Require Import all_ssreflect all_algebra.
From Verif.C16 Require Import Model Model2 Proofs Proofs2 Proofs3 FieldBridge.
Import GRing.Theory.
Local Open Scope ring_scope.

Definition imat (r c : nat) (d : seq int) : mat int_comRing := mkmat int_comRing r c (fun i j => nth 0 d (i * c + j)).

(* K = [[-1,0],[0,1]], M = I, U = exchange matrix, lam = (1,-1):  K U = M U diag(lam), U^T M U = I *)
Definition ex_fld : eigfac int_comRing :=
  mkeig int_comRing (imat 2 2 [:: -1; 0; 0; 1]) (imat 2 2 [:: 1; 0; 0; 1]) (imat 2 2 [:: 0; 1; 1; 0])
        (fun c => nth 0 [:: 1; -1] c) 2.

Example ex_eigh_ok : @eigh_ok int_comRing ex_fld.
Proof.
do 6![split=> //]; split=> [i c|a b] /ltP Hi /ltP Hc.
- by case: i Hi => [|[|i]] // _; case: c Hc => [|[|c]].
- by case: a Hi => [|[|a]] // _; case: b Hc => [|[|b]].
Qed.

Example ex_right_inverse :
  Model.sumn int_comRing 0 +%R 2
    (fun c => Model.sumn int_comRing 0 +%R 2 (fun j => ment _ (fM _ ex_fld) 0%N j * ment _ (fU _ ex_fld) j c) * ment _ (fU _ ex_fld) 0%N c) = 1.
Proof. by []. Qed.
