(* C14 -- the mathematical reference: the declared identifications and their
   reflexive-symmetric-transitive closure. *)
From Coq Require Import List.
From Verif.C14 Require Import Model.
Import ListNotations.

Inductive conn (ps : list (dof * dof)) : dof -> dof -> Prop :=
| conn_refl x : conn ps x x
| conn_edge x y : In (x, y) ps -> conn ps x y
| conn_sym x y : conn ps x y -> conn ps y x
| conn_trans x y z : conn ps x y -> conn ps y z -> conn ps x z.

(* the class identifier the model assigns to a dof: its shared dof, or itself *)
Definition cls (st : state) (a : dof) : nat + dof :=
  match lookup (sm st) a with Some s => inl s | None => inr a end.

(* a dof that exists: local index below the patch size *)
Definition valid (Ns : list nat) (a : dof) : Prop :=
  fst a < length Ns /\ snd a < nth (fst a) Ns 0.
