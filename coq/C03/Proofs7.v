(* C03 -- lemmas, part 7: P_local (children inside the parent's support) and the prolongator-shape fact are
   discharged for reachable spaces from C04's children_inside_parent_support, under ONE hypothesis on the data:
   the stored sparsity pattern of the 1-D prolongators lies inside the pattern C04/Children.v models
   (is_child_1d; compared exactly with the implementation's function_children on every C04 run). *)
From Coq Require Import List Arith Bool Lia NArith Ring.
From Verif.lib Require Import FinSet.
From Verif.C04 Require Import Model Proofs ProofsFun ProofsMesh.
From Verif.C04 Require Children ProofsChildren.
From Verif.C03 Require Import Model Proofs Proofs2 Proofs4.
Import ListNotations.

Lemma skipn_cons_nth : forall (T : Type) (l : list T) d x, d < length l -> skipn d l = nth d l x :: skipn (S d) l.
Proof.
  induction l as [|y l IH]; intros d x H; simpl in H; [lia|].
  destruct d; [reflexivity|]. simpl. apply IH. lia.
Qed.

Lemma Forall2_len : forall (A B : Type) (P : A -> B -> Prop) l1 l2, Forall2 P l1 l2 -> length l1 = length l2.
Proof. intros A B P l1 l2 H. induction H; simpl; auto. Qed.

Section Pattern.
Variable R : Type.
Variables (r0 r1 : R) (radd rmul rsub : R -> R -> R) (ropp : R -> R).
Hypothesis Rth : ring_theory r0 r1 radd rmul rsub ropp eq.
Add Ring Rring7 : Rth.

Variables (axes : list axis) (disp : option nat) (ops : list op).
Hypothesis Haxes : Forall axis_ok axes.
Hypothesis Hdisp : forall d, disp = Some d -> 1 <= d.
Hypothesis Hops : ops_valid (hs_init axes disp) ops.
Let st := run (hs_init axes disp) ops.
Variable pmat : nat -> nat -> smat R.

Notation fns := (fun k => tp_functions (msh st k)).
Let axl (lv : nat) : list axis := Nat.iter lv (map ax_refine) axes.

(* the stored pattern of the prolongator of level lv, axis d lies inside C04's children pattern of that axis *)
Definition pattern_ok : Prop := forall lv d j i, S lv < numlevels st ->
  In i (children_1d R pmat lv d j) -> Children.is_child_1d (nth d (axl lv) (mk_axis 0 [])) j i = true.
Hypothesis Hpat : pattern_ok.

Lemma msh_axl : forall lv, lv < numlevels st -> msh st lv = tpmesh_of (axl lv).
Proof.
  intros lv H. pose proof (reachable_good2 axes disp ops Haxes Hdisp Hops) as G. fold st in G.
  rewrite (g2_msh _ _ G lv H). apply iter_refine_tpmesh_of.
Qed.

Lemma msh_S : forall lv, S lv < numlevels st -> msh st (S lv) = tp_refine (tpmesh_of (axl lv)).
Proof. intros lv H. rewrite msh_axl by auto. unfold axl. simpl. reflexivity. Qed.

Lemma pattern_forall2 : forall lv, S lv < numlevels st -> forall r d r',
  length r + d = length (axl lv) ->
  Forall2 (fun l xi => In xi l) (axes_children R pmat lv d r) r' ->
  Forall2 inr (Children.lookup_children (skipn d (axl lv)) r) r'.
Proof.
  intros lv HL. induction r as [|j rt IH]; intros d r' Hlen H.
  - simpl in H. inversion H; subst. destruct (skipn d (axl lv)); constructor.
  - simpl in H. inversion H as [|l i ls r't Hi Hrest]; subst.
    simpl in Hlen. rewrite (skipn_cons_nth _ (axl lv) d (mk_axis 0 [])) by lia. cbn [Children.lookup_children].
    constructor.
    + specialize (Hpat lv d j i HL Hi). unfold Children.is_child_1d in Hpat.
      apply andb_true_iff in Hpat. destruct Hpat as [H1 H2]. apply Nat.leb_le in H1. apply Nat.ltb_lt in H2.
      unfold inr. lia.
    + apply IH; auto. lia.
Qed.

Lemma fns_length : forall lv r, lv < numlevels st -> In r (fns lv) -> length r = length (axl lv).
Proof.
  intros lv r HL Hr. cbv beta in Hr. rewrite msh_axl in Hr by auto. unfold tp_functions in Hr. simpl in Hr.
  rewrite In_box in Hr. apply Forall2_len in Hr. rewrite map_length in Hr. auto.
Qed.

(* a stored child is a child in the sense of C04, hence a function of the next level whose support lies in the
   parent's (children_inside_parent_support) *)
Lemma child_facts : forall lv r r', S lv < numlevels st -> In r (fns lv) ->
  In r' (prod_lists (axes_children R pmat lv 0 r)) ->
  In r' (fns (S lv)) /\
  forall c, In c (support1 (msh st (S lv)) r') -> In (parent1 c) (support1 (msh st lv) r).
Proof.
  intros lv r r' HL Hr Hc.
  assert (Hlen := fns_length lv r ltac:(lia) Hr). cbv beta in *.
  apply In_prod_lists in Hc.
  pose proof (pattern_forall2 lv HL r 0 r' ltac:(lia) Hc) as HF. simpl in HF.
  rewrite msh_S by auto. rewrite (msh_axl lv) in * by lia.
  apply (ProofsChildren.children_inside_parent_support_l (axl lv) r r'); auto.
  - apply axes_ok_iter; auto.
  - apply ProofsChildren.In_children1. exact HF.
Qed.

Lemma fgrand_single : forall n lv fs r, In r (fgrand R pmat n lv fs) -> exists f, In f fs /\ In r (fgrand R pmat n lv [f]).
Proof.
  induction n as [|n IH]; intros lv fs r H.
  - simpl in H. exists r. split; auto. left; auto.
  - simpl in H. destruct (IH (S lv) _ r H) as [g [Hg Hr]].
    apply fchildren_In in Hg. destruct Hg as [f [Hf Hg]]. exists f. split; auto.
    simpl. eapply fgrand_mono; [|exact Hr]. intros x [<-|[]]. apply fchildren_In. exists f. split; auto. left; auto.
Qed.

(* grandchildren are functions of their level and lie inside the ancestor's support *)
Lemma grand_facts : forall n l f r, l + n < numlevels st -> In f (fns l) ->
  In r (fgrand R pmat n l [f]) ->
  In r (fns (l + n)) /\ forall c, In c (support1 (msh st (l + n)) r) -> In (anc n c) (support1 (msh st l) f).
Proof.
  induction n as [|n IH]; intros l f r HL Hf Hr.
  - simpl in Hr. destruct Hr as [<-|[]]. rewrite Nat.add_0_r. split; auto.
  - rewrite fgrand_top in Hr. apply fchildren_In in Hr. destruct Hr as [q [Hq Hr]].
    destruct (IH l f q ltac:(lia) Hf Hq) as [Hq1 Hq2].
    destruct (child_facts (l + n) q r ltac:(lia) Hq1 Hr) as [Hr1 Hr2].
    replace (l + S n) with (S (l + n)) by lia. split; auto.
    intros c Hc. rewrite anc_S, <- anc_parent_comm. apply Hq2. apply Hr2. exact Hc.
Qed.

Lemma nbr_cases : forall k l f, In f (nbr st k l) -> l < k /\ In f (AFm st l).
Proof.
  intros k l f. unfold nbr, neighbors. destruct (l =? k) eqn:E; [intros []|].
  unfold cell_supp_d. destruct (in_window None k l) eqn:W.
  - intros H. apply inter_In in H. destruct H as [_ H]. split; auto. apply in_window_lt in W. auto.
  - rewrite E. intros [].
Qed.

Lemma nbr_AF : forall k l f, In f (nbr st k l) -> In f (AFm st l).
Proof. intros k l f H. apply (nbr_cases k l f H). Qed.

Lemma cell_grandparent_nil : forall n, cell_grandparent n [] = [].
Proof. induction n as [|n IH]; simpl; auto. Qed.

Lemma nbr_beyond : forall k l, numlevels st <= k -> nbr st k l = [].
Proof.
  intros k l Hk. unfold nbr, neighbors. destruct (l =? k) eqn:E; auto.
  unfold cell_supp_d. destruct (in_window None k l).
  - unfold AFm at 1. rewrite (lvl_overflow st k Hk). simpl. rewrite cell_grandparent_nil. reflexivity.
  - rewrite E. reflexivity.
Qed.

(* the prolongator-shape fact: interlevel_ix[k] lies in the index box of level k *)
Lemma interlevel_in_box : forall k r, k < numlevels st -> In r (interlevel R st pmat k) -> In r (fns k).
Proof.
  intros k r HL H. unfold interlevel in H.
  apply (fold_union_In nat (fun lv => of_list (fgrand R pmat (k - lv) lv (nbr st k lv)))) in H.
  destruct H as [[]|[lv [Hlv H]]]. apply in_seq in Hlv. apply (proj1 (of_list_In _ _)) in H.
  destruct (fgrand_single _ _ _ _ H) as [f [Hf Hr]].
  destruct (reachable_meshes axes disp ops Haxes Hdisp Hops) as [_ [_ HF]]. fold st in HF.
  destruct (grand_facts (k - lv) lv f r ltac:(lia) (HF lv f (nbr_AF k lv f Hf)) Hr) as [H1 _].
  replace (lv + (k - lv)) with k in H1 by lia. exact H1.
Qed.

Section Entry.
Variable a : nat -> mi -> mi -> R.
Hypothesis a_local : local R r0 st a.

Notation repc := (repc R r0 r1 radd rmul st pmat).

Lemma non_neighbour_terms' : forall li fi lj fj r,
  li < lj -> lj < numlevels st -> In fi (AFm st li) -> In fj (AFm st lj) -> In r (fns lj) ->
  ~ In fi (nbr st lj li) ->
  rmul (repc li lj fi r) (a lj r fj) = r0 /\ rmul (a lj fj r) (repc li lj fi r) = r0.
Proof.
  intros li fi lj fj r Hlt HL Hfi Hfj Hr Hn.
  destruct (reachable_meshes axes disp ops Haxes Hdisp Hops) as [Hm [Hdim HF]]. fold st in Hm, Hdim, HF.
  destruct (In_dec_mi r (fgrand R pmat (lj - li) li [fi])) as [Hg|Hg].
  - assert (Hdis : forall x, In x (support1 (msh st lj) r) -> ~ In x (support1 (msh st lj) fj)).
    { intros x Hx Hxj. apply Hn. unfold nbr.
      apply (neighbors_complete_l st None lj li fi fj x); auto.
      - apply Hm. lia.
      - rewrite (anc_length). rewrite (Hdim li lj ltac:(lia) HL). apply (mo_len _ (Hm lj HL)).
        apply (mo_incells _ (Hm lj HL) fj); auto.
      - destruct (grand_facts (lj - li) li fi r ltac:(lia) (HF li fi Hfi) Hg) as [_ G].
        apply G. replace (li + (lj - li)) with lj by lia. exact Hx. }
    split.
    + rewrite (a_local lj r fj Hdis). ring.
    + rewrite (a_local lj fj r); [ring|]. intros x Hx Hxr. apply (Hdis x); auto.
  - unfold Proofs2.repc. rewrite (repn_pattern R r0 r1 radd rmul rsub ropp Rth st pmat _ _ _ _ Hg). split; ring.
Qed.

(* entry characterisation on reachable spaces with the pattern hypothesis only (+ locality of the forms) *)
Lemma hassemble_entry_pattern_l : forall li fi lj fj,
  li < numlevels st -> lj < numlevels st -> In fi (AFm st li) -> In fj (AFm st lj) ->
  blk_entry R r0 radd rmul a repc (nbr st) (interlevel R st pmat) (to_assemble R st pmat) false li fi lj fj
  = spec_entry R r0 radd rmul a repc (fun k => tp_functions (msh st k)) li fi lj fj.
Proof.
  intros li fi lj fj HLi HLj Hfi Hfj.
  destruct (reachable_meshes axes disp ops Haxes Hdisp Hops) as [Hm [Hdim HF]]. fold st in Hm, Hdim, HF.
  assert (Hil : forall k r, In r (interlevel R st pmat k) -> In r (fns k)).
  { intros k r H. destruct (Nat.lt_ge_cases k (numlevels st)) as [Hk|Hk]; [apply interlevel_in_box; auto|].
    exfalso. unfold interlevel in H.
    apply (fold_union_In nat (fun lv => of_list (fgrand R pmat (k - lv) lv (nbr st k lv)))) in H.
    destruct H as [[]|[lv [Hlv H]]]. apply (proj1 (of_list_In _ _)) in H. destruct (fgrand_single _ _ _ _ H) as [f [Hf _]].
    rewrite (nbr_beyond k lv Hk) in Hf. destruct Hf. }
  destruct (Nat.lt_trichotomy li lj) as [Hlt|[->|Hgt]].
  - apply (hassemble_entry_lower R r0 r1 radd rmul rsub ropp Rth); auto.
    + apply fns_nodup.
    + intros k. apply sorted_NoDup. apply interlevel_sorted.
    + apply interlevel_to_assemble.
    + apply repc_diag.
    + apply AF_to_assemble; auto.
    + intros Hnb r _ Hr. apply (rep_in_interlevel R r0 r1 radd rmul rsub ropp Rth); auto.
    + intros Hnb r Hr. apply (non_neighbour_terms' li fi lj fj r); auto.
  - apply (hassemble_entry_diag R r0 r1 radd rmul rsub ropp Rth); auto.
    + apply fns_nodup.
    + apply repc_diag.
    + apply AF_to_assemble; auto.
  - apply (hassemble_entry_upper R r0 r1 radd rmul rsub ropp Rth); auto.
    + apply fns_nodup.
    + intros k. apply sorted_NoDup. apply interlevel_sorted.
    + apply interlevel_to_assemble.
    + apply repc_diag.
    + apply AF_to_assemble; auto.
    + intros Hnb c _ Hc. apply (rep_in_interlevel R r0 r1 radd rmul rsub ropp Rth); auto.
    + intros Hnb c Hc. apply (non_neighbour_terms' lj fj li fi c); auto.
Qed.
End Entry.
End Pattern.
