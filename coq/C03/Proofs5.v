(* C03 -- lemmas, part 5: entry semantics of the sparse kernels (general axpy, matrix product, transpose). *)
From Coq Require Import List Arith Bool Lia NArith Ring.
From Verif.C03 Require Import Model Proofs Proofs3.
Import ListNotations.

Section Kernels.
Variable R : Type.
Variables (r0 r1 : R) (radd rmul rsub : R -> R -> R) (ropp : R -> R).
Hypothesis Rth : ring_theory r0 r1 radd rmul rsub ropp eq.
Add Ring Rring5 : Rth.

Notation svec := (svec R).
Notation get := (sv_get R r0).
Notation axpy := (sv_axpy R radd rmul).
Notation sorted := (sv_sorted R).

Definition keys (s : svec) : list N := map fst s.

Lemma sorted_cons : forall k v s, sorted ((k, v) :: s) <-> (forall k', In k' (keys s) -> (k < k')%N) /\ sorted s.
Proof.
  intros k v s. simpl. split; intros [H1 H2]; split; auto.
  - intros k' Hk. apply in_map_iff in Hk. destruct Hk as [e [<- He]]. apply (H1 e He).
  - intros e He. apply H1. apply in_map; auto.
Qed.

Lemma get_absent_keys : forall s k, ~ In k (keys s) -> get s k = r0.
Proof. intros s k H. apply get_absent. intros e He Hk. apply H. rewrite <- Hk. apply in_map; auto. Qed.

Lemma get_nil : forall k, get [] k = r0.
Proof. reflexivity. Qed.

(* y + c * x for sorted sparse vectors: values, sortedness, keys *)
Lemma axpy_spec : forall c x, sorted x -> forall y, sorted y ->
  (forall k, get (axpy c x y) k = radd (get y k) (rmul c (get x k))) /\
  sorted (axpy c x y) /\
  (forall k, In k (keys (axpy c x y)) -> In k (keys x) \/ In k (keys y)).
Proof.
  intros c x. induction x as [|[kx vx] x' IHx]; intros Hx y Hy.
  - rewrite (axpy_nil_l R radd rmul). repeat split; auto. intros k. rewrite get_nil. ring.
  - apply sorted_cons in Hx. destruct Hx as [Hxl Hx'].
    induction y as [|[ky vy] y' IHy].
    + change (axpy c ((kx, vx) :: x') []) with ((kx, rmul c vx) :: axpy c x' []).
      destruct (IHx Hx' [] I) as [G [S K]].
      split; [|split].
      * intros k. rewrite !(get_cons R r0). rewrite G, get_nil. destruct (N.eqb k kx); ring.
      * apply sorted_cons. split; auto. intros k' Hk'. destruct (K k' Hk') as [H|[]]. auto.
      * intros k [<-|Hk]; [left; left; auto|]. destruct (K k Hk) as [H|[]]. left; right; auto.
    + pose proof Hy as Hy0. apply sorted_cons in Hy. destruct Hy as [Hyl Hy'].
      change (axpy c ((kx, vx) :: x') ((ky, vy) :: y')) with
        (match N.compare kx ky with
         | Lt => (kx, rmul c vx) :: axpy c x' ((ky, vy) :: y')
         | Eq => (kx, radd vy (rmul c vx)) :: axpy c x' y'
         | Gt => (ky, vy) :: axpy c ((kx, vx) :: x') y'
         end).
      destruct (N.compare_spec kx ky) as [E|E|E].
      * subst ky. destruct (IHx Hx' y' Hy') as [G [S K]].
        split; [|split].
        -- intros k. rewrite !(get_cons R r0). rewrite G. destruct (N.eqb k kx); ring.
        -- apply sorted_cons. split; auto. intros k' Hk'. destruct (K k' Hk'); auto.
        -- intros k [<-|Hk]; [left; left; auto|]. destruct (K k Hk); [left | right]; right; auto.
      * destruct (IHx Hx' _ Hy0) as [G [S K]].
        split; [|split].
        -- intros k. rewrite (get_cons R r0). rewrite G. rewrite (get_cons R r0 kx vx).
           destruct (N.eqb k kx) eqn:Ek; [|ring].
           apply N.eqb_eq in Ek. subst k. rewrite (get_absent_keys ((ky, vy) :: y')); [ring|].
           intros [H|H]; simpl in H; [lia|]. specialize (Hyl _ H). lia.
        -- apply sorted_cons. split; auto. intros k' Hk'. destruct (K k' Hk') as [H|[H|H]]; auto.
           ++ simpl in H. lia.
           ++ specialize (Hyl _ H). lia.
        -- intros k [<-|Hk]; [left; left; auto|]. destruct (K k Hk); [left; right | right]; auto.
      * destruct (IHy Hy') as [G [S K]].
        split; [|split].
        -- intros k. rewrite (get_cons R r0). rewrite G. rewrite (get_cons R r0 ky vy).
           destruct (N.eqb k ky) eqn:Ek; [|ring].
           apply N.eqb_eq in Ek. subst k. rewrite (get_absent_keys ((kx, vx) :: x')); [ring|].
           intros [H|H]; simpl in H; [lia|]. specialize (Hxl _ H). lia.
        -- apply sorted_cons. split; auto. intros k' Hk'. destruct (K k' Hk') as [[H|H]|H]; auto.
           ++ simpl in H. lia.
           ++ specialize (Hxl _ H). lia.
        -- intros k [<-|Hk]; [right; left; auto|]. destruct (K k Hk); [left | right; right]; auto.
Qed.

(* ---- A @ B --------------------------------------------------------------------------------- *)
Definition rows_sorted (M : smat R) : Prop := forall r, In r M -> sorted r.

Lemma sm_row_sorted : forall M i, rows_sorted M -> sorted (sm_row R M i).
Proof.
  intros M i H. unfold sm_row. destruct (Nat.lt_ge_cases (N.to_nat i) (length M)).
  - apply H. apply nth_In; auto.
  - rewrite nth_overflow by auto. exact I.
Qed.

Lemma mul_row_spec : forall (B : smat R) (ra : svec) acc j, rows_sorted B -> sorted acc ->
  let res := fold_left (fun acc e => axpy (snd e) (sm_row R B (fst e)) acc) ra acc in
  get res j = radd (get acc j) (sumf R r0 radd (fun e => rmul (snd e) (sm_get R r0 B (fst e) j)) ra) /\ sorted res.
Proof.
  intros B ra. induction ra as [|e ra IH]; intros acc j HB Hacc; simpl.
  - split; auto. ring.
  - destruct (axpy_spec (snd e) (sm_row R B (fst e)) (sm_row_sorted B (fst e) HB) acc Hacc) as [G [S _]].
    destruct (IH (axpy (snd e) (sm_row R B (fst e)) acc) j HB S) as [G2 S2].
    split; auto. rewrite G2, G. unfold sm_get. ring.
Qed.

(* entry (i, j) of A @ B is the sum over the stored entries (m, a) of row i of A of a * B[m, j];
   every sparse matrix A (rows in any order, duplicates allowed), B with sorted rows; the product has sorted rows *)
Lemma sm_mul_entry_l : forall (A B : smat R) i j, rows_sorted B ->
  sm_get R r0 (sm_mul R radd rmul A B) i j
  = sumf R r0 radd (fun e => rmul (snd e) (sm_get R r0 B (fst e) j)) (sm_row R A i).
Proof.
  intros A B i j HB. unfold sm_get at 1. unfold sm_row at 1. unfold sm_mul.
  destruct (Nat.lt_ge_cases (N.to_nat i) (length A)) as [Hi|Hi].
  - rewrite (nth_indep _ [] ((fun ra => fold_left (fun acc e => axpy (snd e) (sm_row R B (fst e)) acc) ra []) []))
      by (rewrite map_length; auto).
    rewrite (map_nth (fun ra => fold_left (fun acc e => axpy (snd e) (sm_row R B (fst e)) acc) ra [])).
    destruct (mul_row_spec B (nth (N.to_nat i) A []) [] j HB I) as [G _].
    etransitivity; [exact G|]. rewrite get_nil. unfold sm_row. ring.
  - rewrite nth_overflow by (rewrite map_length; auto). unfold sm_row. rewrite nth_overflow by auto. reflexivity.
Qed.

Lemma sm_mul_sorted : forall (A B : smat R), rows_sorted B -> rows_sorted (sm_mul R radd rmul A B).
Proof.
  intros A B HB r Hr. unfold sm_mul in Hr. apply in_map_iff in Hr. destruct Hr as [ra [<- _]].
  destruct (mul_row_spec B ra [] 0%N HB I) as [_ S]. exact S.
Qed.

End Kernels.
