"""Translator for C09.

(1) `table_text(qmax)`: dumps numpy's Gauss-Legendre tables
    `np.polynomial.legendre.leggauss(q)`, q = 1..qmax, as the exact rational
    values of the doubles (this is what pyiga/quadrature.py:9 hands to every
    assembler) into Gallina, together with the obligations about them
    (`leggauss_exact_bounded`, positivity, nodes strictly inside (-1,1)).

(2) `quadrature_text(repo)`: fail-closed `ast` walker over
    pyiga/quadrature.py: `gauss_rule` is translated statement by statement to a
    Gallina function of ONE interval (a,b) and one reference rule (the numpy
    broadcasting `np.outer(h,x) + m[:,newaxis]` read per row k / column i);
    `make_iterated_quadrature` and `make_tensor_quadrature` must have exactly
    the shape the model assumes.  The generated file proves that the translated
    function equals `Model.gauss_cell` for all inputs (`ring`), so that an edit
    of quadrature.py either is still the same function or breaks the obligation.

Never imports pyiga.  Anything unexpected raises TranslateError.
"""
import ast
import os
from fractions import Fraction

import numpy as np


class TranslateError(Exception):
    pass


def cqc(x):
    x = Fraction(x)
    return '(q (%d) %d)' % (x.numerator, x.denominator)


HEADER = '''From Coq Require Import QArith Qcanon ZArith List Bool Arith Lia.
From Coq Require Qcabs.
From Verif.lib Require Import Bsp.
From Verif.C09 Require Import Model Proofs Proofs_entry.
Import ListNotations.
Open Scope Qc_scope.
Definition q (n : Z) (d : positive) : Qc := Q2Qc (n # d).
'''


def tables(qmax):
    out = {}
    for n in range(1, qmax + 1):
        x, w = np.polynomial.legendre.leggauss(n)
        out[n] = [(Fraction(float(a)), Fraction(float(b))) for a, b in zip(x, w)]
    return out


def table_text(qmax, defect=Fraction(2, 10 ** 15), qc_upto=6):
    tb = tables(qmax)
    rows = []
    for n in range(1, qmax + 1):
        D = max(max(a.denominator, b.denominator) for a, b in tb[n])
        ent = []
        for a, b in tb[n]:
            assert D % a.denominator == 0 and D % b.denominator == 0      # doubles: powers of two
            ent.append('(%d, %d)%%Z' % (a.numerator * (D // a.denominator), b.numerator * (D // b.denominator)))
        rows.append('  (%d%%nat, (%d%%positive, [%s]))' % (n, D, '; '.join(ent)))
    t = HEADER
    t += '(* np.polynomial.legendre.leggauss(q), q = 1..%d, numpy %s: exact values of the doubles,\n' % (qmax, np.__version__)
    t += '   per table with a common denominator D: (node*D, weight*D) *)\n'
    t += 'Definition leggauss_ztbl : list (nat * zrule) := [\n' + ';\n'.join(rows) + '].\n'
    t += 'Definition leggauss (n : nat) : rule := match find (fun e => Nat.eqb (fst e) n) leggauss_ztbl with Some e => rule_of_z (snd e) | None => [] end.\n'
    t += 'Definition defect : Q := %d # %d.\n' % (defect.numerator, defect.denominator)
    t += '''
(* leggauss_exact_bounded: for every q <= %d the table has q nodes strictly inside (-1,1), in
   increasing order, positive weights, and integrates x^k, k <= 2q-1, with defect <= 2e-15
   (scaled integer arithmetic, exact) *)
Lemma leggauss_exact_bounded : forallb (fun e => zrule_ok defect (fst e) (snd e)) leggauss_ztbl = true.
Proof. vm_compute. reflexivity. Qed.
Lemma leggauss_all_q : map fst leggauss_ztbl = seq 1 %d.
Proof. vm_compute. reflexivity. Qed.
(* the same statement in the form theorem quad_poly_defect consumes (rule_moment over Qc), q <= %d *)
Lemma leggauss_exact_bounded_qc :
  forallb (fun n => rule_ok (Q2Qc defect) n (leggauss n)) (seq 1 %d) = true.
Proof. vm_compute. reflexivity. Qed.
(* hence (theorem nqp_default_exact): with the DEFAULT node count of the 1D routines, numpy's table
   integrates every polynomial of the integrand's degree P - du - dv over [-1,1] with defect
   <= 2e-15 * l1norm, whenever that node count is <= %d *)
Lemma leggauss_default_exact : forall P du dv c, (du + dv <= P)%%nat ->
  (Z.to_nat (nqp_default P du dv) <= %d)%%nat -> (length c <= P - du - dv + 1)%%nat ->
  Qcabs.Qcabs (sumf (fun xw => snd xw * peval c (fst xw)) (leggauss (Z.to_nat (nqp_default P du dv))) - pint 0 c)
  <= Q2Qc defect * l1norm c.
Proof.
  intros P du dv c Hd Hq Hc. apply (nqp_default_exact_l P du dv); try assumption.
  pose proof leggauss_exact_bounded_qc as H. rewrite forallb_forall in H. apply H. apply in_seq.
  destruct (nqp_default_suffices_l P du dv Hd) as [_ [H1 _]]. cbv zeta in H1. lia.
Qed.
''' % (qmax, qmax, qc_upto, qc_upto, qc_upto, qc_upto)
    return t


# ---------------------------------------------------------------------------
# quadrature.py -> Gallina
# ---------------------------------------------------------------------------

def _is_attr_chain(node, names):
    for n in reversed(names[1:]):
        if not (isinstance(node, ast.Attribute) and node.attr == n):
            return False
        node = node.value
    return isinstance(node, ast.Name) and node.id == names[0]


def _expr(node, env):
    """numpy expression read at row k (interval) and column i (reference node)."""
    if isinstance(node, ast.Constant) and isinstance(node.value, (int, float)) and not isinstance(node.value, bool):
        return cqc(Fraction(node.value))
    if isinstance(node, ast.Name):
        if node.id in env:
            return env[node.id]
        raise TranslateError('unknown name %s' % node.id)
    if isinstance(node, ast.BinOp) and isinstance(node.op, (ast.Add, ast.Sub, ast.Mult)):
        op = {ast.Add: '+', ast.Sub: '-', ast.Mult: '*'}[type(node.op)]
        return '(%s %s %s)' % (_expr(node.left, env), op, _expr(node.right, env))
    if isinstance(node, ast.Call) and _is_attr_chain(node.func, ['np', 'outer']) and len(node.args) == 2 and not node.keywords:
        # np.outer(u, v)[k, i] = u[k] * v[i]
        return '(%s * %s)' % (_expr(node.args[0], env), _expr(node.args[1], env))
    if isinstance(node, ast.Subscript) and isinstance(node.value, ast.Name):
        # m[:, np.newaxis] broadcasts m[k] along the columns
        sl = node.slice
        if (isinstance(sl, ast.Tuple) and len(sl.elts) == 2 and isinstance(sl.elts[0], ast.Slice)
                and sl.elts[0].lower is None and sl.elts[0].upper is None and sl.elts[0].step is None
                and _is_attr_chain(sl.elts[1], ['np', 'newaxis'])):
            return _expr(node.value, env)
    raise TranslateError('unsupported expression: ' + ast.dump(node)[:200])


def _func(tree, name):
    for n in tree.body:
        if isinstance(n, ast.FunctionDef) and n.name == name:
            return n
    raise TranslateError('function %s not found' % name)


def _body(fn):
    b = list(fn.body)
    if b and isinstance(b[0], ast.Expr) and isinstance(b[0].value, ast.Constant) and isinstance(b[0].value.value, str):
        b = b[1:]
    return b


def _same(node, src):
    return ast.dump(node) == ast.dump(ast.parse(src).body[0])


def quadrature_text(repo):
    path = os.path.join(repo, 'pyiga', 'quadrature.py')
    tree = ast.parse(open(path).read())
    fn = _func(tree, 'gauss_rule')
    if [a.arg for a in fn.args.args] != ['deg', 'a', 'b'] or fn.args.defaults or fn.args.vararg or fn.args.kwarg:
        raise TranslateError('gauss_rule signature changed')
    env = {'a': 'a', 'b': 'b'}
    lets = []
    ret = None
    have_rule = False
    for st in _body(fn):
        if ret is not None:
            raise TranslateError('statement after return')
        if isinstance(st, ast.Assign) and len(st.targets) == 1 and isinstance(st.targets[0], ast.Name):
            nm = st.targets[0].id
            lets.append((nm, _expr(st.value, env)))
            env[nm] = 'v_' + nm
        elif (isinstance(st, ast.Assign) and len(st.targets) == 1 and isinstance(st.targets[0], ast.Tuple)
              and [getattr(e, 'id', None) for e in st.targets[0].elts] == ['x', 'w']
              and isinstance(st.value, ast.Call) and _is_attr_chain(st.value.func, ['np', 'polynomial', 'legendre', 'leggauss'])
              and len(st.value.args) == 1 and isinstance(st.value.args[0], ast.Name) and st.value.args[0].id == 'deg'
              and not st.value.keywords):
            have_rule = True
            env['x'] = '(fst xw)'
            env['w'] = '(snd xw)'
        elif isinstance(st, ast.Return) and isinstance(st.value, ast.Tuple) and len(st.value.elts) == 2:
            parts = []
            for e in st.value.elts:
                if not (isinstance(e, ast.Call) and isinstance(e.func, ast.Attribute) and e.func.attr == 'ravel'
                        and not e.args and not e.keywords):
                    raise TranslateError('return value is not (nodes.ravel(), weights.ravel())')
                parts.append(_expr(e.func.value, env))
            ret = parts
        else:
            raise TranslateError('unsupported statement in gauss_rule: ' + ast.dump(st)[:200])
    if ret is None or not have_rule:
        raise TranslateError('gauss_rule: no return / no leggauss call')
    # lets that depend on x/w must go inside the map; keep all of them inside (cheap)
    body = ''.join('let v_%s := %s in ' % (nm, e) for nm, e in lets)
    t = HEADER
    t += '(* translated from %s: gauss_rule, per interval (a,b) *)\n' % path
    t += 'Definition gen_gauss_cell (ref : rule) (a b : Qc) : list (Qc * Qc) :=\n'
    t += '  map (fun xw => %s(%s, %s)) ref.\n' % (body, ret[0], ret[1])
    t += 'Definition half_alias := half.\n'
    t += '''Lemma gen_gauss_cell_is_model : forall ref a b, gen_gauss_cell ref a b = gauss_cell ref a b.
Proof.
  intros. unfold gen_gauss_cell, gauss_cell. apply map_ext. intros [x w]. cbn [fst snd].
  replace (q 1 2) with half by (apply Qc_is_canon; reflexivity).
  unfold half_alias. rewrite !half_inv. f_equal; field; apply two_neq0.
Qed.
'''
    # the two wrappers must be literally what the model assumes
    f2 = _func(tree, 'make_iterated_quadrature')
    if not (len(_body(f2)) == 1 and [a.arg for a in f2.args.args] == ['intervals', 'nqp']
            and _same(_body(f2)[0], 'return gauss_rule(nqp, intervals[:-1], intervals[1:])')):
        raise TranslateError('make_iterated_quadrature changed')
    f3 = _func(tree, 'make_tensor_quadrature')
    exp = ['gauss = tuple(make_iterated_quadrature(mesh, nqp) for mesh in meshes)',
           'grid    = tuple(g[0] for g in gauss)', 'weights = tuple(g[1] for g in gauss)', 'return grid, weights']
    b3 = _body(f3)
    if not (len(b3) == 4 and [a.arg for a in f3.args.args] == ['meshes', 'nqp'] and all(_same(s, e) for s, e in zip(b3, exp))):
        raise TranslateError('make_tensor_quadrature changed')
    return t
