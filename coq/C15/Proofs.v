(* C15 -- lemmas about the model of multi-level structured matrices. *)
From Coq Require Import ZArith List Bool Lia Arith.
From Verif.C15 Require Import Model Spec.
Import ListNotations.
Open Scope Z_scope.

(* ------------------------------------------------------------------------ *)
(* generic list facts                                                        *)
(* ------------------------------------------------------------------------ *)
Lemma map_flat_map : forall {A B C : Type} (f : B -> C) (g : A -> list B) (l : list A),
  map f (flat_map g l) = flat_map (fun x => map f (g x)) l.
Proof. induction l; simpl; auto. rewrite map_app, IHl; auto. Qed.

Lemma flat_map_ext' : forall {A B : Type} (f g : A -> list B) (l : list A),
  (forall x, In x l -> f x = g x) -> flat_map f l = flat_map g l.
Proof. induction l; simpl; intros; auto. rewrite H, IHl; auto. Qed.

Lemma filter_true : forall {A : Type} (f : A -> bool) (l : list A),
  (forall x, f x = true) -> filter f l = l.
Proof. induction l; simpl; intros; auto. rewrite H, IHl; auto. Qed.

Lemma keep_false : forall l, filter (keep false) l = l.
Proof. intros; apply filter_true; reflexivity. Qed.

Lemma keep_true_lower : forall e, keep true e = lower e.
Proof. reflexivity. Qed.

(* ------------------------------------------------------------------------ *)
(* to_seq / from_seq : mixed-radix bijection                                 *)
(* ------------------------------------------------------------------------ *)
Lemma to_seq_acc_shift : forall dims I acc, length I = length dims ->
  to_seq_acc acc I dims = acc * prodZ dims + to_seq_acc 0 I dims.
Proof.
  induction dims as [|m dims IH]; intros I acc Hl; destruct I as [|i I]; simpl in Hl; try lia.
  - simpl. lia.
  - cbn [to_seq_acc prodZ fold_right].
    rewrite (IH I (acc * m + i)) by lia. rewrite (IH I (0 * m + i)) by lia.
    fold (prodZ dims). ring.
Qed.

Lemma to_seq_cons : forall i I m dims, length I = length dims ->
  to_seq (i :: I) (m :: dims) = i * prodZ dims + to_seq I dims.
Proof.
  intros. unfold to_seq. simpl. rewrite to_seq_acc_shift by auto. ring.
Qed.

Lemma to_seq_nil : to_seq [] [] = 0.
Proof. reflexivity. Qed.

Lemma prodZ_pos : forall dims, dims_pos dims -> 0 < prodZ dims.
Proof. induction 1; simpl; lia. Qed.

Lemma valid_mi_length : forall I dims, valid_mi I dims -> length I = length dims.
Proof. induction 1; simpl; auto. Qed.

Lemma to_seq_range_l : forall I dims, valid_mi I dims -> 0 <= to_seq I dims < prodZ dims.
Proof.
  induction 1 as [|i m I dims Him HF IH]; simpl.
  - unfold to_seq; simpl; lia.
  - rewrite to_seq_cons by (eapply valid_mi_length; eauto).
    change (prodZ (m :: dims)) with (m * prodZ dims). nia.
Qed.

(* snoc view of from_seq_rev / to_seq *)
Lemma to_seq_acc_app : forall I1 d1 I2 d2 acc, length I1 = length d1 ->
  to_seq_acc acc (I1 ++ I2) (d1 ++ d2) = to_seq_acc (to_seq_acc acc I1 d1) I2 d2.
Proof.
  induction I1; destruct d1; simpl; intros; try discriminate; auto.
Qed.

Lemma to_seq_snoc : forall I dims i m, length I = length dims ->
  to_seq (I ++ [i]) (dims ++ [m]) = to_seq I dims * m + i.
Proof. intros. unfold to_seq. rewrite to_seq_acc_app by auto. reflexivity. Qed.

Lemma from_seq_rev_length : forall r i, length (from_seq_rev i r) = length r.
Proof. induction r; simpl; auto. Qed.

Lemma from_seq_length : forall i dims, length (from_seq i dims) = length dims.
Proof. intros. unfold from_seq. rewrite rev_length, from_seq_rev_length, rev_length. auto. Qed.

Lemma from_seq_snoc : forall i dims m,
  from_seq i (dims ++ [m]) = from_seq (i / m) dims ++ [i mod m].
Proof. intros. unfold from_seq. rewrite rev_app_distr. simpl. reflexivity. Qed.

Lemma prodZ_app : forall a b, prodZ (a ++ b) = prodZ a * prodZ b.
Proof.
  induction a as [|x a IH]; intros.
  - change (prodZ ([] ++ b)) with (prodZ b). change (prodZ []) with 1. ring.
  - change (prodZ ((x :: a) ++ b)) with (x * prodZ (a ++ b)).
    change (prodZ (x :: a)) with (x * prodZ a). rewrite IH. ring.
Qed.

Lemma dims_pos_app : forall a b, dims_pos (a ++ b) <-> dims_pos a /\ dims_pos b.
Proof. intros. unfold dims_pos. rewrite Forall_app. tauto. Qed.

(* to_seq (from_seq i dims) dims = i on range(prod dims) *)
Lemma to_seq_from_seq_l : forall dims i, dims_pos dims -> 0 <= i < prodZ dims ->
  to_seq (from_seq i dims) dims = i.
Proof.
  intros dims. induction dims as [|m dims IH] using rev_ind; intros i Hp Hi.
  - simpl in Hi. unfold from_seq, to_seq. simpl. lia.
  - apply dims_pos_app in Hp. destruct Hp as [Hp Hm]. inversion Hm; subst.
    rewrite prodZ_app in Hi. simpl in Hi. rewrite Z.mul_1_r in Hi.
    rewrite from_seq_snoc. rewrite to_seq_snoc by apply from_seq_length.
    rewrite IH; auto.
    + rewrite Z.mul_comm. symmetry. apply Z.div_mod. lia.
    + split. apply Z.div_pos; lia. apply Z.div_lt_upper_bound; lia.
Qed.

Lemma valid_mi_snoc_inv : forall I dims m, valid_mi I (dims ++ [m]) ->
  exists I' i, I = I' ++ [i] /\ valid_mi I' dims /\ 0 <= i < m.
Proof.
  intros I dims m H. apply Forall2_app_inv_r in H.
  destruct H as (I1 & I2 & H1 & H2 & ->). inversion H2; subst. inversion H5; subst.
  eauto.
Qed.

(* from_seq (to_seq I dims) dims = I for valid multi-indices *)
Lemma from_seq_to_seq_l : forall dims I, valid_mi I dims -> from_seq (to_seq I dims) dims = I.
Proof.
  intros dims. induction dims as [|m dims IH] using rev_ind; intros I HI.
  - inversion HI; subst. reflexivity.
  - apply valid_mi_snoc_inv in HI. destruct HI as (I' & i & -> & HI' & Hi).
    rewrite to_seq_snoc by (eapply valid_mi_length; eauto).
    rewrite from_seq_snoc.
    replace ((to_seq I' dims * m + i) / m) with (to_seq I' dims).
    2:{ rewrite Z.div_add_l by lia. rewrite Z.div_small by lia. lia. }
    replace ((to_seq I' dims * m + i) mod m) with i.
    2:{ rewrite Z.add_comm, Z.mod_add by lia. rewrite Z.mod_small; lia. }
    rewrite IH; auto.
Qed.

Lemma from_seq_valid_l : forall dims i, dims_pos dims -> 0 <= i < prodZ dims ->
  valid_mi (from_seq i dims) dims.
Proof.
  intros dims. induction dims as [|m dims IH] using rev_ind; intros i Hp Hi.
  - constructor.
  - apply dims_pos_app in Hp. destruct Hp as [Hp Hm]. inversion Hm; subst.
    rewrite prodZ_app in Hi. simpl in Hi. rewrite Z.mul_1_r in Hi.
    rewrite from_seq_snoc. apply Forall2_app.
    + apply IH; auto. split. apply Z.div_pos; lia. apply Z.div_lt_upper_bound; lia.
    + constructor; [|constructor]. apply Z.mod_pos_bound; lia.
Qed.

(* ------------------------------------------------------------------------ *)
(* nonzero for two and three levels                                          *)
(* ------------------------------------------------------------------------ *)
Lemma nonzero_2d_l : forall b1 b2 m1 n1 m2 n2 lt,
  ml_nonzero_2d b1 b2 [(m1, n1); (m2, n2)] lt
  = filter (keep lt) (kron_pattern [(m1, n1); (m2, n2)] [b1; b2]).
Proof.
  intros. unfold ml_nonzero_2d, kron_pattern, nz2. simpl nth. apply f_equal.
  simpl product. rewrite map_flat_map. apply flat_map_ext'. intros x _.
  rewrite map_map.
  induction b2; simpl; auto. rewrite IHb2. reflexivity.
Qed.

Lemma nonzero_3d_l : forall b1 b2 b3 m1 n1 m2 n2 m3 n3 lt,
  ml_nonzero_3d b1 b2 b3 [(m1, n1); (m2, n2); (m3, n3)] lt
  = filter (keep lt) (kron_pattern [(m1, n1); (m2, n2); (m3, n3)] [b1; b2; b3]).
Proof.
  intros. unfold ml_nonzero_3d, kron_pattern, nz3. simpl nth. apply f_equal.
  simpl product. rewrite map_flat_map. apply flat_map_ext'. intros x _.
  rewrite map_map, map_flat_map. apply flat_map_ext'. intros y _.
  rewrite map_map, map_flat_map.
  induction b3 as [|z b3 IH]; [reflexivity|].
  cbn [map flat_map app]. rewrite IH. reflexivity.
Qed.
