(* C05 -- bridge between the knot-function model of C05 (list Qc, Boehm knot insertion) and the integer
   child pattern of C04 (coq/C04/Children.v: children_1d / is_child_1d).

   Part 1 (any refinement): the non-zero entries of the exact knot-insertion product prolongation_spec kv p us
           lie in  posmap i <= j <= posmap (i+p+1) - (p+1),  posmap x = position of the x-th coarse knot in the
           refined knot vector (composition of the shifts of the single insertions).
   Part 2: posmap x = x + #{u in us : u < kv[x]}                       (any refinement, any order of us).
   Part 3: one new knot strictly inside every mesh span (KnotVector.refine(): the mid points), any
           multiplicities: #{u < kv[x]} = mesh index of knot x = k2m[x], hence posmap = C04's phi and the
           non-zero entries lie inside is_child_1d. *)
From Coq Require Import QArith Qcanon Qcabs ZArith List Bool Arith Lia Lqa.
From Verif.lib Require Import Bsp.
From Verif.C02 Require Import Proofs.
From Verif.C05 Require Import Model Proofs.
Require Verif.C04.Model Verif.C04.Children.
Import ListNotations.
Open Scope Qc_scope.

Module M4 := Verif.C04.Model.
Module C4 := Verif.C04.Children.

(* ------------------------------------------------------------------ *)
(* Part 1: support of the knot insertion product *)

(* new position of the x-th knot after a knot has been inserted behind position k *)
Definition shift (k x : nat) : nat := if (x <=? k)%nat then x else S x.

Fixpoint posmap (kv : list Qc) (p : nat) (us : list Qc) (x : nat) : nat :=
  match us with
  | [] => x
  | u :: us' => posmap (insert_knot kv p u) p us' (shift (findspan kv p u) x)
  end.

Lemma shift_mono k x y : (x <= y)%nat -> (shift k x <= shift k y)%nat.
Proof. unfold shift. intros H. destruct (Nat.leb_spec x k); destruct (Nat.leb_spec y k); lia. Qed.

Lemma posmap_mono us : forall kv p x y, (x <= y)%nat -> (posmap kv p us x <= posmap kv p us y)%nat.
Proof. induction us as [|u us IH]; intros kv p x y H; cbn [posmap]; [exact H|]. apply IH. apply shift_mono. exact H. Qed.

Lemma ki_support kv p u j i :
  kv_ok kv p -> kn kv 0 <= u -> u <= kn kv (length kv - 1) ->
  (i < numdofs kv p)%nat -> (j < S (numdofs kv p))%nat ->
  lookup (knot_insertion kv p u) j i <> 0 ->
  (shift (findspan kv p u) i <= j)%nat /\ (j + p + 1 <= shift (findspan kv p u) (i + p + 1))%nat.
Proof.
  intros Hok Hu0 Hu1 Hi Hj Hnz.
  destruct (findspan_in kv p u Hok Hu0 Hu1) as [A [B _]].
  unfold knot_insertion in Hnz. set (k := findspan kv p u) in *.
  rewrite ki_lookup in Hnz by assumption. unfold ki_entry, ki_coef in Hnz. unfold shift.
  destruct (Nat.eqb_spec j i) as [->|Nji].
  - destruct (Nat.leb_spec (i + p) k) as [C1|C1]; [|destruct (Nat.leb_spec i k) as [C2|C2]].
    + destruct (Nat.leb_spec i k); destruct (Nat.leb_spec (i + p + 1) k); lia.
    + destruct (Nat.leb_spec i k); destruct (Nat.leb_spec (i + p + 1) k); lia.
    + exfalso. apply Hnz. reflexivity.
  - destruct (Nat.eqb_spec j (S i)) as [->|Nji'].
    + destruct (Nat.leb_spec (S i + p) k) as [C1|C1].
      * exfalso. apply Hnz. ring.
      * destruct (Nat.leb_spec i k); destruct (Nat.leb_spec (i + p + 1) k); lia.
    + exfalso. apply Hnz. reflexivity.
Qed.

Lemma bigsum_nonzero n f : bigsum n f <> 0 -> exists l, (l < n)%nat /\ f l <> 0.
Proof.
  induction n as [|n IH]; cbn [bigsum]; intros H; [exfalso; apply H; reflexivity|].
  destruct (Qc_eq_dec (f n) 0) as [E|E].
  - destruct IH as [l [Hl Hf]]; [intro E'; apply H; rewrite E', E; ring|]. exists l. split; [lia|exact Hf].
  - exists n. split; [lia|exact E].
Qed.

Lemma mul_nonzero (a b : Qc) : a * b <> 0 -> a <> 0 /\ b <> 0.
Proof. intros H. split; intro E; apply H; rewrite E; ring. Qed.

Lemma in_dom_insert kv p u us :
  kv_ok kv p -> in_dom kv u -> Forall (in_dom kv) us -> Forall (in_dom (insert_knot kv p u)) us.
Proof.
  intros Hok [Hu0 Hu1] Hd. destruct (insert_knot_ok kv p u Hok Hu0 Hu1) as [_ [E0 E1]].
  eapply Forall_impl; [|exact Hd]. intros a [Ha0 Ha1]. unfold in_dom. rewrite E0, E1. split; assumption.
Qed.

Lemma prolongation_support_l us : forall kv p j i,
  kv_ok kv p -> Forall (in_dom kv) us ->
  (j < numdofs (refine_kv kv p us) p)%nat -> (i < numdofs kv p)%nat ->
  get2 (prolongation_spec kv p us) j i <> 0 ->
  (posmap kv p us i <= j)%nat /\ (j + p + 1 <= posmap kv p us (i + p + 1))%nat.
Proof.
  induction us as [|u us IH]; intros kv p j i Hok Hd Hj Hi Hnz.
  - cbn [refine_kv prolongation_spec posmap] in *. rewrite get2_ident in Hnz by lia.
    destruct (Nat.eqb_spec j i); [lia|exfalso; apply Hnz; reflexivity].
  - cbn [refine_kv prolongation_spec posmap] in *. inversion Hd as [|? ? Hu Hd']; subst.
    pose proof Hu as [Hu0 Hu1].
    destruct (insert_knot_ok kv p u Hok Hu0 Hu1) as [Hok' _].
    pose proof (in_dom_insert kv p u us Hok Hu Hd') as Hd''.
    set (kv' := insert_knot kv p u) in *. set (n := numdofs kv p) in *.
    assert (En : numdofs kv' p = S n) by (apply numdofs_insert; exact Hok).
    rewrite get2_mmul in Hnz by lia.
    apply bigsum_nonzero in Hnz. destruct Hnz as [l [Hl Hnz]].
    apply mul_nonzero in Hnz. destruct Hnz as [N1 N2].
    rewrite get2_dense in N2 by lia.
    destruct (IH kv' p j l Hok' Hd'' Hj ltac:(lia) N1) as [I1 I2].
    destruct (ki_support kv p u l i Hok Hu0 (Qclt_le_weak _ _ Hu1) Hi Hl N2) as [K1 K2].
    split.
    + eapply Nat.le_trans; [|exact I1]. apply posmap_mono. exact K1.
    + eapply Nat.le_trans; [exact I2|]. apply posmap_mono. exact K2.
Qed.

(* ------------------------------------------------------------------ *)
(* Part 2: posmap counts the inserted knots that lie before the knot *)

Definition cnt_lt (us : list Qc) (t : Qc) : nat := length (filter (fun u => qltb u t) us).

Lemma posmap_count_l us : forall kv p x,
  kv_ok kv p -> Forall (in_dom kv) us -> (x < length kv)%nat ->
  posmap kv p us x = (x + cnt_lt us (kn kv x))%nat.
Proof.
  induction us as [|u us IH]; intros kv p x Hok Hd Hx; cbn [posmap]; [unfold cnt_lt; cbn; lia|].
  inversion Hd as [|? ? Hu Hd']; subst. pose proof Hu as [Hu0 Hu1].
  destruct (insert_knot_ok kv p u Hok Hu0 Hu1) as [Hok' _].
  pose proof (in_dom_insert kv p u us Hok Hu Hd') as Hd''.
  destruct (findspan_spec_l kv p u Hok Hu0 (Qclt_le_weak _ _ Hu1)) as [A [B [C [D E]]]].
  destruct E as [E|[E _]]; [|subst u; exfalso; revert Hu1; apply Qcle_not_lt; apply Qcle_refl].
  pose proof (ok_sorted _ _ Hok) as Hs. pose proof (ok_len _ _ Hok) as Hlen.
  unfold insert_knot in *. set (k := findspan kv p u) in *.
  unfold cnt_lt. cbn [filter]. unfold shift.
  destruct (Nat.leb_spec x k) as [L|L].
  - rewrite (IH _ p x Hok' Hd'') by (rewrite length_insert_at; lia).
    rewrite kn_ins_le by lia.
    assert (Hle : kn kv x <= u) by (eapply Qcle_trans; [apply Hs; [exact L|lia]|exact D]).
    destruct (qltb u (kn kv x)) eqn:Q; [apply qltb_iff in Q; exfalso; revert Q; apply Qcle_not_lt; exact Hle|].
    unfold cnt_lt. lia.
  - rewrite (IH _ p (S x) Hok' Hd'') by (rewrite length_insert_at; lia).
    rewrite kn_ins_gt by lia.
    assert (Hlt : u < kn kv x) by (eapply Qclt_le_trans; [exact E|apply Hs; lia]).
    destruct (qltb u (kn kv x)) eqn:Q; [|apply qltb_false_iff in Q; exfalso; revert Hlt; apply Qcle_not_lt; exact Q].
    unfold cnt_lt. cbn [length]. lia.
Qed.

(* ------------------------------------------------------------------ *)
(* Part 3: one new knot strictly inside every mesh span *)

(* spans bs us: bs = the break points (strictly increasing), us = one point strictly inside each span *)
Inductive spans : list Qc -> list Qc -> Prop :=
| sp_one b : spans [b] []
| sp_cons a b t u us : a < u -> u < b -> spans (b :: t) us -> spans (a :: b :: t) (u :: us).

(* the mid points, KnotVector.refine() bspline.py:176-183 *)
Fixpoint mids (bs : list Qc) : list Qc :=
  match bs with
  | a :: t => match t with b :: _ => (a + b) / (1 + 1) :: mids t | [] => [] end
  | [] => []
  end.

Fixpoint increasing (bs : list Qc) : Prop :=
  match bs with
  | a :: t => match t with b :: _ => a < b /\ increasing t | [] => True end
  | [] => True
  end.

Lemma mid_between (a b : Qc) : a < b -> a < (a + b) / (1 + 1) /\ (a + b) / (1 + 1) < b.
Proof.
  intros H. assert (E : (a + b) / (1 + 1) = a + (b - a) / (1 + 1)) by (field; discriminate).
  assert (P : 0 < (b - a) / (1 + 1)).
  { unfold Qcdiv. replace 0 with (0 * / (1 + 1)) by ring. apply Qcmult_lt_compat_r; [reflexivity|apply sub_pos; exact H]. }
  assert (E2 : b = a + (b - a) / (1 + 1) + (b - a) / (1 + 1)) by (field; discriminate).
  split; apply Qclt_minus_iff.
  - replace ((a + b) / (1 + 1) + - a) with ((b - a) / (1 + 1)) by (field; discriminate). exact P.
  - replace (b + - ((a + b) / (1 + 1))) with ((b - a) / (1 + 1)) by (field; discriminate). exact P.
Qed.

Lemma spans_mids bs : bs <> [] -> increasing bs -> spans bs (mids bs).
Proof.
  induction bs as [|a t IH]; intros Hne Hinc; [congruence|].
  destruct t as [|b t']; [constructor|].
  destruct Hinc as [Hab Hinc]. destruct (mid_between a b Hab) as [M1 M2].
  change (mids (a :: b :: t')) with ((a + b) / (1 + 1) :: mids (b :: t')).
  constructor; [exact M1|exact M2|]. apply IH; [discriminate|exact Hinc].
Qed.

Lemma spans_hd_lt bs us : spans bs us -> Forall (fun u => hd 0 bs < u) us.
Proof.
  induction 1 as [b|a b t u us Hau Hub Hs IH]; [constructor|]. cbn [hd] in *. constructor; [exact Hau|].
  eapply Forall_impl; [|exact IH]. intros c Hc. eapply Qclt_trans; [exact Hau|]. eapply Qclt_trans; eassumption.
Qed.

Lemma spans_lt_last bs us : spans bs us -> Forall (fun u => u < last bs 0) us.
Proof.
  induction 1 as [b|a b t u us Hau Hub Hs IH]; [constructor|].
  change (last (a :: b :: t) 0) with (last (b :: t) 0). constructor; [|exact IH].
  inversion Hs; subst.
  - exact Hub.
  - inversion IH; subst. eapply Qclt_trans; [exact Hub|]. eapply Qclt_trans; eassumption.
Qed.

Lemma spans_nth_ge bs us : spans bs us -> forall m, (m < length bs)%nat -> hd 0 bs <= nth m bs 0.
Proof.
  induction 1 as [b|a b t u us Hau Hub Hs IH]; intros m Hm.
  - destruct m; [apply Qcle_refl|cbn in Hm; lia].
  - destruct m; [apply Qcle_refl|]. cbn [hd nth length] in *.
    apply Qclt_le_weak. eapply Qclt_le_trans; [eapply Qclt_trans; eassumption|]. apply (IH m). lia.
Qed.

Lemma cnt_lt_zero us t : Forall (fun u => t <= u) us -> cnt_lt us t = 0%nat.
Proof.
  induction 1 as [|u us Hu _ IH]; [reflexivity|]. unfold cnt_lt in *. cbn [filter].
  destruct (qltb u t) eqn:Q; [apply qltb_iff in Q; exfalso; revert Q; apply Qcle_not_lt; exact Hu|exact IH].
Qed.

(* the number of new knots before the m-th break point is m *)
Lemma cnt_lt_spans bs us : spans bs us -> forall m, (m < length bs)%nat -> cnt_lt us (nth m bs 0) = m.
Proof.
  induction 1 as [b|a b t u us Hau Hub Hs IH]; intros m Hm.
  - cbn in Hm. destruct m; [reflexivity|lia].
  - destruct m as [|m].
    + cbn [nth]. apply cnt_lt_zero. constructor; [apply Qclt_le_weak; exact Hau|].
      eapply Forall_impl; [|exact (spans_hd_lt _ _ Hs)]. cbn [hd]. intros c Hc.
      apply Qclt_le_weak. eapply Qclt_trans; [exact Hau|]. eapply Qclt_trans; eassumption.
    + change (nth (S m) (a :: b :: t) 0) with (nth m (b :: t) 0). cbn [length] in Hm.
      assert (Hge : b <= nth m (b :: t) 0) by (apply (spans_nth_ge _ _ Hs m); cbn [length]; lia).
      unfold cnt_lt. cbn [filter].
      destruct (qltb u (nth m (b :: t) 0)) eqn:Q.
      * cbn [length]. f_equal. apply IH. cbn [length]. lia.
      * apply qltb_false_iff in Q. exfalso. revert Hub. apply Qcle_not_lt. eapply Qcle_trans; eassumption.
Qed.

(* kv is the knot vector of the integer axis a with break points bs: knot x has the value bs[k2m[x]] *)
Definition axis_of (a : M4.axis) (bs kv : list Qc) : Prop :=
  length (M4.k2m a) = length kv /\ kn kv 0 = hd 0 bs /\ kn kv (length kv - 1) = last bs 0 /\
  forall x, (x < length kv)%nat ->
    (nth x (M4.k2m a) 0 < length bs)%nat /\ kn kv x = nth (nth x (M4.k2m a) 0%nat) bs 0.

Lemma spans_in_dom a bs kv us : axis_of a bs kv -> spans bs us -> Forall (in_dom kv) us.
Proof.
  intros [_ [E0 [E1 _]]] Hs. pose proof (spans_hd_lt _ _ Hs) as H1. pose proof (spans_lt_last _ _ Hs) as H2.
  rewrite Forall_forall in *. intros u Hu. unfold in_dom. rewrite E0, E1. split; [apply Qclt_le_weak; apply H1; exact Hu|apply H2; exact Hu].
Qed.

(* posmap is C04's phi *)
Lemma posmap_phi_l a bs kv us x :
  kv_ok kv (M4.ax_p a) -> axis_of a bs kv -> spans bs us -> (x < length kv)%nat ->
  posmap kv (M4.ax_p a) us x = C4.phi a x.
Proof.
  intros Hok Hax Hs Hx. rewrite posmap_count_l; [|exact Hok|exact (spans_in_dom a bs kv us Hax Hs)|exact Hx].
  unfold C4.phi. destruct Hax as [_ [_ [_ Hk]]]. destruct (Hk x Hx) as [Hm ->].
  rewrite (cnt_lt_spans bs us Hs _ Hm). reflexivity.
Qed.

(* the bridge: dyadic refinement (one new knot strictly inside every mesh span; any multiplicities kv_ok
   allows, any degree): the non-zero entries of the exact knot insertion product lie in C04's child pattern *)
Lemma dyadic_pattern_l a bs kv us j i :
  kv_ok kv (M4.ax_p a) -> axis_of a bs kv -> spans bs us ->
  (j < numdofs (refine_kv kv (M4.ax_p a) us) (M4.ax_p a))%nat -> (i < numdofs kv (M4.ax_p a))%nat ->
  get2 (prolongation_spec kv (M4.ax_p a) us) j i <> 0 ->
  C4.is_child_1d a i j = true.
Proof.
  intros Hok Hax Hs Hj Hi Hnz.
  pose proof (spans_in_dom a bs kv us Hax Hs) as Hd.
  destruct (prolongation_support_l us kv (M4.ax_p a) j i Hok Hd Hj Hi Hnz) as [S1 S2].
  unfold numdofs in Hi.
  rewrite (posmap_phi_l a bs kv us i Hok Hax Hs) in S1 by lia.
  rewrite (posmap_phi_l a bs kv us (i + M4.ax_p a + 1) Hok Hax Hs) in S2 by lia.
  unfold C4.is_child_1d, C4.children_1d. cbn [fst snd].
  apply andb_true_intro. split; [apply Nat.leb_le; exact S1|apply Nat.ltb_lt; lia].
Qed.

(* the knot vector built from break points and multiplicities is the knot vector of the axis *)
Fixpoint expand (bs : list Qc) (mults : list nat) : list Qc :=
  match bs, mults with
  | b :: bs', m :: ms' => repeat b m ++ expand bs' ms'
  | _, _ => []
  end.

Lemma nth_repeat_lt {A} (a d : A) m x : (x < m)%nat -> nth x (repeat a m) d = a.
Proof. revert x. induction m; intros x H; [lia|]. destruct x; [reflexivity|]. cbn. apply IHm. lia. Qed.

Lemma expand_length : forall mults bs i, length bs = length mults ->
  length (M4.k2m_aux i mults) = length (expand bs mults).
Proof.
  induction mults as [|m ms IH]; intros [|b bs] i H; cbn in *; try reflexivity; try discriminate.
  rewrite !app_length, !repeat_length. rewrite (IH bs (S i)) by lia. reflexivity.
Qed.

Lemma expand_k2m : forall mults bs i x, length bs = length mults -> (x < length (expand bs mults))%nat ->
  exists m, nth x (M4.k2m_aux i mults) 0%nat = (i + m)%nat /\ (m < length bs)%nat /\
            nth x (expand bs mults) 0 = nth m bs 0.
Proof.
  induction mults as [|m0 ms IH]; intros [|b bs] i x H Hx; cbn [expand length M4.k2m_aux] in *; try lia; try discriminate.
  rewrite app_length, repeat_length in Hx.
  destruct (Nat.lt_ge_cases x m0) as [L|L].
  - exists 0%nat. rewrite !app_nth1 by (rewrite repeat_length; exact L). rewrite !nth_repeat_lt by exact L.
    repeat split; [lia|lia].
  - rewrite !app_nth2 by (rewrite repeat_length; exact L). rewrite !repeat_length.
    destruct (IH bs (S i) (x - m0)%nat ltac:(lia) ltac:(lia)) as [m [E1 [E2 E3]]].
    exists (S m). rewrite E1, E3. repeat split; lia.
Qed.

Lemma hd_expand : forall mults bs, length bs = length mults -> Forall (fun m => 0 < m)%nat mults ->
  nth 0 (expand bs mults) 0 = hd 0 bs.
Proof.
  intros [|m ms] [|b bs] H F; cbn in *; try reflexivity; try discriminate.
  inversion F; subst. destruct m; [lia|]. reflexivity.
Qed.

Lemma last_expand : forall mults bs, length bs = length mults -> Forall (fun m => 0 < m)%nat mults ->
  nth (length (expand bs mults) - 1) (expand bs mults) 0 = last bs 0.
Proof.
  induction mults as [|m ms IH]; intros [|b bs] H F; cbn [expand length last] in *; try reflexivity; try discriminate.
  inversion F as [|? ? Hm F']; subst. destruct ms as [|m1 ms'].
  - destruct bs; [|discriminate]. cbn [expand]. rewrite app_nil_r, repeat_length. apply nth_repeat_lt. lia.
  - destruct bs as [|b1 bs']; [discriminate|]. inversion F'; subst.
    specialize (IH (b1 :: bs') ltac:(cbn in *; lia) F').
    assert (Hpos : (0 < length (expand (b1 :: bs') (m1 :: ms')))%nat).
    { cbn [expand]. rewrite app_length, repeat_length. lia. }
    rewrite app_length, repeat_length. rewrite app_nth2 by (rewrite repeat_length; lia). rewrite repeat_length.
    replace (m + length (expand (b1 :: bs') (m1 :: ms')) - 1 - m)%nat
      with (length (expand (b1 :: bs') (m1 :: ms')) - 1)%nat by lia.
    exact IH.
Qed.

Lemma expand_axis_of p bs mults :
  length bs = length mults -> Forall (fun m => 0 < m)%nat mults ->
  axis_of (M4.mk_axis p mults) bs (expand bs mults).
Proof.
  intros H F. unfold axis_of, M4.k2m. cbn [M4.ax_mults]. split; [apply expand_length; exact H|].
  split; [apply hd_expand; assumption|]. split; [apply last_expand; assumption|].
  intros x Hx. destruct (expand_k2m mults bs 0 x H Hx) as [m [E1 [E2 E3]]].
  rewrite E1. cbn [Nat.add]. split; [exact E2|exact E3].
Qed.

(* the bridge for the knot vector given by break points and multiplicities, refined by KnotVector.refine() *)
Lemma dyadic_pattern_expand_l p bs mults j i :
  bs <> [] -> increasing bs -> length bs = length mults -> Forall (fun m => 0 < m)%nat mults ->
  kv_ok (expand bs mults) p ->
  (j < numdofs (refine_kv (expand bs mults) p (mids bs)) p)%nat -> (i < numdofs (expand bs mults) p)%nat ->
  get2 (prolongation_spec (expand bs mults) p (mids bs)) j i <> 0 ->
  C4.is_child_1d (M4.mk_axis p mults) i j = true.
Proof.
  intros Hne Hinc Hl Hpos Hok Hj Hi Hnz.
  apply (dyadic_pattern_l (M4.mk_axis p mults) bs (expand bs mults) (mids bs) j i); try assumption.
  - apply expand_axis_of; assumption.
  - apply spans_mids; assumption.
Qed.

(* ---- executable check used by the correspondence run: on a concrete dyadic case the hypotheses of the
   bridge hold (the knot vector is expand bs mults, it is a well-formed open knot vector, the refined knot
   vector is the implementation's) and the non-zero entries of the exact product AND of the implementation's
   matrix beyond `bound` lie inside C04's child pattern *)
Fixpoint increasingb (bs : list Qc) : bool :=
  match bs with
  | a :: t => match t with b :: _ => qltb a b && increasingb t | [] => true end
  | [] => true
  end.

Definition check_bridge (kv1 : list Qc) (p : nat) (bs : list Qc) (mults : list nat) (kv2 : list Qc)
                        (impl : list (list Qc)) (bound : Qc) : bool :=
  let a := M4.mk_axis p mults in
  let us := mids bs in
  let M := prolongation_spec kv1 p us in
  let n1 := numdofs kv1 p in
  let n2 := numdofs kv2 p in
  qlist_eqb (expand bs mults) kv1 && open_kv kv1 p && increasingb bs
  && Nat.eqb (length bs) (length mults) && forallb (fun m => (0 <? m)%nat) mults
  && qlist_eqb (refine_kv kv1 p us) kv2
  && Nat.eqb n1 (M4.ax_numdofs a) && Nat.eqb n2 (M4.ax_numdofs (M4.ax_refine a))
  && forallb (fun j => forallb (fun i =>
        let c := C4.is_child_1d a i j in
        implb (negb (qeqb (get2 M j i) 0)) c
        && implb (negb (qleb (Qcabs (get2 impl j i)) bound)) c) (seq 0 n1)) (seq 0 n2).
