(* C02 -- non-vacuity of Props3: a concrete open knot vector with an interior knot, a point
   inside a span and one exactly on the interior knot meet the hypotheses of ex_point_spec, and
   xcheck accepts the true result and rejects a perturbed one. *)
From Coq Require Import QArith Qcanon ZArith List Bool Arith.
From Verif.lib Require Import Bsp.
From Verif.C02 Require Import Proofs_tp ExtractDefs.
Import ListNotations.
Open Scope Qc_scope.

Definition q (n : Z) (d : positive) : Qc := Q2Qc (n # d).
Definition kv3 : list Qc := [q 0 1; q 0 1; q 0 1; q 1 2; q 1 1; q 1 1; q 1 1].
Definition c3 : list Qc := [q 1 1; q (-2) 1; q 3 1; q 5 1].

Example ex3_hyps :
  (open_kv kv3 2 && qleb (kn kv3 0) (q 1 4) && qleb (q 1 4) (kn kv3 (length kv3 - 1))
   && Nat.eqb (length c3) (numdofs kv3 2)) = true.
Proof. vm_compute. reflexivity. Qed.

Example ex3_values :
  (let '(s, ad, sev, evs) := ex_point kv3 2 3 c3 (q 1 4) in
   Nat.eqb s 2 && qeqb (nth 0 (nth 0 ad []) 0) (q 1 4) && Nat.eqb (length ad) 4
   && qeqb (nth 0 sev 0) (q 1 4) && qeqb (nth 3 sev 0) (q 0 1) && Nat.eqb (length evs) 4
   && qeqb (nth 3 evs 0) (q 0 1) && negb (qeqb (nth 2 evs 0) (q 0 1))) = true.
Proof. vm_compute. reflexivity. Qed.

Example ex3_on_knot :
  (let '(s, ad, sev, evs) := ex_point kv3 2 1 c3 (q 1 2) in
   Nat.eqb s 3 && qeqb (nth 0 (nth 0 ad []) 0) (q 1 2) && qeqb (nth 2 (nth 0 ad []) 0) (q 0 1)) = true.
Proof. vm_compute. reflexivity. Qed.

Example ex3_xcheck_accepts :
  (let '(s, ad, sev, evs) := ex_point kv3 2 2 c3 (q 1 4) in xcheck kv3 2 2 c3 (q 1 4) s ad sev evs) = true.
Proof. vm_compute. reflexivity. Qed.

Example ex3_xcheck_rejects :
  (let '(s, ad, sev, evs) := ex_point kv3 2 2 c3 (q 1 4) in
   xcheck kv3 2 2 c3 (q 1 4) s ad (q 1 1000000 :: sev) evs
   || xcheck kv3 2 2 c3 (q 1 4) (S s) ad sev evs) = false.
Proof. vm_compute. reflexivity. Qed.
