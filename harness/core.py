"""Common machinery for all property checks (see DESIGN.md section 1).

Stages of a check:
  1. obligations  -- full .vo build of the property's theories + Print Assumptions gate
  2. tie          -- correspondence run model <-> implementation (implementation is
                     rebuilt from /repo's working tree into a scratch copy)
  3. search       -- on a broken obligation/tie, look for a failing input on the
                     implementation; report VIOLATION (with or without input)
"""
import contextlib
import fcntl
import hashlib
import json
import os
import random
import re
import shutil
import subprocess
import sys
import time

VERIF = os.path.dirname(os.path.dirname(os.path.abspath(__file__)))
REPO = os.environ.get('VERIF_REPO', '/repo')
COQ = os.path.join(VERIF, 'coq')
GEN = os.path.join(COQ, 'gen')
CACHE = os.path.join(VERIF, '.cache')
EVID = os.environ.get('VERIF_EVIDENCE_DIR') or os.path.join(VERIF, 'evidence')
REPLAY = os.path.join(EVID, 'replay')
PY = '/venv/bin/python'
def _jobs():
    # .cache/jobs (not committed) throttles parallelism while several checks share the machine
    try:
        return int(open(os.path.join(CACHE, 'jobs')).read().strip())
    except Exception:
        return int(os.environ.get('VERIF_JOBS', '16'))


NCPU = _jobs()

# Axioms of the standard library (and primitives) a property theorem may depend
# on; each one that actually occurs is named in the evidence (trusted_base).
ALLOWED_AXIOM_PREFIXES = (
    'PrimFloat.', 'Uint63.', 'PrimInt63.', 'FloatOps.', 'Sint63.', 'PArray.',
    'functional_extensionality_dep', 'FunctionalExtensionality.functional_extensionality_dep',
    'Classical_Prop.classic', 'classic', 'ProofIrrelevance.proof_irrelevance',
    'proof_irrelevance', 'JMeq.JMeq_eq', 'JMeq_eq', 'Eqdep.Eq_rect_eq.eq_rect_eq',
    'ClassicalDedekindReals.sig_forall_dec', 'ClassicalDedekindReals.sig_not_dec',
    'sig_forall_dec', 'sig_not_dec', 'FloatAxioms.', 'SpecFloat.',
)

FORBIDDEN = [
    r'\bAdmitted\b', r'\badmit\b', r'\bAxiom\b', r'\bAxioms\b', r'\bParameter\b', r'\bParameters\b',
    r'\bConjecture\b', r'Unset\s+Guard', r'bypass_check', r'type-in-type',
    r'impredicative-set', r'Admit\s+Obligations', r'Unset\s+Universe\s+Checking',
    r'Unset\s+Positivity', r'\bnative_compute\b',
]


def log(*a):
    print(*a, flush=True)


def strip_coq_comments(s):
    out = []
    depth = 0
    i = 0
    n = len(s)
    while i < n:
        if s.startswith('(*', i):
            depth += 1
            i += 2
        elif s.startswith('*)', i) and depth > 0:
            depth -= 1
            i += 2
        else:
            if depth == 0:
                out.append(s[i])
            i += 1
    return ''.join(out)


def grep_gate(paths):
    """Reject forbidden vernacular anywhere in the given .v files."""
    bad = []
    for p in paths:
        try:
            txt = strip_coq_comments(open(p).read())
        except OSError:
            continue
        for pat in FORBIDDEN:
            for m in re.finditer(pat, txt):
                bad.append('%s: %s' % (os.path.relpath(p, VERIF), m.group(0)))
        # Variable / Hypothesis only inside a Section
        depth = 0
        for m in re.finditer(r'(?m)^\s*(Section|Module|End|Variables?|Hypothes[ie]s|Context)\b', txt):
            w = m.group(1)
            if w in ('Section',):
                depth += 1
            elif w == 'End':
                depth = max(0, depth - 1)
            elif w == 'Module':
                depth += 1  # Modules are closed by End too
            elif depth == 0 and w != 'Context':
                bad.append('%s: %s outside a Section' % (os.path.relpath(p, VERIF), w))
    return bad


def all_v_files():
    res = []
    for root, dirs, files in os.walk(COQ):
        if os.path.basename(root) == 'gen':
            dirs[:] = []        # never descend into the per-run directories gen/r<pid>/
            continue
        for f in files:
            if f.endswith('.v'):
                res.append(os.path.join(root, f))
    return sorted(res)


@contextlib.contextmanager
def flock(name):
    os.makedirs(CACHE, exist_ok=True)
    path = os.path.join(CACHE, name + '.lock')
    with open(path, 'w') as f:
        fcntl.flock(f, fcntl.LOCK_EX)
        try:
            yield
        finally:
            fcntl.flock(f, fcntl.LOCK_UN)


def sh(cmd, timeout=600, cwd=None, env=None, input=None):
    """Run a command, return (rc, stdout+stderr). Never raises on timeout."""
    try:
        p = subprocess.run(cmd, cwd=cwd, env=env, input=input, timeout=timeout,
                           stdout=subprocess.PIPE, stderr=subprocess.STDOUT,
                           text=True, shell=isinstance(cmd, str))
        return p.returncode, p.stdout
    except subprocess.TimeoutExpired as e:
        out = e.stdout or ''
        if isinstance(out, bytes):
            out = out.decode(errors='replace')
        return 124, out + '\n[timeout after %ss]' % timeout


# ---------------------------------------------------------------------------
# Coq side
# ---------------------------------------------------------------------------

def coq_makefile():
    """(Re)generate _CoqProject and Makefile.coq from the files on disk."""
    files = [os.path.relpath(p, COQ) for p in all_v_files()]
    proj = '-R . Verif\n-arg -w -arg -all\n' + '\n'.join(files) + '\n'
    pp = os.path.join(COQ, '_CoqProject')
    old = open(pp).read() if os.path.exists(pp) else None
    if old != proj or not os.path.exists(os.path.join(COQ, 'Makefile.coq')):
        with open(pp, 'w') as f:
            f.write(proj)
        rc, out = sh(['coq_makefile', '-f', '_CoqProject', '-o', 'Makefile.coq'], cwd=COQ)
        if rc != 0:
            raise RuntimeError('coq_makefile failed: ' + out)


def coq_make(targets, timeout=3000):
    """Full .vo build (never -vos) of the given targets (relative to coq/)."""
    with flock('coqbuild'):
        coq_makefile()
        cmd = ['make', '-f', 'Makefile.coq', '-j%d' % NCPU] + list(targets)
        t0 = time.time()
        rc, out = sh(cmd, cwd=COQ, timeout=timeout)
        return rc == 0, out, ' '.join(cmd), time.time() - t0


GENROOT = os.path.join(CACHE, 'gen')


def gen_phys(relpath):
    """Physical location of a generated file.  The per-run directories gen/r<pid> keep their
    logical name Verif.gen.r<pid> but live OUTSIDE coq/ (under .cache/gen): coqc, coqdep and make
    scan every directory below coq/ when they start, and a directory that another run creates or
    deletes at that moment made them fail (a false alarm under concurrent checks)."""
    parts = relpath.split(os.sep)
    assert parts[0] == 'gen' and len(parts) >= 2, relpath
    return os.path.join(GENROOT, *parts[1:])


_DEPS_OK = set()
_DEPS_LOCK = __import__('threading').Lock()


def ensure_deps(vtext):
    """Build the compiled theories a generated file imports (`From Verif.X Require [Import] A B.`)
    when they are not on disk: a module that only generated case files use (e.g. C02/Model.v, the
    comparison functions) is not a dependency of Props.v, so after a fresh restore nothing else
    would have built it."""
    want = []
    for m in re.finditer(r'From\s+Verif\.([A-Za-z0-9_.]+)\s+Require\s+(?:Import\s+|Export\s+)?([^.]+)\.', vtext):
        pre = m.group(1)
        if pre.split('.')[0] == 'gen':
            continue
        for name in m.group(2).split():
            want.append(os.path.join(*pre.split('.'), name + '.vo'))
    with _DEPS_LOCK:
        todo = [t for t in dict.fromkeys(want) if t not in _DEPS_OK
                and os.path.exists(os.path.join(COQ, t[:-1]))]
        missing = [t for t in todo if not os.path.exists(os.path.join(COQ, t))]
        if missing:
            ok, out, cmd, dt = coq_make(missing)
            log('[deps] built %s (%s, %.1fs)' % (' '.join(missing), 'ok' if ok else 'FAILED', dt))
            if not ok:
                log(out[-1500:])
        _DEPS_OK.update(todo)


def coqc_file(relpath, timeout=900):
    """Compile one file under coq/ (used for Props.v and generated files);
    returns (ok, output)."""
    if relpath.startswith('gen' + os.sep):
        run = relpath.split(os.sep)[1]
        cmd = ['coqc', '-R', '.', 'Verif', '-R', os.path.join(GENROOT, run), 'Verif.gen.' + run,
               '-w', '-all', gen_phys(relpath)]
    else:
        cmd = ['coqc', '-R', '.', 'Verif', '-w', '-all', relpath]
    rc, out = sh(cmd, cwd=COQ, timeout=timeout)
    return rc == 0, out


def parse_assumptions(props_text, output):
    """Pair each `Print Assumptions X.` of a Props file with its output block."""
    names = re.findall(r'Print\s+Assumptions\s+([A-Za-z0-9_\.\']+)\s*\.', strip_coq_comments(props_text))
    blocks = []
    cur = None
    for line in output.splitlines():
        if line.startswith('Closed under the global context'):
            if cur is not None:
                blocks.append(cur)
            blocks.append([])
            cur = None
        elif line.startswith('Axioms:'):
            if cur is not None:
                blocks.append(cur)
            cur = []
        elif cur is not None:
            if re.match(r'^[A-Za-z_]', line):
                cur.append(line.split(':')[0].strip())
            # continuation lines (types) are ignored
    if cur is not None:
        blocks.append(cur)
    return names, blocks


def axiom_allowed(ax):
    return any(ax == p or ax.startswith(p) or ax.split('.')[-1] == p for p in ALLOWED_AXIOM_PREFIXES)


# ---------------------------------------------------------------------------
# Implementation side: scratch rebuild of /repo
# ---------------------------------------------------------------------------

def _src_hash(root):
    h = hashlib.sha256()
    names = ['setup.py']
    pd = os.path.join(root, 'pyiga')
    for f in sorted(os.listdir(pd)):
        if f.endswith(('.pyx', '.pxi', '.pxd', '.cc', '.h', '.hpp')):
            names.append('pyiga/' + f)
    for n in names:
        p = os.path.join(root, n)
        if os.path.exists(p):
            h.update(n.encode())
            h.update(open(p, 'rb').read())
    return h.hexdigest()[:20]


class Impl:
    """A scratch copy of /repo's working tree with freshly built extensions."""

    def __init__(self, tag):
        base = os.environ.get('VERIF_SCRATCH_BASE', '/var/tmp')
        self.dir = os.path.join(base, 'pyiga-verif-%s-%d' % (tag, os.getpid()))
        self.sha = None
        self.built = False

    def build(self):
        if self.built:
            return
        if os.path.exists(self.dir):
            shutil.rmtree(self.dir)
        os.makedirs(self.dir)
        rc, out = sh(['rsync', '-a', '--exclude', '.git', '--exclude', '*.so', '--exclude', '*_cy.c',
                      '--exclude', '*_cy.cpp', '--exclude', 'pyiga/assemblers.c', '--exclude', 'build',
                      '--exclude', 'notebooks', '--exclude', 'docs', '--exclude', '__pycache__',
                      '--exclude', '*.egg-info', REPO + '/', self.dir + '/'])
        if rc != 0:
            raise RuntimeError('rsync failed: ' + out)
        self.sha = _src_hash(self.dir)
        cdir = os.path.join(CACHE, 'ext', self.sha)
        with flock('ext-' + self.sha):
            if not os.path.isdir(cdir) or not any(f.endswith('.so') for f in os.listdir(cdir)):
                t0 = time.time()
                env = dict(os.environ, PYTHONHASHSEED='0')
                rc, out = sh([PY, 'setup.py', 'build_ext', '--inplace', '-j8'], cwd=self.dir, env=env, timeout=1800)
                if rc != 0:
                    raise ImplBuildError(out[-4000:])
                os.makedirs(cdir + '.tmp', exist_ok=True)
                for f in os.listdir(os.path.join(self.dir, 'pyiga')):
                    if f.endswith('.so'):
                        shutil.copy2(os.path.join(self.dir, 'pyiga', f), os.path.join(cdir + '.tmp', f))
                if os.path.isdir(cdir):
                    shutil.rmtree(cdir)
                os.rename(cdir + '.tmp', cdir)
                shutil.rmtree(os.path.join(self.dir, 'build'), ignore_errors=True)
                for f in os.listdir(os.path.join(self.dir, 'pyiga')):
                    if f.endswith(('_cy.c', '_cy.cpp')) or f == 'assemblers.c':
                        os.remove(os.path.join(self.dir, 'pyiga', f))
                log('[impl] built extensions for %s in %.0fs' % (self.sha, time.time() - t0))
                self._prune()
            else:
                for f in os.listdir(cdir):
                    dst = os.path.join(self.dir, 'pyiga', f)
                    if not os.path.exists(dst):
                        shutil.copy2(os.path.join(cdir, f), dst)
        self.built = True

    def _prune(self):
        d = os.path.join(CACHE, 'ext')
        ents = sorted((os.path.getmtime(os.path.join(d, e)), e) for e in os.listdir(d) if not e.endswith('.tmp'))
        for _, e in ents[:-10]:
            shutil.rmtree(os.path.join(d, e), ignore_errors=True)
            shutil.rmtree(os.path.join(CACHE, 'xdg', e), ignore_errors=True)

    def env(self, extra=None, hashseed='0', xdg=None):
        e = {k: v for k, v in os.environ.items() if k not in ('PYTHONPATH', 'PYTHONHOME', 'PYTHONSTARTUP')}
        e['PYTHONPATH'] = self.dir + os.pathsep + VERIF
        e['PYTHONHASHSEED'] = str(hashseed)
        e['PYTHONDONTWRITEBYTECODE'] = '1'
        e['XDG_CACHE_HOME'] = xdg or os.path.join(CACHE, 'xdg', self.sha, 'py-' + self.pysha())
        e['MPLBACKEND'] = 'Agg'
        e['PYIGA_VERIF'] = '1'
        e['VERIF_IMPL_DIR'] = self.dir
        if extra:
            e.update(extra)
        os.makedirs(e['XDG_CACHE_HOME'], exist_ok=True)
        return e

    def pysha(self):
        """Hash of the Python sources that determine generated assembler code and how it is built:
        a module compiled by a different code generator / compile.py must never be reused."""
        h = hashlib.sha256()
        for rel in ('pyiga/vform.py', 'pyiga/compile.py', 'pyiga/codegen/cython.py', 'pyiga/codegen/__init__.py'):
            pth = os.path.join(self.dir, rel)
            if os.path.exists(pth):
                h.update(rel.encode())
                h.update(open(pth, 'rb').read())
        return h.hexdigest()[:12]

    def run(self, script, payload, timeout=1200, extra_env=None, hashseed='0', xdg=None):
        """Run a driver script (path relative to /verif) in the implementation's
        interpreter; payload/return value are JSON."""
        self.build()
        inp = json.dumps(payload)
        p = subprocess.run([PY, os.path.join(VERIF, script)], input=inp, text=True,
                           stdout=subprocess.PIPE, stderr=subprocess.PIPE,
                           env=self.env(extra_env, hashseed, xdg), timeout=timeout, cwd=self.dir)
        if p.returncode != 0:
            raise DriverError('driver %s exited %d\n%s' % (script, p.returncode, p.stderr[-4000:]))
        # the result is the last line that parses as JSON (conda prints noise first)
        for line in reversed(p.stdout.splitlines()):
            line = line.strip()
            if line.startswith('{') or line.startswith('['):
                return json.loads(line)
        raise DriverError('driver %s printed no JSON\n%s\n%s' % (script, p.stdout[-2000:], p.stderr[-2000:]))

    def cleanup(self):
        shutil.rmtree(self.dir, ignore_errors=True)


class ImplBuildError(Exception):
    pass


class DriverError(Exception):
    pass


# ---------------------------------------------------------------------------
# A check run
# ---------------------------------------------------------------------------

class Ctx:
    def __init__(self, prop, tier, seed):
        self.prop = prop
        self.tier = tier
        self.seed = seed
        self.rng = random.Random('%s-%d' % (prop, seed))
        self.t0 = time.time()
        self.impl = Impl(prop)
        self.obligations = 0
        self.discharged = 0
        self.checker_cmds = []
        self.trusted = []
        self.theorems = {}
        self.broken = []          # names of theorems / ties that no longer check
        self.violations = []      # (signature, replay path, found_input)
        self.known_hits = []
        self.cov = {'evaluations': 0, 'distinct_nontrivial': 0, 'rule': '', 'samples': [],
                    'traces_validated_against_impl': 0, 'disagreements_checked': 0}
        self.assumptions = []
        self._distinct = set()
        self._findings = load_findings()
        self._nreplay = 0
        # generated Coq files of this run live in their own directory (concurrent runs of the
        # same property must not overwrite each other's case files)
        self.genrel = os.path.join('gen', 'r%d' % os.getpid())
        os.makedirs(gen_phys(self.genrel), exist_ok=True)
        os.makedirs(REPLAY, exist_ok=True)

    # -- stage 1 ------------------------------------------------------------
    def obligations_stage(self, props_rel, extra_targets=(), gate_dirs=()):
        """Build the property's theories, then recompile its Props file to
        collect the Print Assumptions output.  Returns True iff everything is
        discharged and closed under allowed axioms.  The vernacular gate scans
        coq/lib, the property's own directory and gate_dirs (other property
        directories this one imports); setup.sh scans everything."""
        dirs = {'lib', os.path.dirname(props_rel)} | set(gate_dirs) | {os.path.dirname(t) for t in extra_targets}
        bad = grep_gate([p for p in all_v_files() if os.path.relpath(p, COQ).split(os.sep)[0] in dirs])
        self.obligations += 1
        if bad:
            self.broken.append('grep-gate: ' + '; '.join(bad[:5]))
            log('[obligations] forbidden vernacular: %s' % bad[:5])
        else:
            self.discharged += 1
        props_abs = os.path.join(COQ, props_rel)
        txt = open(props_abs).read()
        thms = re.findall(r'(?m)^\s*(?:Theorem|Lemma|Corollary)\s+([A-Za-z0-9_\']+)', strip_coq_comments(txt))
        deps = [props_rel[:-2] + '.vo'] + list(extra_targets)
        ok, out, cmd, dt = coq_make(deps)
        if not ok and not re.search(r'File "([^"]+)", line (\d+)', out):
            # no source location: a failure of the tool itself (e.g. coqdep scanning a directory that
            # disappears); a proof that does not check names its file and line and fails again
            log('[obligations] build failed without a source location, retrying once:\n' + out[-600:])
            time.sleep(2)
            ok, out, cmd, dt = coq_make(deps)
        self.checker_cmds.append('cd coq && ' + cmd)
        if not ok:
            self.obligations += len(thms)
            m = re.search(r'File "([^"]+)", line (\d+)', out)
            where = m.group(0) if m else 'unknown location'
            self.broken.append('coq build failed (%s): %s' % (where, out[-1500:]))
            log('[obligations] BUILD FAILED at %s' % where)
            log(out[-3000:])
            return False
        with flock('coqbuild'):
            ok2, out2 = coqc_file(props_rel)
        self.checker_cmds.append('cd coq && coqc -R . Verif %s' % props_rel)
        names, blocks = parse_assumptions(txt, out2)
        self.obligations += len(thms)
        if not ok2 or len(names) != len(blocks) or set(thms) - set(names):
            self.broken.append('Props file did not compile or Print Assumptions incomplete: ' + out2[-800:])
            log('[obligations] Props compile problem:\n' + out2[-2000:])
            return False
        allok = True
        for n, b in zip(names, blocks):
            self.theorems[n] = b
            badax = [a for a in b if not axiom_allowed(a)]
            if badax:
                allok = False
                self.broken.append('theorem %s depends on undeclared axioms %s' % (n, badax))
            else:
                self.discharged += 1
            self.trusted.append('%s: %s' % (n, 'Closed under the global context' if not b else 'Axioms: ' + ', '.join(b)))
        log('[obligations] %d theorems checked (%s), build %.1fs' % (len(names), props_rel, dt))
        if self.tier == 'thorough' and os.environ.get('VERIF_NO_COQCHK') != '1':
            self.coqchk('Verif.' + props_rel[:-2].replace('/', '.'))
        return allok and not bad

    def coqchk(self, module, timeout=1500):
        """Independent re-check of the compiled property file and everything it
        depends on (thorough tier); the axiom list it prints goes into the evidence."""
        cmd = ['coqchk', '-silent', '-o', '-R', '.', 'Verif', module]
        with flock('coqbuild'):
            rc, out = sh(cmd, cwd=COQ, timeout=timeout)
        self.checker_cmds.append('cd coq && ' + ' '.join(cmd))
        self.obligations += 1
        tail = out[out.find('CONTEXT SUMMARY'):] if 'CONTEXT SUMMARY' in out else out[-1500:]
        if rc == 0:
            self.discharged += 1
            ax = re.findall(r'(?m)^\s+([A-Za-z0-9_\.]+)\s*$', tail[tail.find('Axioms'):]) if 'Axioms' in tail else []
            self.trusted.append('coqchk -o %s: ok; axioms of all loaded libraries: %s' % (module, ', '.join(ax) or 'none listed'))
            log('[coqchk] %s ok' % module)
        else:
            self.broken.append('coqchk failed for %s: %s' % (module, out[-600:]))
            log('[coqchk] FAILED\n' + out[-1500:])

    def selftest(self, name, vtext, timeout=300):
        """Harness self-test: a case file in which the expected output was
        deliberately perturbed MUST be reported as a disagreement (non-empty
        list); guards against a comparison that silently accepts everything."""
        ok, out = self.coq_eval(name, vtext, timeout=timeout)
        res = parse_coq_list_of_nat(out) if ok else None
        self.obligations += 1
        if res:
            self.discharged += 1
            return True
        self.broken.append('harness self-test %s: perturbed case was not flagged (%s)' % (name, out[-300:]))
        return False

    def gen_obligation(self, name, vtext, timeout=900):
        """Compile a generated file (translator output + the obligations about
        it).  Returns (ok, output)."""
        rel = os.path.join(self.genrel, name + '.v')
        with open(gen_phys(rel), 'w') as f:
            f.write(vtext)
        ensure_deps(vtext)
        ok, out = coqc_file(rel, timeout=timeout)
        self.checker_cmds.append('cd coq && coqc -R . Verif gen/<run>/%s.v' % name)
        self.obligations += 1
        if ok:
            self.discharged += 1
        return ok, out

    # -- stage 2 ------------------------------------------------------------
    def coq_eval(self, name, vtext, timeout=900):
        """Compile a generated case file; returns (ok, stdout)."""
        rel = os.path.join(self.genrel, name + '.v')
        with open(gen_phys(rel), 'w') as f:
            f.write(vtext)
        ensure_deps(vtext)
        return coqc_file(rel, timeout=timeout)

    def coq_eval_many(self, files, timeout=900):
        """files: list of (name, text).  Compiled in parallel.  Returns list of (name, ok, out)."""
        from concurrent.futures import ThreadPoolExecutor
        def one(nt):
            return (nt[0],) + tuple(self.coq_eval(nt[0], nt[1], timeout=timeout))
        with ThreadPoolExecutor(max_workers=NCPU) as ex:
            return list(ex.map(one, files))

    def count(self, key, nontrivial=True, n=1):
        """Count an explored case; key identifies it for distinctness."""
        self.cov['evaluations'] += n
        if nontrivial:
            k = hashlib.sha1(repr(key).encode()).digest()[:10]
            if k not in self._distinct:
                self._distinct.add(k)
                self.cov['distinct_nontrivial'] += 1

    def sample(self, obj, limit=4):
        if len(self.cov['samples']) < limit:
            self.cov['samples'].append(obj)

    # -- stage 3 ------------------------------------------------------------
    def report(self, signature, what, replay, found_input=True):
        """Report a violation of the property (or a known finding)."""
        for f in self._findings:
            if f.get('property') == self.prop and f.get('status') == 'open' and f.get('signature') == signature:
                if signature not in self.known_hits:
                    self.known_hits.append(signature)
                    log('KNOWN-FINDING: property=%s %s [%s]' % (self.prop, f.get('what', what), signature))
                return
        if any(v[0] == signature for v in self.violations):
            return
        self._nreplay += 1
        path = os.path.join(REPLAY, '%s-%d.json' % (self.prop, self._nreplay))
        with open(path, 'w') as f:
            json.dump({'property': self.prop, 'signature': signature, 'what': what, 'seed': self.seed,
                       'tier': self.tier, 'found_failing_input': found_input, 'replay': replay}, f, indent=1, default=str)
        self.violations.append((signature, path, found_input))
        log('VIOLATION property=%s replay=%s%s' % (self.prop, path, '' if found_input else ' no-failing-input-found'))
        log('  ' + what[:600])

    def finish(self, level='proof', extra=None):
        """Write the evidence file and return the exit code."""
        # anything broken for which the search found no input is still a violation
        if self.broken and not any(v[2] for v in self.violations) and not self.known_hits_cover_broken():
            self.report('broken-obligation', 'no longer shown to hold: ' + ' | '.join(self.broken)[:1500],
                        {'broken': self.broken}, found_input=False)
        cov = dict(self.cov)
        cov['obligations'] = self.obligations
        cov['discharged'] = self.discharged
        cov['checker_cmd'] = ' ; '.join(dict.fromkeys(self.checker_cmds)) or 'none'
        cov['trusted_base'] = self.trusted
        cov['broken'] = self.broken
        cov['known_findings_hit'] = self.known_hits
        if extra:
            cov.update(extra)
        ev = {'property_id': self.prop, 'tier': self.tier, 'seed': self.seed, 'level': level,
              'coverage': cov, 'assumptions': self.assumptions, 'wall_s': round(time.time() - self.t0, 2),
              'violations': len(self.violations)}
        os.makedirs(EVID, exist_ok=True)
        with open(os.path.join(EVID, self.prop + '.json'), 'w') as f:
            json.dump(ev, f, indent=1, default=str)
        self.impl.cleanup()
        if not self.violations and not self.broken and os.environ.get('VERIF_KEEP_GEN') != '1':
            shutil.rmtree(gen_phys(self.genrel), ignore_errors=True)   # kept for inspection otherwise
        log('[%s] tier=%s obligations=%d discharged=%d evaluations=%d distinct=%d violations=%d wall=%.1fs' % (
            self.prop, self.tier, self.obligations, self.discharged, cov['evaluations'],
            cov['distinct_nontrivial'], len(self.violations), time.time() - self.t0))
        return 1 if self.violations else 0

    def is_known(self, signature):
        """True iff known_findings.json lists this exact signature as an open finding of this property."""
        return any(f.get('property') == self.prop and f.get('status') == 'open' and f.get('signature') == signature
                   for f in self._findings)

    def known_hits_cover_broken(self):
        """A broken obligation is excused only when every broken item was
        explicitly tied to a known finding by the property module."""
        return bool(self.broken) and all(b.startswith('[known]') for b in self.broken)


def load_findings():
    p = os.path.join(VERIF, 'known_findings.json')
    if not os.path.exists(p):
        return []
    return json.load(open(p)).get('findings', [])


# ---------------------------------------------------------------------------
# helpers for writing Coq literals
# ---------------------------------------------------------------------------

def cz(n):
    n = int(n)
    return '(%d)%%Z' % n if n < 0 else '%d%%Z' % n


def cnat(n):
    return '%d%%nat' % int(n)


def cbool(b):
    return 'true' if b else 'false'


def clist(xs, f=str):
    return '[' + '; '.join(f(x) for x in xs) + ']'


def cpair(a, b):
    return '(%s, %s)' % (a, b)


def cq(fr):
    """A Fraction/int as a Coq Q literal (numerator # denominator)."""
    from fractions import Fraction
    fr = Fraction(fr)
    n, d = fr.numerator, fr.denominator
    return '((%d) # %d)' % (n, d)


def parse_coq_list_of_nat(out):
    """Parse the `= [..] : list nat` answer of an Eval; returns list of ints."""
    m = re.search(r'=\s*\[([^\]]*)\]', out.replace('\n', ' '))
    if not m:
        return None
    body = m.group(1).strip()
    if not body:
        return []
    return [int(re.sub(r'%\w+', '', x).strip().strip('()')) for x in body.split(';')]
