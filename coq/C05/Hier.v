(* C05 -- the hierarchical conjuncts.
   Part 1: finite sums over lists and products of ranges.
   Part 2: Kronecker lifting: tensor products of function-preserving 1-D transfers preserve
           the tensor-product functions (any number of axes, raveled C-order indices as in
           numpy.ravel_multi_index / scipy.sparse.kron).
   Part 3: an abstract multilevel basis with a two-scale relation (instantiated by part 2 with
           the B-spline bases of the levels of an HSpace): represent_fine, level-wise evaluation,
           truncation, virtual-hierarchy prolongators, prolongate_to.
   Source: pyiga/hierarchical.py:1059-1146 (represent_fine), 1148-1199 (truncate_one_level,
           thb_to_hb, hb_to_thb), 1294-1324 (virtual_hierarchy_prolongators), 1326-1356
           (coeffs_to_levelwise_funcs, grid_eval), 976-1057 (prolongate_to), utils.py:69-101. *)
From Coq Require Import QArith Qcanon ZArith List Bool Arith Lia.
From Verif.lib Require Import Bsp.
From Verif.C02 Require Import Proofs.
From Verif.C05 Require Import Model Proofs.
Import ListNotations.
Open Scope Qc_scope.

(* ------------------------------------------------------------------ *)
(* Part 1 *)
Lemma bigsum_app a b f : bigsum (a + b) f = bigsum a f + bigsum b (fun j => f (a + j)%nat).
Proof.
  induction b as [|b IH].
  - rewrite Nat.add_0_r. cbn [bigsum]. ring.
  - replace (a + S b)%nat with (S (a + b)) by lia. cbn [bigsum]. rewrite IH. ring.
Qed.

Lemma bigsum_prod n m f :
  bigsum (n * m) f = bigsum n (fun i => bigsum m (fun a => f (i * m + a)%nat)).
Proof.
  induction n as [|n IH]; [reflexivity|].
  replace (S n * m)%nat with (n * m + m)%nat by lia.
  rewrite bigsum_app, IH. cbn [bigsum]. reflexivity.
Qed.

Lemma bigsum_mul_distr n m f g :
  bigsum n f * bigsum m g = bigsum n (fun i => bigsum m (fun a => f i * g a)).
Proof.
  rewrite <- bigsum_scale_r. apply bigsum_ext. intros i _. rewrite bigsum_scale. reflexivity.
Qed.

(* sums over lists of labels *)
Fixpoint lsum {A} (l : list A) (f : A -> Qc) : Qc :=
  match l with [] => 0 | a :: r => f a + lsum r f end.

Lemma lsum_ext {A} (l : list A) f g : (forall a, In a l -> f a = g a) -> lsum l f = lsum l g.
Proof.
  induction l as [|a r IH]; intros H; [reflexivity|]. cbn [lsum].
  rewrite (H a (or_introl eq_refl)). rewrite IH; [reflexivity|]. intros b Hb. apply H. right. exact Hb.
Qed.
Lemma lsum_zero {A} (l : list A) f : (forall a, In a l -> f a = 0) -> lsum l f = 0.
Proof.
  induction l as [|a r IH]; intros H; [reflexivity|]. cbn [lsum].
  rewrite (H a (or_introl eq_refl)). rewrite IH; [ring|]. intros b Hb. apply H. right. exact Hb.
Qed.
Lemma lsum_plus {A} (l : list A) f g : lsum l (fun a => f a + g a) = lsum l f + lsum l g.
Proof. induction l as [|a r IH]; cbn [lsum]; [ring|rewrite IH; ring]. Qed.
Lemma lsum_scale {A} (l : list A) c f : lsum l (fun a => c * f a) = c * lsum l f.
Proof. induction l as [|a r IH]; cbn [lsum]; [ring|rewrite IH; ring]. Qed.
Lemma lsum_scale_r {A} (l : list A) c f : lsum l (fun a => f a * c) = lsum l f * c.
Proof. induction l as [|a r IH]; cbn [lsum]; [ring|rewrite IH; ring]. Qed.
Lemma lsum_app {A} (l1 l2 : list A) f : lsum (l1 ++ l2) f = lsum l1 f + lsum l2 f.
Proof. induction l1 as [|a r IH]; cbn [lsum app]; [ring|rewrite IH; ring]. Qed.
Lemma lsum_swap {A B} (l1 : list A) (l2 : list B) (f : A -> B -> Qc) :
  lsum l1 (fun a => lsum l2 (fun b => f a b)) = lsum l2 (fun b => lsum l1 (fun a => f a b)).
Proof.
  induction l1 as [|a r IH]; cbn [lsum].
  - symmetry. apply lsum_zero. reflexivity.
  - rewrite IH. rewrite <- lsum_plus. reflexivity.
Qed.
Lemma lsum_mul {A B} (l1 : list A) (l2 : list B) f g :
  lsum l1 f * lsum l2 g = lsum l2 (fun r => lsum l1 (fun a => f a * g r)).
Proof.
  rewrite <- lsum_scale. apply lsum_ext. intros r _. rewrite Qcmult_comm. rewrite <- lsum_scale. apply lsum_ext. intros a _. ring.
Qed.
Lemma lsum_map {A B} (g : A -> B) (l : list A) f : lsum (map g l) f = lsum l (fun a => f (g a)).
Proof. induction l as [|a r IH]; cbn [lsum map]; [reflexivity|rewrite IH; reflexivity]. Qed.
Lemma lsum_flat_map {A B} (g : A -> list B) (l : list A) f :
  lsum (flat_map g l) f = lsum l (fun a => lsum (g a) f).
Proof. induction l as [|a r IH]; cbn [lsum flat_map]; [reflexivity|rewrite lsum_app, IH; reflexivity]. Qed.

Lemma NoDup_app_l {A} (l1 l2 : list A) : NoDup (l1 ++ l2) -> NoDup l1.
Proof.
  induction l1 as [|a r IH]; intros H; [constructor|]. cbn in H. inversion H as [|? ? Hn Hr]; subst.
  constructor; [|apply IH; exact Hr]. intro Hin. apply Hn. apply in_app_iff. left. exact Hin.
Qed.

(* a label occurring exactly once carries the whole sum when everything else vanishes *)
Lemma lsum_single {A} (l : list A) (c : A) f :
  NoDup l -> In c l -> (forall a, In a l -> a <> c -> f a = 0) -> lsum l f = f c.
Proof.
  induction l as [|a r IH]; intros Hnd Hin Hz; [destruct Hin|].
  inversion Hnd as [|? ? Hna Hnd']; subst. cbn [lsum]. destruct Hin as [->|Hin].
  - rewrite lsum_zero; [ring|]. intros b Hb. apply Hz; [right; exact Hb|]. intro E. subst. contradiction.
  - rewrite (Hz a (or_introl eq_refl)) by (intro E; subst; contradiction).
    rewrite (IH Hnd' Hin); [ring|]. intros b Hb Hn. apply Hz; [right; exact Hb|exact Hn].
Qed.

(* a range sum restricted to the list of indices where the summand can be non-zero *)
Lemma bigsum_lsum n (l : list nat) f :
  NoDup l -> (forall j, In j l -> (j < n)%nat) -> (forall j, (j < n)%nat -> ~ In j l -> f j = 0) ->
  bigsum n f = lsum l f.
Proof.
  revert l. induction n as [|n IH]; intros l Hnd Hlt Hz.
  - destruct l as [|a r]; [reflexivity|]. exfalso. specialize (Hlt a (or_introl eq_refl)). lia.
  - cbn [bigsum]. destruct (in_dec Nat.eq_dec n l) as [Hin|Hnin].
    + destruct (in_split _ _ Hin) as [l1 [l2 ->]].
      apply NoDup_remove in Hnd. destruct Hnd as [Hnd Hn].
      assert (A1 : forall j, In j (l1 ++ l2) -> (j < n)%nat).
      { intros j Hj. assert (j < S n)%nat.
        { apply Hlt. apply in_app_iff. apply in_app_iff in Hj. destruct Hj; [left|right;right]; assumption. }
        assert (j <> n) by (intro; subst; contradiction). lia. }
      assert (A2 : forall j, (j < n)%nat -> ~ In j (l1 ++ l2) -> f j = 0).
      { intros j Hj Hnj. apply Hz; [lia|]. intro Hc. apply in_app_iff in Hc. destruct Hc as [Hc|[Hc|Hc]].
        - apply Hnj. apply in_app_iff. left; exact Hc.
        - lia.
        - apply Hnj. apply in_app_iff. right; exact Hc. }
      rewrite lsum_app. cbn [lsum]. rewrite (IH (l1 ++ l2) Hnd A1 A2). rewrite lsum_app. ring.
    + assert (A1 : forall j, In j l -> (j < n)%nat).
      { intros j Hj. assert (j < S n)%nat by (apply Hlt; exact Hj).
        assert (j <> n) by (intro; subst; contradiction). lia. }
      assert (A2 : forall j, (j < n)%nat -> ~ In j l -> f j = 0).
      { intros j Hj Hnj. apply Hz; [lia|exact Hnj]. }
      rewrite (Hz n) by (auto; lia). rewrite (IH l Hnd A1 A2). ring.
Qed.

(* ------------------------------------------------------------------ *)
(* Part 2: tensor products.  An axis is (knot vector, degree); multi-indices are raveled in C
   order (last axis fastest), exactly as numpy.ravel_multi_index and scipy.sparse.kron do. *)
Definition axisQ := (list Qc * nat)%type.
Fixpoint tp_dofs (axes : list axisQ) : nat :=
  match axes with [] => 1 | (kv, p) :: r => (numdofs kv p * tp_dofs r)%nat end.

(* the tensor-product B-spline with raveled index idx at the point xs (one coordinate per axis) *)
Fixpoint TPN (axes : list axisQ) (idx : nat) (xs : list Qc) : Qc :=
  match axes with
  | [] => 1
  | (kv, p) :: r =>
      Nref kv p (idx / tp_dofs r) (hd 0 xs) * TPN r (idx mod tp_dofs r) (tl xs)
  end.

(* Kronecker product of per-axis matrices (entry functions), raveled indices:
   utils.multi_kron_sparse / scipy.sparse.kron *)
Fixpoint kron (Ms : list (nat -> nat -> Qc)) (fine coarse : list axisQ) (J I : nat) : Qc :=
  match Ms, fine, coarse with
  | M :: Ms', (_ :: rf) as f0, (_ :: rc) =>
      M (J / tp_dofs rf)%nat (I / tp_dofs rc)%nat * kron Ms' rf rc (J mod tp_dofs rf) (I mod tp_dofs rc)
  | _, _, _ => 1
  end.

Lemma tp_dofs_pos_or axes : (0 < tp_dofs axes)%nat \/ tp_dofs axes = 0%nat.
Proof. lia. Qed.

(* per axis: coarse (kv1,p), fine (kv2,p), matrix M with the function-preservation property *)
Inductive axes_preserve : list (nat -> nat -> Qc) -> list axisQ -> list axisQ -> Prop :=
| ap_nil : axes_preserve [] [] []
| ap_cons M Ms kv1 kv2 p rc rf :
    (forall i x, (i < numdofs kv1 p)%nat ->
       Nref kv1 p i x = bigsum (numdofs kv2 p) (fun j => M j i * Nref kv2 p j x)) ->
    axes_preserve Ms rc rf ->
    axes_preserve (M :: Ms) ((kv1, p) :: rc) ((kv2, p) :: rf).

Lemma tp_preserves_l Ms coarse fine :
  axes_preserve Ms coarse fine ->
  forall I xs, (I < tp_dofs coarse)%nat ->
    TPN coarse I xs = bigsum (tp_dofs fine) (fun J => kron Ms fine coarse J I * TPN fine J xs).
Proof.
  induction 1 as [|M Ms kv1 kv2 p rc rf H1 Hr IH]; intros I xs HI.
  - cbn. ring.
  - cbn [tp_dofs TPN kron] in *.
    set (nc := tp_dofs rc) in *. set (nf := tp_dofs rf) in *.
    assert (Hnc : (0 < nc)%nat) by (destruct nc; [lia|lia]).
    assert (Hq : (I / nc < numdofs kv1 p)%nat) by (apply Nat.div_lt_upper_bound; lia).
    assert (Hm : (I mod nc < nc)%nat) by (apply Nat.mod_upper_bound; lia).
    rewrite (H1 _ (hd 0 xs) Hq). rewrite (IH _ (tl xs) Hm).
    rewrite bigsum_mul_distr. rewrite bigsum_prod.
    apply bigsum_ext. intros j Hj. apply bigsum_ext. intros b Hb.
    assert (Hnf : (0 < nf)%nat) by lia.
    replace ((j * nf + b) / nf)%nat with j by (rewrite Nat.div_add_l by lia; rewrite (Nat.div_small b nf) by lia; lia).
    replace ((j * nf + b) mod nf)%nat with b
      by (rewrite Nat.add_comm, Nat.mod_add by lia; rewrite Nat.mod_small by lia; reflexivity).
    ring.
Qed.

(* ------------------------------------------------------------------ *)
(* Part 3: multilevel basis with a two-scale relation *)
Section Multilevel.
  Variable X : Type.                          (* points of the parameter domain *)
  Variable n : nat -> nat.                    (* mesh(k).numbf *)
  Variable B : nat -> nat -> X -> Qc.         (* tensor-product basis function i of level k *)
  Variable P : nat -> nat -> nat -> Qc.       (* P k j i: tp_prolongation(k, kron=True)[j, i] *)
  Variable Lmax : nat.                        (* number of levels - 1: two_scale is available below it *)
  Hypothesis two_scale : forall k i x, (k < Lmax)%nat -> (i < n k)%nat ->
    B k i x = bigsum (n (S k)) (fun j => P k j i * B (S k) j x).

  (* represent_fine, hierarchical.py:1102-1143: walking down from level T, the accumulated matrix
     is multiplied from the right by the prolongator of the next coarser level; with truncate the
     rows act_indices[k+1] of that prolongator are zeroed first (:1135-1136).
     RF Z T m = the matrix P of the loop when k = T - m; Z lv j = true iff row j of level lv is
     zeroed (HB: Z = fun _ _ => false). *)
  Fixpoint RF (Z : nat -> nat -> bool) (T m : nat) (J i : nat) : Qc :=
    match m with
    | O => if Nat.eqb J i then 1 else 0
    | S m' => bigsum (n (T - m')%nat) (fun l => RF Z T m' J l * (if Z (T - m')%nat l then 0 else P (T - S m')%nat l i))
    end.
  Definition noZ : nat -> nat -> bool := fun _ _ => false.

  (* HB: every function of level T - m is reproduced on level T by its column *)
  Lemma RF_hb_preserves T : (T <= Lmax)%nat -> forall m i x, (m <= T)%nat -> (i < n (T - m))%nat ->
    B (T - m)%nat i x = bigsum (n T) (fun J => RF noZ T m J i * B T J x).
  Proof.
    intros HT. induction m as [|m IH]; intros i x Hm Hi.
    - rewrite Nat.sub_0_r in *. cbn [RF]. symmetry. rewrite (bigsum_one _ _ i Hi).
      + rewrite Nat.eqb_refl. ring.
      + intros j Hj N. destruct (Nat.eqb_spec j i); [lia|ring].
    - rewrite (two_scale (T - S m)%nat i x ltac:(lia) Hi).
      replace (S (T - S m)) with (T - m)%nat by lia.
      rewrite (bigsum_ext _ _ (fun l => bigsum (n T) (fun J => RF noZ T m J l * P (T - S m)%nat l i * B T J x))).
      2:{ intros l Hl. rewrite (IH l x) by lia. rewrite <- bigsum_scale. apply bigsum_ext. intros J _. ring. }
      rewrite bigsum_swap. apply bigsum_ext. intros J HJ. cbn [RF noZ]. rewrite <- bigsum_scale_r.
      reflexivity.
  Qed.

  (* coeffs_to_levelwise_funcs / grid_eval (:1326-1356): u l is the level-l coefficient array
     after split_coeffs and _reindex (zero outside the active functions).  The sum of the
     level-wise functions is the finest-level function whose coefficients are
     represent_fine * u. *)
  Definition levelwise (T : nat) (u : nat -> nat -> Qc) (x : X) : Qc :=
    bigsum (S T) (fun l => bigsum (n l) (fun i => u l i * B l i x)).
  Definition fine_coeff (Z : nat -> nat -> bool) (T : nat) (u : nat -> nat -> Qc) (J : nat) : Qc :=
    bigsum (S T) (fun l => bigsum (n l) (fun i => RF Z T (T - l)%nat J i * u l i)).

  Lemma levelwise_eval_eq_fine_l T u x :
    (T <= Lmax)%nat ->
    levelwise T u x = bigsum (n T) (fun J => fine_coeff noZ T u J * B T J x).
  Proof.
    intros HTL. unfold levelwise, fine_coeff.
    rewrite (bigsum_ext (n T) _ (fun J => bigsum (S T) (fun l => bigsum (n l) (fun i => RF noZ T (T - l)%nat J i * u l i * B T J x)))).
    2:{ intros J _. rewrite <- bigsum_scale_r. apply bigsum_ext. intros l _. rewrite <- bigsum_scale_r. reflexivity. }
    rewrite bigsum_swap. apply bigsum_ext. intros l Hl.
    rewrite bigsum_swap. apply bigsum_ext. intros i Hi.
    pose proof (RF_hb_preserves T HTL (T - l) i x ltac:(lia)) as R.
    replace (T - (T - l))%nat with l in R by lia. rewrite (R Hi).
    rewrite <- bigsum_scale. apply bigsum_ext. intros J _. ring.
  Qed.

  (* ---- truncation, two levels (one refinement step) ------------------------------------
     THB coefficients c on levels (T-1, T): coeffs_to_levelwise_funcs first applies thb_to_hb =
     truncate_one_level(T-1) = I - A, where A adds to the coefficient of the level-T function j in
     act(T) the level-(T-1) coefficients times P[j, i] (:1148-1173).  Evaluating level-wise with
     those HB coefficients gives the finest-level function with coefficients
     represent_fine(truncate=True) * c. *)
  Definition thb_to_hb2 (T : nat) (actT : nat -> bool) (u : nat -> nat -> Qc) : nat -> nat -> Qc :=
    fun l j => if Nat.eqb l T
               then u T j - (if actT j then bigsum (n (T - 1)%nat) (fun i => P (T - 1)%nat j i * u (T - 1)%nat i) else 0)
               else u l j.

  Lemma represent_fine_thb_two_level_l T actT u x :
    (1 <= T <= Lmax)%nat ->
    (forall l i, (l < T - 1)%nat -> u l i = 0) ->                (* only the two finest levels carry coefficients *)
    (forall j, actT j = false -> u T j = 0) ->                   (* _reindex: zero outside the active functions *)
    levelwise T (thb_to_hb2 T actT u) x
    = bigsum (n T) (fun J => fine_coeff (fun lv j => Nat.eqb lv T && actT j) T u J * B T J x).
  Proof.
    intros HT Hlow Hact. rewrite levelwise_eval_eq_fine_l by lia. apply bigsum_ext. intros J HJ. f_equal.
    unfold fine_coeff. destruct T as [|T']; [lia|]. cbn [bigsum].
    replace (S T' - S T')%nat with 0%nat by lia. replace (S T' - T')%nat with 1%nat by lia.
    (* levels below T-1 contribute nothing on either side *)
    assert (E : forall Z v, (forall l i, (l < T')%nat -> v l i = 0) ->
              bigsum T' (fun l => bigsum (n l) (fun i => RF Z (S T') (S T' - l)%nat J i * v l i)) = 0).
    { intros Z v Hv. apply bigsum_zero. intros l Hl. apply bigsum_zero. intros i _. rewrite Hv by lia. ring. }
    rewrite (E noZ (thb_to_hb2 (S T') actT u)).
    2:{ intros l i Hl. unfold thb_to_hb2. destruct (Nat.eqb_spec l (S T')); [lia|]. apply Hlow. lia. }
    rewrite (E _ u) by (intros l i Hl; apply Hlow; lia).
    (* level T: identity block *)
    assert (I1 : forall Z v, bigsum (n (S T')) (fun i => RF Z (S T') 0 J i * v i) = v J).
    { intros Z v. cbn [RF]. rewrite (bigsum_one _ _ J HJ).
      - rewrite Nat.eqb_refl. ring.
      - intros j Hj N. destruct (Nat.eqb_spec J j); [lia|ring]. }
    rewrite (I1 noZ (thb_to_hb2 (S T') actT u (S T'))). rewrite (I1 _ (u (S T'))).
    (* level T-1: one prolongation step, rows act(T) zeroed on the right-hand side *)
    assert (R1 : forall Z i, RF Z (S T') 1 J i = if Z (S T') J then 0 else P T' J i).
    { intros Z i. cbn [RF]. replace (S T' - 0)%nat with (S T') by lia. replace (S T' - 1)%nat with T' by lia.
      rewrite (bigsum_one _ _ J HJ).
      - rewrite Nat.eqb_refl. ring.
      - intros j Hj N. destruct (Nat.eqb_spec J j); [lia|ring]. }
    unfold thb_to_hb2 at 2. rewrite Nat.eqb_refl. replace (S T' - 1)%nat with T' by lia.
    rewrite (bigsum_ext (n T') _ (fun i => P T' J i * u T' i)).
    2:{ intros i _. rewrite R1. unfold noZ, thb_to_hb2. destruct (Nat.eqb_spec T' (S T')); [lia|]. reflexivity. }
    rewrite (bigsum_ext (n T') (fun i => RF _ (S T') 1 J i * u T' i)
               (fun i => (if actT J then 0 else P T' J i) * u T' i)).
    2:{ intros i _. rewrite R1. rewrite Nat.eqb_refl. cbn [andb]. reflexivity. }
    destruct (actT J) eqn:EA.
    - rewrite (bigsum_zero (n T') (fun i => 0 * u T' i)) by (intros; ring). ring.
    - rewrite (Hact J EA). ring.
  Qed.

  (* ---- virtual hierarchy, HB (:1294-1316) ------------------------------------------------
     act k / deact k: raveled indices of the active / deactivated functions of level k
     (active_indices(), deactivated_indices()).  The dofs of virtual level k, in matrix order:
     the active functions of levels 0..k (canonical order), then the deactivated ones of level k. *)
  Variables act deact : nat -> list nat.
  Definition dof := (nat * nat)%type.
  Definition dof_eqb (a b : dof) : bool := Nat.eqb (fst a) (fst b) && Nat.eqb (snd a) (snd b).
  Definition memb (i : nat) (l : list nat) : bool := existsb (Nat.eqb i) l.
  Definition fnHB (d : dof) (x : X) : Qc := B (fst d) (snd d) x.
  Definition dofsV (k : nat) : list dof :=
    flat_map (fun l => map (pair l) (act l)) (seq 0 k) ++ map (pair k) (act k ++ deact k).
  (* P_hb = bmat((eye(nt[k]), None), (None, kron_partial(Ps[k], rows=IR[k+1])[:, ID[k]])), entries
     addressed by the dofs they belong to *)
  Definition Phb (k : nat) (r c : dof) : Qc :=
    if Nat.eqb (fst c) k && memb (snd c) (deact k)
    then (if Nat.eqb (fst r) (S k) && memb (snd r) (act (S k) ++ deact (S k)) then P k (snd r) (snd c) else 0)
    else if dof_eqb r c then 1 else 0.

  Lemma memb_In i l : memb i l = true <-> In i l.
  Proof.
    unfold memb. rewrite existsb_exists. split.
    - intros [j [Hj E]]. apply Nat.eqb_eq in E. subst. exact Hj.
    - intros H. exists i. split; [exact H|apply Nat.eqb_refl].
  Qed.
  Lemma dof_eqb_eq a b : dof_eqb a b = true <-> a = b.
  Proof.
    destruct a, b. unfold dof_eqb. cbn. rewrite andb_true_iff, !Nat.eqb_eq. split; [intros [-> ->]; reflexivity|intros E; inversion E; auto].
  Qed.

  Lemma lsum_dofsV k f :
    lsum (dofsV k) f = lsum (seq 0 k) (fun l => lsum (act l) (fun i => f (l, i)))
                       + lsum (act k ++ deact k) (fun i => f (k, i)).
  Proof.
    unfold dofsV. rewrite lsum_app, lsum_flat_map, lsum_map. f_equal.
    apply lsum_ext. intros l _. apply lsum_map.
  Qed.

  Hypothesis idx_nodup : forall k, NoDup (act k ++ deact k).
  Hypothesis idx_range : forall k j, In j (act k ++ deact k) -> (j < n k)%nat.
  (* the children of a deactivated function all lie in the refined region of the next level
     (support of a child is contained in the support of its parent, which is covered by
     active/deactivated cells of level k+1): a consequence of the C04 invariant funcs_inv and
     of the locality of the two-scale relation, stated here as an explicit hypothesis *)
  Hypothesis children_closed : forall k i j, In i (deact k) -> (j < n (S k))%nat ->
    P k j i <> 0 -> In j (act (S k) ++ deact (S k)).

  Lemma act_not_deact k i : In i (act k) -> ~ In i (deact k).
  Proof.
    intros Ha Hd. pose proof (idx_nodup k) as H. induction (act k) as [|a r IH]; [destruct Ha|].
    cbn in H. inversion H as [|? ? Hn Hr]; subst. destruct Ha as [->|Ha].
    - apply Hn. apply in_app_iff. right. exact Hd.
    - apply IH; assumption.
  Qed.

  Lemma vh_hb_level_l k c x :
    (k < Lmax)%nat -> In c (dofsV k) -> fnHB c x = lsum (dofsV (S k)) (fun r => Phb k r c * fnHB r x).
  Proof.
    intros HkL Hc. rewrite lsum_dofsV. unfold dofsV in Hc. apply in_app_iff in Hc.
    assert (Hcase : (exists l i, (l <= k)%nat /\ In i (act l) /\ c = (l, i)) \/ (exists i, In i (deact k) /\ c = (k, i))).
    { destruct Hc as [Hc|Hc].
      - apply in_flat_map in Hc. destruct Hc as [l [Hl Hc]]. apply in_map_iff in Hc. destruct Hc as [i [E Hi]].
        apply in_seq in Hl. left. exists l, i. repeat split; auto; lia.
      - apply in_map_iff in Hc. destruct Hc as [i [E Hi]]. apply in_app_iff in Hi. destruct Hi as [Hi|Hi].
        + left. exists k, i. repeat split; auto.
        + right. exists i. split; auto. }
    destruct Hcase as [[l [i [Hl [Hi ->]]]]|[i [Hi ->]]].
    - (* an active function of a level <= k keeps its coefficient *)
      assert (Hsel : Nat.eqb (fst (l, i)) k && memb (snd (l, i)) (deact k) = false).
      { cbn [fst snd]. destruct (Nat.eqb_spec l k) as [->|]; [|reflexivity]. cbn [andb].
        destruct (memb i (deact k)) eqn:E; [|reflexivity]. apply memb_In in E. exfalso. eapply act_not_deact; eassumption. }
      assert (Hrow : forall r, Phb k r (l, i) = if dof_eqb r (l, i) then 1 else 0).
      { intros r. unfold Phb. rewrite Hsel. reflexivity. }
      rewrite (lsum_ext (seq 0 (S k)) _ (fun l' => if Nat.eqb l' l then fnHB (l, i) x else 0)).
      2:{ intros l' Hl'. destruct (Nat.eqb_spec l' l) as [->|Nl].
          - rewrite (lsum_single (act l) i).
            + rewrite Hrow. replace (dof_eqb (l, i) (l, i)) with true by (symmetry; apply dof_eqb_eq; reflexivity). ring.
            + pose proof (idx_nodup l) as H. apply NoDup_app_l in H. exact H.
            + exact Hi.
            + intros a Ha Na. rewrite Hrow. destruct (dof_eqb (l, a) (l, i)) eqn:E; [|ring].
              apply dof_eqb_eq in E. inversion E. contradiction.
          - apply lsum_zero. intros a Ha. rewrite Hrow. destruct (dof_eqb (l', a) (l, i)) eqn:E; [|ring].
            apply dof_eqb_eq in E. inversion E. contradiction. }
      rewrite (lsum_single (seq 0 (S k)) l).
      + rewrite Nat.eqb_refl. rewrite lsum_zero; [ring|].
        intros a Ha. rewrite Hrow. destruct (dof_eqb (S k, a) (l, i)) eqn:E; [|ring].
        apply dof_eqb_eq in E. inversion E. lia.
      + apply seq_NoDup.
      + apply in_seq. lia.
      + intros a Ha Na. destruct (Nat.eqb_spec a l); [contradiction|reflexivity].
    - (* a deactivated function of level k is replaced by its children on level k+1 *)
      assert (Hsel : Nat.eqb (fst (k, i)) k && memb (snd (k, i)) (deact k) = true).
      { cbn [fst snd]. rewrite Nat.eqb_refl. cbn [andb]. apply memb_In. exact Hi. }
      rewrite lsum_zero.
      2:{ intros l' Hl'. apply in_seq in Hl'. apply lsum_zero. intros a Ha. unfold Phb. rewrite Hsel.
          cbn [fst snd]. destruct (Nat.eqb_spec l' (S k)); [lia|]. cbn [andb]. ring. }
      unfold fnHB at 1. cbn [fst snd].
      assert (Hik : (i < n k)%nat) by (apply idx_range; apply in_app_iff; right; exact Hi).
      rewrite (two_scale k i x HkL Hik).
      rewrite (bigsum_lsum (n (S k)) (act (S k) ++ deact (S k))).
      + rewrite Qcplus_0_l. apply lsum_ext. intros j Hj. unfold Phb. rewrite Hsel. cbn [fst snd].
        rewrite Nat.eqb_refl. cbn [andb]. replace (memb j (act (S k) ++ deact (S k))) with true by (symmetry; apply memb_In; exact Hj).
        reflexivity.
      + apply idx_nodup.
      + apply idx_range.
      + intros j Hj Hn. destruct (Qc_eq_dec (P k j i) 0) as [E|E]; [rewrite E; ring|].
        exfalso. apply Hn. eapply children_closed; eassumption.
  Qed.

  (* ---- prolongate_to, repaired (uncapped) propagation (:1033-1056 after 78cb8af) ---------
     act/deact are those of the FINE space.  A coarse function that is not active in the fine
     space is deactivated there; its coefficient vector d on the deactivated functions of level l
     is pushed to level l+1 (P_act = P[fa, fd_prev] @ P_current goes to the output,
     P_deact = P[fd, fd_prev] @ P_current is propagated) until no deactivated functions remain. *)
  Definition dstep (l : nat) (d : nat -> Qc) : nat -> Qc :=
    fun j => lsum (deact l) (fun s => P l j s * d s).
  Fixpoint expand (m l : nat) (d : nat -> Qc) (x : X) : Qc :=
    match m with
    | O => lsum (deact l) (fun s => d s * B l s x)
    | S m' => lsum (act (S l)) (fun j => dstep l d j * B (S l) j x) + expand m' (S l) (dstep l d) x
    end.

  Lemma deact_step l d x :
    (l < Lmax)%nat ->
    lsum (deact l) (fun s => d s * B l s x)
    = lsum (act (S l)) (fun j => dstep l d j * B (S l) j x)
      + lsum (deact (S l)) (fun j => dstep l d j * B (S l) j x).
  Proof.
    intros HlL. rewrite <- lsum_app.
    rewrite (lsum_ext (deact l) _ (fun s => lsum (act (S l) ++ deact (S l)) (fun j => P l j s * d s * B (S l) j x))).
    2:{ intros s Hs. assert (Hsn : (s < n l)%nat) by (apply idx_range; apply in_app_iff; right; exact Hs).
        rewrite (two_scale l s x HlL Hsn).
        rewrite (bigsum_lsum (n (S l)) (act (S l) ++ deact (S l))).
        - rewrite <- lsum_scale. apply lsum_ext. intros j _. ring.
        - apply idx_nodup.
        - apply idx_range.
        - intros j Hj Hn. destruct (Qc_eq_dec (P l j s) 0) as [E|E]; [rewrite E; ring|].
          exfalso. apply Hn. eapply children_closed; eassumption. }
    rewrite lsum_swap. apply lsum_ext. intros j _. unfold dstep. rewrite <- lsum_scale_r. reflexivity.
  Qed.

  Lemma prolongate_expand_l : forall m l d x, (l + m <= Lmax)%nat ->
    lsum (deact l) (fun s => d s * B l s x) = expand m l d x.
  Proof.
    induction m as [|m IH]; intros l d x Hlm; [reflexivity|].
    cbn [expand]. rewrite deact_step by lia. rewrite (IH (S l)) by lia. reflexivity.
  Qed.

  (* the part of `expand` that lands on active functions: what prolongate_to writes to `out` *)
  Fixpoint expand_act (m l : nat) (d : nat -> Qc) (x : X) : Qc :=
    match m with
    | O => 0
    | S m' => lsum (act (S l)) (fun j => dstep l d j * B (S l) j x) + expand_act m' (S l) (dstep l d) x
    end.

  Lemma expand_terminates : forall m l d x, deact (l + m)%nat = [] -> expand m l d x = expand_act m l d x.
  Proof.
    induction m as [|m IH]; intros l d x H.
    - rewrite Nat.add_0_r in H. cbn [expand expand_act]. rewrite H. reflexivity.
    - cbn [expand expand_act]. rewrite IH; [reflexivity|]. replace (S l + m)%nat with (l + S m)%nat by lia. exact H.
  Qed.

  (* a replaced coarse function (level l, index i, deactivated in the fine space) equals the
     combination of ACTIVE fine functions of the levels l+1 .. l+m that the propagation produces,
     as soon as level l+m has no deactivated functions -- for every m, i.e. without any
     disparity cap *)
  Lemma prolongate_to_replaced_l l i m x :
    (l + m <= Lmax)%nat -> In i (deact l) -> deact (l + m)%nat = [] ->
    B l i x = expand_act m l (fun s => if Nat.eqb s i then 1 else 0) x.
  Proof.
    intros HL Hi Hm. rewrite <- expand_terminates by exact Hm. rewrite <- prolongate_expand_l by exact HL.
    rewrite (lsum_single (deact l) i).
    - rewrite Nat.eqb_refl. ring.
    - pose proof (idx_nodup l) as H. clear -H. induction (act l) as [|a r IH]; [exact H|]. cbn in H. inversion H; auto.
    - exact Hi.
    - intros s Hs Hn. destruct (Nat.eqb_spec s i); [contradiction|ring].
  Qed.

  (* ---- THB, the code as it is (:1318-1323): prolongators[k] = truncate_one_level(k,
     num_rows=P.shape[0], inverse=True) @ P_hb[k], and truncate_one_level(k, inverse=True) = I + A,
     A[(k+1, j), (l, i)] = represent_fine(lv=k+1, rows=act(k+1), truncate=False)[j, (l, i)] for the
     active functions (l, i) of levels l <= k, j in act(k+1)  (:1148-1173) *)
  Definition Aold (k : nat) (r c : dof) : Qc :=
    if Nat.eqb (fst r) (S k) && memb (snd r) (act (S k)) && (fst c <=? k)%nat && memb (snd c) (act (fst c))
    then RF noZ (S k) (S k - fst c) (snd r) (snd c) else 0.
  Definition Pthb_old (k : nat) (r c : dof) : Qc :=
    Phb k r c + lsum (dofsV (S k)) (fun s => Aold k r s * Phb k s c).
  (* THB basis function of virtual level T: represent_fine(lv=T, truncate=True), whose zeroed
     rows are act_indices[lv] (on the top level: active and deactivated) *)
  Definition Zthb (T : nat) : nat -> nat -> bool :=
    fun lv j => if Nat.eqb lv T then memb j (act T ++ deact T) else memb j (act lv).
  Definition fnTHB (T : nat) (d : dof) (x : X) : Qc :=
    bigsum (n T) (fun J => RF (Zthb T) T (T - fst d) J (snd d) * B T J x).
End Multilevel.

(* ------------------------------------------------------------------ *)
(* transfers between families of functions labelled by their dofs *)
Section Labelled.
  Variables (D X : Type).
  Definition lpres (D1 D2 : list D) (f1 f2 : D -> X -> Qc) (M : D -> D -> Qc) : Prop :=
    forall c x, In c D1 -> f1 c x = lsum D2 (fun r => M r c * f2 r x).

  Lemma lpres_compose D1 D2 D3 f1 f2 f3 M N :
    lpres D1 D2 f1 f2 M -> lpres D2 D3 f2 f3 N ->
    lpres D1 D3 f1 f3 (fun r c => lsum D2 (fun s => N r s * M s c)).
  Proof.
    intros H1 H2 c x Hc. rewrite (H1 c x Hc).
    rewrite (lsum_ext D2 _ (fun s => lsum D3 (fun r => N r s * M s c * f3 r x))).
    2:{ intros s Hs. rewrite (H2 s x Hs). rewrite <- lsum_scale. apply lsum_ext. intros r _. ring. }
    rewrite lsum_swap. apply lsum_ext. intros r _. rewrite <- lsum_scale_r. reflexivity.
  Qed.

  (* change of basis on both sides: g_i = f_i combined with the columns of T_i (THB functions in
     terms of HB functions, T_i = thb_to_hb); if H2 undoes T2 then H2 * M * T1 transfers the g's *)
  Lemma lpres_change_of_basis D1 D2 f1 f2 M T1 T2 H2 :
    lpres D1 D2 f1 f2 M ->
    (forall r (W : D -> Qc), In r D2 ->
        lsum D2 (fun a => W a * lsum D2 (fun r' => T2 r r' * H2 r' a)) = W r) ->
    lpres D1 D2 (fun c x => lsum D1 (fun b => T1 b c * f1 b x))
                (fun c x => lsum D2 (fun r => T2 r c * f2 r x))
                (fun r' c => lsum D2 (fun a => H2 r' a * lsum D1 (fun b => M a b * T1 b c))).
  Proof.
    intros HM Hinv c x Hc. cbv beta.
    set (W := fun a => lsum D1 (fun b => M a b * T1 b c)).
    (* left: sum_a W a * f2 a *)
    rewrite (lsum_ext D1 _ (fun b => lsum D2 (fun a => M a b * T1 b c * f2 a x))).
    2:{ intros b Hb. rewrite (HM b x Hb). rewrite <- lsum_scale. apply lsum_ext. intros a _. ring. }
    rewrite lsum_swap.
    rewrite (lsum_ext D2 _ (fun a => W a * f2 a x)) by (intros a _; unfold W; rewrite <- lsum_scale_r; reflexivity).
    (* right *)
    symmetry.
    rewrite (lsum_ext D2 _ (fun r' => lsum D2 (fun r => lsum D2 (fun a => f2 r x * (W a * (T2 r r' * H2 r' a)))))).
    2:{ intros r' _. rewrite lsum_mul. apply lsum_ext; intros r _. apply lsum_ext; intros a _. unfold W. ring. }
    rewrite lsum_swap. apply lsum_ext. intros r Hr.
    rewrite lsum_swap.
    rewrite (lsum_ext D2 _ (fun a => f2 r x * (W a * lsum D2 (fun r' => T2 r r' * H2 r' a)))).
    2:{ intros a _. rewrite <- !lsum_scale. apply lsum_ext. intros r' _. reflexivity. }
    rewrite lsum_scale. rewrite (Hinv r W Hr). ring.
  Qed.
End Labelled.

(* the repaired THB prolongator of virtual level k: change from the THB to the HB basis on level k
   (T1 = thb_to_hb of virtual level k), the HB prolongator, change back on level k+1 (H2 undoing
   T2 = thb_to_hb of virtual level k+1); THB functions = HB functions combined with the columns of
   thb_to_hb *)
Lemma vh_thb_repaired_l (X : Type) n (B : nat -> nat -> X -> Qc) P Lmax
  (two_scale : forall k i x, (k < Lmax)%nat -> (i < n k)%nat ->
     B k i x = bigsum (n (S k)) (fun j => P k j i * B (S k) j x))
  act deact
  (idx_nodup : forall k, NoDup (act k ++ deact k))
  (idx_range : forall k j, In j (act k ++ deact k) -> (j < n k)%nat)
  (children_closed : forall k i j, In i (deact k) -> (j < n (S k))%nat -> P k j i <> 0 ->
     In j (act (S k) ++ deact (S k)))
  k (T1 T2 H2 : dof -> dof -> Qc) :
  (k < Lmax)%nat ->
  (forall r (W : dof -> Qc), In r (dofsV act deact (S k)) ->
      lsum (dofsV act deact (S k)) (fun a => W a * lsum (dofsV act deact (S k)) (fun r' => T2 r r' * H2 r' a)) = W r) ->
  lpres dof X (dofsV act deact k) (dofsV act deact (S k))
        (fun c x => lsum (dofsV act deact k) (fun b => T1 b c * fnHB X B b x))
        (fun c x => lsum (dofsV act deact (S k)) (fun r => T2 r c * fnHB X B r x))
        (fun r' c => lsum (dofsV act deact (S k))
                          (fun a => H2 r' a * lsum (dofsV act deact k) (fun b => Phb P act deact k a b * T1 b c))).
Proof.
  intros Hk Hinv. apply lpres_change_of_basis; [|exact Hinv].
  intros c x Hc. eapply vh_hb_level_l; eauto.
Qed.

(* ------------------------------------------------------------------ *)
(* packaged hypotheses and statements used by Props.v *)
Definition two_scale_hyp {X : Type} (n : nat -> nat) (B : nat -> nat -> X -> Qc)
           (P : nat -> nat -> nat -> Qc) (Lmax : nat) : Prop :=
  forall k i x, (k < Lmax)%nat -> (i < n k)%nat ->
    B k i x = bigsum (n (S k)) (fun j => P k j i * B (S k) j x).

Definition index_hyp (n : nat -> nat) (P : nat -> nat -> nat -> Qc) (act deact : nat -> list nat) : Prop :=
  (forall k, NoDup (act k ++ deact k))
  /\ (forall k j, In j (act k ++ deact k) -> (j < n k)%nat)
  /\ (forall k i j, In i (deact k) -> (j < n (S k))%nat -> P k j i <> 0 -> In j (act (S k) ++ deact (S k))).

(* the levels of an HSpace: axes k = the (knot vector, degree) pairs of level k, Ms k = the 1-D
   prolongations from level k to k+1; if every 1-D prolongation preserves the functions (e.g. by
   prolongation_preserves), the tensor-product bases satisfy the two-scale relation with the
   Kronecker products *)
Lemma tp_two_scale_l (axes : nat -> list axisQ) (Ms : nat -> list (nat -> nat -> Qc)) Lmax :
  (forall k, (k < Lmax)%nat -> axes_preserve (Ms k) (axes k) (axes (S k))) ->
  two_scale_hyp (fun k => tp_dofs (axes k)) (fun k i xs => TPN (axes k) i xs)
                (fun k => kron (Ms k) (axes (S k)) (axes k)) Lmax.
Proof. intros H k i x Hk Hi. apply tp_preserves_l; auto. Qed.

Lemma axes_preserve_prolongation kv p us Ms rc rf :
  kv_ok kv p -> Forall (in_dom kv) us -> axes_preserve Ms rc rf ->
  axes_preserve (get2 (prolongation_spec kv p us) :: Ms) ((kv, p) :: rc) ((refine_kv kv p us, p) :: rf).
Proof.
  intros Hok Hd Hr. constructor; [|exact Hr]. intros i x Hi. apply prolongation_preserves_l; assumption.
Qed.

Lemma represent_fine_hb_l {X} n (B : nat -> nat -> X -> Qc) P Lmax :
  two_scale_hyp n B P Lmax ->
  forall T m i x, (T <= Lmax)%nat -> (m <= T)%nat -> (i < n (T - m))%nat ->
    B (T - m)%nat i x = bigsum (n T) (fun J => RF n P noZ T m J i * B T J x).
Proof. intros H T m i x HT Hm Hi. eapply RF_hb_preserves; eauto. Qed.

Lemma levelwise_l {X} n (B : nat -> nat -> X -> Qc) P Lmax :
  two_scale_hyp n B P Lmax ->
  forall T u x, (T <= Lmax)%nat ->
    levelwise X n B T u x = bigsum (n T) (fun J => fine_coeff n P noZ T u J * B T J x).
Proof. intros H T u x HT. eapply levelwise_eval_eq_fine_l; eauto. Qed.

Lemma levelwise_thb2_l {X} n (B : nat -> nat -> X -> Qc) P Lmax :
  two_scale_hyp n B P Lmax ->
  forall T actT u x, (1 <= T <= Lmax)%nat ->
    (forall l i, (l < T - 1)%nat -> u l i = 0) -> (forall j, actT j = false -> u T j = 0) ->
    levelwise X n B T (thb_to_hb2 n P T actT u) x
    = bigsum (n T) (fun J => fine_coeff n P (fun lv j => Nat.eqb lv T && actT j) T u J * B T J x).
Proof. intros H T actT u x HT H1 H2. eapply represent_fine_thb_two_level_l; eauto. Qed.

Lemma vh_hb_l {X} n (B : nat -> nat -> X -> Qc) P Lmax act deact :
  two_scale_hyp n B P Lmax -> index_hyp n P act deact ->
  forall k, (k < Lmax)%nat ->
    lpres dof X (dofsV act deact k) (dofsV act deact (S k)) (fnHB X B) (fnHB X B) (Phb P act deact k).
Proof. intros H [A [B' C]] k Hk c x Hc. eapply vh_hb_level_l; eauto. Qed.

(* composition of the HB prolongators of the levels k, k+1, ..., k+m-1 *)
Fixpoint Phb_chain (P : nat -> nat -> nat -> Qc) (act deact : nat -> list nat) (k m : nat) : dof -> dof -> Qc :=
  match m with
  | O => fun r c => if dof_eqb r c then 1 else 0
  | S m' => fun r c => lsum (dofsV act deact (k + m')) (fun s => Phb P act deact (k + m') r s * Phb_chain P act deact k m' s c)
  end.

Lemma dofsV_nodup_single act deact k (f : dof -> Qc) c :
  (forall k, NoDup (act k ++ deact k)) -> In c (dofsV act deact k) ->
  lsum (dofsV act deact k) (fun r => (if dof_eqb r c then 1 else 0) * f r) = f c.
Proof.
  intros Hnd Hc. rewrite lsum_dofsV. unfold dofsV in Hc. apply in_app_iff in Hc. destruct c as [l i].
  assert (D : forall l' a, (if dof_eqb (l', a) (l, i) then 1 else 0) * f (l', a)
                           = if Nat.eqb l' l && Nat.eqb a i then f (l, i) else 0).
  { intros l' a. unfold dof_eqb. cbn [fst snd]. destruct (Nat.eqb_spec l' l) as [->|]; destruct (Nat.eqb_spec a i) as [->|]; cbn [andb]; ring. }
  assert (S1 : forall (L : list nat) l', NoDup L ->
             lsum L (fun a => (if dof_eqb (l', a) (l, i) then 1 else 0) * f (l', a))
             = if Nat.eqb l' l && memb i L then f (l, i) else 0).
  { intros L l' HL. rewrite (lsum_ext L _ (fun a => if Nat.eqb l' l && Nat.eqb a i then f (l, i) else 0)) by (intros; apply D).
    destruct (Nat.eqb_spec l' l) as [->|]; cbn [andb]; [|apply lsum_zero; reflexivity].
    destruct (memb i L) eqn:E.
    - apply memb_In in E. rewrite (lsum_single L i _ HL E).
      + rewrite Nat.eqb_refl. reflexivity.
      + intros a _ Na. destruct (Nat.eqb_spec a i); [contradiction|reflexivity].
    - apply lsum_zero. intros a Ha. destruct (Nat.eqb_spec a i) as [->|]; [|reflexivity].
      exfalso. apply memb_In in Ha. congruence. }
  rewrite S1 by apply Hnd.
  rewrite (lsum_ext (seq 0 k) _ (fun l' => if Nat.eqb l' l && memb i (act l') then f (l, i) else 0)).
  2:{ intros l' _. apply S1. apply (NoDup_app_l _ _ (Hnd l')). }
  destruct Hc as [Hc|Hc].
  - apply in_flat_map in Hc. destruct Hc as [l0 [Hl0 Hc]]. apply in_map_iff in Hc. destruct Hc as [a [E Ha]].
    inversion E; subst. apply in_seq in Hl0.
    rewrite (lsum_single (seq 0 k) l _ (seq_NoDup _ _)).
    + rewrite Nat.eqb_refl. replace (memb i (act l)) with true by (symmetry; apply memb_In; exact Ha). cbn [andb].
      destruct (Nat.eqb_spec k l); [lia|]. cbn [andb]. ring.
    + apply in_seq. lia.
    + intros a' _ Na. destruct (Nat.eqb_spec a' l); [contradiction|reflexivity].
  - apply in_map_iff in Hc. destruct Hc as [a [E Ha]]. inversion E; subst.
    rewrite lsum_zero.
    + rewrite Nat.eqb_refl. replace (memb i (act l ++ deact l)) with true by (symmetry; apply memb_In; exact Ha). cbn [andb]. ring.
    + intros l' Hl'. apply in_seq in Hl'. destruct (Nat.eqb_spec l' l); [lia|reflexivity].
Qed.

Lemma vh_hb_chain_l {X} n (B : nat -> nat -> X -> Qc) P Lmax act deact :
  two_scale_hyp n B P Lmax -> index_hyp n P act deact ->
  forall m k, (k + m <= Lmax)%nat ->
    lpres dof X (dofsV act deact k) (dofsV act deact (k + m)) (fnHB X B) (fnHB X B) (Phb_chain P act deact k m).
Proof.
  intros H Hi. induction m as [|m IH]; intros k Hk.
  - rewrite Nat.add_0_r. intros c x Hc. cbn [Phb_chain]. symmetry.
    apply (dofsV_nodup_single act deact k (fun r => fnHB X B r x) c); [apply Hi|exact Hc].
  - replace (k + S m)%nat with (S (k + m)) by lia. cbn [Phb_chain].
    apply (lpres_compose dof X (dofsV act deact k) (dofsV act deact (k + m)) (dofsV act deact (S (k + m)))
             (fnHB X B) (fnHB X B) (fnHB X B) (Phb_chain P act deact k m) (Phb P act deact (k + m))).
    + apply IH. lia.
    + apply (vh_hb_l n B P Lmax act deact H Hi). lia.
Qed.
