(* C12 -- model, part 5: the drivers WITH their state (solvers.py:437-534).

   Model.v, part 4, models the time bookkeeping of the two drivers over a list of stepper
   outcomes.  Here the drivers are functions of the stepper itself and carry what the code
   carries from one call to the next: the state x, the cached right-hand side Fx = F(x)
   (reused by dirk_step for an explicit first stage), the lists `times` and `solutions`.
   Ghost output: the list of stepper calls (arguments), to state what every call receives.

   X  = states, FX = values of F.  The per-run dict `data` only caches factorizations and is
   not modelled (it does not influence the values in exact arithmetic).  *)
From Coq Require Import QArith List Bool Arith ZArith.
From Verif.C12 Require Import Model.
Import ListNotations.
Open Scope Q_scope.

Section DriverStates.
  Variables X FX : Type.

  (* outcome of  stepper(M, F, J, x, tau, data, Fx=Fx):
     SFail                  raise NoConvergenceError
     SDone xnew xhat Fxnew  the returned tuple; xhat = None for the 2-tuple (x_new, F_x_new) of a
                            method without embedded weights *)
  Inductive sres := SFail | SDone (xnew : X) (xhat : option X) (Fxnew : option FX).
  Variable stepper : X -> Q -> option FX -> sres.

  Definition call := (X * Q * option FX)%type.

  (* _constant_step_method, solvers.py:455-472.
       for i in range(num_iter):
           try: x, Fx = stepper(M, F, J, x, tau, data, Fx=Fx)
           except NoConvergenceError: return times, solutions
           t = t0 + (i + 1) * tau; times.append(t); solutions.append(x)            *)
  Fixpoint crun (n i : nat) (t0 tau : Q) (x : X) (Fx : option FX)
           (times : list Q) (sols : list X) (calls : list call) : (list Q * list X * list call)%type :=
    match n with
    | O => (times, sols, calls)
    | S n' =>
      match stepper x tau Fx with
      | SFail => (times, sols, calls ++ [(x, tau, Fx)])
      | SDone xn _ Fxn =>
        crun n' (S i) t0 tau xn Fxn (times ++ [t0 + inject_Z (Z.of_nat (S i)) * tau])
             (sols ++ [xn]) (calls ++ [(x, tau, Fx)])
      end
    end.

  Definition const_run (t0 tau quot : Q) (x : X) : (list Q * list X * list call)%type :=
    crun (const_num_iter quot) 0 t0 tau x None [t0] [x] [].

  (* _adaptive_step_method, solvers.py:498-533.  [ratio x xnew xhat] is
     norm((xhat - xnew) / (tol + tol*|x|)) / sqrt(len x); [powf r] is step_factor * r**(-1/err_order).
       while t < t_end:
           try:
               xnew, xhat, Fxnew = stepper(M, F, J, x, tau, data, Fx=Fx)
               r = ...; if r == 0: r = 1e-15
               if r <= 1: t += tau; x = xnew; Fx = Fxnew; times.append(t); solutions.append(x)
               tau *= min(5.0, max(0.2, step_factor * r**(-1/err_order)))
           except NoConvergenceError: tau *= 0.5
     fuel bounds the number of loop iterations (the code has no bound); None = fuel exhausted,
     or a stepper that returns a 2-tuple (unpacking error). *)
  Variable ratio : X -> X -> X -> Q.
  Variable powf : Q -> Q.

  Definition fix_r (r : Q) : Q := if Qeq_bool r 0 then (1 # 1000000000000000) else r.

  Fixpoint arun (fuel : nat) (t_end t tau : Q) (x : X) (Fx : option FX)
           (times : list Q) (sols : list X) (calls : list call) (evs : list event)
    : option (list Q * list X * list call * list event)%type :=
    if Qle_bool t_end t then Some (times, sols, calls, evs)
    else
      match fuel with
      | O => None
      | S fuel' =>
        match stepper x tau Fx with
        | SFail => arun fuel' t_end t (tau * (1 # 2)) x Fx times sols (calls ++ [(x, tau, Fx)]) (evs ++ [NewtonFail])
        | SDone xn None _ => None
        | SDone xn (Some xh) Fxn =>
          let r0 := ratio x xn xh in
          let p := powf (fix_r r0) in
          if Qle_bool (fix_r r0) 1 then
            arun fuel' t_end (t + tau) (tau * clip_fac p) xn Fxn (times ++ [t + tau]) (sols ++ [xn])
                 (calls ++ [(x, tau, Fx)]) (evs ++ [Stepped r0 p])
          else
            arun fuel' t_end t (tau * clip_fac p) x Fx times sols (calls ++ [(x, tau, Fx)]) (evs ++ [Stepped r0 p])
        end
      end.

  Definition adaptive_run (fuel : nat) (t0 tau0 t_end : Q) (x : X) :=
    arun fuel t_end t0 tau0 x None [t0] [x] [] [].
End DriverStates.

Arguments SFail {X FX}.
Arguments SDone {X FX} _ _ _.

(* ------------------------------------------------------------------ *)
(* predicates used to state what the drivers guarantee                   *)
(* ------------------------------------------------------------------ *)
Section DriverSpec.
  Variables X FX : Type.
  Variable stepper : X -> Q -> option FX -> sres X FX.
  Variable Fof : X -> FX.                       (* x |-> F(x) *)

  (* the cached value, when present, is F at the state it is passed with *)
  Definition Fx_inv (x : X) (Fx : option FX) : Prop := forall f, Fx = Some f -> f = Fof x.
  Definition call_ok (c : call X FX) : Prop := Fx_inv (fst (fst c)) (snd c).
  (* contract of a step function: a returned F_x_new is F(x_new)
     (dirk_step: theorem dirk_stiffly_accurate_shortcut; rosenbrock_step returns None) *)
  Definition stepper_ok : Prop :=
    forall x tau Fx xn xh f, Fx_inv x Fx -> stepper x tau Fx = SDone xn xh (Some f) -> f = Fof xn.

  Variables (G : Type) (gadd : G -> G -> G) (phi : X -> G) (d : G).
  (* every successful step adds d to phi (phi = M ., d = tau c for y' = M^-1 c and a consistent tableau) *)
  Definition step_adds : Prop :=
    forall x tau Fx xn xh Fxn, Fx_inv x Fx -> stepper x tau Fx = SDone xn xh Fxn -> phi xn = gadd (phi x) d.

  (* what holds of the (times, solutions) returned by the constant-step driver and of the calls it made *)
  Definition cpost (x0 : X) (t0 tau : Q) (n : nat) (times : list Q) (sols : list X) (calls : list (call X FX)) : Prop :=
    length times = length sols /\ (1 <= length sols <= S n)%nat /\
    Forall call_ok calls /\ Forall (fun c => snd (fst c) = tau) calls /\
    map (fun c => fst (fst c)) calls = firstn (length calls) sols /\
    (length calls = (length sols - 1)%nat \/
     (length calls = length sols /\ exists c, last calls c = c /\ In c calls /\ stepper (fst (fst c)) tau (snd c) = SFail)) /\
    nth 0 times 0 = t0 /\
    (forall k, (1 <= k < length times)%nat -> nth k times 0 = t0 + inject_Z (Z.of_nat k) * tau) /\
    (step_adds -> forall k, (k < length sols)%nat -> phi (nth k sols x0) = Nat.iter k (fun u => gadd u d) (phi x0)).
End DriverSpec.
Close Scope Q_scope.
