(* C08 -- memoisation: a cache in front of a pure function is transparent for every call
   history iff the cache key determines the result.  (The class of defect "cache keyed on too
   little": seeded change C08-4 memoised compute_sparsity_ij on (p, numdofs, mesh).) *)
From Coq Require Import ZArith List Bool Arith Lia.
Import ListNotations.

Section Memo.
  Variable K X R : Type.
  Variable K_eqb : K -> K -> bool.
  Hypothesis K_eqb_spec : forall a b, K_eqb a b = true <-> a = b.
  Variable key : X -> K.
  Variable f : X -> R.

  Fixpoint lookup (k : K) (c : list (K * R)) : option R :=
    match c with
    | [] => None
    | (k', r) :: c' => if K_eqb k' k then Some r else lookup k c'
    end.

  (* one call of the memoised function: (new cache, result) *)
  Definition call (c : list (K * R)) (x : X) : list (K * R) * R :=
    match lookup (key x) c with
    | Some r => (c, r)
    | None => ((key x, f x) :: c, f x)
    end.

  (* a history of calls in one process, starting from cache c *)
  Fixpoint run_calls (c : list (K * R)) (xs : list X) : list R :=
    match xs with
    | [] => []
    | x :: xs' => let cr := call c x in snd cr :: run_calls (fst cr) xs'
    end.

  Definition key_determines : Prop := forall x y, key x = key y -> f x = f y.
  Definition cache_ok (c : list (K * R)) : Prop :=
    forall k r, lookup k c = Some r -> forall x, key x = k -> f x = r.

  Lemma K_eqb_refl : forall k, K_eqb k k = true.
  Proof. intro k. apply K_eqb_spec. reflexivity. Qed.

  Lemma call_ok : key_determines -> forall c x, cache_ok c ->
    snd (call c x) = f x /\ cache_ok (fst (call c x)).
  Proof.
    intros Hk c x Hc. unfold call. destruct (lookup (key x) c) as [r|] eqn:E; simpl.
    - split; [symmetry; apply (Hc (key x) r E x eq_refl) | exact Hc].
    - split; [reflexivity|]. intros k r H y Hy. simpl in H.
      destruct (K_eqb (key x) k) eqn:Ek.
      + injection H as <-. apply K_eqb_spec in Ek. apply Hk. congruence.
      + apply (Hc k r H y Hy).
  Qed.

  Lemma run_ok : key_determines -> forall xs c, cache_ok c -> run_calls c xs = map f xs.
  Proof.
    intros Hk. induction xs as [|x xs IH]; intros c Hc; [reflexivity|].
    simpl. destruct (call_ok Hk c x Hc) as [H1 H2]. rewrite H1, (IH _ H2). reflexivity.
  Qed.

  Theorem memo_sound_iff_key_determines_l :
    (forall xs, run_calls [] xs = map f xs) <-> key_determines.
  Proof.
    split.
    - intros H x y Hxy. specialize (H [x; y]). simpl in H. unfold call in H. simpl in H.
      rewrite <- Hxy, K_eqb_refl in H. simpl in H. injection H as H. exact H.
    - intros Hk xs. apply (run_ok Hk). intros k r H. discriminate.
  Qed.
End Memo.
Arguments run_calls {K X R}. Arguments call {K X R}. Arguments lookup {K R}.

(* ------------------------------------------------------------------------- *)
(** * the per-direction sparsity pattern of a knot vector and the key of seeded change C08-4 *)

Local Open Scope Z_scope.

(* knot vectors as (degree, integer knots): B-spline i has support [t_i, t_{i+p+1}] *)
Definition kvec : Type := (nat * list Z)%type.
Definition kv_ndofs (kv : kvec) : nat := (length (snd kv) - fst kv - 1)%nat.
Definition kv_pattern (kv : kvec) : list (nat * nat) :=
  let p := fst kv in let t := snd kv in let n := kv_ndofs kv in
  flat_map (fun i => flat_map (fun j =>
     if Z.max (nth i t 0) (nth j t 0) <? Z.min (nth (i + p + 1) t 0) (nth (j + p + 1) t 0)
     then [(i, j)] else []) (seq 0 n)) (seq 0 n).

Fixpoint dedup (l : list Z) : list Z :=
  match l with
  | [] => []
  | x :: l' => match l' with y :: _ => if x =? y then dedup l' else x :: dedup l' | [] => [x] end
  end.
(* (kv.p, kv.numdofs, kv.mesh) *)
Definition c084_key (kv : kvec) : nat * nat * list Z := (fst kv, kv_ndofs kv, dedup (snd kv)).

Fixpoint zl_eqb (a b : list Z) : bool :=
  match a, b with [], [] => true | x :: a', y :: b' => (x =? y) && zl_eqb a' b' | _, _ => false end.
Definition c084_key_eqb (a b : nat * nat * list Z) : bool :=
  Nat.eqb (fst (fst a)) (fst (fst b)) && Nat.eqb (snd (fst a)) (snd (fst b)) && zl_eqb (snd a) (snd b).

Lemma zl_eqb_spec : forall a b, zl_eqb a b = true <-> a = b.
Proof.
  induction a as [|x a IH]; intros [|y b]; simpl; split; intro H; try reflexivity; try discriminate.
  - apply andb_true_iff in H. destruct H as [H1 H2]. apply Z.eqb_eq in H1. apply IH in H2. subst. reflexivity.
  - injection H as -> ->. rewrite Z.eqb_refl. simpl. apply IH. reflexivity.
Qed.

Lemma c084_key_eqb_spec : forall a b, c084_key_eqb a b = true <-> a = b.
Proof.
  intros [[a1 a2] a3] [[b1 b2] b3]. unfold c084_key_eqb. simpl.
  rewrite !andb_true_iff, !Nat.eqb_eq, zl_eqb_spec. split.
  - intros [[-> ->] ->]. reflexivity.
  - intro E. injection E. auto.
Qed.
