(* C06 -- property theorems, part 2 (forests, input fields, measure and normal).  Same conventions as
   Props.v: every theorem is closed by [exact] of a lemma and followed by Print Assumptions; all are
   stated for an arbitrary field, every environment, every expression tree / forest. *)
From Coq Require Import List String Bool Arith Field.
From Verif.C06 Require Import Model Sched Phys Forest InputField Measure.
Import ListNotations.

Section Statements2.
Variable F : Type.
Variables (f0 f1 : F) (fadd fmul fsub fdiv : F -> F -> F) (fopp finv : F -> F).
Hypothesis Fth : field_theory f0 f1 fadd fmul fsub fopp fdiv finv (@eq F).
Notation eval := (eval F fadd fmul fsub fdiv fopp).
Notation eval_defs := (eval_defs F f0 fadd fmul fsub fdiv fopp).
Notation sound_in := (Forest.sound_in F fadd fmul fsub fdiv fopp).
Infix "+" := fadd. Infix "*" := fmul. Infix "-" := fsub.

(* ---- passes on forests (expressions with variable references: a DAG through names) ------------- *)
(* Applying a node function to every definition (each definition once, as mapexprs does with its `seen`
   set) leaves the environment computed by the emitted order UNCHANGED -- hence the value of every
   variable and of every integrand -- provided the node function preserves values in every environment
   satisfying P and P is stable under binding a variable. *)
Theorem transform_forest_sound : forall (P : env F -> Prop) f,
  (forall en name shape vals, P en -> P (bind F f0 en name shape vals)) ->
  (forall en, P en -> sound_in en f) ->
  forall ds ds' en, P en -> transform_forest F f ds = Some ds' ->
  eval_defs en ds' = eval_defs en ds.
Proof. exact (transform_forest_sound_l F f0 fadd fmul fsub fdiv fopp). Qed.

(* ... and so does any sequence of such passes: finalize on a forest *)
Theorem finalize_forest_sound_partial : forall (P : env F -> Prop) fs,
  (forall en name shape vals, P en -> P (bind F f0 en name shape vals)) ->
  Forall (fun f => forall en, P en -> sound_in en f) fs ->
  forall ds ds' en, P en -> run_forest F fs ds = Some ds' ->
  eval_defs en ds' = eval_defs en ds.
Proof. exact (run_forest_sound_l F f0 fadd fmul fsub fdiv fopp). Qed.

(* Adding the definitions of helper variables with fresh names (the _geo_hess_trf_* and _d<u>_<D>
   variables returned by rpd_bf) in front of a forest does not change the value of any other variable. *)
Theorem add_helper_defs_sound : forall (extra ds : list (def F)) (en : env F),
  mentions_none F (map fst extra) ds ->
  forall n, ~ In n (map fst extra) ->
  forall Ix D p, e_vr (eval_defs en (extra ++ ds)) n Ix D p = e_vr (eval_defs en ds) n Ix D p.
Proof. exact (add_helper_defs_sound_l F f0 fadd fmul fsub fdiv fopp). Qed.

(* ---- input fields --------------------------------------------------------------------------------- *)
(* replace_physical_derivs on a reference to a parametric input field (rpd_vr: the formulas of the
   basis-function case with VarRefExpr leaves): in the environment where the parametric derivatives of the
   field are the composition of its physical jets (gu, Hu) with the geometry 2-jet, the emitted
   expression is the physical jet entry.  Gradient dims 1-3, Hessian dims 1-2. *)
Theorem field_physical_grad_sound_1 : forall J HG gu Hu u0,
  detJ F f0 f1 fadd fmul fsub fdiv fopp J 1 <> f0 -> forall k, k < 1 -> fgrad_ok F f0 f1 fadd fmul fsub fdiv fopp J HG gu Hu u0 1 k.
Proof. exact (field_grad_1_l F f0 f1 fadd fmul fsub fdiv fopp finv Fth). Qed.
Theorem field_physical_grad_sound_2 : forall J HG gu Hu u0,
  detJ F f0 f1 fadd fmul fsub fdiv fopp J 2 <> f0 -> forall k, k < 2 -> fgrad_ok F f0 f1 fadd fmul fsub fdiv fopp J HG gu Hu u0 2 k.
Proof. exact (field_grad_2_l F f0 f1 fadd fmul fsub fdiv fopp finv Fth). Qed.
Theorem field_physical_grad_sound_3 : forall J HG gu Hu u0,
  detJ F f0 f1 fadd fmul fsub fdiv fopp J 3 <> f0 -> forall k, k < 3 -> fgrad_ok F f0 f1 fadd fmul fsub fdiv fopp J HG gu Hu u0 3 k.
Proof. exact (field_grad_3_l F f0 f1 fadd fmul fsub fdiv fopp finv Fth). Qed.
Theorem field_physical_hess_sound_1 : forall J HG gu Hu u0,
  detJ F f0 f1 fadd fmul fsub fdiv fopp J 1 <> f0 -> forall i j, i < 1 -> j < 1 -> fhess_ok F f0 f1 fadd fmul fsub fdiv fopp J HG gu Hu u0 1 i j.
Proof. exact (field_hess_1_l F f0 f1 fadd fmul fsub fdiv fopp finv Fth). Qed.
Theorem field_physical_hess_sound_2 : forall J HG gu Hu u0,
  detJ F f0 f1 fadd fmul fsub fdiv fopp J 2 <> f0 -> forall i j, i < 2 -> j < 2 -> fhess_ok F f0 f1 fadd fmul fsub fdiv fopp J HG gu Hu u0 2 i j.
Proof. exact (field_hess_2_l F f0 f1 fadd fmul fsub fdiv fopp finv Fth). Qed.

(* insert_input_field_derivs: if the arrays <f>_grad_a / <f>_hess_a hold the jets of the field (the
   Hessian in symmetric storage), the array entry that replaces a first / second derivative has the value
   of that derivative (dims 1-3). *)
Theorem insert_input_field_derivs_sound : forall d, 1 <= d <= 3 -> forall base Ix par (en : env F),
  arrays_hold_jets F d base Ix par en ->
  (forall k, k < d -> iifd_ok F fadd fmul fsub fdiv fopp d base Ix (unitD d k) par en) /\
  (forall i j, i <= j -> j < d -> iifd_ok F fadd fmul fsub fdiv fopp d base Ix (bump (unitD d i) j 1) par en).
Proof. exact (iifd_sound_l F fadd fmul fsub fdiv fopp). Qed.

(* the symmetric storage index: symmetric for every n; inside range(n(n+1)/2) and injective on i <= j
   for n <= 3 (bounded: the dimensions the code is used with) *)
Theorem sym_index_symmetric : forall n i j, sym_index_to_seq n i j = sym_index_to_seq n j i.
Proof. exact sym_index_symmetric_l. Qed.
Theorem sym_index_bijection_bounded_3 : forall n, n <= 3 ->
  forall i j, i <= j -> j < n ->
  sym_index_to_seq n i j < n * (n + 1) / 2 /\
  forall i' j', i' <= j' -> j' < n -> sym_index_to_seq n i j = sym_index_to_seq n i' j' -> i = i' /\ j = j'.
Proof. exact sym_index_bijection_bounded_3_l. Qed.

(* ---- measure and normal expansion ------------------------------------------------------------------ *)
(* dx = GaussWeight * abs(det J), det by the Leibniz formula (dims 2, 3) *)
Theorem volume_weight_spec_2 : forall (en : env F) a00 a01 a10 a11,
  exists e, e_volume_weight F f1 fopp 2 [[a00; a01]; [a10; a11]] = Some e /\
  eval en e = e_vr en "GaussWeight" [] [0; 0] false *
              e_fn en "abs" (eval en a00 * eval en a11 - eval en a01 * eval en a10).
Proof. exact (volume_weight_spec_2_l F f0 f1 fadd fmul fsub fdiv fopp finv Fth). Qed.

(* the unscaled normal of a line in the plane / a surface in space: orthogonal to the tangents, and
   |n|^2 = det(J^T J) (|t|^2 resp. the Gram determinant |x|^2 |y|^2 - (x.y)^2, Lagrange's identity) *)
Theorem normal_21_spec : forall (en : env F) x0 x1,
  let n := map (eval en) (e_unscaled_normal_21 F x0 x1) in
  nth 0 n f0 * eval en x0 + nth 1 n f0 * eval en x1 = f0 /\
  nth 0 n f0 * nth 0 n f0 + nth 1 n f0 * nth 1 n f0 = eval en x0 * eval en x0 + eval en x1 * eval en x1.
Proof. exact (normal_21_l F f0 f1 fadd fmul fsub fdiv fopp finv Fth). Qed.

Theorem normal_32_spec : forall (en : env F) x0 x1 x2 y0 y1 y2,
  let n := map (eval en) (e_unscaled_normal_32 F x0 x1 x2 y0 y1 y2) in
  let X i := eval en (nth i [x0; x1; x2] (Const f0)) in
  let Y i := eval en (nth i [y0; y1; y2] (Const f0)) in
  let N i := nth i n f0 in
  N 0 * X 0 + N 1 * X 1 + N 2 * X 2 = f0 /\
  N 0 * Y 0 + N 1 * Y 1 + N 2 * Y 2 = f0 /\
  N 0 * N 0 + N 1 * N 1 + N 2 * N 2 =
    (X 0 * X 0 + X 1 * X 1 + X 2 * X 2) * (Y 0 * Y 0 + Y 1 * Y 1 + Y 2 * Y 2)
    - (X 0 * Y 0 + X 1 * Y 1 + X 2 * Y 2) * (X 0 * Y 0 + X 1 * Y 1 + X 2 * Y 2).
Proof. exact (normal_32_l F f0 f1 fadd fmul fsub fdiv fopp finv Fth). Qed.

(* ds = GaussWeight * sqrt(|n|^2) *)
Theorem surface_weight_spec_32 : forall (en : env F) x0 x1 x2 y0 y1 y2,
  let un := e_unscaled_normal_32 F x0 x1 x2 y0 y1 y2 in
  let n := map (eval en) un in
  exists e, e_surface_weight F 2 un = Some e /\
  eval en e = e_vr en "GaussWeight" [] [0; 0] false *
              e_fn en "sqrt" (nth 0 n f0 * nth 0 n f0 + nth 1 n f0 * nth 1 n f0 + nth 2 n f0 * nth 2 n f0).
Proof. exact (surface_weight_spec_32_l F f0 fadd fmul fsub fdiv fopp). Qed.

(* the normalised normal un / norm(un) is orthogonal to the tangents, and |n|^2 * s^2 = |un|^2 for the
   value s of the norm (a unit vector exactly when sqrt(x)^2 = x) *)
Theorem surface_normal_32_spec : forall (en : env F) x0 x1 x2 y0 y1 y2,
  let un := e_unscaled_normal_32 F x0 x1 x2 y0 y1 y2 in
  exists nn, e_surface_normal F un = Some nn /\
  let N i := eval en (nth i nn (Const f0)) in
  let U i := eval en (nth i un (Const f0)) in
  let X i := eval en (nth i [x0; x1; x2] (Const f0)) in
  let Y i := eval en (nth i [y0; y1; y2] (Const f0)) in
  let s := e_fn en "sqrt" (U 0 * U 0 + U 1 * U 1 + U 2 * U 2) in
  N 0 * X 0 + N 1 * X 1 + N 2 * X 2 = f0 /\
  N 0 * Y 0 + N 1 * Y 1 + N 2 * Y 2 = f0 /\
  (s <> f0 -> (N 0 * N 0 + N 1 * N 1 + N 2 * N 2) * (s * s) = U 0 * U 0 + U 1 * U 1 + U 2 * U 2).
Proof. exact (surface_normal_32_l F f0 f1 fadd fmul fsub fdiv fopp finv Fth). Qed.

Theorem surface_normal_21_spec : forall (en : env F) x0 x1,
  let un := e_unscaled_normal_21 F x0 x1 in
  exists nn, e_surface_normal F un = Some nn /\
  let N i := eval en (nth i nn (Const f0)) in
  let U i := eval en (nth i un (Const f0)) in
  let s := e_fn en "sqrt" (U 0 * U 0 + U 1 * U 1) in
  N 0 * eval en x0 + N 1 * eval en x1 = f0 /\
  (s <> f0 -> (N 0 * N 0 + N 1 * N 1) * (s * s) = U 0 * U 0 + U 1 * U 1).
Proof. exact (surface_normal_21_l F f0 f1 fadd fmul fsub fdiv fopp finv Fth). Qed.

End Statements2.

Print Assumptions transform_forest_sound.
Print Assumptions finalize_forest_sound_partial.
Print Assumptions add_helper_defs_sound.
Print Assumptions field_physical_grad_sound_1.
Print Assumptions field_physical_grad_sound_2.
Print Assumptions field_physical_grad_sound_3.
Print Assumptions field_physical_hess_sound_1.
Print Assumptions field_physical_hess_sound_2.
Print Assumptions insert_input_field_derivs_sound.
Print Assumptions sym_index_symmetric.
Print Assumptions sym_index_bijection_bounded_3.
Print Assumptions volume_weight_spec_2.
Print Assumptions normal_21_spec.
Print Assumptions normal_32_spec.
Print Assumptions surface_weight_spec_32.
Print Assumptions surface_normal_32_spec.
Print Assumptions surface_normal_21_spec.
