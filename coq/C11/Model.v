(* C11 -- executable model (definitions only, no proofs) of
     pyiga/relaxation_cy.pyx   gauss_seidel, gauss_seidel_indexed        (lines 6-65)
     pyiga/solvers.py          gauss_seidel dispatch                      (lines 47-96)
                               twogrid                                    (lines 129-172)
                               local_mg_step                              (lines 174-241)
                               iterative_solve / solve_hmultigrid         (lines 243-324)
     pyiga/hierarchical.py     new/trunc/func_supp/cell_supp_indices      (lines 671-732)
   over the exact ordered field Qc (canonical rationals; binary64 inputs are
   rationals, so the model receives exactly the implementation's input). *)
From Coq Require Import QArith Qcanon List Arith Bool ZArith.
Import ListNotations.
Open Scope Qc_scope.

(* ---------------------------------------------------------------------- *)
(* vectors                                                                *)
(* ---------------------------------------------------------------------- *)
Definition vec := list Qc.
Definition vget (x : vec) (i : nat) : Qc := nth i x 0.

(* x[i] = v (no effect when i is out of range; the implementation is only
   called with rows of the matrix) *)
Fixpoint upd (i : nat) (v : Qc) (x : vec) : vec :=
  match x, i with
  | [], _ => []
  | _ :: t, O => v :: t
  | h :: t, S k => h :: upd k v t
  end.

Fixpoint iter {X : Type} (n : nat) (f : X -> X) (x : X) : X :=
  match n with O => x | S k => iter k f (f x) end.

(* ---------------------------------------------------------------------- *)
(* CSR storage: explicit zeros, unsorted columns and repeated coordinates
   are all representable *)
(* ---------------------------------------------------------------------- *)
Record csr := mk_csr { indptr : list nat; indices : list nat; data : list Qc }.

(* the stored entries jj in range(row_ptr[i], row_ptr[i+1])   relaxation_cy.pyx:15-16,20 *)
Definition row_entries (M : csr) (i : nat) : list (nat * Qc) :=
  let s := nth i (indptr M) 0%nat in
  let e := nth (S i) (indptr M) 0%nat in
  firstn (e - s) (skipn s (combine (indices M) (data M))).

(* relaxation_cy.pyx:20-25 (and 53-58): one pass over the stored entries;
   diag is overwritten by every stored diagonal entry (the last one wins) *)
Definition scan_step (i : nat) (x : vec) (acc : Qc * Qc) (e : nat * Qc) : Qc * Qc :=
  let '(rsum, diag) := acc in
  let '(j, a) := e in
  if Nat.eqb i j then (rsum, a) else (rsum + a * vget x j, diag).

Definition row_scan (i : nat) (x : vec) (ents : list (nat * Qc)) : Qc * Qc :=
  fold_left (scan_step i x) ents (0, 0).

(* relaxation_cy.pyx:14-28 body of the loop for row i: skip when diag == 0 *)
Definition gs_row (M : csr) (b : vec) (x : vec) (i : nat) : vec :=
  let '(rsum, diag) := row_scan i x (row_entries M i) in
  if Qc_eq_dec diag 0 then x else upd i ((vget b i - rsum) / diag) x.

(* `i = start; while i != stop: ...; i += step`  -- the values the loop
   variable takes (fuel bounds the number of iterations; the callers pass
   N iterations, which is exact for (0,N,1) and (N-1,-1,-1)) *)
Fixpoint zloop (fuel : nat) (i stop step : Z) : list Z :=
  match fuel with
  | O => []
  | S f => if Z.eqb i stop then [] else i :: zloop f (i + step)%Z stop step
  end.

(* relaxation_cy.gauss_seidel (pyx:6-30) *)
Definition gs_sweep (M : csr) (b : vec) (N : nat) (start stop step : Z) (x : vec) : vec :=
  fold_left (gs_row M b) (map Z.to_nat (zloop N start stop step)) x.

(* relaxation_cy.gauss_seidel_indexed (pyx:35-65): idx runs 0..len-1 or len-1..0 *)
Definition gs_indexed (M : csr) (b : vec) (idxs : list nat) (reverse : bool) (x : vec) : vec :=
  let n := Z.of_nat (length idxs) in
  let '(I0, I1, Is) := if reverse then (n - 1, -1, -1)%Z else (0, n, 1)%Z in
  fold_left (gs_row M b) (map (fun p => nth (Z.to_nat p) idxs 0%nat) (zloop (length idxs) I0 I1 Is)) x.

(* ---------------------------------------------------------------------- *)
(* dense branch of solvers.gauss_seidel (solvers.py:85-96)                 *)
(* ---------------------------------------------------------------------- *)
Definition dense := list (list Qc).
Definition drow (A : dense) (i : nat) : list Qc := nth i A [].
Definition dentry (A : dense) (i j : nat) : Qc := nth j (drow A i) 0.

Fixpoint ldot (r : list Qc) (x : vec) : Qc :=
  match r, x with a :: r', v :: x' => a * v + ldot r' x' | _, _ => 0 end.

(* z = A[i].dot(x); a = A[i,i]; z -= a*x[i]; x[i] = (b[i] - z) / a *)
Definition dense_row (A : dense) (b : vec) (x : vec) (i : nat) : vec :=
  let z := ldot (drow A i) x in
  let a := dentry A i i in
  let z := z - a * vget x i in
  upd i ((vget b i - z) / a) x.

(* ---------------------------------------------------------------------- *)
(* solvers.gauss_seidel (solvers.py:47-96)                                 *)
(* ---------------------------------------------------------------------- *)
Inductive sweep := Forward | Backward | Symmetric.
Inductive matrix := Sparse (M : csr) (N : nat) | Dense (A : dense).

(* one direction, `iterations` repetitions (solvers.py:66-96) *)
Definition gs_dir (A : matrix) (b : vec) (indices : option (list nat)) (backward : bool)
                  (iterations : nat) (x : vec) : vec :=
  match A with
  | Sparse M N =>
      match indices with
      | Some idx => iter iterations (gs_indexed M b idx backward) x            (* :73-77 *)
      | None =>
          let '(start, stop, step) :=
            if backward then (Z.of_nat N - 1, -1, -1)%Z else (0, Z.of_nat N, 1)%Z in   (* :79-80 *)
          iter iterations (gs_sweep M b N start stop step) x                   (* :81-82 *)
      end
  | Dense D =>
      let idx := match indices with None => seq 0 (length D) | Some l => l end in   (* :85-86 *)
      let idx := if backward then rev idx else idx in                          (* :87-88 *)
      iter iterations (fun x => fold_left (dense_row D b) idx x) x             (* :90-96 *)
  end.

Definition gauss_seidel (A : matrix) (x b : vec) (iterations : nat)
                        (indices : option (list nat)) (sw : sweep) : vec :=
  match sw with
  | Symmetric =>                                                               (* :58-62 *)
      iter iterations (fun x => gs_dir A b indices true 1 (gs_dir A b indices false 1 x)) x
  | Forward => gs_dir A b indices false iterations x
  | Backward => gs_dir A b indices true iterations x
  end.

(* ---------------------------------------------------------------------- *)
(* iterative_solve (solvers.py:243-283) as a state machine over an abstract
   step and an abstract residual norm `res` (the Euclidean norm of the
   residual restricted to the active dofs).  `Inf` is numpy.inf.           *)
(* ---------------------------------------------------------------------- *)
Inductive iters := Finite (k : nat) | Inf.

Section IterativeSolve.
  Context {X : Type}.
  Variable step : X -> X.
  Variable res : X -> Qc.

  Fixpoint it_loop (fuel : nat) (x : X) (iterations : nat) (res0 tol : Qc) (maxiter : nat) : X * iters :=
    match fuel with
    | O => (x, Inf)
    | S f =>
        let x := step x in                                   (* :274 *)
        let r := res x in                                    (* :275-276 *)
        let iterations := S iterations in                    (* :277 *)
        if Qclt_le_dec (r / res0) tol then (x, Finite iterations)          (* :278-279 *)
        else if Nat.leb maxiter iterations then (x, Inf)                   (* :280-282 *)
        else it_loop f x iterations res0 tol maxiter
    end.

  (* res0 = norm((f - A x0)[active]) = res x0 (x0 = 0 when not given, :264-270);
     the loop body runs at least once, at most max(1,maxiter) times *)
  Definition iterative_solve (x0 : X) (tol : Qc) (maxiter : nat) : X * iters :=
    it_loop (Nat.max 1 maxiter) x0 0 (res x0) tol maxiter.

  (* twogrid's loop (solvers.py:147-172), with the REPAIRED argument handling
     `u = np.array(u0) if u0 is not None else zeros` (fixes/C11-twogrid-u0.patch);
     cycle = smooth_steps smoothing steps followed by the coarse-grid correction;
     pre = state after the smoothing steps, where the residual is measured. *)
  Variable correct : X -> X.
  Inductive tg_exit := Converged | Diverged | TooMany.
  Fixpoint tg_loop (fuel : nat) (u : X) (numiter : nat) (res0 tol : Qc) (maxiter : nat) : X * nat * tg_exit :=
    match fuel with
    | O => (u, numiter, TooMany)
    | S f =>
        let u1 := step u in                                   (* :152-153 smoothing *)
        let r := res u1 in                                    (* :156-157 *)
        let u2 := correct u1 in                               (* :158 *)
        let numiter := S numiter in                           (* :160 *)
        if Qclt_le_dec r (tol * res0) then (u2, numiter, Converged)            (* :162 *)
        else if Qclt_le_dec ((Q2Qc 20) * res0) r then (u2, numiter, Diverged)  (* :164 *)
        else if Nat.ltb maxiter numiter then (u2, numiter, TooMany)            (* :167 *)
        else tg_loop f u2 numiter res0 tol maxiter
    end.
  Definition twogrid_loop (zeros : X) (u0 : option X) (tol : Qc) (maxiter : nat) : X * nat * tg_exit :=
    let u := match u0 with Some v => v | None => zeros end in                  (* :147 repaired *)
    tg_loop (S maxiter) u 0 (res u) tol maxiter.
End IterativeSolve.

(* ---------------------------------------------------------------------- *)
(* local_mg_step (solvers.py:174-241): one V-cycle.  Dense storage.        *)
(* ---------------------------------------------------------------------- *)
Definition vadd (x y : vec) : vec := map (fun p => fst p + snd p) (combine x y).
Definition vsub (x y : vec) : vec := map (fun p => fst p - snd p) (combine x y).
Definition dmv (A : dense) (x : vec) : vec := map (fun r => ldot r x) A.
Definition ncols (A : dense) : nat := length (drow A 0).
Definition dcol (A : dense) (j : nat) : list Qc := map (fun r => nth j r 0) A.
Definition dtrans (A : dense) : dense := map (dcol A) (seq 0 (ncols A)).
Definition dmm (A B : dense) : dense := map (fun r => map (fun j => ldot r (dcol B j)) (seq 0 (ncols B))) A.
Definition zeros (n : nat) : vec := repeat 0 n.
Definition gather (idx : list nat) (x : vec) : vec := map (vget x) idx.
(* x[idx] = y *)
Fixpoint scatter_set (idx : list nat) (y : vec) (x : vec) : vec :=
  match idx, y with i :: idx', v :: y' => scatter_set idx' y' (upd i v x) | _, _ => x end.
(* x[idx] += y *)
Fixpoint scatter_add (idx : list nat) (y : vec) (x : vec) : vec :=
  match idx, y with i :: idx', v :: y' => scatter_add idx' y' (upd i (vget x i + v) x) | _, _ => x end.
(* A[idx][:, idx] *)
Definition submat (A : dense) (idx : list nat) : dense := map (fun i => gather idx (drow A i)) idx.

Inductive smoother := SmGS | SmForward | SmBackward | SmSymmetric | SmExact.

(* a level l >= 1 of the hierarchy: prolongator P = Ps[l-1], operator A = As[l],
   smoothing set lv_inds[l] and (for the exact smoother) the solver Bs[l] *)
Record level := mk_level { lvP : dense; lvA : dense; lvInd : list nat; lvB : vec -> vec }.

(* As: Galerkin products P^T A P from the finest level down (solvers.py:178-181);
   returns the operators of the levels below A, finest first *)
Definition galerkin (P A : dense) : dense := dmm (dmm (dtrans P) A) P.

Section LocalMG.
  Variable sm : smoother.
  Variable smooth_steps : nat.
  (* level 0: lv_inds[0] and the exact solver Bs[0] for As[0][ind0][:,ind0] *)
  Variable ind0 : list nat.
  Variable B0 : vec -> vec.

  Definition pre_smooth (L : level) (x f : vec) : vec :=
    match sm with
    | SmGS | SmForward => gauss_seidel (Dense (lvA L)) x f smooth_steps (Some (lvInd L)) Forward    (* :203-208 *)
    | SmBackward => gauss_seidel (Dense (lvA L)) x f smooth_steps (Some (lvInd L)) Backward          (* :209-211 *)
    | SmSymmetric => gauss_seidel (Dense (lvA L)) x f smooth_steps (Some (lvInd L)) Symmetric        (* :212-214 *)
    | SmExact => scatter_add (lvInd L) (lvB L (gather (lvInd L) (vsub f (dmv (lvA L) x)))) x         (* :215-218 *)
    end.
  Definition post_smooth (L : level) (x f : vec) : vec :=
    match sm with
    | SmGS | SmBackward => gauss_seidel (Dense (lvA L)) x f smooth_steps (Some (lvInd L)) Backward   (* :226-228, 232-234 *)
    | SmForward => gauss_seidel (Dense (lvA L)) x f smooth_steps (Some (lvInd L)) Forward            (* :229-231 *)
    | SmSymmetric => gauss_seidel (Dense (lvA L)) x f smooth_steps (Some (lvInd L)) Symmetric        (* :235-237 *)
    | SmExact => x                                                                                   (* :238-239 *)
    end.

  (* step(lv, x, f) with the levels lv, lv-1, ..., 1 given finest first (solvers.py:190-240) *)
  Fixpoint mg_step (levels : list level) (x f : vec) : vec :=
    match levels with
    | [] => scatter_set ind0 (B0 (gather ind0 f)) x                       (* :191-195 *)
    | L :: coarser =>
        let x1 := pre_smooth L x f in
        let r := vsub f (dmv (lvA L) x1) in                               (* :221 *)
        let r_c := dmv (dtrans (lvP L)) r in                              (* :222 *)
        let x1 := vadd x1 (dmv (lvP L) (mg_step coarser (zeros (length r_c)) r_c)) in   (* :223 *)
        post_smooth L x1 f
    end.
End LocalMG.

(* ---------------------------------------------------------------------- *)
(* smoothing sets (hierarchical.py:671-732), at the level of sets of
   function multi-indices (here: any type with decidable equality, nat keys).
   For the virtual level lv and the space level i:
     i = lv              : sorted(act[lv] - dir) + sorted(deact[lv] - dir)         (new_indices, :674-680)
     lv-disparity<=i<lv  : sorted(F(lv,i) - dir)   with F given by the strategy     (:700, :711, :727)
     otherwise           : []                                                        *)
(* ---------------------------------------------------------------------- *)
Definition set_diff (a b : list nat) : list nat := filter (fun k => negb (existsb (Nat.eqb k) b)) a.

Inductive strategy := StNew | StTrunc | StFuncSupp | StCellSupp.

Definition smoothing_set (st : strategy) (disparity : option nat)
           (act deact : list nat) (F : list nat) (dir : list nat) (lv i : nat) : list nat :=
  if Nat.eqb i lv then set_diff act dir ++ set_diff deact dir
  else
    match st with
    | StNew => []
    | _ =>
      if Nat.ltb i lv && (match disparity with None => true | Some d => Nat.leb (lv - d) i end)
      then set_diff F dir else []
    end.
