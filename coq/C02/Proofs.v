(* C02 -- proofs about the kernels of coq/lib/Bsp.v and the Cox-de Boor reference. *)
From Coq Require Import QArith Qcanon ZArith List Bool Arith Lia ZifyBool ZifyNat.
From Verif.lib Require Import Bsp.
Import ListNotations.
Ltac Zify.zify_post_hook ::= Z.to_euclidean_division_equations.
Open Scope Qc_scope.

(* ------------------------------------------------------------------ *)
(* boolean comparisons *)

Lemma qleb_iff a b : qleb a b = true <-> a <= b.
Proof. unfold qleb. rewrite Qle_bool_iff. reflexivity. Qed.

Lemma qltb_iff a b : qltb a b = true <-> a < b.
Proof.
  unfold qltb. rewrite negb_true_iff. split.
  - intros H. apply Qcnot_le_lt. intros L. apply qleb_iff in L. unfold qleb in L. congruence.
  - intros H. destruct (Qle_bool b a) eqn:E; [|reflexivity].
    apply Qle_bool_iff in E. exfalso. apply (Qclt_not_le _ _ H). exact E.
Qed.

Lemma qltb_false_iff a b : qltb a b = false <-> b <= a.
Proof.
  unfold qltb. rewrite negb_false_iff. apply Qle_bool_iff.
Qed.

Lemma qleb_false_iff a b : qleb a b = false <-> b < a.
Proof.
  split.
  - intros H. apply Qcnot_le_lt. intros L. apply qleb_iff in L. congruence.
  - intros H. destruct (qleb a b) eqn:E; [|reflexivity]. apply qleb_iff in E.
    exfalso. apply (Qclt_not_le _ _ H). exact E.
Qed.

Lemma qeqb_iff a b : qeqb a b = true <-> a = b.
Proof.
  unfold qeqb. rewrite Qeq_bool_iff. split.
  - apply Qc_is_canon.
  - intros ->. reflexivity.
Qed.

(* ------------------------------------------------------------------ *)
(* findspan *)

Definition sorted (kv : list Qc) : Prop :=
  forall i j, (i <= j)%nat -> (j < length kv)%nat -> kn kv i <= kn kv j.

Lemma bisect_spec kv u : forall fuel a b,
  (b - a <= fuel)%nat -> (a < b)%nat -> kn kv a <= u -> u < kn kv b ->
  let s := bisect fuel kv u a b in
  (a <= s)%nat /\ (s < b)%nat /\ kn kv s <= u /\ u < kn kv (S s).
Proof.
  induction fuel as [|f IH]; intros a b Hf Hab Ha Hb; [lia|].
  cbn [bisect]. destruct (Nat.leb_spec (b - a) 1) as [L|L].
  - assert (b = S a) by lia. subst b. repeat split; auto; lia.
  - set (c := (a + (b - a) / 2)%nat).
    assert (Hc : (a < c /\ c < b)%nat) by (unfold c; lia).
    destruct (qltb u (kn kv c)) eqn:E.
    + apply qltb_iff in E.
      destruct (IH a c ltac:(lia) ltac:(lia) Ha E) as [H1 [H2 [H3 H4]]].
      repeat split; auto; lia.
    + apply qltb_false_iff in E.
      destruct (IH c b ltac:(lia) ltac:(lia) E Hb) as [H1 [H2 [H3 H4]]].
      repeat split; auto; lia.
Qed.

(* the open-knot-vector facts findspan relies on *)
Record kv_ok (kv : list Qc) (p : nat) : Prop := {
  ok_len : (2 * p + 2 <= length kv)%nat;
  ok_sorted : sorted kv;
  ok_first : kn kv p = kn kv 0;
  ok_last : kn kv (length kv - p - 1) = kn kv (length kv - 1);
  ok_last_span : kn kv (length kv - p - 2) < kn kv (length kv - p - 1) }.

Lemma findspan_spec_l kv p u :
  kv_ok kv p -> kn kv 0 <= u -> u <= kn kv (length kv - 1) ->
  let s := findspan kv p u in
  (p <= s)%nat /\ (s < length kv - p - 1)%nat /\ kn kv s < kn kv (S s) /\
  kn kv s <= u /\ (u < kn kv (S s) \/ (u = kn kv (length kv - 1) /\ kn kv (S s) = kn kv (length kv - 1))).
Proof.
  intros [Hlen Hs Hf Hl Hls] Hu0 Hu1. unfold findspan.
  set (n := length kv) in *.
  destruct (qleb (kn kv (n - p - 1)) u) eqn:E.
  - apply qleb_iff in E.
    replace (S (n - p - 2)) with (n - p - 1)%nat by lia.
    assert (Hu : u = kn kv (n - 1)).
    { apply Qcle_antisym; [exact Hu1|]. rewrite <- Hl. exact E. }
    repeat split; try lia.
    + exact Hls.
    + eapply Qcle_trans; [|exact E]. apply Hs; lia.
    + right. split; [exact Hu|exact Hl].
  - apply qleb_false_iff in E.
    assert (Hb : u < kn kv (n - 1)).
    { eapply Qclt_le_trans; [exact E|]. apply Hs; lia. }
    destruct (bisect_spec kv u n 0 (n - 1) ltac:(lia) ltac:(lia) Hu0 Hb) as [H1 [H2 [H3 H4]]].
    set (s := bisect n kv u 0 (n - 1)) in *.
    assert (Hp : (p <= s)%nat).
    { destruct (Nat.le_gt_cases p s) as [L|L]; [exact L|]. exfalso.
      assert (kn kv (S s) <= kn kv p) by (apply Hs; lia).
      rewrite Hf in H. apply (Qclt_not_le _ _ H4). eapply Qcle_trans; eassumption. }
    assert (Hq : (s < n - p - 1)%nat).
    { destruct (Nat.le_gt_cases (n - p - 1) s) as [L|L]; [|exact L]. exfalso.
      assert (kn kv (n - p - 1) <= kn kv s) by (apply Hs; lia).
      apply (Qclt_not_le _ _ E). eapply Qcle_trans; eassumption. }
    repeat split; auto.
    eapply Qcle_lt_trans; eassumption.
Qed.

(* uniqueness: a non-empty span containing u (half-open) is the one reported *)
Lemma findspan_unique_l kv p u t :
  kv_ok kv p -> kn kv 0 <= u -> u < kn kv (length kv - 1) ->
  (S t < length kv)%nat -> kn kv t <= u -> u < kn kv (S t) -> t = findspan kv p u.
Proof.
  intros Hok Hu0 Hu1 Ht H1 H2.
  destruct (findspan_spec_l kv p u Hok Hu0 (Qclt_le_weak _ _ Hu1)) as [A [B [C [D E]]]].
  set (s := findspan kv p u) in *.
  destruct E as [E|[E _]]; [|subst u; exfalso; revert Hu1; apply Qcle_not_lt; apply Qcle_refl].
  pose proof (ok_sorted _ _ Hok) as Hs.
  destruct (Nat.lt_trichotomy t s) as [L|[L|L]]; [|exact L|]; exfalso.
  - assert (kn kv (S t) <= kn kv s) by (apply Hs; lia).
    apply (Qclt_not_le _ _ H2). eapply Qcle_trans; eassumption.
  - assert (kn kv (S s) <= kn kv t) by (apply Hs; lia).
    apply (Qclt_not_le _ _ E). eapply Qcle_trans; eassumption.
Qed.
