"""C12 -- Time integrators realise consistent RK/Rosenbrock schemes of their stated order.

Stages (DESIGN.md section 4, C12):
  T   translate/tableaux.py reads the coefficient tables out of /repo's solvers.py on every run;
      coq/gen/C12_tab_<method>.v re-proves the order conditions of the documented order by
      vm_compute; the tables the running implementation really closes over are compared
      EXACTLY (every double) with the translated ones.
  C   correspondence of coq/C12/Model.v with the implementation:
        dirk_step / rosenbrock_step on diagonal dissipative linear systems (model over Q, exact
        stage solves) -- floats, bound derived below (fwd_bound_*);
        _constant_step_method / _adaptive_step_method with scripted steppers -- exact on a dyadic
        stream, derived bound on a general stream;
        newton on dyadic scalar problems -- exact.
  P   the property evaluated directly on the implementation with an independent oracle
      (exact rational stage residuals of recorded stages, driver predicates, Newton contract,
      y' = const) -- the search for a failing input.
      Driver traces: every shipped method is also run through its REAL driver (constant-step runs of
      >= 3 steps on nonlinear problems; adaptive runs started with a far too large step so that
      attempts are rejected) while every call of dirk_step / rosenbrock_step is recorded from outside
      (table, state, tau, cached Fx, Newton calls, linear-solve outputs); each attempt -- accepted,
      rejected or failed -- is checked with the same single-step oracles against the state the driver
      is in (J and F at the CURRENT state, Fx = F(current state)), plus the chaining of states.

Float bounds (never tuned):  eps = 2^-52.
  * stage residual of a recorded stage (any M, L):  backward-stable LU/Cholesky solve and one
    Newton update give |rho_i|_2 <= 128 n eps [ (|M|_F + tau |a|_max |L|_F)(|x| + |z_i| + 2 max_j|y_j|)
    + tau s |a|_max |g| ]  (growth factor of partial pivoting for n <= 6 absorbed in 128);
    if Newton returned without iterating, or for nonlinear F: Newton's own target
    max(1e-4, 1e-6 |res0|) is added (the property says "to the Newton tolerance").
  * forward bound for diagonal systems: running first-order error analysis of the scalar
    recurrences, doubled (fwd_bound_dirk / fwd_bound_ros below).
  * drivers, general stream: |t_k - model| <= 8 eps (k+2)^2 max(|t0|,|t_end|, sum|tau_j|).
"""
import math
import os
from fractions import Fraction as Fr

import numpy as np

from harness.core import REPO, cq, clist, cbool, log, parse_coq_list_of_nat
from translate import tableaux as TT

PROPS = 'C12/Props.v'
EPS = Fr(1, 2 ** 52)
DRIVER = 'harness/impl/c12_driver.py'


def frl(v):
    return [Fr(float(t)) for t in v]


def norm2(v):
    # scaled: the square of a representable entry (|t| > 1e154) must not turn an exact residual
    # into inf (thorough tier, trajectories that blow up)
    v = list(v)
    try:
        m = max([abs(float(t)) for t in v] + [0.0])
    except OverflowError:
        return math.inf
    if m == 0.0 or math.isinf(m) or math.isnan(m):
        return m
    return m * math.sqrt(sum((float(t) / m) ** 2 for t in v))


def all_finite(obj):
    if isinstance(obj, float):
        return math.isfinite(obj)
    if isinstance(obj, (list, tuple)):
        return all(all_finite(t) for t in obj)
    if isinstance(obj, dict):
        return all(all_finite(t) for t in obj.values())
    return True


# ---------------------------------------------------------------------------
# independent Python evaluation of the order conditions (diagnosis only; Coq decides)
# ---------------------------------------------------------------------------

COND_NAMES = ['sum b_i = 1', 'sum b_i beta_i = 1/2', 'sum b_i alpha_i^2 = 1/3', 'sum b_i beta_ij beta_j = 1/6',
              'sum b_i alpha_i^3 = 1/4', 'sum b_i alpha_i alpha_ij beta_j = 1/8', 'sum b_i beta_ij alpha_j^2 = 1/12',
              'sum b_i beta_ij beta_jk beta_k = 1/24']
COND_RHS = [Fr(1), Fr(1, 2), Fr(1, 3), Fr(1, 6), Fr(1, 4), Fr(1, 8), Fr(1, 12), Fr(1, 24)]
COND_ORDER = [1, 2, 3, 3, 4, 4, 4, 4]


def _dot(a, b):
    return sum((x * y for x, y in zip(a, b)), Fr(0))


def _mv(A, v):
    return [_dot(r, v) for r in A]


def cond_lhs(k, Aa, Bb, b):
    one = [Fr(1)] * len(b)
    al, be = _mv(Aa, one), _mv(Bb, one)
    al2 = [t * t for t in al]
    return [lambda: _dot(b, one), lambda: _dot(b, be), lambda: _dot(b, al2), lambda: _dot(b, _mv(Bb, be)),
            lambda: _dot(b, [t ** 3 for t in al]), lambda: _dot(b, [p * q for p, q in zip(al, _mv(Aa, be))]),
            lambda: _dot(b, _mv(Bb, al2)), lambda: _dot(b, _mv(Bb, _mv(Bb, be)))][k]()


def failing_conditions(m, weights, order):
    Aa = m['A']
    Bb = Aa if m['Gamma'] is None else [[p + q for p, q in zip(r1, r2)] for r1, r2 in zip(m['A'], m['Gamma'])]
    tol = TT.tol_of(m)
    bad = []
    for k in range(8):
        if COND_ORDER[k] > order:
            continue
        lhs = cond_lhs(k, Aa, Bb, weights)
        scale = cond_lhs(k, [[abs(t) for t in r] for r in Aa], [[abs(t) for t in r] for r in Bb],
                         [abs(t) for t in weights]) + COND_RHS[k]
        if abs(lhs - COND_RHS[k]) > tol * scale:
            bad.append((k, float(lhs - COND_RHS[k])))
    return bad


def table_rows(m):
    """The table as the implementation stores it (floats)."""
    rows = [[float(t) for t in r] for r in m['A']] + [[float(t) for t in m['b']]]
    if m['kind'] == 'dirk' and m['b_hat'] is not None:
        rows.append([float(t) for t in m['b_hat']])
    return rows


# ---------------------------------------------------------------------------
# stage T
# ---------------------------------------------------------------------------

def stage_tables(ctx):
    """Translate, re-prove order conditions, compare with the tables the implementation uses.
    Returns the translated methods (or None)."""
    path = os.path.join(REPO, 'pyiga', 'solvers.py')
    try:
        methods = TT.translate(path)
    except TT.TranslateError as e:
        ctx.obligations += 1
        ctx.broken.append('translator tableaux.py rejects solvers.py: %s' % e)
        log('[C12] translator: %s' % e)
        return None
    ctx.cov['methods'] = {n: {'kind': m['kind'], 'stages': m['s'], 'order': m['order'], 'embedded': m['emb_order'],
                              'order_source': m['order_source'], 'digits': m['digits'], 'err_order': m['err_order']}
                          for n, m in methods.items()}
    files = [('C12_tab_%s' % n, TT.HEADER + TT.coq_method(m)) for n, m in methods.items()]
    # all tables in one file first (one Coq start-up); per-method files only to attribute a failure
    ok_all, out_all = ctx.coq_eval('C12_tables', TT.HEADER + '\n'.join(TT.coq_method(m) for m in methods.values()))
    ctx.checker_cmds.append('cd coq && coqc -R . Verif gen/C12_tables.v')
    if ok_all:
        results = [(name, True, '') for name, _ in files]
    else:
        results = ctx.coq_eval_many(files)
    for (name, ok, out), (n, m) in zip(results, methods.items()):
        ctx.obligations += 1
        ctx.checker_cmds.append('cd coq && coqc -R . Verif gen/%s.v' % name)
        ctx.count(('table', n))
        if ok:
            ctx.discharged += 1
            continue
        bad = failing_conditions(m, m['b'], m['order'])
        bad_h = failing_conditions(m, m['b_hat'], m['emb_order']) if m['b_hat'] is not None else []
        # the signature names the method, which conditions fail and the value of sum(b):
        # a different defect of the same table is a different signature
        osig = 'tableau:order-conditions:%s:b=%s:bhat=%s:sumb=%.6f' % (
            n, ','.join(str(k) for k, _ in bad), ','.join(str(k) for k, _ in bad_h), float(sum(m['b'])))
        if ctx.is_known(osig) and (bad or bad_h):
            # a listed open finding: the obligation that is checked instead is the refutation
            # (`<method>_order_refuted`): exactly these conditions fail for the table as translated today
            import re as _re
            txt = dict(files)[name]
            goals = [clist(['%d%%nat' % k for k, _ in bad]), clist(['%d%%nat' % k for k, _ in bad_h])]
            it = iter(goals)
            rtxt = _re.sub(r'(Goal failing [^\n]*?) = \[\]\.', lambda mo: mo.group(1) + ' = (' + next(it) + ')%nat.', txt)
            okr, outr = ctx.coq_eval(name + '_refuted', rtxt)
            ctx.checker_cmds.append('cd coq && coqc -R . Verif gen/%s_refuted.v' % name)
            if okr:
                ctx.discharged += 1
                ctx.trusted.append('%s_order_refuted: generated refutation (failing conditions %s / embedded %s) checked by vm_compute' % (
                    n, goals[0], goals[1]))
            else:
                ctx.broken.append('refutation obligation for the known finding %s does not check: %s' % (osig, outr[-300:]))
        else:
            ctx.broken.append('order conditions of %s (gen/%s.v) no longer proved: %s' % (n, name, out[-300:]))
        if bad or bad_h:
            what = ('%s (solvers.py line %d) is documented as order %d%s but violates: ' % (
                n, m['line'], m['order'], (' with embedded order %d' % m['emb_order']) if m['b_hat'] is not None else '')
                + '; '.join('[b] %s (residual %.3e)' % (COND_NAMES[k], r) for k, r in bad)
                + ' '.join('; [b_hat] %s (residual %.3e)' % (COND_NAMES[k], r) for k, r in bad_h))
            replay = {'method': n, 'failed_main': [(COND_NAMES[k], r) for k, r in bad],
                      'failed_embedded': [(COND_NAMES[k], r) for k, r in bad_h],
                      'how': "integrate y' = 1, y(0) = 0 with solvers.%s(np.eye(1), F, J, [0.], 0.125, 1.0%s): a consistent "
                             "method returns y(1) = 1" % (n, ', tol=None' if m['adaptive'] else '')}
            try:
                r = ctx.impl.run(DRIVER, {'tasks': [dict(kind='method', name=n, Mkind='dense', M=[[1.0]], L=[[0.0]], g=[1.0],
                                                         x=[0.0], tau=0.125, t_end=1.0, t0=0.0, tol=None,
                                                         adaptive_api=m['adaptive'])]})['results'][0]
                if r['status'] == 'Ok':
                    replay['y_at_1'] = r['sols'][-1][0]
                    what += " -- y' = 1 integrated to t = %g gives y = %.16g" % (r['times'][-1], r['sols'][-1][0])
            except Exception as e:  # noqa
                replay['replay_error'] = str(e)[:200]
            ctx.report(osig, what, replay, found_input=True)
        else:
            ctx.report('tableau:shape:%s' % n, 'table of %s is not well-shaped / not lower triangular: %s' % (n, out[-300:]),
                       {'method': n}, found_input=True)
    return methods


def tie_tables(ctx, methods):
    """The arrays closed over by solvers.<name> at run time == the translated ones, bit for bit."""
    r = ctx.impl.run(DRIVER, {'tasks': [{'kind': 'tables', 'names': list(methods)}]})['results'][0]
    ctx.obligations += 1
    if r['status'] != 'Ok':
        ctx.broken.append('cannot read the tables of the running implementation: %s' % r.get('msg'))
        return
    ok = True
    if sorted(r['exported']) != sorted(methods):
        ok = False
        ctx.broken.append('shipped methods at run time %s differ from the ones the translator found %s' % (
            r['exported'], sorted(methods)))
    for n, m in methods.items():
        t = r['tables'][n]
        ctx.count(('table-tie', n))
        exp = {}
        if m['kind'] == 'dirk':
            exp['A'] = table_rows(m)
        else:
            exp['A'] = [[float(v) for v in row] for row in m['A']]
            exp['Gamma'] = [[float(v) for v in row] for row in m['Gamma']]
            exp['b'] = [float(v) for v in m['b']]
            exp['b_hat'] = [float(v) for v in m['b_hat']]
        for k, v in exp.items():
            if t.get(k) != v:
                ok = False
                ctx.broken.append('table %s of solvers.%s at run time differs from the translated one' % (k, n))
                ctx.report('tie:table:%s' % n, 'solvers.%s uses a table %s that differs from the source text of its '
                           'coefficient function (translated %s, run time %s)' % (n, k, v, t.get(k)),
                           {'method': n, 'array': k, 'translated': v, 'runtime': t.get(k)}, found_input=False)
        if t.get('err_order') != m['err_order'] or t.get('name_attr') != n:
            ok = False
            ctx.broken.append('err_order/name of solvers.%s at run time (%s, %s) differ from the source (%s)' % (
                n, t.get('err_order'), t.get('name_attr'), m['err_order']))
        if m['adaptive']:
            # the constant-step fallback (tol=None) must use the same table without the embedded row
            c = t.get('const', {})
            if m['kind'] == 'dirk':
                good = c.get('A') == table_rows(m)[:-1]
            else:
                good = (c.get('A') == exp['A'] and c.get('Gamma') == exp['Gamma'] and c.get('b') == exp['b'])
            if not good:
                ok = False
                ctx.broken.append('constant-step fallback of solvers.%s does not use the method\'s own table' % n)
    if ok:
        ctx.discharged += 1


# ---------------------------------------------------------------------------
# one step: generators
# ---------------------------------------------------------------------------

def dy(rng, lo, hi, den=64):
    """a short dyadic rational in [lo, hi] as float"""
    return rng.randint(int(lo * den), int(hi * den)) / den


def user_tableau(rng):
    """random user DIRK tableau (dyadic): optional explicit first stage, positive diagonal,
    b either the last row (stiffly accurate) or free, optional embedded weights."""
    s = rng.randint(1, 4)
    esdirk = s >= 2 and rng.random() < 0.4
    A = [[0.0] * s for _ in range(s)]
    for i in range(s):
        if i == 0 and esdirk:
            continue
        A[i][i] = rng.choice([0.25, 0.5, 0.375, 0.125, 1.0])
        for j in range(i):
            A[i][j] = rng.choice([0.0, 0.25, -0.25, 0.5, 0.75, -0.125, 1.0])
    sa = rng.random() < 0.5 and not (s == 1 and esdirk)
    b = list(A[s - 1]) if sa else [rng.choice([0.25, 0.5, -0.25, 0.125, 0.75]) for _ in range(s)]
    rows = A + [b]
    if rng.random() < 0.6:
        rows.append([rng.choice([0.25, 0.5, 0.0, 0.375, -0.125]) for _ in range(s)])
    return rows


def user_ros(rng):
    s = rng.randint(1, 4)
    gam = rng.choice([0.25, 0.5, 0.375, 0.75])
    A = [[0.0] * s for _ in range(s)]
    G = [[0.0] * s for _ in range(s)]
    for i in range(s):
        G[i][i] = gam
        for j in range(i):
            A[i][j] = rng.choice([0.0, 0.5, 1.0, 0.25, -0.5])
            G[i][j] = rng.choice([0.0, -0.5, 0.25, -1.0, 0.75])
    b = [rng.choice([0.25, 0.5, -0.25, 0.125, 0.75]) for _ in range(s)]
    bh = [rng.choice([0.25, 0.5, 0.0, 0.375]) for _ in range(s)] if rng.random() < 0.6 else None
    return A, G, b, bh


def spd_matrix(rng, n):
    """SPD with short dyadic entries: B B^T / 16 + I, B small integers."""
    B = [[rng.randint(-2, 2) for _ in range(n)] for _ in range(n)]
    return [[sum(B[i][k] * B[j][k] for k in range(n)) / 16.0 + (1.0 if i == j else 0.0) for j in range(n)] for i in range(n)]


def random_system(rng, n, stiff):
    """L with eigenvalues in the left half plane: -(C C^T) * scale + skew part (dyadic entries)."""
    C = [[rng.randint(-2, 2) for _ in range(n)] for _ in range(n)]
    sc = rng.choice([64.0, 256.0, 1024.0]) if stiff else rng.choice([0.25, 1.0, 2.0])
    L = [[-sc * (sum(C[i][k] * C[j][k] for k in range(n)) / 4.0 + (0.25 if i == j else 0.0)) for j in range(n)]
         for i in range(n)]
    for i in range(n):
        for j in range(i):
            w = rng.randint(-4, 4) / 2.0
            L[i][j] += w
            L[j][i] -= w
    g = [dy(rng, -8, 8, 16) * rng.choice([1.0, 16.0]) for _ in range(n)]
    return L, g


TAUS = [2.0 ** -k for k in range(0, 11)]        # 1 .. ~1e-3: three decades


def gen_step_cases(ctx, methods):
    rng = ctx.rng
    thorough = ctx.tier == 'thorough'
    cases = []
    dist = {'dirk_diag': 0, 'dirk_general': 0, 'dirk_nonlinear': 0, 'ros_diag': 0, 'ros_general': 0, 'ros_nonlinear': 0,
            'user_tableau': 0, 'M_none': 0, 'M_dense': 0, 'M_sparse': 0, 'stiff': 0}
    dirk_tabs = [(n, table_rows(m)) for n, m in methods.items() if m['kind'] == 'dirk']
    ros_tabs = [(n, ([[float(v) for v in r] for r in m['A']], [[float(v) for v in r] for r in m['Gamma']],
                     [float(v) for v in m['b']], [float(v) for v in m['b_hat']])) for n, m in methods.items()
                if m['kind'] == 'ros']
    reps = 6 if thorough else 2

    def mass(kind, n, diag):
        if kind == 'none':
            return None
        if diag:
            return [[(dy(rng, 0.5, 4, 16) if i == j else 0.0) for j in range(n)] for i in range(n)]
        return spd_matrix(rng, n)

    def add(c):
        cases.append(c)
        dist[c['family']] += 1
        dist['M_' + c['Mkind']] += 1
        if c.get('stiff'):
            dist['stiff'] += 1
        if c['method'] == 'user':
            dist['user_tableau'] += 1

    def one(kind, name, tab, family):
        n = rng.randint(1, 4) if family.endswith('diag') else rng.randint(2, 5)
        diag = family.endswith('diag')
        Mkind = rng.choice(['none', 'dense', 'sparse'])
        stiff = rng.random() < 0.5
        tau = rng.choice(TAUS)
        if diag:
            lam = [(-dy(rng, 1 / 64, 1000 if stiff else 4, 64) if rng.random() < 0.9 else 0.0) for _ in range(n)]
            L = [[(lam[i] if i == j else 0.0) for j in range(n)] for i in range(n)]
            g = [dy(rng, -16, 16, 16) * rng.choice([1.0, 64.0]) for _ in range(n)]
        else:
            L, g = random_system(rng, n, stiff)
        c = dict(kind=kind, family=family, method=name, n=n, Mkind=Mkind, M=mass(Mkind, n, diag), L=L, g=g,
                 Lkind=rng.choice(['dense', 'sparse']), x=[dy(rng, -4, 4, 32) for _ in range(n)], tau=tau, stiff=stiff,
                 nl=(rng.choice([0.125, 0.5, 1.0]) if family.endswith('nonlinear') else 0.0))
        if kind == 'dirk':
            c['A'] = tab
            c['give_Fx'] = rng.random() < 0.3
        else:
            c['A'], c['G'], c['b'], c['bh'] = tab
            if name != 'user' and rng.random() < 0.3:
                c['bh'] = None          # the constant-step use of the same table
        add(c)

    for _ in range(reps):
        for name, tab in dirk_tabs:
            for fam in ('dirk_diag', 'dirk_diag', 'dirk_general', 'dirk_nonlinear'):
                one('dirk', name, tab, fam)
        for name, tab in ros_tabs:
            for fam in ('ros_diag', 'ros_diag', 'ros_general', 'ros_nonlinear'):
                one('ros', name, tab, fam)
    for _ in range(120 if thorough else 30):
        one('dirk', 'user', user_tableau(rng), rng.choice(['dirk_diag', 'dirk_general', 'dirk_nonlinear']))
        one('ros', 'user', user_ros(rng), rng.choice(['ros_diag', 'ros_general', 'ros_nonlinear']))
    return cases, dist


# ---------------------------------------------------------------------------
# one step: exact oracles (Fractions) and derived bounds
# ---------------------------------------------------------------------------

def fmat(rows, n):
    if rows is None:
        return [[Fr(1 if i == j else 0) for j in range(n)] for i in range(n)]
    return [[Fr(float(v)) for v in r] for r in rows]


def fmv(A, v):
    return [sum((a * t for a, t in zip(r, v)), Fr(0)) for r in A]


def fadd(*vs):
    return [sum(t, Fr(0)) for t in zip(*vs)]


def fscale(c, v):
    return [c * t for t in v]


def fnorm(M):
    return math.sqrt(sum(float(t) ** 2 for r in M for t in r))


def exact_F(case, y):
    L = fmat(case['L'], case['n'])
    nl = Fr(float(case['nl']))
    r = fadd(fmv(L, y), frl(case['g']))
    if nl:
        r = [a - nl * t ** 3 for a, t in zip(r, y)]
    return r


def is_sa_of(rows, s):
    return bool(np.allclose(np.array(rows[s]), np.array(rows[s - 1])))


def check_dirk_property(case, res):
    """Stage equations on the recorded stages, update and embedded equations.  None or (sig, text)."""
    rows = case['A']
    s = len(rows[0])
    n = case['n']
    if res['status'] == 'Other:NoConvergenceError' and case['nl'] != 0.0:
        return None       # Newton may legitimately fail on a nonlinear stage system; then it must raise
    if res['status'] != 'Ok':
        return ('raises-' + res['status'], 'dirk_step raised on a valid input: %s' % res.get('msg'))
    if not all_finite(res):
        return ('non-finite', 'dirk_step returned non-finite values')
    A = [frl(r) for r in rows]
    x = frl(case['x'])
    tau = Fr(float(case['tau']))
    M = fmat(case['M'], n)
    Mx = fmv(M, x)
    nM = fnorm(M)
    nL = fnorm(fmat(case['L'], n))
    ng = norm2(case['g'])
    nrec = list(res['newton'])
    ys, zs, info = [], [], []
    for i in range(s):
        if A[i][i] == 0:
            if i != 0:
                return ('explicit-stage', 'explicit stage %d accepted (the code asserts i == 0)' % i)
            ys.append(x)
            zs.append(x)
            info.append(None)
        else:
            if not nrec:
                return ('stage-count', 'stage %d was not solved by newton' % i)
            e = nrec.pop(0)
            start = x if i == 0 else ys[-1]
            if frl(e['x0']) != start:
                return ('newton-start', 'stage %d: Newton started from %s, not from %s' % (i, e['x0'], [float(t) for t in start]))
            if e['y'] != e['last_eval']:
                return ('last-eval', 'stage %d: the returned y_i is not the last point F was evaluated at' % i)
            ys.append(frl(e['y']))
            zs.append(start)
            info.append(e)
    if nrec:
        return ('stage-count', 'newton was called %d more times than there are implicit stages' % len(nrec))
    Fy = [exact_F(case, y) for y in ys]
    ymax = max(norm2(y) for y in ys)
    amax = max(abs(float(t)) for r in rows for t in r)
    nlin = float(case['nl']) * 3 * max(1.0, ymax) ** 2       # Lipschitz part of the cubic term
    worst = 0.0
    for i in range(s):
        rho = fadd(fmv(M, ys[i]), fscale(Fr(-1), Mx),
                   fscale(-tau, fadd(*[fscale(A[i][j], Fy[j]) for j in range(i + 1)])))
        rn = norm2(rho)
        tol = 128 * n * float(EPS) * ((nM + float(tau) * amax * (nL + nlin)) * (norm2(x) + norm2(zs[i]) + 2 * ymax)
                                      + float(tau) * s * amax * ng)
        e = info[i]
        if e is not None and (e['nF'] <= 1 or case['nl'] != 0.0):
            tol += max(1e-4, 1e-6 * e['res0']) * (1 + 1e-9)
        if info[i] is not None or i == 0:
            worst = max(worst, rn / tol if tol > 0 else 0.0)
        if rn > tol:
            return ('stage-equation', 'stage %d of %d violates M y_i = M x + tau sum_j a_ij F(y_j): residual %.3e > %.3e '
                    '(Newton target %.1e, iterated: %s)' % (i, s, rn, tol, 0 if e is None else max(1e-4, 1e-6 * e['res0']),
                                                            None if e is None else e['nF'] > 1))
    sa = is_sa_of(rows, s)
    scale = (nM * (norm2(x) + 2 * ymax) + float(tau) * s * amax * max(norm2(f) for f in Fy))
    tolu = 128 * n * float(EPS) * scale
    xn = frl(res['x_new'])
    if sa:
        if xn != ys[s - 1]:
            return ('sa-shortcut', 'stiffly accurate table: x_new is not the last stage')
        if res['F_x_new'] is None or norm2(fadd(frl(res['F_x_new']), fscale(Fr(-1), Fy[s - 1]))) > 64 * n * float(EPS) * (
                (nL + nlin) * ymax + ng + 1e-300):
            return ('fsal', 'F_x_new handed to the next step is not F(x_new)')
    else:
        rho = fadd(fmv(M, xn), fscale(Fr(-1), Mx), fscale(-tau, fadd(*[fscale(A_b, f) for A_b, f in zip(frl(rows[s]), Fy)])))
        if norm2(rho) > tolu * max(1.0, fnorm(M)):
            return ('update-equation', 'M x_new = M x + tau sum b_i F(y_i) violated: residual %.3e > %.3e' % (norm2(rho), tolu))
        if res['F_x_new'] is not None:
            return ('fsal', 'F_x_new returned although the method is not stiffly accurate')
    if len(rows) == s + 2:
        if res.get('x_est') is None:
            return ('embedded-missing', 'embedded table but no error estimate returned')
        xe = frl(res['x_est'])
        rho = fadd(fmv(M, xe), fscale(Fr(-1), Mx), fscale(-tau, fadd(*[fscale(bh, f) for bh, f in zip(frl(rows[s + 1]), Fy)])))
        if norm2(rho) > tolu * max(1.0, fnorm(M)):
            return ('embedded-equation', 'M x_est = M x + tau sum bhat_i F(y_i) violated: residual %.3e > %.3e' % (norm2(rho), tolu))
    elif res.get('x_est') is not None:
        return ('embedded-extra', 'estimate returned without embedded weights')
    return None


def check_ros_property(case, res):
    n = case['n']
    if res['status'] != 'Ok':
        return ('raises-' + res['status'], 'rosenbrock_step raised on a valid input: %s' % res.get('msg'))
    if not all_finite(res):
        return ('non-finite', 'rosenbrock_step returned non-finite values')
    A, G = [frl(r) for r in case['A']], [frl(r) for r in case['G']]
    s = len(A)
    b = frl(case['b'])
    x = frl(case['x'])
    tau = Fr(float(case['tau']))
    M = fmat(case['M'], n)
    L = fmat(case['L'], n)
    nl = Fr(float(case['nl']))
    gam = G[0][0]
    if len(res['ks']) != s:
        return ('stage-count', '%d linear solves for %d stages' % (len(res['ks']), s))
    ks = [frl(k) for k in res['ks']]
    # Jacobian at x
    Jm = [[L[i][j] - (3 * nl * x[i] ** 2 if i == j else 0) for j in range(n)] for i in range(n)]
    nC = fnorm(M) + float(tau * abs(gam)) * fnorm(Jm)
    kmax = max(norm2(k) for k in ks)
    amax = max([abs(float(t)) for r in case['A'] + case['G'] for t in r] + [1.0])
    for i in range(s):
        y = fadd(x, fscale(tau, fadd(*[fscale(A[i][j], ks[j]) for j in range(i)]))) if i else x
        if frl(res['F_points'][i]) != y and norm2(fadd(frl(res['F_points'][i]), fscale(Fr(-1), y))) > 16 * s * float(EPS) * (
                norm2(x) + float(tau) * amax * s * kmax):
            return ('stage-point', 'stage %d: F evaluated at a point other than x + tau sum a_ij k_j' % i)
        Fi = exact_F(case, y)
        w = fadd(*[fscale(G[i][j], ks[j]) for j in range(i + 1)])
        rho = fadd(fmv(M, ks[i]), fscale(Fr(-1), Fi), fscale(-tau, fmv(Jm, w)))
        nJ = fnorm(Jm)
        nlin = float(nl) * 3 * max(1.0, norm2(y)) ** 2
        tol = (128 * n * float(EPS) * ((fnorm(M) + float(tau) * nJ * (abs(float(gam)) + s * amax)) * kmax + norm2(Fi))
               + 16 * s * float(EPS) * (nJ + nlin) * (norm2(x) + float(tau) * s * amax * kmax))
        if norm2(rho) > tol:
            return ('stage-equation', 'stage %d violates M k_i = F(y_i) + tau J sum_j gamma_ij k_j: residual %.3e > %.3e' % (
                i, norm2(rho), tol))
    tolu = 32 * (s + 2) * float(EPS) * (norm2(x) + float(tau) * s * max(abs(float(t)) for t in case['b']) * kmax)
    xn = fadd(x, fscale(tau, fadd(*[fscale(bi, k) for bi, k in zip(b, ks)])))
    if norm2(fadd(frl(res['x_new']), fscale(Fr(-1), xn))) > tolu:
        return ('update-equation', 'x_new = x + tau sum b_i k_i violated')
    if case['bh'] is not None:
        if res.get('x_est') is None:
            return ('embedded-missing', 'embedded weights but no estimate')
        xe = fadd(x, fscale(tau, fadd(*[fscale(bi, k) for bi, k in zip(frl(case['bh']), ks)])))
        tole = 32 * (s + 2) * float(EPS) * (norm2(x) + float(tau) * s * max(abs(float(t)) for t in case['bh']) * kmax)
        if norm2(fadd(frl(res['x_est']), fscale(Fr(-1), xe))) > tole + 1e-300:
            return ('embedded-equation', 'x_est = x + tau sum bhat_i k_i violated')
    elif res.get('x_est') is not None:
        return ('embedded-extra', 'estimate returned without embedded weights')
    return None


# ---------------------------------------------------------------------------
# forward bounds for diagonal dissipative linear systems (component-wise scalar recurrences)
# ---------------------------------------------------------------------------
# m > 0, lam <= 0, a_ii >= 0, gamma > 0: every denominator m - c*lam is a sum of non-negative
# terms (relative error <= 3 eps).  E(.) below is a first-order bound on the absolute error of
# the computed quantity; the returned bounds are doubled to cover second-order terms.

def fwd_bound_dirk(rows, m, lam, g, x, tau):
    """returns (model x_new, model x_est|None, bound x_new, bound x_est) for one component, or None
    if a diagonal entry is negative (outside the analysed class)."""
    s = len(rows[0])
    A = [frl(r) for r in rows]
    e = EPS
    F = lambda y: lam * y + g
    ys, Fs, Ey, EF = [], [], [], []
    for i in range(s):
        a = A[i][i]
        if a < 0:
            return None
        if a == 0:
            if i != 0:
                return None
            y, E = x, Fr(0)
        else:
            c = tau * a
            C = m - c * lam
            rhs = m * x + tau * sum((A[i][j] * Fs[j] for j in range(i)), Fr(0))
            Erhs = tau * sum((abs(A[i][j]) * EF[j] for j in range(i)), Fr(0)) + (i + 3) * e * (
                abs(m * x) + tau * sum((abs(A[i][j] * Fs[j]) for j in range(i)), Fr(0)))
            y = (rhs + c * g) / C
            z = x if i == 0 else ys[-1]
            d = z - y
            # Newton: y = z - (m z - c F(z) - rhs)/C
            loc = 16 * e * (abs(z) + abs(y) + abs(d) + (abs(rhs) + abs(c * g)) / C)
            E = loc + Erhs / C
        ys.append(y)
        Fs.append(F(y))
        Ey.append(E)
        EF.append(abs(lam) * E + 2 * e * (abs(lam * y) + abs(g)))

    def upd(w):
        val = (m * x + tau * sum((wi * f for wi, f in zip(w, Fs)), Fr(0))) / m
        E = (tau * sum((abs(wi) * ef for wi, ef in zip(w, EF)), Fr(0)) + (s + 3) * e * (
            abs(m * x) + tau * sum((abs(wi * f) for wi, f in zip(w, Fs)), Fr(0)))) / m + 2 * e * abs(val)
        return val, E
    sa = is_sa_of(rows, s)
    if sa:
        xn, En = ys[-1], Ey[-1]
    else:
        xn, En = upd(frl(rows[s]))
    xe = Ee = None
    if len(rows) == s + 2:
        xe, Ee = upd(frl(rows[s + 1]))
    tiny = Fr(1, 10 ** 300)
    return xn, xe, 2 * En + tiny, None if Ee is None else 2 * Ee + tiny


def fwd_bound_ros(A, G, b, bh, m, lam, g, x, tau):
    s = len(b)
    e = EPS
    A, G, b = [frl(r) for r in A], [frl(r) for r in G], frl(b)
    gam = G[0][0]
    if gam <= 0:
        return None
    C = m - tau * gam * lam
    ks, Ek = [], []
    for i in range(s):
        y = x + tau * sum((A[i][j] * ks[j] for j in range(i)), Fr(0))
        Eyi = tau * sum((abs(A[i][j]) * Ek[j] for j in range(i)), Fr(0)) + (i + 2) * e * (
            abs(x) + tau * sum((abs(A[i][j] * ks[j]) for j in range(i)), Fr(0)))
        Fi = lam * y + g
        EFi = abs(lam) * Eyi + 2 * e * (abs(lam * y) + abs(g))
        w = sum((G[i][j] * ks[j] for j in range(i)), Fr(0))
        Ew = sum((abs(G[i][j]) * Ek[j] for j in range(i)), Fr(0)) + (i + 1) * e * sum((abs(G[i][j] * ks[j]) for j in range(i)), Fr(0))
        rhs = Fi + tau * lam * w
        Erhs = EFi + tau * abs(lam) * Ew + 4 * e * (abs(Fi) + tau * abs(lam * w))
        k = rhs / C
        ks.append(k)
        Ek.append(Erhs / C + 5 * e * abs(k))

    def upd(w):
        val = x + tau * sum((wi * k for wi, k in zip(w, ks)), Fr(0))
        E = tau * sum((abs(wi) * ek for wi, ek in zip(w, Ek)), Fr(0)) + (s + 2) * e * (
            abs(x) + tau * sum((abs(wi * k) for wi, k in zip(w, ks)), Fr(0)))
        return val, E
    xn, En = upd(b)
    xe = Ee = None
    if bh is not None:
        xe, Ee = upd(frl(bh))
    tiny = Fr(1, 10 ** 300)
    return xn, xe, 2 * En + tiny, None if Ee is None else 2 * Ee + tiny


STEP_HEADER = '''From Coq Require Import QArith Qabs List Bool.
From Verif.C12 Require Import Model.
Import ListNotations.
Open Scope Q_scope.
Definition qsolve (m lam g c rhs x0 : Q) : Q * Q :=
  let y := Qred ((rhs + c * g) / (m - c * lam)) in (y, Qred (lam * y + g)).
Definition close (a b bound : Q) : bool := Qle_bool (Qabs (a - b)) bound.
Definition oclose (a : option Q) (b : option (Q * Q)) : bool :=
  match a, b with
  | Some u, Some (v, bd) => close u v bd
  | None, None => true
  | _, _ => false
  end.
(* one component of a diagonal system, DIRK: (m, lam, g, x, tau), table, is_sa, impl x_new + bound, impl x_est + bound *)
Definition dirk_agrees (c : (Q*Q*Q*Q*Q) * (list (list Q) * list Q * option (list Q) * bool) * (Q*Q) * option (Q*Q)) : bool :=
  let '((m, lam, g, x, tau), (A, b, bh, sa), (ixn, bn), ixe) := c in
  match dirk_step Q 0 Qplus Qmult Qminus qzero (fun z => Qred (m * z)) (fun z => Qred (lam * z + g))
                  (fun v => Qred (v / m)) (qsolve m lam g) x tau None A b bh sa with
  | Some (xn, xe, Fxn, _) => close xn ixn bn && oclose xe ixe && Bool.eqb sa (match Fxn with Some _ => true | None => false end)
  | None => false
  end.
Definition ros_agrees (c : (Q*Q*Q*Q*Q) * (list (list Q) * list (list Q) * list Q * option (list Q)) * (Q*Q) * option (Q*Q)) : bool :=
  let '((m, lam, g, x, tau), (A, G, b, bh), (ixn, bn), ixe) := c in
  let gam := nth 0 (nth 0 G []) 0 in
  let '(xn, xe, _) := ros_step Q 0 Qplus Qmult (fun z => Qred (lam * z + g)) x tau (fun v => Qred (lam * v))
                               (fun v => Qred (v / (m - tau * gam * lam))) A G b bh in
  close xn ixn bn && oclose xe ixe.
Fixpoint badidx {T} (f : T -> bool) (k : nat) (cs : list T) : list nat :=
  match cs with [] => [] | c :: cs' => if f c then badidx f (S k) cs' else k :: badidx f (S k) cs' end.
'''


def qmat(rows):
    return clist([clist([cq(Fr(float(v))) for v in r]) for r in rows])


def qvec(v):
    return clist([cq(Fr(float(t))) for t in v])


def step_model_cases(case, res):
    """Coq case tuples (one per component) for a diagonal linear case, with their bounds; [] if the
    case is outside the class the forward bound covers or Newton did not iterate."""
    if res['status'] != 'Ok' or case['nl'] != 0.0 or not case['family'].endswith('diag') or not all_finite(res):
        return []
    n = case['n']
    out = []
    tau = Fr(float(case['tau']))
    for k in range(n):
        m = Fr(1) if case['M'] is None else Fr(float(case['M'][k][k]))
        lam = Fr(float(case['L'][k][k]))
        g = Fr(float(case['g'][k]))
        x = Fr(float(case['x'][k]))
        if case['kind'] == 'dirk':
            rows = case['A']
            s = len(rows[0])
            if any(e['nF'] <= 1 for e in res['newton']):
                return []
            fb = fwd_bound_dirk(rows, m, lam, g, x, tau)
            if fb is None:
                return []
            xn, xe, bn, be = fb
            sa = is_sa_of(rows, s)
            tab = '(%s, %s, %s, %s)' % (qmat(rows[:s]), qvec(rows[s]),
                                        ('Some ' + qvec(rows[s + 1])) if len(rows) == s + 2 else 'None', cbool(sa))
            fn = 'dirk'
        else:
            fb = fwd_bound_ros(case['A'], case['G'], case['b'], case['bh'], m, lam, g, x, tau)
            if fb is None:
                return []
            xn, xe, bn, be = fb
            tab = '(%s, %s, %s, %s)' % (qmat(case['A']), qmat(case['G']), qvec(case['b']),
                                        ('Some ' + qvec(case['bh'])) if case['bh'] is not None else 'None')
            fn = 'ros'
        ixn = Fr(float(res['x_new'][k]))
        ixe = None if res.get('x_est') is None else Fr(float(res['x_est'][k]))
        txt = '((%s, %s, %s, %s, %s), %s, (%s, %s), %s)' % (
            cq(m), cq(lam), cq(g), cq(x), cq(tau), tab, cq(ixn), cq(upf(bn)),
            'None' if ixe is None else 'Some (%s, %s)' % (cq(ixe), cq(upf(be if be is not None else Fr(0)))))
        dev = float(abs(ixn - xn) / bn)
        out.append((fn, txt, dev))
    return out


# ---------------------------------------------------------------------------
# drivers and newton: generators, Python mirrors (classification only), Coq text
# ---------------------------------------------------------------------------

def upf(fr):
    """round a non-negative rational bound up to a short rational (keeps the Coq literals small)"""
    f = float(fr)
    if f == 0.0 and fr > 0:
        f = 5e-324
    return Fr(f) * (1 + Fr(1, 2 ** 40))


def representable(fr):
    """is the rational exactly a binary64 (normal range, no overflow concerns for our sizes)?"""
    fr = Fr(fr)
    d = fr.denominator
    if d & (d - 1):
        return False
    n = abs(fr.numerator)
    while n and n % 2 == 0:
        n //= 2
    return n.bit_length() <= 53 and d.bit_length() < 1000


def gen_const_cases(ctx):
    rng = ctx.rng
    cases = []
    N = 120 if ctx.tier == 'thorough' else 40
    for i in range(N):
        exact = i % 2 == 0
        if exact:
            tau = 2.0 ** -rng.randint(0, 6)
            t0 = dy(rng, -4, 4, 16)
            steps = rng.randint(0, 40)
            t_end = t0 + steps * tau + rng.choice([0.0, 0.0, tau / 2, tau / 4, -tau / 8])
        else:
            tau = rng.choice([0.1, 0.3, 0.01, 0.07, 1e-3 * rng.randint(1, 99), rng.random() + 0.01])
            t0 = rng.choice([0.0, 0.0, rng.uniform(-3, 3)])
            t_end = t0 + rng.uniform(-0.5, min(250 * tau, 30.0))
            if rng.random() < 0.3:
                t_end = t0 + rng.randint(1, 50) * tau       # landing "exactly" in decimal
        fail_at = rng.randint(0, 6) if rng.random() < 0.2 else None
        cases.append(dict(kind='const', t0=t0, tau=tau, t_end=t_end, fail_at=fail_at, exact=exact))
    return cases


def const_case_coq(c, r):
    quot = (c['t_end'] - c['t0']) / c['tau']          # the float expression of solvers.py:460
    n = max(0, math.ceil(quot))
    slack = Fr(0) if c['exact'] else 4 * EPS * (abs(Fr(c['t0'])) + (n + 1) * abs(Fr(c['tau'])))
    return '((%s, %s, %s), %s, %s, %s)' % (cq(Fr(c['t0'])), cq(Fr(c['tau'])), cq(Fr(quot)),
                                           'None' if c['fail_at'] is None else 'Some %d%%nat' % c['fail_at'],
                                           clist([cq(Fr(t)) for t in r['times']]), cq(upf(slack)))


def check_const_property(c, r):
    if r['status'] != 'Ok':
        return ('raises-' + r['status'], 'constant-step driver raised: %s' % r.get('msg'))
    t = r['times']
    if len(r['sols']) != len(t):
        return ('one-state-per-time', '%d states for %d times' % (len(r['sols']), len(t)))
    if r['sols'] != [float(k) for k in range(len(t))]:
        return ('state-sequence', 'states are not the successive stepper outputs')
    calls_ok = r['ncalls'] == len(t) - 1 or (c['fail_at'] is not None and r['ncalls'] == len(t) and r['ncalls'] - 1 == c['fail_at'])
    if not r['taus_same'] or not calls_ok:
        return ('stepper-calls', 'stepper called %d times (tau unchanged: %s) for %d returned times' % (r['ncalls'], r['taus_same'], len(t)))
    t0, tau, te = Fr(c['t0']), Fr(c['tau']), Fr(c['t_end'])
    for k, tk in enumerate(t):
        if abs(Fr(tk) - (t0 + k * tau)) > 4 * EPS * (abs(t0) + k * abs(tau)):
            return ('times', 'time %d is %r, not t0 + %d*tau' % (k, tk, k))
    if c['fail_at'] is None and te >= t0:
        # reaches the end; at most one step beyond (float ceil), never short by a full step
        last = t0 + (len(t) - 1) * tau
        if last < te - 8 * EPS * (abs(te) + abs(t0)) - tau * 8 * EPS * len(t) or last - tau >= te + 8 * EPS * (abs(te) + abs(t0) + len(t) * tau):
            return ('end-time', 'last time %r for t_end %r, tau %r' % (t[-1], c['t_end'], c['tau']))
    return None


def np_r_and_praw(x, diff, tol, step_factor, err_order):
    """exactly the float operations of solvers.py:509-525 (same numpy as the implementation)"""
    xnew = x.copy()
    xhat = xnew + np.array(diff, dtype=float)
    d = tol + tol * abs(x)
    r = np.linalg.norm((xhat - xnew) / d) / np.sqrt(len(x))
    r0 = r
    if r == 0:
        r = 1e-15
    fac = step_factor * r ** (-1 / err_order)
    return float(r0), float(fac)


def adaptive_mirror(t0, tau0, t_end, evs):
    """Fractions mirror of Model.adaptive_loop (classification of cases only)."""
    t, tau, times, taus = t0, tau0, [t0], []
    for e in evs:
        if t >= t_end:
            break
        taus.append(tau)
        if e is None:
            tau = tau / 2
            continue
        r, praw = e
        if r == 0:
            r = Fr(1, 10 ** 15)
        if r <= 1:
            t = t + tau
            times.append(t)
        tau = tau * min(Fr(5), max(Fr(1, 5), praw))
    return (times if t >= t_end else None), taus


def gen_adaptive_cases(ctx):
    rng = ctx.rng
    cases = []
    N = 240 if ctx.tier == 'thorough' else 60
    tries = 0
    while len(cases) < N and tries < 20 * N:
        tries += 1
        exact = len(cases) % 2 == 0
        if exact:
            n = 1
            x0 = [rng.choice([1.0, 3.0, 0.0, -1.0])]
            tol = 2.0 ** -rng.randint(3, 12)
            q = rng.choice([1, 1, 2])
            sf = rng.choice([1.0, 0.875, 0.8125, 0.9375])
            tau0 = 2.0 ** -rng.randint(1, 5)
            t0 = dy(rng, -2, 2, 8)
            rs = [1.0, 1.0, 0.25, 4.0, 16.0, 2.0 ** -40, 0.0, 1.0 / 16] if q == 2 else [1.0, 1.0, 0.5, 2.0, 4.0, 0.25, 2.0 ** -40, 0.0]
        else:
            n = rng.randint(1, 4)
            x0 = [rng.uniform(-2, 2) for _ in range(n)]
            tol = 10.0 ** -rng.randint(2, 8)
            q = rng.choice([1, 2, 3, 4])
            sf = rng.choice([0.9, 0.8, 0.95, 0.5, 1.0])
            tau0 = rng.choice([0.1, 0.01, 0.5, 1e-3])
            t0 = rng.choice([0.0, rng.uniform(-1, 1)])
            rs = None
        nev = rng.randint(3, 40 if ctx.tier == 'thorough' else 25)
        events, mev = [], []
        xa = np.array(x0, dtype=float)
        d = tol + tol * abs(xa)
        for _ in range(nev):
            if rng.random() < 0.15:
                events.append({'fail': True})
                mev.append(None)
                continue
            if exact:
                rt = rng.choice(rs)
                diff = [rt * float(d[0])]
            else:
                rt = rng.choice([rng.uniform(0, 1), rng.uniform(0, 1), rng.uniform(1, 3), 10 ** rng.uniform(-6, 2), 0.0, 1.0])
                diff = [rt * float(dk) * rng.choice([1, -1]) for dk in d]
            r, praw = np_r_and_praw(xa, diff, tol, sf, q)
            events.append({'diff': diff})
            mev.append((Fr(r), Fr(praw)))
        # choose t_end among the times the model visits (landing exactly) or in between
        tms = [Fr(t0)]
        t, tau = Fr(t0), Fr(tau0)
        for e in mev:
            if e is None:
                tau /= 2
                continue
            r, praw = e
            if (r if r else Fr(1, 10 ** 15)) <= 1:
                t += tau
                tms.append(t)
            tau *= min(Fr(5), max(Fr(1, 5), praw))
        mode = rng.random()
        if mode < 0.5 and len(tms) > 1:
            te = tms[rng.randrange(1, len(tms))]
            if not exact or not representable(te):
                te = Fr(float(te)) + (0 if exact else Fr(rng.uniform(1e-3, 1e-2)) * Fr(tau0))
        elif mode < 0.9 and len(tms) > 1:
            k = rng.randrange(1, len(tms))
            te = Fr(float((tms[k - 1] + tms[k]) / 2))
        else:
            te = tms[-1] + 1000          # events run out
        if not representable(te):
            continue
        mt, mtaus = adaptive_mirror(Fr(t0), Fr(tau0), te, mev)
        slack = Fr(0)
        if exact:
            if not all(representable(v) for v in (mt or []) + mtaus):
                continue
        else:
            slack = 8 * EPS * (len(mev) + 2) ** 2 * max(abs(Fr(t0)), abs(te), sum(mtaus, Fr(0)))
            allt = list(tms)
            if any(abs(v - te) <= 2 * slack for v in allt):
                continue                 # the loop test t < t_end would depend on rounding
        cases.append(dict(kind='adaptive', t0=t0, tau0=tau0, t_end=float(te), tol=tol, step_factor=sf, err_order=q,
                          events=events, x0=x0, exact=exact, mev=mev, slack=slack))
    return cases


def adaptive_case_coq(c, r):
    evs = clist(['NewtonFail' if e is None else 'Stepped %s %s' % (cq(e[0]), cq(e[1])) for e in c['mev']])
    it = 'None' if r.get('exhausted') else 'Some ' + clist([cq(Fr(t)) for t in r['times']])
    return '((%s, %s, %s), %s, %s, %s, %s)' % (cq(Fr(c['t0'])), cq(Fr(c['tau0'])), cq(Fr(c['t_end'])), evs, it,
                                               clist([cq(Fr(t)) for t in r['taus']]), cq(upf(c['slack'])))


def check_adaptive_property(c, r):
    """the driver predicates, on the implementation's own run (independent of the model)"""
    if r['status'] != 'Ok':
        return ('raises-' + r['status'], 'adaptive driver raised: %s' % r.get('msg'))
    taus = r['taus']
    for k in range(len(taus) - 1):
        f = Fr(taus[k + 1]) / Fr(taus[k])
        if not (Fr(1, 5) * (1 - 4 * EPS) <= f <= 5 * (1 + 4 * EPS)):
            return ('step-factor', 'step size changed by the factor %.6g (outside [0.2, 5]) at iteration %d' % (float(f), k))
        if c['mev'][k] is None and f != Fr(1, 2):
            return ('newton-failure-halving', 'after a Newton failure the step was multiplied by %.6g, not 0.5' % float(f))
    if r.get('exhausted'):
        return None
    t = r['times']
    if r['nsols'] != len(t):
        return ('one-state-per-time', '%d states for %d times' % (r['nsols'], len(t)))
    if t[0] != c['t0'] or any(t[k + 1] <= t[k] for k in range(len(t) - 1)):
        return ('times-increasing', 'times %s are not strictly increasing from t0' % t[:8])
    if t[-1] < c['t_end']:
        return ('end-time', 'last time %r < t_end %r' % (t[-1], c['t_end']))
    # accepted <=> r <= 1
    k = 0
    for i, tau in enumerate(taus):
        e = c['mev'][i]
        acc = e is not None and (e[0] if e[0] else Fr(1, 10 ** 15)) <= 1
        if acc:
            k += 1
            if k >= len(t) or abs(Fr(t[k]) - (Fr(t[k - 1]) + Fr(tau))) > 2 * EPS * (abs(Fr(t[k])) + abs(Fr(tau))):
                return ('accept-rule', 'a step with error ratio %.6g <= 1 was not accepted (iteration %d)' % (float(e[0]), i))
    if k != len(t) - 1:
        return ('accept-rule', '%d times returned for %d steps passing the error test' % (len(t) - 1, k))
    return None


# ---------------------------------------------------------------------------
# non-finite trial steps (NaN / inf error ratios): extended controller model (coq/C12/Model3.v)
# ---------------------------------------------------------------------------

XDRV_HEADER_EXTRA = """From Verif.C12 Require Import Model3.
Fixpoint beq_list (a b : list bool) : bool :=
  match a, b with [], [] => true | u :: a', v :: b' => Bool.eqb u v && beq_list a' b' | _, _ => false end.
Definition xadaptive_agrees (c : (Q*Q*Q) * list xevent * option (list Q) * list Q * option (list bool) * Q) : bool :=
  let '((t0, tau0, tend), evs, itimes, itaus, iacc, slack) := c in
  allclose (xadaptive_taus tend (adaptive_init t0 tau0) evs) itaus slack &&
  match iacc with Some fl => beq_list (xadaptive_accepts tend (adaptive_init t0 tau0) evs) fl | None => true end &&
  match xadaptive_times t0 tau0 tend evs, itimes with
  | Some mt, Some it => allclose mt it slack
  | None, None => true
  | _, _ => false
  end.
Local Open Scope Q_scope.
"""


def xqc(v):
    v = float(v)
    if math.isnan(v):
        return 'XNaN'
    if math.isinf(v):
        return 'XPInf' if v > 0 else 'XNInf'
    return 'XFin %s' % cq(Fr(v))


def np_ratio(x, xnew, xhat, tol, step_factor, err_order):
    """the float operations of solvers.py:509-525 on a recorded trial step (same numpy as the implementation)"""
    with np.errstate(all='ignore'):
        x, xnew, xhat = (np.array(v, dtype=float) for v in (x, xnew, xhat))
        d = tol + tol * abs(x)
        r = np.linalg.norm((xhat - xnew) / d) / np.sqrt(len(x))
        r0 = r
        if r == 0:
            r = 1e-15
        fac = step_factor * r ** (-1 / err_order)
    return float(r0), float(fac)


def py_accepts(r):
    return r == 0 or r <= 1          # False for NaN and +inf


def py_clamp(praw):
    return min(5.0, max(0.2, praw))  # Python's builtin min/max: 0.2 for NaN


def xmirror(t0, tau0, t_end, outs):
    """Fractions mirror of Model3.xadaptive_loop (classification only): outs = None | (r, praw) floats"""
    t, tau, times, taus, acc = Fr(t0), Fr(tau0), [Fr(t0)], [], []
    for e in outs:
        if t >= t_end:
            break
        taus.append(tau)
        if e is None:
            tau = tau / 2
            acc.append(False)
            continue
        a = py_accepts(e[0])
        acc.append(a)
        if a:
            t = t + tau
            times.append(t)
        f = py_clamp(e[1])
        tau = tau * (Fr(1, 5) if f == 0.2 else Fr(f))
    return (times if t >= t_end else None), taus, acc


def controller_oracle(t0, t_end, taus, outs, times, acc, unfinished):
    """the driver clauses of the property on the implementation's own run, non-finite outcomes included:
    every step size finite and positive, consecutive step sizes within [0.2, 5] (0.5 after a Newton failure, else
    min(5, max(0.2, praw)) with Python's builtin min/max), accepted <=> the error ratio passes `r == 0 or r <= 1`
    (never for NaN/inf), times finite, strictly increasing from t0, reach t_end within the evaluation budget."""
    for k, tau in enumerate(taus):
        if not (isinstance(tau, float) and math.isfinite(tau) and tau > 0):
            return ('tau-non-finite', 'trial step %d was made with the step size %r (previous outcome: %s)' % (
                k, tau, 'Newton failure' if k and outs[k - 1] is None else ('error ratio %r' % (outs[k - 1][0],) if k else '-')))
    for k in range(len(taus) - 1):
        f = Fr(taus[k + 1]) / Fr(taus[k])
        if not (Fr(1, 5) * (1 - 4 * EPS) <= f <= 5 * (1 + 4 * EPS)):
            return ('step-factor', 'step size changed by the factor %.6g (outside [0.2, 5]) after trial step %d' % (float(f), k))
        if outs[k] is None:
            if f != Fr(1, 2):
                return ('newton-failure-halving', 'after a Newton failure the step was multiplied by %.6g, not 0.5' % float(f))
        else:
            fe = py_clamp(outs[k][1])
            if abs(f - Fr(fe)) > 4 * EPS * Fr(fe):
                return ('step-factor', 'after error ratio %r the step was multiplied by %.6g, not min(5, max(0.2, %r)) = %.6g' % (
                    outs[k][0], float(f), outs[k][1], fe))
    if unfinished:
        return ('end-time', 'the run did not reach t_end = %r within %d trial steps (last step sizes %s)' % (t_end, len(taus), taus[-3:]))
    if not all(isinstance(t, float) and math.isfinite(t) for t in times):
        return ('times-non-finite', 'returned times %s' % times[:8])
    if times[0] != t0 or any(times[k + 1] <= times[k] for k in range(len(times) - 1)):
        return ('times-increasing', 'times %s are not strictly increasing from t0' % times[:8])
    if times[-1] < t_end:
        return ('end-time', 'last time %r < t_end %r' % (times[-1], t_end))
    k = 0
    for i, tau in enumerate(taus):
        e = outs[i]
        if e is not None and abs(e[0] - 1) < 1e-12:
            return None                                  # border: the test r <= 1 depends on the last bit
        want = e is not None and py_accepts(e[0])
        if acc is not None and acc[i] != want:
            return ('accept-rule', 'trial step %d with error ratio %r was %s' % (i, e and e[0], 'accepted' if acc[i] else 'rejected'))
        if want:
            k += 1
            if k >= len(times) or abs(Fr(times[k]) - (Fr(times[k - 1]) + Fr(tau))) > 2 * EPS * (abs(Fr(times[k])) + abs(Fr(tau))):
                return ('accept-rule', 'a step with error ratio %r was not accepted (trial step %d)' % (e[0], i))
    if k != len(times) - 1:
        return ('accept-rule', '%d times returned for %d trial steps passing the error test' % (len(times) - 1, k))
    return None


def gen_xadaptive_cases(ctx):
    """scripted stepper whose trial steps are partly non-finite (NaN / +-inf / overflowing / huge estimates)"""
    rng = ctx.rng
    cases = []
    N = 120 if ctx.tier == 'thorough' else 40
    tries = 0
    while len(cases) < N and tries < 30 * N:
        tries += 1
        n = rng.randint(1, 3)
        x0 = [rng.uniform(-2, 2) for _ in range(n)]
        tol = 10.0 ** -rng.randint(2, 8)
        q = rng.choice([1, 2, 3, 4])
        sf = rng.choice([0.9, 0.8, 0.95, 0.5, 1.0])
        tau0 = rng.choice([0.1, 1.0, 50.0, 1e3, 1e-3])
        t0 = rng.choice([0.0, rng.uniform(-1, 1)])
        nev = rng.randint(4, 25)
        events, outs = [], []
        xa = np.array(x0, dtype=float)
        d = tol + tol * abs(xa)
        lead = rng.randint(0, 4)                        # leading non-finite attempts (tau0 far too large)
        for j in range(nev):
            u = rng.random()
            if j >= lead and u < 0.1:
                events.append({'fail': True})
                outs.append(None)
                continue
            if j < lead or u < 0.4:
                bad = rng.choice([float('nan'), float('nan'), float('inf'), float('-inf'), 1e300, 1e-320])
                diff = [float(dk) * rng.uniform(0.1, 1) for dk in d]
                diff[rng.randrange(n)] = bad
            else:
                rt = rng.choice([rng.uniform(0, 1), rng.uniform(0, 1), rng.uniform(1, 3), 10 ** rng.uniform(-6, 2), 0.0])
                diff = [rt * float(dk) * rng.choice([1, -1]) for dk in d]
            events.append({'diff': diff})
            outs.append(np_ratio(xa, xa, xa + np.array(diff), tol, sf, q))
        full, _, _ = xmirror(t0, tau0, Fr(10) ** 30, outs)
        tms = [Fr(t0)]
        t, tau = Fr(t0), Fr(tau0)
        for e in outs:
            if e is None:
                tau /= 2
                continue
            if py_accepts(e[0]):
                t += tau
                tms.append(t)
            f = py_clamp(e[1])
            tau *= Fr(1, 5) if f == 0.2 else Fr(f)
        if len(tms) < 2:
            continue
        k = rng.randrange(1, len(tms))
        te = Fr(float((tms[k - 1] + tms[k]) / 2)) if rng.random() < 0.8 else tms[-1] + 1000
        mt, mtaus, macc = xmirror(t0, tau0, te, outs)
        slack = 8 * EPS * (len(outs) + 2) ** 2 * max(abs(Fr(t0)), abs(te) if mt else 0, sum(mtaus, Fr(0)))
        if any(abs(v - te) <= 2 * slack for v in tms):
            continue
        cases.append(dict(kind='adaptive', t0=t0, tau0=tau0, t_end=float(te), tol=tol, step_factor=sf, err_order=q,
                          events=events, x0=x0, outs=outs, slack=slack))
    return cases


def gen_xtrace_cases(ctx, methods):
    """every ADAPTIVE shipped method through its real driver on a problem whose right-hand side leaves its domain
    when the trial step is far too large: h' = -k sqrt(h) and y' = -k log(y) (NaN for negative arguments)."""
    rng = ctx.rng
    cases = []
    reps = 3 if ctx.tier == 'thorough' else 1
    for name, m in methods.items():
        if not m['adaptive']:
            continue
        for rep in range(reps):
            for prob in ('sqrt', 'log'):
                n = rng.randint(1, 2)
                Mkind = rng.choice(['dense', 'sparse', 'none'])
                x = [dy(rng, 1, 3, 8) + (1.0 if prob == 'log' else 0.0) for _ in range(n)]
                cases.append(dict(kind='xtrace', name=name, problem=prob, Mkind=Mkind,
                                  M=None if Mkind == 'none' else spd_matrix(rng, n), k=[dy(rng, 1, 4, 8) for _ in range(n)],
                                  Jkind='dense', n=n, x=x, tau=rng.choice([5.0, 50.0, 500.0]),   # sparse J: splu raises RuntimeError on a NaN Jacobian (reported, open)
                                  t0=rng.choice([0.0, 0.5, -1.0]), t_end=None, tol=rng.choice([1e-3, 1e-4]),
                                  step_factor=rng.choice([None, 0.8]), max_attempts=300))
                cases[-1]['t_end'] = cases[-1]['t0'] + rng.choice([0.25, 0.5])
    return cases


def xtrace_digest(c, r, methods):
    """(taus, outs, acc, times, unfinished) of a recorded run; outs by the harness's own evaluation of r"""
    m = methods[c['name']]
    sf = 0.9 if c.get('step_factor') is None else c['step_factor']
    atts = r['attempts']
    taus, outs, acc = [], [], []
    for i, a in enumerate(atts):
        taus.append(a['tau'])
        if a.get('status') != 'Ok' or a.get('x_est') is None:
            outs.append(None)
            acc.append(False)
            continue
        outs.append(np_ratio(a['x'], a['x_new'], a['x_est'], c['tol'], sf, m['err_order']))
        if i + 1 < len(atts):
            acc.append(atts[i + 1]['x'] == a['x_new'] and a['x_new'] != a['x'])
        else:
            acc.append(not r.get('too_many'))
    return taus, outs, acc, r.get('times'), bool(r.get('too_many'))


def check_xtrace_property(c, r, methods, stats):
    if r['status'] != 'Ok':
        return ('raises-' + r['status'], 'solvers.%s raised on a run with non-finite trial steps: %s' % (c['name'], r.get('msg')))
    taus, outs, acc, times, unfinished = xtrace_digest(c, r, methods)
    stats['attempts'] += len(taus)
    stats['nonfinite_ratio'] += sum(1 for e in outs if e is not None and not math.isfinite(e[0]))
    stats['newton_failures'] += sum(1 for e in outs if e is None)
    if any(a.get('status') not in ('Ok', 'NoConvergence') for a in r['attempts']):
        return ('raises-in-step', 'a step function raised %s' % [a.get('status') for a in r['attempts'] if a.get('status') not in ('Ok', 'NoConvergence')][:1])
    bad = controller_oracle(c['t0'], c['t_end'], taus, outs, times, acc, unfinished)
    if bad:
        return bad
    if not all_finite(r['sols']):
        return ('state-non-finite', 'a non-finite state was accepted')
    if len(r['sols']) != len(times):
        return ('one-state-per-time', '%d states for %d times' % (len(r['sols']), len(times)))
    return None


def xcase_coq(t0, tau0, t_end, outs, times, taus, acc, slack):
    evs = clist(['XNewtonFail' if e is None else 'XStepped (%s) (%s)' % (xqc(e[0]), xqc(e[1])) for e in outs])
    it = 'None' if times is None else 'Some ' + clist([cq(Fr(t)) for t in times])
    fl = 'None' if acc is None else 'Some ' + clist([cbool(b) for b in acc])
    return '((%s, %s, %s), %s, %s, %s, %s, %s)' % (cq(Fr(t0)), cq(Fr(tau0)), cq(Fr(t_end)), evs, it,
                                                   clist([cq(Fr(t)) for t in taus]), fl, cq(upf(slack)))


def jsafe(o):
    if isinstance(o, float) and not math.isfinite(o):
        return repr(o)
    if isinstance(o, dict):
        return {k: jsafe(v) for k, v in o.items()}
    if isinstance(o, (list, tuple)):
        return [jsafe(v) for v in o]
    if isinstance(o, Fr):
        return float(o)
    return o


def stage_nonfinite(ctx, methods):
    """non-finite trial steps: scripted stepper + every adaptive shipped method, oracle + exact model trace"""
    xc = gen_xadaptive_cases(ctx)
    tc = gen_xtrace_cases(ctx, methods)
    res = run_tasks(ctx, xc + tc)
    xr, tr = res[:len(xc)], res[len(xc):]
    items = []
    stats = {'scripted_runs': len(xc), 'method_runs': len(tc), 'attempts': 0, 'nonfinite_ratio': 0, 'newton_failures': 0,
             'model_trace_compared': 0, 'model_trace_skipped_border': 0}
    stats['scripted_nonfinite_outcomes'] = sum(1 for c in xc for e in c['outs'] if e is not None and not math.isfinite(e[0]))
    for k, (c, r) in enumerate(zip(xc, xr)):
        ctx.count(('adaptive-nonfinite', k))
        if r['status'] != 'Ok':
            bad = ('raises-' + r['status'], 'adaptive driver raised: %s' % r.get('msg'))
        else:
            n = len(r['taus'])
            bad = controller_oracle(c['t0'], c['t_end'], r['taus'], c['outs'][:n], r.get('times'), None, False) if not r.get('exhausted') \
                else controller_oracle(c['t0'], c['t_end'], r['taus'], c['outs'][:n], [c['t0']], None, False) if False else None
            if r.get('exhausted'):
                # events ran out: only the step-size clauses apply
                b2 = controller_oracle(c['t0'], -math.inf, r['taus'], c['outs'][:n], [c['t0']], None, False)
                bad = b2 if b2 and b2[0] in ('tau-non-finite', 'step-factor', 'newton-failure-halving') else None
        if bad:
            ctx.report('impl:adaptive-nonfinite:%s' % bad[0], 'scripted stepper with non-finite trial steps, tau0=%g: %s' % (c['tau0'], bad[1]),
                       jsafe({'case': strip(c), 'impl': r, 'how': 'harness/impl/c12_driver.py task kind adaptive'}))
            continue
        items.append((('s', k), xcase_coq(c['t0'], c['tau0'], c['t_end'], c['outs'], None if r.get('exhausted') else r['times'],
                                          r['taus'], None, c['slack']), None))
    for k, (c, r) in enumerate(zip(tc, tr)):
        ctx.count(('xtrace', k, c['name'], c['problem']))
        bad = check_xtrace_property(c, r, methods, stats)
        if bad:
            ctx.report('impl:nonfinite-trial-step:%s:%s' % (bad[0], c['name']),
                       'solvers.%s on %s, x0=%s, k=%s, M=%s, tau0=%g, tol=%g, t in [%g, %g]: %s' % (
                           c['name'], "h' = -k sqrt(h)" if c['problem'] == 'sqrt' else "y' = -k log(y)", c['x'], c['k'], c['Mkind'],
                           c['tau'], c['tol'], c['t0'], c['t_end'], bad[1]),
                       jsafe({'case': strip(c), 'impl': {kk: vv for kk, vv in r.items() if kk != 'sols'},
                              'how': 'harness/impl/c12_driver.py task kind xtrace'}))
            continue
        taus, outs, acc, times, unfinished = xtrace_digest(c, r, methods)
        mt, mtaus, macc = xmirror(c['t0'], c['tau'], Fr(c['t_end']), outs)
        slack = 8 * EPS * (len(outs) + 2) ** 2 * max(abs(Fr(c['t0'])), abs(Fr(c['t_end'])), sum(mtaus, Fr(0)))
        vis = [Fr(c['t0'])]
        for a, tau in zip(macc, mtaus):
            if a:
                vis.append(vis[-1] + tau)
        if any(abs(v - Fr(c['t_end'])) <= 2 * slack for v in vis) or any(e is not None and abs(e[0] - 1) < 1e-12 for e in outs):
            stats['model_trace_skipped_border'] += 1
            continue
        items.append((('t', k), xcase_coq(c['t0'], c['tau'], c['t_end'], outs, times, taus, acc, slack), None))
    stats['model_trace_compared'] = len(items)
    if not items:
        ctx.broken.append('no non-finite-trial-step case reached the model comparison')
    else:
        # self-test of the differ: first case again with the first accepted flag / step size perturbed
        bad = coq_family(ctx, 'C12_xadaptive', DRV_HEADER + XDRV_HEADER_EXTRA, 'xadaptive_agrees', items, 'non-finite trial steps', chunk=30)
        for (key, txt, _) in bad[:3]:
            fam, k = key
            c, r = (xc[k], xr[k]) if fam == 's' else (tc[k], tr[k])
            ctx.broken.append('correspondence C12_xadaptive differs on %s case #%d' % (fam, k))
            ctx.report('tie:adaptive-nonfinite' + ('' if fam == 's' else ':' + c['name']),
                       '_adaptive_step_method visits step sizes / accepts steps / returns times other than the extended controller model '
                       '(Model3.v) run on the same, partly non-finite, error ratios%s' % ('' if fam == 's' else ' (solvers.%s, tau0=%g)' % (c['name'], c['tau'])),
                       jsafe({'case': strip(c), 'impl': {kk: vv for kk, vv in r.items() if kk != 'sols'}}), found_input=True)
        ctx.cov['disagreements_checked'] += len(bad)
    ctx.cov['nonfinite_trial_steps'] = stats
    return len(xc) + len(tc)


def newton_mirror(c):
    """Fractions mirror of Model.newton on F(x) = x^2 - c (classification only): returns the list of
    residuals visited if every intermediate value is exactly representable in binary64, else None."""
    x = Fr(c['x0'])
    cc = Fr(c['c'])
    res = x * x - cc
    if not (representable(x * x) and representable(res) and representable(Fr(c['rtol']) * abs(res))):
        return None
    target = max(Fr(c['atol']), Fr(c['rtol']) * abs(res))
    seen = [res]
    jp = None
    for it in range(c['maxiter']):
        if abs(res) < target:
            break
        if it % c['freeze'] == 0:
            jp = Fr(c['dhi']) if x >= Fr(c['thr']) else Fr(c['dlo'])
        stp = res / jp
        x = x - stp
        res = x * x - cc
        if not all(representable(v) for v in (stp, x, x * x, res)):
            return None
        seen.append(res)
    return seen


def gen_newton_exact_cases(ctx):
    rng = ctx.rng
    cases = []
    N = 300 if ctx.tier == 'thorough' else 100
    tries = 0
    while len(cases) < N and tries < 30 * N:
        tries += 1
        c = dict(kind='newton_exact', c=dy(rng, 0, 8, 4), x0=dy(rng, -4, 4, 8), thr=dy(rng, -1, 3, 2),
                 dlo=rng.choice([1.0, 2.0, 4.0, -2.0]), dhi=rng.choice([2.0, 4.0, 8.0]),
                 atol=2.0 ** -rng.randint(0, 12), rtol=rng.choice([0.0, 2.0 ** -rng.randint(1, 10)]),
                 maxiter=rng.randint(0, 4), freeze=rng.randint(1, 3))
        seen = newton_mirror(c)
        if seen is None:
            continue
        if rng.random() < 0.35:
            # put the tolerance exactly on a residual that is visited (the test is a strict <)
            nz = [abs(v) for v in seen if v != 0]
            if nz:
                c['atol'] = float(rng.choice(nz))
                c['rtol'] = 0.0
                if newton_mirror(c) is None:
                    continue
        cases.append(c)
    return cases


def newton_exact_coq(c, r):
    return '((%s, %s, %s, %s, %s), (%s, %s, %d%%nat, %d%%nat), %s)' % (
        cq(Fr(c['c'])), cq(Fr(c['thr'])), cq(Fr(c['dlo'])), cq(Fr(c['dhi'])), cq(Fr(c['x0'])),
        cq(Fr(c['atol'])), cq(Fr(c['rtol'])), c['freeze'], c['maxiter'],
        'None' if r['raised'] else 'Some %s' % cq(Fr(r['x'])))


DRV_HEADER = '''From Coq Require Import QArith Qabs List Bool Arith.
From Verif.C12 Require Import Model.
Import ListNotations.
Open Scope Q_scope.
Definition close (a b bound : Q) : bool := Qle_bool (Qabs (a - b)) bound.
Fixpoint allclose (a b : list Q) (bound : Q) : bool :=
  match a, b with
  | [], [] => true
  | u :: a', v :: b' => close u v bound && allclose a' b' bound
  | _, _ => false
  end.
Definition const_agrees (c : (Q*Q*Q) * option nat * list Q * Q) : bool :=
  let '((t0, tau, quot), fail, times, slack) := c in
  allclose (const_times t0 tau quot (fun i => match fail with Some k => Nat.eqb i k | None => false end)) times slack.
Definition adaptive_agrees (c : (Q*Q*Q) * list event * option (list Q) * list Q * Q) : bool :=
  let '((t0, tau0, tend), evs, itimes, itaus, slack) := c in
  allclose (adaptive_taus tend (adaptive_init t0 tau0) evs) itaus slack &&
  match adaptive_times t0 tau0 tend evs, itimes with
  | Some mt, Some it => allclose mt it slack
  | None, None => true
  | _, _ => false
  end.
Definition newton_agrees (c : (Q*Q*Q*Q*Q) * (Q*Q*nat*nat) * option Q) : bool :=
  let '((cc, thr, dlo, dhi, x0), (atol, rtol, freeze, maxiter), ires) := c in
  let nJ := fun p : Q => if Qle_bool thr p then dhi else dlo in
  match newton Q (fun x => Qred (x * x - cc)) (fun p r => Qred (r / nJ p)) (fun a b => Qred (a - b)) Qabs
               atol rtol freeze maxiter x0, ires with
  | Some (y, _), Some iy => Qeq_bool y iy
  | None, None => true
  | _, _ => false
  end.
Fixpoint badidx {T} (f : T -> bool) (k : nat) (cs : list T) : list nat :=
  match cs with [] => [] | c :: cs' => if f c then badidx f (S k) cs' else k :: badidx f (S k) cs' end.
'''


def gen_newton_cases(ctx):
    rng = ctx.rng
    cases = []
    for _ in range(150 if ctx.tier == 'thorough' else 40):
        n = rng.randint(1, 5)
        L, g = random_system(rng, n, rng.random() < 0.3)
        cases.append(dict(kind='newton', n=n, L=L, g=g, Lkind=rng.choice(['dense', 'sparse']),
                          nl=rng.choice([0.0, 0.125, 1.0, 4.0]), x0=[dy(rng, -4, 4, 8) for _ in range(n)],
                          atol=10.0 ** -rng.randint(2, 12), rtol=rng.choice([0.0, 1e-3, 1e-6, 1e-10]),
                          maxiter=rng.choice([0, 1, 2, 3, 5, 20, 100]), freeze=rng.randint(1, 4)))
    return cases


def check_newton_property(c, r):
    if r['status'] != 'Ok':
        return ('raises-' + r['status'], 'newton raised %s' % r.get('msg'))
    pts = r['Fpts']
    if not pts or pts[0] != c['x0']:
        return ('first-eval', 'first residual evaluation is not at x0')
    if not r['x0_unchanged']:
        return ('x0-mutated', 'newton modified the caller\'s initial guess in place')
    nrm = [norm2(exact_F(c, frl(p))) if all_finite(p) else math.inf for p in pts]
    target = max(c['atol'], c['rtol'] * nrm[0])
    sl = 1e-9
    if r['raised']:
        if len(pts) != c['maxiter'] + 1:
            return ('raise-count', 'raised after %d residual evaluations with maxiter=%d' % (len(pts), c['maxiter']))
        for k in range(c['maxiter']):
            if nrm[k] < target * (1 - sl):
                return ('raised-although-converged', 'iterate %d had residual %.3e < target %.3e but newton raised' % (k, nrm[k], target))
        iters = c['maxiter']
    else:
        if r['x'] != pts[-1]:
            return ('last-eval', 'the returned point is not the last point the residual was evaluated at')
        if nrm[-1] >= target * (1 + sl) + 1e-300:
            return ('tolerance', 'returned a point with residual %.3e >= max(atol, rtol*|F(x0)|) = %.3e' % (nrm[-1], target))
        if len(pts) > c['maxiter']:
            return ('maxiter', '%d iterations with maxiter=%d' % (len(pts) - 1, c['maxiter']))
        for k in range(len(pts) - 1):
            if nrm[k] < target * (1 - sl):
                return ('late-return', 'iterate %d already met the tolerance' % k)
        iters = len(pts) - 1
    expj = [pts[k] for k in range(iters) if k % c['freeze'] == 0]
    if r['Jpts'] != expj:
        return ('freeze-jac', 'Jacobian evaluated at iterations other than 0, freeze_jac, 2 freeze_jac, ...')
    return None


def gen_method_cases(ctx, methods, skip):
    rng = ctx.rng
    cases = []
    for name, m in methods.items():
        if name in skip:
            continue
        for rep in range(3 if ctx.tier == 'thorough' else 1):
            # y' = M^-1 c
            n = 2
            Mkind = rng.choice(['dense', 'sparse'] + (['none'] if m['kind'] == 'dirk' else []))
            M = None if Mkind == 'none' else spd_matrix(rng, n)
            cvec = [dy(rng, 1, 8, 8) * rng.choice([1, -1]) for _ in range(n)]
            tau = rng.choice([0.25, 0.125, 0.0625])
            nst = rng.randint(2, 8)
            cases.append(dict(kind='method', what='const_rhs', name=name, Mkind=Mkind, M=M, L=[[0.0] * n for _ in range(n)],
                              g=cvec, n=n, nl=0.0, x=[dy(rng, -2, 2, 8) for _ in range(n)], tau=tau, t0=dy(rng, -1, 1, 8),
                              t_end=None, nst=nst, tol=None, adaptive_api=m['adaptive']))
            cases[-1]['t_end'] = cases[-1]['t0'] + nst * tau
            if m['adaptive']:
                n = rng.randint(1, 3)
                L, g = random_system(rng, n, rng.random() < 0.5)
                Mkind = rng.choice(['dense', 'sparse'] + (['none'] if m['kind'] == 'dirk' else []))
                cases.append(dict(kind='method', what='adaptive', name=name, Mkind=Mkind, M=None if Mkind == 'none' else spd_matrix(rng, n),
                                  L=L, g=g, n=n, nl=rng.choice([0.0, 0.0, 0.125]), x=[dy(rng, -2, 2, 8) for _ in range(n)],
                                  tau=rng.choice([0.1, 0.01, 0.5]), t0=rng.choice([0.0, 0.25, -1.0]), t_end=None,
                                  tol=10.0 ** -rng.randint(2, 5), step_factor=rng.choice([None, 0.8, 0.95]),
                                  adaptive_api=True, want_steps=True))
                cases[-1]['t_end'] = cases[-1]['t0'] + rng.choice([0.5, 1.0, 0.3])
    return cases


def check_method_property(c, r, methods):
    m = methods[c['name']]
    if r['status'] != 'Ok':
        return ('raises-' + r['status'], 'solvers.%s raised: %s' % (c['name'], r.get('msg')))
    t = r['times']
    if not all_finite(r):
        return ('non-finite', 'solvers.%s produced non-finite values' % c['name'])
    if len(r['sols']) != len(t):
        return ('one-state-per-time', '%d states for %d times' % (len(r['sols']), len(t)))
    if c['what'] == 'const_rhs':
        n = c['n']
        if len(t) != c['nst'] + 1 or any(abs(Fr(t[k]) - (Fr(c['t0']) + k * Fr(c['tau']))) > 0 for k in range(len(t))):
            return ('times', 'constant-step times %s are not t0 + k tau' % t[:6])
        Mi = np.linalg.inv(np.array(c['M'])) if c['M'] is not None else np.eye(n)
        v = Mi @ np.array(c['g'])
        exact = np.array(c['x']) + (t[-1] - t[0]) * v
        cond = np.linalg.cond(np.array(c['M'])) if c['M'] is not None else 1.0
        bound = c['nst'] * m['s'] * 256 * n * float(EPS) * cond * (norm2(c['x']) + abs(t[-1] - t[0]) * norm2(v) + 1)
        bound += r['newton_skipped'] * 1e-4 * np.linalg.norm(Mi, 2) * 2
        err = norm2(np.array(r['sols'][-1]) - exact)
        if err > bound:
            return ('const-rhs-exact', "y' = M^-1 c is not integrated exactly: error %.3e > %.3e after %d steps" % (err, bound, c['nst']))
        return None
    # adaptive run of the shipped method
    if t[0] != c['t0'] or any(t[k + 1] <= t[k] for k in range(len(t) - 1)):
        return ('times-increasing', 'times not strictly increasing from t0: %s' % t[:8])
    if t[-1] < c['t_end']:
        return ('end-time', 'last time %r < t_end %r' % (t[-1], c['t_end']))
    sf = 0.9 if c.get('step_factor') is None else c['step_factor']
    q = m['err_order']
    k = 0
    steps = r['steps']
    for i, st in enumerate(steps):
        x = np.array(st['x'])
        if st['x_est'] is None:
            return ('embedded-missing', 'adaptive run made a step without error estimate')
        d = c['tol'] + c['tol'] * abs(x)
        rr = np.linalg.norm((np.array(st['x_est']) - np.array(st['x_new'])) / d) / np.sqrt(len(x))
        if rr == 0:
            rr = 1e-15
        acc = k + 1 < len(t) and r['sols'][k + 1] == st['x_new'] and abs(t[k + 1] - (t[k] + st['tau'])) <= 4 * float(EPS) * (abs(t[k]) + st['tau'])
        border = abs(rr - 1) < 1e-12
        if not border:
            if rr <= 1 and not acc:
                return ('accept-rule', 'step %d with error ratio %.6g <= 1 was rejected' % (i, rr))
            if rr > 1 and acc and r['sols'][k] != st['x_new']:
                return ('accept-rule', 'step %d with error ratio %.6g > 1 was accepted' % (i, rr))
        if acc and (rr <= 1 or border):
            k += 1
        if i + 1 < len(steps):
            f = steps[i + 1]['tau'] / st['tau']
            fexp = min(5.0, max(0.2, sf * rr ** (-1 / q)))
            if not (0.2 * (1 - 1e-12) <= f * 2 ** 0 <= 5 * (1 + 1e-12)) and not any(abs(f * 2 ** j - fexp) <= 1e-9 * fexp for j in range(1, 60)):
                return ('step-factor', 'step size changed by %.6g (outside [0.2, 5])' % f)
            if not border and not any(abs(f * 2 ** j - fexp) <= 1e-9 * fexp for j in range(0, 60)):
                return ('step-factor', 'step size changed by %.6g, expected min(5, max(0.2, %.3g * r^(-1/%d))) = %.6g' % (f, sf, q, fexp))
    if k != len(t) - 1:
        return ('accept-rule', '%d times returned for %d accepted steps' % (len(t) - 1, k))
    return None


# ---------------------------------------------------------------------------
# run
# ---------------------------------------------------------------------------

def gen_trace_cases(ctx, methods):
    """Shipped methods through their real drivers, every stepper call recorded:
    (a) constant-step runs of >= 3 steps on NONLINEAR problems (state-dependent Jacobian; the same `data`
        dict and the cached F(x) are carried from step to step),
    (b) adaptive runs started with a far too large step and a tight tolerance, so that attempts are rejected
        before the first accepted step (the state and its cached F(x) must survive a rejected attempt)."""
    rng = ctx.rng
    cases = []
    reps = 3 if ctx.tier == 'thorough' else 1

    def state(n):
        return [rng.choice([1, -1]) * dy(rng, 1, 2, 8) for _ in range(n)]

    for name, m in methods.items():
        for rep in range(reps):
            n = rng.randint(2, 3)
            L, g = random_system(rng, n, False)
            Mkind = rng.choice(['dense', 'sparse', 'none'])
            nl = rng.choice([0.5, 1.0]) if (m['kind'] == 'ros' or rng.random() < 0.6) else 0.0
            tau = rng.choice([0.25, 0.125, 0.0625])
            t0 = dy(rng, -1, 1, 8)
            cases.append(dict(kind='trace', what='constant', name=name, Mkind=Mkind, M=None if Mkind == 'none' else spd_matrix(rng, n),
                              L=L, g=g, Lkind=rng.choice(['dense', 'sparse']), n=n, nl=nl, x=state(n), tau=tau, t0=t0,
                              t_end=t0 + rng.randint(3, 6) * tau, tol=None, adaptive_api=m['adaptive']))
            if not m['adaptive']:
                continue
            for variant in ('random', 'oscillator'):
                if variant == 'random':
                    n = rng.randint(1, 3)
                    L, g = random_system(rng, n, False)
                    x = state(n)
                    nl = rng.choice([0.0, 0.0, 0.25])
                else:
                    n = 2
                    L, g, x, nl = [[0.0, 4.0], [-4.0, -0.5]], [1.0, 0.0], [1.0, 1.0], 0.0
                Mkind = rng.choice(['dense', 'sparse', 'none'])
                t0 = rng.choice([0.0, 0.5, -1.0])
                cases.append(dict(kind='trace', what='adaptive', name=name, Mkind=Mkind,
                                  M=None if Mkind == 'none' else spd_matrix(rng, n), L=L, g=g,
                                  Lkind=rng.choice(['dense', 'sparse']), n=n, nl=nl, x=x, tau=rng.choice([1.0, 2.0]), t0=t0,
                                  t_end=t0 + 0.25, tol=rng.choice([1e-4, 1e-5]), step_factor=rng.choice([None, 0.8]),
                                  adaptive_api=True, max_attempts=400))
    return cases


def check_trace_property(c, r, methods, stats):
    """Every recorded stepper call of a driver run against the single-step oracles, with the arguments the
    driver really passed: the table, the current state, the cached F(x)."""
    m = methods[c['name']]
    if r['status'] != 'Ok':
        if r['status'] == 'Other:NoConvergenceError' and c['nl'] != 0.0:
            return None
        return ('raises-' + r['status'], 'solvers.%s raised: %s' % (c['name'], r.get('msg')))
    atts = r['attempts']
    n = c['n']
    nL = fnorm(fmat(c['L'], n))
    ng = norm2(c['g'])
    exp_rows = table_rows(m) if m['kind'] == 'dirk' else None
    adaptive = c['what'] == 'adaptive'
    state = [float(v) for v in c['x']]
    accepted = [state]
    for k, a in enumerate(atts):
        stats['attempts'] += 1
        where = 'attempt %d of %d (tau=%g)' % (k, len(atts), a['tau'])
        # the table handed to the step function
        if m['kind'] == 'dirk':
            want = exp_rows if adaptive else (exp_rows[:-1] if m['adaptive'] else exp_rows)
            if a['kind'] != 'dirk' or a['A'] != want:
                return ('table-arg', '%s: the driver called the step function with a table other than the method\'s' % where)
        else:
            if a['kind'] != 'ros' or a['A'] != [[float(v) for v in row] for row in m['A']] or \
                    a['G'] != [[float(v) for v in row] for row in m['Gamma']] or a['b'] != [float(v) for v in m['b']] or \
                    a['bh'] != ([float(v) for v in m['b_hat']] if adaptive else None):
                return ('table-arg', '%s: the driver called the step function with a table other than the method\'s' % where)
        # the state handed to the step function
        if a['x'] != state:
            return ('state-chain', '%s: the step starts from %s, but the current state is %s' % (where, a['x'], state))
        if not all_finite(a):
            if all_finite(a['x']) and norm2(a['x']) < 1e6:
                return ('non-finite', '%s: the step produced non-finite values from the moderate state %s' % (where, a['x']))
            stats['diverged'] += 1          # gradual blow-up of the numerical solution: not decided here
            return None
        # the cached right-hand side must be F(current state)
        fxbad = None
        if a['Fx_in'] is not None:
            xs = frl(a['x'])
            nlin = float(c['nl']) * 3 * max(1.0, norm2(xs)) ** 2
            dev = norm2(fadd(frl(a['Fx_in']), fscale(Fr(-1), exact_F(c, xs))))
            tolF = 64 * n * float(EPS) * ((nL + nlin) * norm2(xs) + ng) + 1e-300
            stats['fx_checked'] += 1
            if dev > tolF:
                fxbad = ('the cached right-hand side Fx passed to the step is not F(x) of the current state '
                         '(|Fx - F(x)| = %.3e > %.3e)%s' % (dev, tolF, '; the previous attempt was rejected'
                                                            if k and atts[k - 1].get('x') == a['x'] else ''))
        case = dict(c, x=a['x'], tau=a['tau'], A=a['A'], kind=a['kind'])
        if a['kind'] == 'ros':
            case.update(G=a['G'], b=a['b'], bh=a['bh'])
        bad = (check_dirk_property if a['kind'] == 'dirk' else check_ros_property)(case, a)
        if bad:
            return (bad[0], '%s, state %s: %s%s' % (where, a['x'], bad[1], (' -- ' + fxbad) if fxbad else ''))
        if fxbad:
            if a['kind'] == 'dirk' and a['A'][0][0] == 0.0:
                return ('fx-contract', '%s: %s' % (where, fxbad))     # the explicit first stage uses Fx as F(x)
            stats['stale_fx_passed_but_unused'] += 1                 # no explicit stage: the value is ignored
        if a['status'] != 'Ok':
            stats['newton_failures'] += 1
            continue
        # did the driver take the step?
        nxt = atts[k + 1]['x'] if k + 1 < len(atts) else (r['sols'][-1] if not r.get('too_many') else None)
        if nxt is None:
            break
        if nxt == a['x_new'] and (nxt != a['x'] or not adaptive):
            state = a['x_new']
            accepted.append(state)
        elif nxt == a['x'] and adaptive:
            stats['rejected'] += 1
        elif k + 1 < len(atts):
            return ('state-chain', '%s: the next step starts from %s, neither the old state nor x_new' % (where, nxt))
    if r.get('too_many'):
        stats['capped'] += 1
        return None
    if r['sols'] != accepted and not (atts and atts[-1]['status'] != 'Ok'):
        return ('solutions', 'the returned states are not x0 followed by the accepted x_new of every step')
    if len(r['times']) != len(r['sols']):
        return ('one-state-per-time', '%d states for %d times' % (len(r['sols']), len(r['times'])))
    if not adaptive and len(atts) < 3 and not (atts and atts[-1]['status'] != 'Ok'):
        # (a run that ends early because Newton's method did not converge returns the prefix so far:
        #  times t0 + k tau, one state per time -- nothing the property excludes)
        return ('too-few-steps', 'constant-step run made %d steps' % len(atts))
    return None


def strip(c):
    return {k: v for k, v in c.items() if k not in ('mev', 'slack', 'exact', 'family', 'method', 'stiff', 'nst', 'outs')}


def run_tasks(ctx, tasks, batch=150):
    res = []
    for i in range(0, len(tasks), batch):
        res += ctx.impl.run(DRIVER, {'tasks': [strip(t) for t in tasks[i:i + batch]]})['results']
    return res


def coq_family(ctx, prefix, header, fn, items, what, chunk=40):
    """items: list of (case index, coq text, replay dict).  Appends one deliberately wrong copy
    of the harness's choosing is done by the caller.  Returns list of disagreeing items."""
    files, chunks = [], []
    for n, i in enumerate(range(0, len(items), chunk)):
        ch = items[i:i + chunk]
        chunks.append(ch)
        files.append(('%s_%03d' % (prefix, n), header + 'Eval vm_compute in badidx %s 0 [\n' % fn + ';\n'.join(t[1] for t in ch) +
                      '].\n'))   # the list is elaborated against fn's argument type (an all-None column is typable)
    bad = []
    for (name, ok, out), ch in zip(ctx.coq_eval_many(files), chunks):
        ctx.obligations += 1
        idx = parse_coq_list_of_nat(out) if ok else None
        if idx is None:
            ctx.broken.append('case file %s (%s) did not evaluate: %s' % (name, what, out[-400:]))
            continue
        ctx.discharged += 1
        bad += [ch[k] for k in idx]
    return bad


def run(ctx):
    ctx.obligations_stage(PROPS, extra_targets=['C12/Examples.vo'])
    ctx.obligations_stage('C12/Props2.v', extra_targets=['C12/Examples2.vo'])
    ctx.obligations_stage('C12/Props3.v', extra_targets=['C12/Examples3.vo'])
    ctx.assumptions += [
        'model: hand transcription of newton, dirk_step, rosenbrock_step, _constant_step_method, _adaptive_step_method '
        '(solvers.py:335-534, 684-707) into Gallina (coq/C12/Model.v); vectors are elements of a commutative ring '
        '(the coordinate ring K^n, scalars embedded), M/F/J/linear and nonlinear solves are black boxes with stated contracts',
        'tables: translate/tableaux.py (fail-closed ast walker) executes the coeffs_* definitions of the current solvers.py; '
        'documented orders from the source comments, else translate/tableaux_orders.json (trusted data)',
        'order conditions are checked with the rounding allowance max(64 eps, 8*10^-d) * sum|terms| (d = digits of the '
        'shortest truncated literal of the table); exact satisfaction by the intended irrational coefficients is not claimed',
        'idealisations: real arithmetic in the theorems; the real power r**(-1/q) is an input of the driver model; '
        'termination of the adaptive loop is not proved (no iteration cap in the code)',
        'float comparisons use bounds derived from operation counts (module docstring of harness/props/c12.py)',
    ]
    import time as _t
    T0 = _t.time()
    def lap(w):
        log('[C12] %-28s %.1fs' % (w, _t.time() - T0))
    methods = stage_tables(ctx)
    lap('tables translated + proved')
    if methods is None:
        return ctx.finish()
    def _method_of(sig):
        parts = sig.split(':')
        return parts[2] if sig.startswith('tableau:') and len(parts) > 2 else parts[-1]
    flagged = {_method_of(v[0]) for v in ctx.violations} | {_method_of(h) for h in ctx.known_hits}
    tie_tables(ctx, methods)

    # ---- one step -------------------------------------------------------
    scases, sdist = gen_step_cases(ctx, methods)
    sres = run_tasks(ctx, scases)
    lap('step cases run on impl')
    step_items = {'dirk': [], 'ros': []}
    maxdev = 0.0
    nprop = 0
    for k, (c, r) in enumerate(zip(scases, sres)):
        ctx.count(('step', k, c['method'], c['family']))
        if c['method'] in flagged:
            pass        # a table with broken order conditions still has to satisfy its stage equations
        bad = (check_dirk_property if c['kind'] == 'dirk' else check_ros_property)(c, r)
        if bad:
            nprop += 1
            msig = c['method'] if c['method'] != 'user' else 'user-tableau'
            if c['Mkind'] == 'none' and bad[0].startswith('raises-'):
                msig = 'mass-matrix-None'       # one defect, whatever the method
            ctx.report('impl:%s:%s:%s' % (c['kind'], bad[0], msig),
                       '%s_step, %s, M=%s, n=%d, tau=%g: %s' % (c['kind'] if c['kind'] == 'dirk' else 'rosenbrock', c['method'],
                                                                  c['Mkind'], c['n'], c['tau'], bad[1]),
                       {'case': strip(c), 'impl': r, 'how': 'harness/impl/c12_driver.py task kind %s' % c['kind']})
        for fn, txt, dev in step_model_cases(c, r):
            step_items[fn].append((k, txt, None))
            maxdev = max(maxdev, dev)
    for fn in ('dirk', 'ros'):
        items = step_items[fn]
        if not items:
            ctx.broken.append('no %s step case reached the model comparison' % fn)
            continue
        # self-test of the comparison: the first case again with the implementation's value shifted by 1/1000
        k0, t0, _ = items[0]
        items = items + [(-1, t0.replace('), (((', '), (((', 1), None)]
        wrong = t0.rsplit('), (', 1)
        bad = coq_family(ctx, 'C12_%s' % fn, STEP_HEADER, fn + '_agrees', items, fn + '_step correspondence')
        seen = set()
        for (k, txt, _) in bad:
            if k < 0 or k in seen:
                continue
            seen.add(k)
            c, r = scases[k], sres[k]
            ctx.broken.append('correspondence %s_step model<->impl differs on case #%d (%s)' % (fn, k, c['method']))
            pb = (check_dirk_property if fn == 'dirk' else check_ros_property)(c, r)
            ctx.report('tie:%s_step:%s' % (fn, c['method'] if c['method'] != 'user' else 'user-tableau'),
                       'one step of %s on a diagonal linear system differs from the exact-arithmetic model by more than the '
                       'derived rounding bound%s' % (c['method'], (': ' + pb[1]) if pb else
                                                      ' (stage equations still hold to the Newton tolerance on this input)'),
                       {'case': strip(c), 'impl': r}, found_input=bool(pb))
        ctx.cov['disagreements_checked'] += len(seen)
    ctx.cov['step_max_deviation_over_bound'] = maxdev
    lap('step ties in Coq')

    # ---- drivers and newton ---------------------------------------------
    ccases = gen_const_cases(ctx)
    acases = gen_adaptive_cases(ctx)
    ncases = gen_newton_exact_cases(ctx)
    gcases = gen_newton_cases(ctx)
    skip = set(flagged)
    mcases = gen_method_cases(ctx, methods, skip)
    tcases = gen_trace_cases(ctx, methods)
    allc = ccases + acases + ncases + gcases + mcases + tcases
    lap('driver cases generated')
    allr = run_tasks(ctx, allc)
    lap('driver cases run on impl')
    o = 0
    cres = allr[o:o + len(ccases)]; o += len(ccases)
    ares = allr[o:o + len(acases)]; o += len(acases)
    nres = allr[o:o + len(ncases)]; o += len(ncases)
    gres = allr[o:o + len(gcases)]; o += len(gcases)
    mres = allr[o:o + len(mcases)]; o += len(mcases)
    tres = allr[o:]

    def prop(kindname, cases, results, checker, sigf):
        nonlocal nprop
        for k, (c, r) in enumerate(zip(cases, results)):
            ctx.count((kindname, k))
            bad = checker(c, r)
            if bad:
                nprop += 1
                ctx.report('impl:%s:%s' % (kindname, sigf(c, bad)), '%s: %s' % (kindname, bad[1]),
                           {'case': strip(c), 'impl': r, 'how': 'harness/impl/c12_driver.py task kind %s' % c['kind']})
    prop('constant-driver', ccases, cres, check_const_property, lambda c, b: b[0])
    prop('adaptive-driver', acases, ares, check_adaptive_property, lambda c, b: b[0])
    prop('newton', gcases, gres, check_newton_property, lambda c, b: b[0])
    prop('method', mcases, mres, lambda c, r: check_method_property(c, r, methods), lambda c, b: '%s:%s' % (b[0], c['name']))
    tstats = {'attempts': 0, 'rejected': 0, 'fx_checked': 0, 'newton_failures': 0, 'capped': 0, 'stale_fx_passed_but_unused': 0, 'diverged': 0}
    prop('trace', tcases, tres, lambda c, r: check_trace_property(c, r, methods, tstats),
         lambda c, b: '%s:%s:%s' % (c['what'], b[0], c['name']))
    tstats['runs'] = len(tcases)
    tstats['explicit_first_stage_adaptive_runs_with_rejection'] = sum(
        1 for c, r in zip(tcases, tres) if c['what'] == 'adaptive' and r['status'] == 'Ok' and methods[c['name']]['kind'] == 'dirk'
        and methods[c['name']]['A'][0][0] == 0 and any(
            k and r['attempts'][k]['x'] == r['attempts'][k - 1]['x'] and r['attempts'][k]['Fx_in'] is not None
            for k in range(len(r['attempts']))))
    ctx.cov['driver_traces'] = tstats
    lap('driver traces checked')
    for k, (c, r) in enumerate(zip(ncases, nres)):
        ctx.count(('newton-exact', k))
        if r['status'] != 'Ok':
            nprop += 1
            ctx.report('impl:newton:raises-' + r['status'], 'newton raised %s on a scalar problem' % r.get('msg'),
                       {'case': c, 'impl': r})

    fams = [
        ('C12_const', 'const_agrees', [(k, const_case_coq(c, r), None) for k, (c, r) in enumerate(zip(ccases, cres)) if r['status'] == 'Ok'],
         ccases, cres, 'tie:constant-driver', '_constant_step_method returns times other than the model (t0 + k tau, ceil((t_end-t0)/tau) steps)'),
        ('C12_adaptive', 'adaptive_agrees', [(k, adaptive_case_coq(c, r), None) for k, (c, r) in enumerate(zip(acases, ares)) if r['status'] == 'Ok'],
         acases, ares, 'tie:adaptive-driver', '_adaptive_step_method visits step sizes / returns times other than the state-machine model run on the same error ratios'),
        ('C12_newton', 'newton_agrees', [(k, newton_exact_coq(c, r), None) for k, (c, r) in enumerate(zip(ncases, nres)) if r['status'] == 'Ok'],
         ncases, nres, 'tie:newton', 'newton returns a different point / raises differently than the model on an exactly representable scalar problem'),
    ]
    for prefix, fn, items, cs, rs, sig, text in fams:
        if not items:
            ctx.broken.append('no case for %s' % prefix)
            continue
        bad = coq_family(ctx, prefix, DRV_HEADER, fn, items, prefix)
        for (k, txt, _) in bad[:3]:
            ctx.broken.append('correspondence %s differs on case #%d' % (prefix, k))
            ctx.report(sig, text, {'case': strip(cs[k]), 'impl': rs[k]}, found_input=True)
        ctx.cov['disagreements_checked'] += len(bad)

    lap('driver ties in Coq')
    nxf = stage_nonfinite(ctx, methods)
    lap('non-finite trial steps')
    # self-test of the differ: a perturbed implementation answer must be flagged
    st_items = []
    c0 = next((k for k, (c, r) in enumerate(zip(ccases, cres)) if r['status'] == 'Ok' and len(r['times']) > 2), None)
    if c0 is not None:
        r2 = dict(cres[c0]); r2['times'] = list(r2['times']); r2['times'][-1] += 0.5
        st_items.append(('const_agrees', const_case_coq(ccases[c0], r2)))
    n0 = next((k for k, r in enumerate(nres) if r['status'] == 'Ok' and not r['raised']), None)
    if n0 is not None:
        r2 = dict(nres[n0]); r2['x'] = r2['x'] + 2.0 ** -20
        st_items.append(('newton_agrees', newton_exact_coq(ncases[n0], r2)))
    a0 = next((k for k, r in enumerate(ares) if r['status'] == 'Ok' and not r.get('exhausted') and len(r['times']) > 1), None)
    if a0 is not None:
        r2 = dict(ares[a0]); r2['times'] = r2['times'][:-1]
        st_items.append(('adaptive_agrees', adaptive_case_coq(acases[a0], r2)))
    txt = DRV_HEADER + 'Eval vm_compute in [%s].\n' % '; '.join('%s %s' % (f, t) for f, t in st_items)
    ok, out = ctx.coq_eval('C12_selftest', txt)
    ctx.obligations += 1
    if ok and 'true' not in out and out.count('false') == len(st_items) and st_items:
        ctx.discharged += 1
    else:
        ctx.broken.append('self-test of the differ failed (perturbed answers not all rejected): %s' % out[-300:])

    ctx.cov['traces_validated_against_impl'] = len(scases) + len(allc) + nxf
    ctx.cov['property_failures_on_impl'] = nprop
    ctx.cov['rule'] = ('one case = one call of dirk_step / rosenbrock_step / a driver / newton / a shipped method on a generated '
                       'input; non-trivial = every case (each has >= 1 implicit stage or >= 1 driver iteration); distinct by index')
    sdist.update({'const_driver': len(ccases), 'adaptive_driver': len(acases),
                  'adaptive_exact_stream': sum(1 for c in acases if c['exact']),
                  'newton_exact': len(ncases), 'newton_general': len(gcases), 'shipped_method_runs': len(mcases),
                  'step_components_compared_with_model': len(step_items['dirk']) + len(step_items['ros']),
                  'methods_skipped_in_runs_because_tableau_flagged': sorted(skip)})
    ctx.cov['input_distribution'] = sdist
    ctx.cov['exhaustive'] = False
    ctx.cov['rounding_bounds'] = 'see module docstring; largest observed |impl-model|/bound in step ties: %.3g' % maxdev
    ctx.cov['partial'] = ['adaptive_driver_terminates: not proved; newton<->stage-solver composition, allclose-approximate shortcut '
                          'premise and floating point are without theorem (clause-by-clause NOT PROVED comment in coq/C12/Props.v)',
                          'order conditions: bounded (vm_compute on the 12 translated tables, regenerated every run), orders <= 4']
    if scases:
        ctx.sample({'step_case': strip(scases[0]), 'impl': {k: sres[0].get(k) for k in ('x_new', 'x_est', 'status')}})
    if acases:
        ctx.sample({'adaptive_case': {k: acases[0][k] for k in ('t0', 'tau0', 't_end', 'tol', 'step_factor', 'err_order')},
                    'impl_times': ares[0].get('times')})
    return ctx.finish()


META = {
    'technique': 'Rocq proofs (induction over the stage loop / driver loop / Newton loop, ring algebra) + source-to-Gallina '
                 'translation of the coefficient tables re-proved by vm_compute on every run + differential execution '
                 'against the rebuilt implementation',
    'level_text': 'Theorems (Coq, unbounded, closed under the global context): for every number of stages, tableau, mass '
                  'operator, right-hand side, step size and stage solver, dirk_step returns stages with M y_i = M x + tau '
                  'sum_{j<=i} a_ij F(y_j) + r_i where r_i is the residual of the function handed to Newton '
                  '(dirk_stage_equations, dirk_residual_is_newton_residual), the update/embedded/stiffly-accurate-shortcut '
                  'equations and F_x_new = F(x_new) (dirk_update_equation, dirk_embedded_equation, '
                  'dirk_stiffly_accurate_shortcut), y\'=const advances by tau (sum b) M^-1 c '
                  '(dirk_const_rhs_exact_iff_consistent); the same for rosenbrock_step (rosenbrock_stage_equations[_combined], '
                  'rosenbrock_const_rhs); newton returns only points below max(atol, rtol |F(x0)|) which are the last '
                  'evaluated point, else raises after maxiter iterates none of which met the tolerance (newton_result, '
                  'newton_raises_otherwise); constant driver: one time per state, t0 + k tau, reaches t_end '
                  '(constant_driver_*); adaptive driver, for every outcome sequence: times strictly increasing from t0 to '
                  '>= t_end, only steps with r <= 1 accepted, times are partial sums of accepted steps, consecutive step '
                  'sizes within [0.2, 5] (adaptive_driver_*). Props2.v: y\'=const is integrated exactly by every consistent tableau on '
                  'every code path of dirk_step and by rosenbrock_step (dirk_const_rhs_exact, rosenbrock_const_rhs_update/_exact); '
                  'the drivers WITH their state as functions of the step function (Model2.v): every call, also after rejected '
                  'and failed attempts, receives the current state and Fx = None or F(state), the constant run adds k d over '
                  'k steps, the stepper-driven adaptive loop refines the outcome-list model (constant_driver_states, '
                  'adaptive_driver_states). Bounded: the order conditions (rooted trees up to order 4, '
                  'ROW form for Rosenbrock) of every shipped table for its documented order, main and embedded weights, '
                  're-proved by vm_compute on the tables translated from the current solvers.py. Tie: run-time tables '
                  'compared bit-exactly with the translated ones; one step compared with the Q model on diagonal systems '
                  '(derived bound), drivers and newton compared exactly on dyadic streams; stage residuals, driver '
                  'predicates and the Newton contract evaluated on the implementation with an exact-rational oracle, also on '
                  'every stepper call (accepted, rejected, failed) of runs of the shipped methods through their real drivers.',
    'level_note': 'Partial: termination of the adaptive loop is not proved; order conditions hold up to the stated rounding '
                  'allowance of the literals, orders <= 4 only. Trusted: Coq kernel + vm_compute, translate/tableaux.py and '
                  'tableaux_orders.json, the hand transcription of solvers.py into coq/C12/Model.v (validated by the '
                  'correspondence run), harness generators and derived float bounds, numpy/scipy linear solves (only their '
                  'residuals are checked).',
}


def replay(ctx, data):
    """./check C12 --replay evidence/replay/C12-n.json : re-evaluate the recorded input on the
    current implementation with the same oracle."""
    rp = data.get('replay', {})
    sig = data.get('signature', '')
    if sig.startswith('tableau:') or sig.startswith('tie:table') or 'case' not in rp:
        methods = stage_tables(ctx)
        if methods is not None:
            tie_tables(ctx, methods)
        return ctx.finish()
    c = rp['case']
    methods = None
    if c['kind'] in ('method', 'trace'):
        methods = TT.translate(os.path.join(REPO, 'pyiga', 'solvers.py'))
    r = ctx.impl.run(DRIVER, {'tasks': [c]})['results'][0]
    c.setdefault('what', 'const_rhs' if c.get('tol') is None else 'adaptive')
    c.setdefault('nst', None)
    if c['kind'] == 'method' and c['what'] == 'const_rhs':
        c['nst'] = int(round((c['t_end'] - c['t0']) / c['tau']))
    if c['kind'] == 'adaptive':
        xa = np.array(c['x0'], dtype=float)
        c['mev'] = [None if e.get('fail') else tuple(Fr(v) for v in np_r_and_praw(xa, e['diff'], c['tol'], c['step_factor'], c['err_order']))
                    for e in c['events']]
    checker = {'dirk': check_dirk_property, 'ros': check_ros_property, 'const': check_const_property,
               'adaptive': check_adaptive_property, 'newton': check_newton_property,
               'method': lambda cc, rr: check_method_property(cc, rr, methods),
               'trace': lambda cc, rr: check_trace_property(cc, rr, methods, {'attempts': 0, 'rejected': 0, 'fx_checked': 0, 'newton_failures': 0,
                                                                             'capped': 0, 'stale_fx_passed_but_unused': 0, 'diverged': 0})}.get(c['kind'])
    bad = checker(c, r) if checker else None
    ctx.count(('replay', sig))
    if bad:
        ctx.report(sig, 'replayed: ' + bad[1], {'case': strip(c), 'impl': r})
    else:
        log('[C12] replay of %s: the property holds on this input now' % sig)
    return ctx.finish()
