(* C08 -- the generic vector core with symmetric=True computes the same array as the
   full run (coverage induction over the kernel's nested loops, any number of levels). *)
From Coq Require Import ZArith List Bool Arith Lia.
From Verif.C08 Require Import Model Proofs.
Import ListNotations.

(* ------------------------------------------------------------------------- *)
(** * programs all of whose stores agree with a fixed function g *)

Section Consistent.
  Variable L V : Type.
  Variable L_eqb : L -> L -> bool.
  Hypothesis L_eqb_spec : forall a b, L_eqb a b = true <-> a = b.
  Variable g : L -> V.

  Definition dst (o : op L V) : L := match o with Wr l _ => l | Cp d _ => d end.
  Definition dsts (ops : list (op L V)) : list L := map dst ops.

  (* W: locations already holding g; every store writes g of its destination, every
     copy reads a location already written and g agrees on source and destination *)
  Fixpoint cons_ok (W : list L) (ops : list (op L V)) : Prop :=
    match ops with
    | [] => True
    | Wr l v :: r => v = g l /\ cons_ok (l :: W) r
    | Cp d s :: r => In s W /\ g d = g s /\ cons_ok (d :: W) r
    end.

  Lemma cons_mono : forall ops W W', incl W W' -> cons_ok W ops -> cons_ok W' ops.
  Proof.
    induction ops as [|[l v|d s] r IH]; intros W W' Hi H; simpl in *; auto.
    - destruct H as [Hv H]. split; [exact Hv|]. apply (IH (l :: W)); [|exact H].
      intros x [<-|Hx]; [left; reflexivity | right; apply Hi, Hx].
    - destruct H as [Hs [Hg H]]. split; [apply Hi, Hs|]. split; [exact Hg|].
      apply (IH (d :: W)); [|exact H].
      intros x [<-|Hx]; [left; reflexivity | right; apply Hi, Hx].
  Qed.

  Lemma cons_app : forall a b W, cons_ok W a -> cons_ok (dsts a ++ W) b -> cons_ok W (a ++ b).
  Proof.
    induction a as [|[l v|d s] a IH]; intros b W Ha Hb; simpl in *; [exact Hb| |].
    - destruct Ha as [Hv Ha]. split; [exact Hv|]. apply IH; [exact Ha|].
      apply (cons_mono b (l :: dsts a ++ W)); [|exact Hb].
      intros x [<-|Hx]; [apply in_or_app; right; left; reflexivity|].
      apply in_app_or in Hx. apply in_or_app. destruct Hx; [left; assumption | right; right; assumption].
    - destruct Ha as [Hs [Hg Ha]]. split; [exact Hs|]. split; [exact Hg|]. apply IH; [exact Ha|].
      apply (cons_mono b (d :: dsts a ++ W)); [|exact Hb].
      intros x [<-|Hx]; [apply in_or_app; right; left; reflexivity|].
      apply in_app_or in Hx. apply in_or_app. destruct Hx; [left; assumption | right; right; assumption].
  Qed.

  Lemma cons_app_closed : forall a b W, cons_ok W a -> cons_ok [] b -> cons_ok W (a ++ b).
  Proof.
    intros a b W Ha Hb. apply cons_app; [exact Ha|]. apply (cons_mono b []); [|exact Hb].
    intros x [].
  Qed.

  Lemma cons_flat_map : forall (A : Type) (f : A -> list (op L V)) xs,
    (forall x, In x xs -> cons_ok [] (f x)) -> cons_ok [] (flat_map f xs).
  Proof.
    induction xs as [|x xs IH]; intro H; simpl; [exact I|].
    apply cons_app_closed; [apply H; left; reflexivity | apply IH; intros y Hy; apply H; right; exact Hy].
  Qed.

  Lemma cons_all_wr : forall ops W,
    (forall o, In o ops -> exists l, o = Wr l (g l)) -> cons_ok W ops.
  Proof.
    induction ops as [|o r IH]; intros W H; simpl; [exact I|].
    destruct (H o (or_introl eq_refl)) as [l ->]. split; [reflexivity|].
    apply IH. intros o' Ho'. apply H. right; exact Ho'.
  Qed.

  Lemma cons_all_cp : forall ops W,
    (forall o, In o ops -> exists d s, o = Cp d s /\ In s W /\ g d = g s) -> cons_ok W ops.
  Proof.
    induction ops as [|o r IH]; intros W H; simpl; [exact I|].
    destruct (H o (or_introl eq_refl)) as [d [s [-> [Hs Hg]]]]. split; [exact Hs|]. split; [exact Hg|].
    apply IH. intros o' Ho'. destruct (H o' (or_intror Ho')) as [d' [s' [E [Hs' Hg']]]].
    exists d', s'. split; [exact E|]. split; [right; exact Hs' | exact Hg'].
  Qed.

  (* after a consistent program every location that was written holds g *)
  Lemma cons_exec : forall ops W m,
    cons_ok W ops -> (forall l, In l W -> m l = g l) ->
    forall l, In l W \/ In l (dsts ops) -> exec L_eqb ops m l = g l.
  Proof.
    induction ops as [|o r IH]; intros W m Hc Hm l Hl.
    - simpl. destruct Hl as [Hl|[]]. apply Hm, Hl.
    - rewrite (exec_cons L V L_eqb).
      destruct o as [l0 v|d s]; simpl in Hc.
      + destruct Hc as [Hv Hc]. apply (IH (l0 :: W)); [exact Hc| |].
        * intros x [E0|Hx]; simpl.
          -- subst x. rewrite (upd_same L V L_eqb L_eqb_spec). exact Hv.
          -- unfold upd. destruct (L_eqb l0 x) eqn:E; [apply L_eqb_spec in E; subst x; exact Hv | apply Hm, Hx].
        * destruct Hl as [Hl|[Hl|Hl]]; [left; right; exact Hl | left; left; exact Hl | right; exact Hl].
      + destruct Hc as [Hs [Hg Hc]]. apply (IH (d :: W)); [exact Hc| |].
        * assert (Hd : m s = g d) by (rewrite Hg; apply Hm, Hs).
          intros x [E0|Hx]; simpl.
          -- subst x. rewrite (upd_same L V L_eqb L_eqb_spec). exact Hd.
          -- unfold upd. destruct (L_eqb d x) eqn:E; [apply L_eqb_spec in E; subst x; exact Hd | apply Hm, Hx].
        * destruct Hl as [Hl|[Hl|Hl]]; [left; right; exact Hl | left; left; exact Hl | right; exact Hl].
  Qed.
End Consistent.
Arguments dst {L V}. Arguments dsts {L V}. Arguments cons_ok {L V}.

(* ------------------------------------------------------------------------- *)
(** * the kernel of generic_assemble_core_vec, square component blocks nc x nc *)

Lemma flat_map_ext_in : forall (A B : Type) (f g : A -> list B) l,
  (forall a, In a l -> f a = g a) -> flat_map f l = flat_map g l.
Proof.
  induction l as [|a l IH]; intro H; simpl; [reflexivity|].
  rewrite (H a (or_introl eq_refl)), IH; [reflexivity|]. intros b Hb. apply H. right; exact Hb.
Qed.

Definition in_shape (mu : list nat) (lv : list level) : Prop :=
  Forall2 (fun (m : nat) (l : level) => m < length (fst l)) mu lv.

Lemma prod_idx_in_shape : forall (lv : list level) mu,
  In mu (prod_idx (map (fun l : level => length (fst l)) lv)) -> in_shape mu lv.
Proof.
  induction lv as [|l lv IH]; intros mu H; simpl in H.
  - destruct H as [<-|[]]. constructor.
  - apply in_flat_map in H. destruct H as [x [Hx H]]. apply in_map_iff in H. destruct H as [mu' [<- Hmu']].
    apply in_seq in Hx. constructor; [lia | apply IH, Hmu'].
Qed.

(* per-level pattern entries selected by a multi-index, and the transposed multi-index *)
Definition sels (lv : list level) (mu : list nat) : list (Z * Z) :=
  map (fun p : level * nat => nth (snd p) (fst (fst p)) (0%Z, 0%Z)) (combine lv mu).
Definition tmu_of (lv : list level) (mu : list nat) : list nat :=
  map (fun p : level * nat => nth (snd p) (snd (fst p)) 0) (combine lv mu).

(* sign of the first non-zero diagonal offset j_k - i_k (0 if all vanish) *)
Fixpoint lexd (lv : list level) (mu : list nat) : Z :=
  match lv, mu with
  | l :: lv', m :: mu' => let d := diag0 (fst l) m in if (d =? 0)%Z then lexd lv' mu' else d
  | _, _ => 0%Z
  end.

Lemma combine_snoc : forall (A B : Type) (l1 : list A) (l2 : list B) a b,
  length l1 = length l2 -> combine (l1 ++ [a]) (l2 ++ [b]) = combine l1 l2 ++ [(a, b)].
Proof.
  induction l1 as [|x l1 IH]; intros [|y l2] a b H; simpl in *; try discriminate; [reflexivity|].
  f_equal. apply IH. lia.
Qed.

Lemma sels_snoc : forall done mu lv m, length done = length mu ->
  sels (done ++ [lv]) (mu ++ [m]) = sels done mu ++ [nth m (fst lv) (0%Z, 0%Z)].
Proof. intros. unfold sels. rewrite combine_snoc by assumption. rewrite map_app. reflexivity. Qed.

Definition level_ok (l : level) : Prop := NoDup (fst l) /\ transp_ok l.

Section CoreSym.
  Variable V : Type.
  Variable nc : nat.
  Variable B : list Z -> list Z -> nat -> V.
  Variable lvs : list level.

  (* the value the full run stores at (mu, c) *)
  Definition gfull (l : eloc) : V :=
    B (map fst (sels lvs (fst l))) (map snd (sels lvs (fst l))) (snd l).

  Hypothesis Bsym : forall i j row col, row < nc -> col < nc ->
    B j i (col * nc + row) = B i j (row * nc + col).

  Definition kinv (sym : bool) (done : list level) (mu tmu : list nat) (i j : list Z) : Prop :=
    length done = length mu /\ length done = length tmu /\
    i = map fst (sels done mu) /\ j = map snd (sels done mu) /\
    (sym = true -> sels done tmu = map swap (sels done mu)).

  Lemma dsts_app : forall (a b : list (op eloc V)), dsts (a ++ b) = dsts a ++ dsts b.
  Proof. intros. unfold dsts. apply map_app. Qed.

  Lemma dsts_blk : forall mu i j, dsts (blk_ops nc nc B mu i j) = map (fun c => (mu, c)) (seq 0 (nc * nc)).
  Proof. intros. unfold dsts, blk_ops. rewrite map_map. reflexivity. Qed.

  Lemma kern_cons : forall sym rest done allz mu tmu i j,
    done ++ rest = lvs -> kinv sym done mu tmu i j -> (sym = true -> Forall transp_ok rest) ->
    cons_ok gfull [] (kern nc nc B sym rest allz mu tmu i j).
  Proof.
    intros sym rest. induction rest as [|[b t] rest IH]; intros done allz mu tmu i j Hd Hinv Htr.
    - rewrite app_nil_r in Hd. subst done. destruct Hinv as [Hl1 [Hl2 [Hi [Hj Ht]]]].
      simpl. apply cons_app.
      + apply cons_all_wr. intros o Ho. unfold blk_ops in Ho. apply in_map_iff in Ho.
        destruct Ho as [c [<- _]]. exists (mu, c). unfold gfull. simpl. rewrite <- Hi, <- Hj. reflexivity.
      + destruct (sym && negb allz) eqn:E; [|exact I].
        apply andb_true_iff in E. destruct E as [Es _].
        apply cons_all_cp. intros o Ho. unfold mirror_ops in Ho.
        apply in_flat_map in Ho. destruct Ho as [row [Hrow Ho]]. apply in_map_iff in Ho.
        destruct Ho as [col [<- Hcol]]. apply in_seq in Hrow, Hcol.
        exists (tmu, col * nc + row), (mu, row * nc + col). split; [reflexivity|]. split.
        * apply in_or_app. left. rewrite dsts_blk. apply in_map_iff. exists (row * nc + col).
          split; [reflexivity|]. apply in_seq. nia.
        * unfold gfull. simpl. rewrite (Ht Es), !map_map. simpl.
          change (map (fun x : Z * Z => snd x) (sels lvs mu)) with (map snd (sels lvs mu)).
          change (map (fun x : Z * Z => fst x) (sels lvs mu)) with (map fst (sels lvs mu)).
          apply Bsym; lia.
    - simpl. apply cons_flat_map. intros m Hm. apply in_seq in Hm.
      destruct (sym && allz && (snd (nth m b (0%Z, 0%Z)) - fst (nth m b (0%Z, 0%Z)) >? 0)%Z); [exact I|].
      destruct Hinv as [Hl1 [Hl2 [Hi [Hj Ht]]]].
      apply (IH (done ++ [(b, t)])).
      + rewrite <- app_assoc. exact Hd.
      + unfold kinv. rewrite !app_length. simpl. repeat split; try lia.
        * rewrite sels_snoc by exact Hl1. rewrite map_app, <- Hi. reflexivity.
        * rewrite sels_snoc by exact Hl1. rewrite map_app, <- Hj. reflexivity.
        * intro Es. rewrite !sels_snoc by assumption. rewrite map_app, (Ht Es). simpl. f_equal. f_equal.
          specialize (Htr Es). inversion Htr as [|? ? Hb _]; subst.
          destruct (Hb m ltac:(simpl; lia)) as [_ Hsw]. exact Hsw.
      + intro Es. specialize (Htr Es). inversion Htr; assumption.
  Qed.

  Lemma dsts_flat_map_in : forall (A : Type) (f : A -> list (op eloc V)) xs x l,
    In x xs -> In l (dsts (f x)) -> In l (dsts (flat_map f xs)).
  Proof.
    intros A f xs x l Hx Hl. unfold dsts in *. apply in_map_iff in Hl. destruct Hl as [o [<- Ho]].
    apply in_map. apply in_flat_map. exists x. split; assumption.
  Qed.

  (* every index tuple whose diagonal vector is not lexicographically positive is computed directly *)
  Lemma cover_blk : forall sym rest allz mu tmu i j s c,
    in_shape s rest -> (sym = true -> allz = true -> (lexd rest s <= 0)%Z) -> c < nc * nc ->
    In (mu ++ s, c) (dsts (kern nc nc B sym rest allz mu tmu i j)).
  Proof.
    intros sym rest. induction rest as [|[b t] rest IH]; intros allz mu tmu i j s c Hs Hlex Hc;
      inversion Hs as [|m l s' rest' Hm Hs']; subst.
    - rewrite app_nil_r. simpl. rewrite dsts_app. apply in_or_app. left.
      rewrite dsts_blk. apply in_map_iff. exists c. split; [reflexivity | apply in_seq; lia].
    - simpl in Hm. simpl kern. apply (dsts_flat_map_in _ _ _ m); [apply in_seq; lia|].
      simpl in Hlex. unfold diag0 in Hlex. simpl fst in Hlex.
      set (d := (snd (nth m b (0%Z, 0%Z)) - fst (nth m b (0%Z, 0%Z)))%Z) in *.
      destruct (sym && allz && (d >? 0)%Z) eqn:Eskip.
      + exfalso. apply andb_true_iff in Eskip. destruct Eskip as [E1 Ed].
        apply andb_true_iff in E1. destruct E1 as [Es Ea].
        specialize (Hlex Es Ea). rewrite Z.gtb_ltb in Ed. apply Z.ltb_lt in Ed.
        destruct (d =? 0)%Z eqn:Ez; [apply Z.eqb_eq in Ez; lia | lia].
      + replace (mu ++ m :: s') with ((mu ++ [m]) ++ s') by (rewrite <- app_assoc; reflexivity).
        apply IH; [exact Hs' | | exact Hc].
        intros Es Ea. apply andb_true_iff in Ea. destruct Ea as [Ea Ez].
        specialize (Hlex Es Ea). rewrite Ez in Hlex. exact Hlex.
  Qed.

  (* ... and the transposed tuple of every lexicographically negative one is filled by the mirror copy *)
  Lemma cover_mirror : forall rest allz mu tmu i j s row col,
    in_shape s rest -> (allz = true -> (lexd rest s < 0)%Z) -> row < nc -> col < nc ->
    In (tmu ++ tmu_of rest s, col * nc + row) (dsts (kern nc nc B true rest allz mu tmu i j)).
  Proof.
    intros rest. induction rest as [|[b t] rest IH]; intros allz mu tmu i j s row col Hs Hlex Hr Hc;
      inversion Hs as [|m l s' rest' Hm Hs']; subst.
    - simpl in Hlex. assert (allz = false) by (destruct allz; [specialize (Hlex eq_refl); lia | reflexivity]).
      subst allz. unfold tmu_of. simpl. rewrite app_nil_r, dsts_app. apply in_or_app. right.
      unfold dsts, mirror_ops. apply in_map_iff.
      exists (Cp (tmu, col * nc + row) (mu, row * nc + col)). split; [reflexivity|].
      apply in_flat_map. exists row. split; [apply in_seq; lia|].
      apply in_map_iff. exists col. split; [reflexivity | apply in_seq; lia].
    - simpl in Hm. simpl kern. apply (dsts_flat_map_in _ _ _ m); [apply in_seq; lia|].
      simpl in Hlex. unfold diag0 in Hlex. simpl fst in Hlex.
      set (d := (snd (nth m b (0%Z, 0%Z)) - fst (nth m b (0%Z, 0%Z)))%Z) in *.
      assert (Hns : allz && (d >? 0)%Z = false).
      { destruct (allz && (d >? 0)%Z) eqn:Eskip; [exfalso|reflexivity].
        apply andb_true_iff in Eskip. destruct Eskip as [Ea Ed].
        specialize (Hlex Ea). rewrite Z.gtb_ltb in Ed. apply Z.ltb_lt in Ed.
        destruct (d =? 0)%Z eqn:Ez; [apply Z.eqb_eq in Ez; lia | lia]. }
      cbn [andb]. rewrite Hns.
      + change (tmu_of ((b, t) :: rest) (m :: s')) with (nth m t 0 :: tmu_of rest s').
        replace (tmu ++ nth m t 0 :: tmu_of rest s') with ((tmu ++ [nth m t 0]) ++ tmu_of rest s')
          by (rewrite <- app_assoc; reflexivity).
        apply (IH (allz && (d =? 0)%Z)); [exact Hs' | | exact Hr | exact Hc].
        intros Ea. apply andb_true_iff in Ea. destruct Ea as [Ea Ez].
        specialize (Hlex Ea). rewrite Ez in Hlex. exact Hlex.
  Qed.

  (* transposing a multi-index: stays in shape, is an involution, flips the lexicographic sign *)
  Lemma tmu_facts : forall lv mu, Forall level_ok lv -> in_shape mu lv ->
    in_shape (tmu_of lv mu) lv /\ tmu_of lv (tmu_of lv mu) = mu /\ lexd lv (tmu_of lv mu) = (- lexd lv mu)%Z.
  Proof.
    intros lv mu Hok Hs. induction Hs as [|m [b t] mu lv Hm Hs IH].
    - repeat split; constructor.
    - inversion Hok as [|? ? [Hnd Htr] Hok']; subst. destruct (IH Hok') as [I1 [I2 I3]].
      simpl in Hm, Hnd. destruct (Htr m Hm) as [Htm Hsw]. simpl in Htm, Hsw.
      destruct (Htr (nth m t 0) Htm) as [Httm Hsw2]. simpl in Httm, Hsw2.
      assert (Einv : nth (nth m t 0) t 0 = m).
      { apply (proj1 (NoDup_nth b (0%Z, 0%Z)) Hnd); [exact Httm | exact Hm |].
        rewrite Hsw2, Hsw. apply swap_swap. }
      change (tmu_of ((b, t) :: lv) (m :: mu)) with (nth m t 0 :: tmu_of lv mu).
      repeat split.
      + constructor; [simpl; exact Htm | exact I1].
      + change (tmu_of ((b, t) :: lv) (nth m t 0 :: tmu_of lv mu))
          with (nth (nth m t 0) t 0 :: tmu_of lv (tmu_of lv mu)).
        rewrite Einv, I2. reflexivity.
      + simpl. unfold diag0. simpl fst. rewrite Hsw. unfold swap. simpl fst; simpl snd.
        set (d := (snd (nth m b (0%Z, 0%Z)) - fst (nth m b (0%Z, 0%Z)))%Z).
        replace (fst (nth m b (0%Z, 0%Z)) - snd (nth m b (0%Z, 0%Z)))%Z with (- d)%Z by (unfold d; ring).
        destruct (d =? 0)%Z eqn:Ez.
        * apply Z.eqb_eq in Ez. rewrite Ez. simpl. exact I3.
        * apply Z.eqb_neq in Ez. replace (- d =? 0)%Z with false by (symmetry; apply Z.eqb_neq; lia).
          reflexivity.
  Qed.

  Lemma core_tasks_concat : forall sym lv0 rest,
    concat (core_tasks nc nc B sym (lv0 :: rest)) = kern nc nc B sym (lv0 :: rest) true [] [] [] [].
  Proof.
    intros sym [b t] rest. unfold core_tasks. rewrite <- flat_map_concat_map. simpl kern.
    apply flat_map_ext_in. intros m _. unfold core_task. simpl fst; simpl snd.
    rewrite andb_true_r. reflexivity.
  Qed.

  Lemma kinv_nil : forall sym, kinv sym [] [] [] [] [].
  Proof. intro sym. unfold kinv. simpl. repeat split; reflexivity. Qed.

  (* the array after the run, at every index tuple of the array and every component *)
  Lemma core_value : forall sym vzero mu c,
    lvs <> [] -> Forall level_ok lvs -> in_shape mu lvs -> c < nc * nc ->
    exec eloc_eqb (concat (core_tasks nc nc B sym lvs)) (fun _ => vzero) (mu, c) = gfull (mu, c).
  Proof.
    intros sym vzero mu c Hne Hok Hs Hc.
    destruct lvs as [|lv0 rest] eqn:Elv; [congruence|]. rewrite core_tasks_concat. rewrite <- Elv in *.
    apply (cons_exec eloc V eloc_eqb eloc_eqb_spec gfull _ []).
    - apply (kern_cons sym lvs [] true [] [] [] []); [reflexivity | apply kinv_nil |].
      intros _. apply Forall_forall. intros l Hl. rewrite Forall_forall in Hok. apply (Hok l Hl).
    - intros l [].
    - right. destruct sym.
      + destruct (Z_le_gt_dec (lexd lvs mu) 0) as [Hle|Hgt].
        * apply (cover_blk true lvs true [] [] [] [] mu c Hs); [intros _ _; exact Hle | exact Hc].
        * destruct (tmu_facts lvs mu Hok Hs) as [T1 [T2 T3]].
          assert (Hnc : 0 < nc) by (destruct nc; [simpl in Hc; lia | lia]).
          pose proof (Nat.div_mod c nc ltac:(lia)) as Hdm.
          pose proof (Nat.mod_upper_bound c nc ltac:(lia)) as Hmod.
          assert (Hdiv : c / nc < nc) by (apply Nat.div_lt_upper_bound; lia).
          replace c with (c / nc * nc + c mod nc) by lia.
          rewrite <- T2 at 1.
          apply (cover_mirror lvs true [] [] [] [] (tmu_of lvs mu) (c mod nc) (c / nc) T1);
            [intros _; lia | exact Hmod | exact Hdiv].
      + apply (cover_blk false lvs true [] [] [] [] mu c Hs); [intros E; discriminate | exact Hc].
  Qed.

  Theorem symmetric_equals_full_core_l : forall vzero,
    Forall level_ok lvs ->
    core_entries vzero nc nc B true lvs = core_entries vzero nc nc B false lvs.
  Proof.
    intros vzero Hok. destruct lvs as [|lv0 rest] eqn:Elv; [reflexivity|]. rewrite <- Elv in *.
    assert (Hne : lvs <> []) by (rewrite Elv; discriminate).
    unfold core_entries. apply flat_map_ext_in. intros mu Hmu.
    apply prod_idx_in_shape in Hmu. apply map_ext_in. intros c Hc. apply in_seq in Hc.
    rewrite !core_value by (assumption || lia). reflexivity.
  Qed.
End CoreSym.
