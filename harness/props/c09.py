"""C09 -- Tensor-product fast paths and closed-form Galerkin matrix identities hold.

Stages (DESIGN.md section 4, C09):
  1. obligations: coq/C09/Props.v (+ Examples), the regenerated Gauss-Legendre tables with
     leggauss_exact_bounded (coq/gen/C09_leggauss.v, translate/leggauss.py) and the translation
     of quadrature.py's gauss_rule proved equal to the model (coq/gen/C09_quadrature.v).
  2. tie: the exact Qc model of bsp_mixed_deriv_biform_1d(_asym) (coq/C09/Model.v) evaluated by
     vm_compute with the SAME rational Gauss tables on generated knot vectors; mesh, span
     indices, first-active indices, shape and stored pattern are compared exactly, the matrix
     entrywise within the rounding bound R derived below; the model is also compared exactly
     with the Gram form of the collocation rows (theorem biform_1d_entry, tested).
  3. the property evaluated on the implementation with an independent exact oracle
     (harness/props/c09_oracle.py: B-splines as exact piecewise polynomials): exact integrals
     for the 1D routines, Kronecker vs generic vs string vs predefined form, symmetry,
     definiteness, kernel, sum = measure, load vectors / integrals, geometry maps with
     polynomial Jacobian determinant, det/inv closed forms; the low-rank assembler against the
     generic one (entries within 4*tol*max(1,|A|max), every significant generic entry stored,
     sum = measure, K*1 = 0) for every ordering of mixed degrees on identity-like geometries
     (hard checks) and on the general geometries (where a value mismatch after a logged
     'Skipped n times; stopping' of that very call is the open finding ...:skip-stop, but
     entries that are not even stored are always reported separately as ...-entries-dropped).

Error bounds (all stated, none tuned):
  R (rounding, per entry): sum over the quadrature cells c in the joint support of
      h_c * eps * [ F1*F2*W * (8(p1+1) + 8(p2+1) + 8 + 2 nqp + 4 deg w)
                    + 2 xmax (F1'*F2*W + F1*F2'*W + F1*F2*W') ]
    with F = p!/(p-k)! (2/h)^k the bound of the k-th derivative of a B-spline on a span of width h
    (every divisor of the NURBS-book recurrences is a knot difference containing the span;
    same constant 8(p+1) eps as the C02 tie), F' the bound of the next derivative (the float
    node fl(h*xi+m) is within 2 eps xmax of the exact node), W, W' bounds of the weight
    polynomial and its derivative, 2 nqp for the dot product and the COO summation.
  T (Gauss tables, per entry): 2e-15 * sum_c (h_c/2) * l1-norm of the integrand's monomial
    coefficients on the reference cell  (theorems leggauss_exact_bounded + quad_poly_defect).
  Kronecker products: |prod(a_k+e_k) - prod a_k| <= prod(|a_k|+d_k) - prod|a_k|, plus
    (n_terms + 64) eps * prod(|a_k|+d_k) for the route's own summation (n_terms = number of
    quadrature points x overlapping cells of a generic assembler entry, naive-sum worst case).
"""
import math
import os
import time
import shutil
from fractions import Fraction as F

import numpy as np

from harness.core import clist, cnat, log, parse_coq_list_of_nat, REPO
from harness.props import c09_oracle as orc
from translate import leggauss as tr

PROPS = 'C09/Props.v'
STATS = {'flag_integrals_checked': 0, 'flag_inner_products_checked': 0, 'anisotropic_tp_cases': 0}
EPS = orc.EPS
QMAX = 13


def fr(x):
    return F(float(x))


def hexs(xs):
    return [float(x).hex() for x in xs]


# ---------------------------------------------------------------------------
# generators
# ---------------------------------------------------------------------------

def gen_breaks(rng, nb, unit=False):
    if unit:
        cuts = sorted(rng.sample(range(1, 16), nb - 2))
        return [F(0)] + [F(c, 16) for c in cuts] + [F(1)]
    b = [F(rng.randint(-8, 8), 4)]
    for _ in range(nb - 1):
        b.append(b[-1] + F(2) ** rng.randint(-3, 1))
    return b


def kv_from(breaks, p, mults):
    kv = []
    for x, m in zip(breaks, mults):
        kv += [x] * m
    return kv


def gen_kv(rng, p, nb=None, unit=False, breaks=None):
    if breaks is None:
        nb = nb or rng.randint(2, 5)
        breaks = gen_breaks(rng, nb, unit)
    nb = len(breaks)
    style = rng.choice(['simple', 'rand', 'max'])
    mm = max(p, 1)
    if style == 'simple':
        inner = [1] * (nb - 2)
    elif style == 'max':
        inner = [mm] * (nb - 2)
    else:
        inner = [rng.randint(1, mm) for _ in range(nb - 2)]
    mults = [p + 1] + inner + [p + 1]
    return kv_from(breaks, p, mults), breaks, mults


def spec(kv, p):
    return {'kv': hexs(kv), 'p': p}


def rand_poly(rng, deg):
    c = [rng.randint(-3, 3) for _ in range(deg + 1)]
    if c[-1] == 0:
        c[-1] = 1
    return c


def ceil_half(n):
    return -((-n) // 2)


def gen_cases(ctx):
    rng = ctx.rng
    th = ctx.tier == 'thorough'
    cases = []
    dist = {'kind': {}, 'p': {}, 'dudv': {}, 'dims': {}, 'repeated_knots': 0, 'geo': {}}

    def add(c):
        cases.append(c)
        dist['kind'][c['kind']] = dist['kind'].get(c['kind'], 0) + 1

    # --- 1D symmetric routine -------------------------------------------------
    n1d = 150 if th else 18
    for c in range(n1d):
        p = c % 7 if c < 14 else rng.randint(0, 6)
        kv, br, mults = gen_kv(rng, p)
        if any(m > 1 for m in mults[1:-1]):
            dist['repeated_knots'] += 1
        sel = rng.random()
        if sel < 0.25:
            du = dv = 0
        elif sel < 0.45:
            du = dv = min(1, p)
        elif sel < 0.55:
            du = dv = p
        else:
            du, dv = rng.randint(0, p), rng.randint(0, p)
        wf = None
        nqp = None
        if rng.random() < 0.4:
            wf = rand_poly(rng, rng.randint(1, 2))
            nqp = max(1, ceil_half(2 * p - du - dv + (len(wf) - 1) + 1))
        elif rng.random() < 0.25:
            nqp = max(1, ceil_half(2 * p - du - dv + 1)) + rng.randint(1, 2)     # over-integration
        f = rand_poly(rng, rng.randint(0, p + 1))
        add({'kind': '1d', 'kv': hexs(kv), 'p': p, 'du': du, 'dv': dv, 'wf': wf, 'nqp': nqp, 'f': f})
        dist['p'][p] = dist['p'].get(p, 0) + 1
        dist['dudv']['%d,%d' % (du, dv)] = dist['dudv'].get('%d,%d' % (du, dv), 0) + 1
    # a space with a single quadrature node (degree 0, one cell): load vector / integral routes
    add({'kind': '1d', 'kv': hexs([F(1, 2), F(3, 4)]), 'p': 0, 'du': 0, 'dv': 0, 'wf': None, 'nqp': None, 'f': [2]})
    # --- two different spaces on a common mesh ----------------------------------
    nas = 100 if th else 12
    for c in range(nas):
        p1, p2 = rng.randint(0, 5), rng.randint(0, 5)
        br = gen_breaks(rng, rng.randint(2, 5))
        mode = rng.choice(['same', 'coarser2', 'grid'])
        kv1, _, _ = gen_kv(rng, p1, breaks=br)
        if mode == 'coarser2' and len(br) > 2:
            keep = [br[0]] + [x for x in br[1:-1] if rng.random() < 0.5] + [br[-1]]
            kv2, _, _ = gen_kv(rng, p2, breaks=keep)
            quadgrid = None                       # kv1.mesh refines kv2.mesh
        elif mode == 'grid':
            kv2, _, _ = gen_kv(rng, p2, breaks=br)
            g = []
            for a, b in zip(br[:-1], br[1:]):
                g += [a, (a + b) / 2] if rng.random() < 0.6 else [a]
            quadgrid = g + [br[-1]]
        else:
            kv2, _, _ = gen_kv(rng, p2, breaks=br)
            quadgrid = None
        du, dv = rng.randint(0, p1), rng.randint(0, p2)
        if rng.random() < 0.3:
            du = dv = 0
        nqp = None if rng.random() < 0.7 else max(1, ceil_half(p1 + p2 - du - dv + 1)) + 1
        add({'kind': 'asym', 's1': spec(kv1, p1), 's2': spec(kv2, p2), 'du': du, 'dv': dv,
             'quadgrid': hexs(quadgrid) if quadgrid else None, 'nqp': nqp, 'mode': mode})
    # --- tensor-product routes ---------------------------------------------------
    ntp = 40 if th else 7
    for c in range(ntp):
        d = [1, 2, 3, 2, 3, 2, 2][c % 7]
        pmax = 6 if d == 1 else (4 if d == 2 else 2)
        if th and d == 2:
            pmax = 6
        stiff = rng.random() < 0.75
        ps = [rng.randint(1 if stiff else 0, pmax) for _ in range(d)]
        unit = rng.random() < 0.5
        spaces = []
        for p in ps:
            kv, _, _ = gen_kv(rng, p, nb=rng.randint(2, 4 if d < 3 else 3), unit=unit)
            spaces.append(spec(kv, p))
        mp = max(ps)
        f = [rand_poly(rng, rng.randint(0, min(2, 2 * mp + 1 - p))) for p in ps]
        add({'kind': 'tp', 'spaces': spaces, 'stiffness': stiff, 'f': f,
             'geo': {'kind': 'unit_cube' if unit else 'identity'}})
        dist['dims'][d] = dist['dims'].get(d, 0) + 1
    # anisotropic spaces: every direction has the SAME degree, number of dofs and end points but
    # different knots (simple knots at different places / a repeated interior knot): entrywise
    # comparison of all routes against the exact Kronecker matrix
    def aniso_variants(p, m, nvar):
        out = []
        tries = 0
        while len(out) < nvar and tries < 200:
            tries += 1
            style = rng.choice(['simple', 'repeated']) if (p >= 2 and m >= 2) else 'simple'
            if style == 'simple':
                pos = sorted(rng.sample(range(1, 8), m))
                kv = [F(0)] * (p + 1) + [F(c, 8) for c in pos] + [F(1)] * (p + 1)
            else:
                mult = rng.randint(2, min(p, m))
                pos = sorted(rng.sample(range(1, 8), m - mult + 1))
                rep = rng.choice(pos)
                kv = [F(0)] * (p + 1) + [F(c, 8) for c in pos for _ in range(mult if c == rep else 1)] + [F(1)] * (p + 1)
            if kv not in out:
                out.append(kv)
        return out
    aniso = [(3, 2, 2), (2, 3, 3)] + ([(3, 1, 2), (3, 2, 3), (2, 2, 2), (3, 3, 2), (2, 1, 3), (3, 2, 2)] if th else [])
    for (d, p, m) in aniso:
        kvsv = aniso_variants(p, m, d)
        spaces = [spec(kv, p) for kv in kvsv]
        f = [rand_poly(rng, rng.randint(0, 2)) for _ in range(d)]
        add({'kind': 'tp', 'spaces': spaces, 'stiffness': True, 'f': f, 'geo': {'kind': 'unit_cube'}, 'aniso': True})
        dist['dims']['aniso-d%d' % d] = dist['dims'].get('aniso-d%d' % d, 0) + 1
    # --- geometry maps -----------------------------------------------------------
    # fixed first case (the first ACA call of the driver process, so that rand() in fastasm.cc is
    # in its initial state): a sheared unit cube, uniform quadratic splines with 4 spans
    u4 = kv_from([F(0), F(1, 4), F(1, 2), F(3, 4), F(1)], 2, [3, 1, 1, 1, 3])
    Ash = [[F(1), F(1, 2), F(0)], [F(0), F(1), F(0)], [F(0), F(0), F(1)]]
    co = [[[[float(ix * Ash[r][0] + iy * Ash[r][1] + iz * Ash[r][2]) for r in range(3)]
            for ix in range(2)] for iy in range(2)] for iz in range(2)]
    add({'kind': 'geo', 'spaces': [spec(u4, 2)] * 3, 'which': 'para3', 'stiffness': True, 'fast': 1e-6,
         'fpar': [[1, 2], [-1, 1], [2, -3]],
         'geo': {'kind': 'multilinear', 'coeffs': co, 'A': [[str(v) for v in row] for row in Ash], 'o': ['0', '0', '0']}})
    dist['geo']['sheared-cube-fixed'] = 1
    ngeo = 30 if th else 6
    nori = {'quad': 0, 'para3': 0}
    for c in range(ngeo):
        which = ['quad', 'para3', 'quad', 'annulus', 'bannulus', 'twisted', 'quad'][c % 7]
        d = 3 if which in ('para3', 'twisted') else 2
        ps = [rng.randint(1, 3 if d == 2 else 2) for _ in range(d)]
        spaces = []
        for p in ps:
            kv, _, _ = gen_kv(rng, p, nb=rng.randint(2, 4 if d == 2 else 3), unit=True)
            spaces.append(spec(kv, p))
        g = {}
        if which == 'quad':
            # corners P00, P10 (x-direction), P01, P11 of a convex quadrilateral; coeffs[iy][ix] = (x, y)
            while True:
                P = [[F(rng.randint(-8, 8), 4), F(rng.randint(-8, 8), 4)] for _ in range(4)]
                P00, P10, P01, P11 = P
                poly = [P00, P10, P11, P01]
                cr = []
                for i in range(4):
                    a, b, cc = poly[i], poly[(i + 1) % 4], poly[(i + 2) % 4]
                    cr.append((b[0] - a[0]) * (cc[1] - b[1]) - (b[1] - a[1]) * (cc[0] - b[0]))
                # orientation alternates deterministically (|det J| must be used, not det J)
                # (counted per kind: the first quadrilateral of every run reverses the orientation)
                if (all(x > 0 for x in cr) and nori['quad'] % 2 == 1) or (all(x < 0 for x in cr) and nori['quad'] % 2 == 0):
                    break
            nori['quad'] += 1
            g = {'kind': 'multilinear', 'coeffs': [[[float(P00[0]), float(P00[1])], [float(P10[0]), float(P10[1])]],
                                                   [[float(P01[0]), float(P01[1])], [float(P11[0]), float(P11[1])]]],
                 'poly': [[str(v) for v in q] for q in poly]}
        elif which == 'para3':
            while True:
                A = [[F(rng.randint(-6, 6), 4) for _ in range(3)] for _ in range(3)]   # columns = edge vectors ex, ey, ez
                det = (A[0][0] * (A[1][1] * A[2][2] - A[2][1] * A[1][2]) - A[0][1] * (A[1][0] * A[2][2] - A[1][2] * A[2][0])
                       + A[0][2] * (A[1][0] * A[2][1] - A[1][1] * A[2][0]))
                # the first parallelepiped of every run contains a reflection (det < 0), then alternating
                if abs(det) >= F(1, 4) and ((det < 0) == (nori['para3'] % 2 == 0)):
                    break
            nori['para3'] += 1
            o = [F(rng.randint(-4, 4), 4) for _ in range(3)]
            co = [[[[float(o[r] + ix * A[r][0] + iy * A[r][1] + iz * A[r][2]) for r in range(3)]
                    for ix in range(2)] for iy in range(2)] for iz in range(2)]
            g = {'kind': 'multilinear', 'coeffs': co, 'A': [[str(v) for v in row] for row in A], 'o': [str(v) for v in o]}
        elif which == 'annulus':
            g = {'kind': 'quarter_annulus'}
        elif which == 'bannulus':
            g = {'kind': 'bspline_quarter_annulus'}
        else:
            g = {'kind': 'twisted_box'}
        fpar = None
        if which in ('quad', 'para3'):
            # non-constant parametric data (degree 1 in every direction)
            fpar = [[rng.randint(-3, 3), rng.choice([-3, -2, -1, 1, 2, 3])] for _ in range(d)]
        add({'kind': 'geo', 'spaces': spaces, 'geo': g, 'which': which, 'stiffness': which != 'para3' or True,
             'fast': rng.choice([1e-6, 1e-8, 1e-10]), 'fpar': fpar})
        dist['geo'][which] = dist['geo'].get(which, 0) + 1
    # --- low-rank assembler vs generic assembler, all orderings of mixed degrees -----
    # identity-like geometries (unit cube / axis-aligned scaling): every check of mass_fast is hard;
    # for stiffness_fast a pure value mismatch whose own log shows 'Skipped n times; stopping' is the
    # open finding, everything else (entries not stored, mismatch without that log, K*1, symmetry) is hard.
    # Placed after the geometry cases so that the fixed sheared-cube case stays the first ACA call.
    import itertools
    degs = [list(q) for q in itertools.permutations((1, 2, 3))] + [[2, 1, 2], [1, 1, 2], [1, 3], [3, 1], [1, 2], [2, 1]]
    if th:
        degs += [[rng.randint(1, 3) for _ in range(rng.choice([2, 3, 3]))] for _ in range(30)]
    for n, ps in enumerate(degs):
        d = len(ps)
        spaces = []
        for p in ps:
            kv, _, _ = gen_kv(rng, p, nb=rng.randint(4, 5) if d == 2 or not th else rng.randint(3, 5), unit=True)
            spaces.append(spec(kv, p))
        if n % 2 == 0:
            g = {'kind': 'unit_cube'}
            vol = F(1)
        else:
            sc = [F(rng.choice([1, 2, 3, 4, 6]), 2) for _ in range(d)]          # x_r = sc[r] * t_r
            vol = F(1)
            for v in sc:
                vol *= v
            co = np.zeros(d * (2,) + (d,))
            for idx in itertools.product(*(d * [[0, 1]])):
                co[idx] = [float(sc[r] * idx[d - 1 - r]) for r in range(d)]
            g = {'kind': 'multilinear', 'coeffs': co.tolist(), 'scale': [str(v) for v in sc]}
        add({'kind': 'fast', 'spaces': spaces, 'geo': g, 'tol': rng.choice([1e-8, 1e-10]), 'volume': str(vol), 'degrees': ps})
        key = 'fast-d%d' % d
        dist['dims'][key] = dist['dims'].get(key, 0) + 1
    # --- closed-form determinants / inverses --------------------------------------
    for d in (2, 3):
        mats = []
        cnt = (4, 3) if d == 2 else (2, 2, 3)
        nm = int(np.prod(cnt))
        while len(mats) < nm:
            M = [[F(rng.randint(-8, 8), 4) for _ in range(d)] for _ in range(d)]
            if abs(det_exact(M)) >= F(1, 8):
                mats.append(M)
        add({'kind': 'detinv', 'd': d, 'shape': list(cnt) + [d, d],
             'X': [hexs([x for row in M for x in row]) for M in mats]})
    return cases, dist


def det_exact(M):
    if len(M) == 2:
        return M[0][0] * M[1][1] - M[0][1] * M[1][0]
    return (M[0][0] * (M[1][1] * M[2][2] - M[2][1] * M[1][2]) - M[0][1] * (M[1][0] * M[2][2] - M[1][2] * M[2][0])
            + M[0][2] * (M[1][0] * M[2][1] - M[1][1] * M[2][0]))


def inv_exact(M):
    n = len(M)
    d = det_exact(M)
    if n == 2:
        return [[M[1][1] / d, -M[0][1] / d], [-M[1][0] / d, M[0][0] / d]]
    cof = [[F(0)] * 3 for _ in range(3)]
    for i in range(3):
        for j in range(3):
            r = [k for k in range(3) if k != i]
            c = [k for k in range(3) if k != j]
            cof[i][j] = (-1) ** (i + j) * (M[r[0]][c[0]] * M[r[1]][c[1]] - M[r[0]][c[1]] * M[r[1]][c[0]])
    return [[cof[j][i] / d for j in range(3)] for i in range(3)]


# ---------------------------------------------------------------------------
# property predicate on the implementation (independent oracle)
# ---------------------------------------------------------------------------

def kvF(s):
    return [fr(float.fromhex(h)) for h in s['kv']], s['p']


def fmat(A):
    return np.array([[float(x) for x in r] for r in A], dtype=float)


def worst(A, E, B):
    """max over entries of |A - E| / B (B > 0 entrywise), computed exactly where it matters."""
    A = np.asarray(A, dtype=float)
    Ef, Bf = fmat(E), fmat(B)
    if A.shape != Ef.shape:
        return float('inf'), (0, 0)
    ratio = np.abs(A - Ef) / np.maximum(Bf, 1e-300)
    k = np.unravel_index(np.argmax(ratio), ratio.shape)
    i, j = int(k[0]), int(k[1])
    # exact re-evaluation of the worst entry (the float estimate only selects it)
    ex = abs(fr(A[i, j]) - E[i][j]) / B[i][j] if B[i][j] > 0 else (F(0) if fr(A[i, j]) == E[i][j] else F(10 ** 9))
    # entries with ratio in (0.5, 2) could be misjudged by the float estimate: re-check them exactly
    for (a, b) in zip(*np.where(ratio > 0.5)):
        a, b = int(a), int(b)
        e2 = abs(fr(A[a, b]) - E[a][b]) / B[a][b] if B[a][b] > 0 else F(10 ** 9)
        if e2 > ex:
            ex, i, j = e2, a, b
    return float(ex), (i, j)


def check_1d(case, r, bad):
    kv, p = kvF(case)
    du, dv = case['du'], case['dv']
    n = len(kv) - p - 1
    msh = orc.mesh_of(kv)
    E, R, T, deg = orc.exact_biform(kv, p, kv, p, du, dv, msh, case['wf'], case['nqp'])
    nqp = case['nqp'] if case['nqp'] is not None else max(0, ceil_half(2 * p - du - dv + 1))
    assert deg <= 2 * nqp - 1 or all(all(x == 0 for x in row) for row in E), (deg, nqp)
    if r['shape'] != [n, n]:
        bad.append(('shape', 'matrix has shape %s, expected %s' % (r['shape'], [n, n])))
        return None
    A = np.load(r['A'])
    B = orc.madd(R, T)
    w, (i, j) = worst(A, E, B)
    if w > 1:
        bad.append(('exact-integral', 'bsp_mixed_deriv_biform_1d entry (%d,%d) = %r, exact integral %s = %r, bound %g'
                    % (i, j, A[i, j], E[i][j], float(E[i][j]), float(B[i][j]))))
    if r['mesh'] != hexs(msh) or r['span_idx'] != orc.span_indices(kv) or r['numspans'] != len(msh) - 1 or r['numdofs'] != n:
        bad.append(('mesh', 'mesh / mesh_span_indices / numspans / numdofs differ from the knot vector\'s breakpoints'))
    if r['first_active'] != [s - p for s in orc.span_indices(kv)]:
        bad.append(('first-active', 'first_active(mesh_span_indices) = %s' % r['first_active']))
    if not r['mass_same'] or not r.get('stiff_same', True):
        bad.append(('named-routes', 'bsp_mass_1d / bsp_stiffness_1d differ from the (0,0) / (1,1) biform'))
    # consequences: symmetry, definiteness, sums, kernel
    Em, Rm, Tm, _ = orc.exact_biform(kv, p, kv, p, 0, 0, msh)
    M1 = np.load(r['M1'])
    Bm = orc.madd(Rm, Tm)
    w, (i, j) = worst(M1, Em, Bm)
    if w > 1:
        bad.append(('mass-exact', 'mass(kv) entry (%d,%d) = %r, exact %r' % (i, j, M1[i, j], float(Em[i][j]))))
    if not orc.is_spd_exact(Em):
        bad.append(('oracle', 'exact mass matrix is not SPD (oracle self-check)'))
    tol = float(sum(sum(row) for row in Bm))
    if abs(M1.sum() - float(kv[-1] - kv[0])) > tol + 4 * float(EPS) * float(kv[-1] - kv[0]):
        bad.append(('mass-sum', 'entries of the mass matrix sum to %r, domain length %r' % (M1.sum(), float(kv[-1] - kv[0]))))
    nb = float(n * max(max(row) for row in Bm))
    if np.abs(M1 - M1.T).max() > 2 * nb / n:
        bad.append(('mass-sym', 'mass matrix not symmetric within the rounding bound'))
    lam = np.linalg.eigvalsh((M1 + M1.T) / 2)
    if lam[0] <= nb:
        bad.append(('mass-spd', 'smallest eigenvalue of the mass matrix %g (perturbation bound %g)' % (lam[0], nb)))
    if p >= 1:
        Ek, Rk, Tk, _ = orc.exact_biform(kv, p, kv, p, 1, 1, msh)
        K1 = np.load(r['K1'])
        Bk = orc.madd(Rk, Tk)
        w, (i, j) = worst(K1, Ek, Bk)
        if w > 1:
            bad.append(('stiff-exact', 'stiffness(kv) entry (%d,%d) = %r, exact %r' % (i, j, K1[i, j], float(Ek[i][j]))))
        if orc.rank_exact(Ek) != n - 1:
            bad.append(('oracle', 'exact stiffness matrix has rank %d != n-1' % orc.rank_exact(Ek)))
        rowb = max(float(sum(row)) for row in Bk)
        if np.abs(K1.sum(axis=1)).max() > rowb:
            bad.append(('stiff-kernel', 'K*1 = %g, bound %g' % (np.abs(K1.sum(axis=1)).max(), rowb)))
        nbk = float(n * max(max(row) for row in Bk))
        lam = np.linalg.eigvalsh((K1 + K1.T) / 2)
        if lam[0] < -nbk or (n > 1 and lam[1] <= nbk):
            bad.append(('stiff-psd', 'stiffness eigenvalues %g, %g (perturbation bound %g): not PSD with a one-dimensional kernel'
                        % (lam[0], lam[1] if n > 1 else 0, nbk)))
    # load vector / inner products / integral of a polynomial f (nqp = p+1: exact for deg f <= p+1)
    L, TL = orc.exact_load(kv, p, case['f'])
    xmax = max(abs(kv[0]), abs(kv[-1]), 1)
    fmax = sum(abs(c) * xmax ** k for k, c in enumerate(case['f']))
    if 'inner_err' in r:
        single = (len(msh) - 1) * (p + 1) == 1
        bad.append(('inner-products-single-node' if single else 'inner-products-raises',
                    'inner_products/integrate raised %s on a space with %d quadrature node(s)' % (r['inner_err'], (len(msh) - 1) * (p + 1))))
    for name in ('load', 'inner'):
        if name not in r:
            continue
        v = np.load(r[name]).ravel()
        for i in range(n):
            supp = kv[i + p + 1] - kv[i]
            bnd = TL[i] + EPS * supp * fmax * (8 * (p + 1) + 4 * len(case['f']) + 2 * (p + 1) * (p + 1) + 16 + 4 * p * xmax / max(min(b - a for a, b in zip(msh[:-1], msh[1:])), F(1, 10 ** 9)) * 2)
            if len(v) != n or abs(fr(v[i]) - L[i]) > bnd:
                bad.append(('load-vector', '%s entry %d = %r, exact %r' % (name, i, v[i] if len(v) == n else None, float(L[i]))))
                break
    I = orc.pint([F(c) for c in case['f']], kv[0], kv[-1])
    got = fr(float.fromhex(r['integral'])) if 'integral' in r else I
    if abs(got - I) > (kv[-1] - kv[0]) * fmax * (EPS * (16 + 4 * len(case['f']) + 2 * (p + 1) * len(msh)) + orc.TABLE_DEFECT * 64):
        bad.append(('integrate', 'integrate(kv, f) = %r, exact %r' % (float(got), float(I))))
    return A, R


def check_asym(case, r, bad):
    kv1, p1 = kvF(case['s1'])
    kv2, p2 = kvF(case['s2'])
    du, dv = case['du'], case['dv']
    grid = [fr(float.fromhex(h)) for h in case['quadgrid']] if case['quadgrid'] else orc.mesh_of(kv1)
    E, R, T, deg = orc.exact_biform(kv1, p1, kv2, p2, du, dv, grid, None, case['nqp'])
    n1, n2 = len(kv1) - p1 - 1, len(kv2) - p2 - 1
    if r['shape'] != [n2, n1]:
        bad.append(('shape', 'asym matrix has shape %s, expected %s' % (r['shape'], [n2, n1])))
        return None
    A = np.load(r['A'])
    B = orc.madd(R, T)
    w, (i, j) = worst(A, E, B)
    if w > 1:
        bad.append(('exact-integral', 'bsp_mixed_deriv_biform_1d_asym entry (%d,%d) = %r, exact integral %r, bound %g'
                    % (i, j, A[i, j], float(E[i][j]), float(B[i][j]))))
    if not r.get('mass_same', True) or not r.get('stiff_same', True):
        bad.append(('named-routes', 'bsp_mass_1d_asym / bsp_stiffness_1d_asym differ from the biform'))
    return A, R


def tp_reference(case, which):
    """Exact Kronecker matrix of the tensor-product space and the per-route bound pieces."""
    facs_M, facs_K = [], []
    for s in case['spaces']:
        kv, p = kvF(s)
        msh = orc.mesh_of(kv)
        Em, Rm, Tm, _ = orc.exact_biform(kv, p, kv, p, 0, 0, msh)
        facs_M.append((Em, orc.madd(Rm, Tm)))
        if which == 'K':
            Ek, Rk, Tk, _ = orc.exact_biform(kv, p, kv, p, 1, 1, msh)
            facs_K.append((Ek, orc.madd(Rk, Tk)))
    d = len(facs_M)
    if which == 'M':
        return orc.kron_with_bound(facs_M)
    E = D = U = None
    for k in range(d):
        facs = [facs_K[l] if l == k else facs_M[l] for l in range(d)]
        Ek, Dk, Uk = orc.kron_with_bound(facs)
        E = Ek if E is None else orc.madd(E, Ek)
        D = Dk if D is None else orc.madd(D, Dk)
        U = Uk if U is None else orc.madd(U, Uk)
    return E, D, U


def nterms(case):
    n = 1
    for s in case['spaces']:
        kv, p = kvF(s)
        mp = max(sp['p'] for sp in case['spaces'])
        n *= (mp + 1) * (p + 1)
    return n


def check_tp(case, r, bad):
    d = len(case['spaces'])
    if case.get('aniso'):
        STATS['anisotropic_tp_cases'] += 1
    N = 1
    for s in case['spaces']:
        N *= len(s['kv']) - s['p'] - 1
    for which in ('M', 'K'):
        if which == 'K' and not case['stiffness']:
            continue
        E, D, U = tp_reference(case, which)
        c_route = (nterms(case) + 64 + 32 * d) * EPS
        B = [[dd + c_route * u for dd, u in zip(rd, ru)] for rd, ru in zip(D, U)]
        mats = {}
        for route, path in r[which].items():
            A = np.load(path)
            mats[route] = A
            w, (i, j) = worst(A, E, B)
            if w > 1:
                bad.append(('tp-%s-%s:d%d' % (which, route, d),
                            '%s matrix, route %s: entry (%d,%d) = %r, exact Kronecker value %r, bound %g'
                            % ('mass' if which == 'M' else 'stiffness', route, i, j, A[i, j] if A.shape == (N, N) else None,
                               float(E[i][j]), float(B[i][j]))))
        A = mats['kron']
        nb = float(N * max(max(row) for row in B))
        lam = np.linalg.eigvalsh((A + A.T) / 2)
        if which == 'M':
            vol = 1.0
            for s in case['spaces']:
                kv, _ = kvF(s)
                vol *= float(kv[-1] - kv[0])
            if abs(A.sum() - vol) > float(sum(sum(row) for row in B)) + 8 * float(EPS) * vol:
                bad.append(('tp-mass-sum:d%d' % d, 'mass entries sum to %r, measure %r' % (A.sum(), vol)))
            if lam[0] <= nb:
                bad.append(('tp-mass-spd:d%d' % d, 'smallest eigenvalue %g (bound %g)' % (lam[0], nb)))
        else:
            rowb = max(float(sum(row)) for row in B)
            if np.abs(A.sum(axis=1)).max() > rowb:
                bad.append(('tp-stiff-kernel:d%d' % d, 'K*1 = %g (bound %g)' % (np.abs(A.sum(axis=1)).max(), rowb)))
            if lam[0] < -nb or lam[1] <= nb:
                bad.append(('tp-stiff-psd:d%d' % d, 'eigenvalues %g, %g (bound %g)' % (lam[0], lam[1], nb)))
    # inner products / integral of the polynomial f = prod f_k(x_k)
    Ls = []
    for s, fk in zip(case['spaces'], case['f']):
        kv, p = kvF(s)
        L, TL = orc.exact_load(kv, p, fk)
        xmax = max(abs(kv[0]), abs(kv[-1]), 1)
        fmax = sum(abs(c) * xmax ** k for k, c in enumerate(fk))
        Ls.append((L, TL, fmax * (kv[-1] - kv[0]), orc.pint([F(c) for c in fk], kv[0], kv[-1])))
    ex = [F(1)]
    ub = [F(1)]
    c1 = (nterms(case) + 64 + 32 * d + 8 * sum(len(fk) for fk in case['f'])) * EPS
    for (L, TL, fm, _) in Ls:
        ex = [a * b for a in ex for b in L]
        ub = [a * b for a in ub for b in [abs(x) + t + c1 * fm for x, t in zip(L, TL)]]
    exabs = [F(1)]
    for (L, TL, fm, _) in Ls:
        exabs = [a * abs(b) for a in exabs for b in L]
    if 'inner_err' in r:
        mpx = max(s['p'] for s in case['spaces'])
        single = any((len(orc.mesh_of(kvF(s)[0])) - 1) * (mpx + 1) == 1 for s in case['spaces'])
        bad.append(('inner-products-single-node' if single else 'inner-products-raises',
                    'inner_products/integrate raised %s' % r['inner_err']))
    for name in ('inner', 'inner_geo'):
        if name not in r:
            continue
        v = np.load(r[name]).ravel()
        if len(v) != len(ex):
            bad.append(('tp-inner-shape:d%d' % d, '%s has %d entries' % (name, len(v))))
            continue
        for i in range(len(ex)):
            if abs(fr(v[i]) - ex[i]) > ub[i] - exabs[i]:
                bad.append(('tp-%s:d%d' % (name, d), 'inner_products entry %d = %r, exact %r' % (i, v[i], float(ex[i]))))
                break
    I = F(1)
    Iub = F(1)
    for (L, TL, fm, Ik) in Ls:
        I *= Ik
        Iub *= abs(Ik) + fm * (c1 + 64 * orc.TABLE_DEFECT)
    for name in ('integral', 'integral_geo'):
        if name not in r:
            continue
        got = fr(float.fromhex(r[name]))
        if abs(got - I) > Iub - abs(I):
            bad.append(('tp-%s:d%d' % (name, d), 'integrate = %r, exact %r' % (float(got), float(I))))


def check_geo(case, r, bad):
    d = len(case['spaces'])
    which = case['which']
    M = np.load(r['M'])
    N = M.shape[0]
    npts = 1
    mp = max(s['p'] for s in case['spaces'])
    for s in case['spaces']:
        kv, p = kvF(s)
        npts *= (len(orc.mesh_of(kv)) - 1) * (mp + 1)
    int_one = float.fromhex(r['int_one'])
    inner_one = np.load(r['inner_one'])
    # routes agree: sum of M = integral of 1 = sum of load vector of 1 (same quadrature: rounding only)
    S = abs(int_one)
    tol_r = (npts * 4 + 256) * float(EPS) * S * (mp + 1) ** (2 * d)
    if abs(M.sum() - int_one) > tol_r or abs(inner_one.sum() - int_one) > tol_r:
        bad.append(('geo-sum-routes:' + which, 'sum(M) = %r, integrate(1) = %r, sum(inner_products(1)) = %r'
                    % (M.sum(), int_one, inner_one.sum())))
    if np.abs(M - M.T).max() > tol_r:
        bad.append(('geo-mass-sym:' + which, 'mass matrix with geometry not symmetric'))
    lam = np.linalg.eigvalsh((M + M.T) / 2)
    if lam[0] <= N * tol_r * 0 + N * float(EPS) * np.abs(M).max() * 64:
        bad.append(('geo-mass-spd:' + which, 'smallest eigenvalue %g' % lam[0]))
    if 'K' in r:
        K = np.load(r['K'])
        sc = np.abs(K).max()
        tk = (npts * 4 + 256) * float(EPS) * sc * N
        if np.abs(K.sum(axis=1)).max() > tk:
            bad.append(('geo-stiff-kernel:' + which, 'K*1 = %g (bound %g)' % (np.abs(K.sum(axis=1)).max(), tk)))
        lam = np.linalg.eigvalsh((K + K.T) / 2)
        if lam[0] < -tk or lam[1] <= tk:
            bad.append(('geo-stiff-psd:' + which, 'eigenvalues %g, %g (bound %g)' % (lam[0], lam[1], tk)))
    # exact measures / first moments for maps with polynomial Jacobian determinant
    tol_x = ((npts * 4 + 256) * float(EPS) + 64 * d * float(orc.TABLE_DEFECT))
    if which == 'quad':
        poly = [[F(v) for v in q] for q in case['geo']['poly']]
        a2 = sum(poly[i][0] * poly[(i + 1) % 4][1] - poly[(i + 1) % 4][0] * poly[i][1] for i in range(4))
        area = abs(a2) / 2
        cx = sum((poly[i][0] + poly[(i + 1) % 4][0]) * (poly[i][0] * poly[(i + 1) % 4][1] - poly[(i + 1) % 4][0] * poly[i][1]) for i in range(4)) / (3 * a2)
        cy = sum((poly[i][1] + poly[(i + 1) % 4][1]) * (poly[i][0] * poly[(i + 1) % 4][1] - poly[(i + 1) % 4][0] * poly[i][1]) for i in range(4)) / (3 * a2)
        ext = max(abs(v) for q in poly for v in q) + 1
        if abs(int_one - float(area)) > tol_x * float(area):
            bad.append(('geo-area:quad', 'integrate(1) over the quadrilateral = %r, area %r' % (int_one, float(area))))
        for c, cen in enumerate((cx, cy)):
            got = float.fromhex(r['int_coord'][c])
            if abs(got - float(cen * area)) > tol_x * float(area * ext) * 4:
                bad.append(('geo-moment:quad', 'integral of x_%d = %r, exact %r' % (c, got, float(cen * area))))
        ic = np.load(r['inner_coord0'])
        if abs(ic.sum() - float(cx * area)) > tol_x * float(area * ext) * 4 * (mp + 1) ** d:
            bad.append(('geo-inner-physical:quad', 'sum of inner_products(x, physical) = %r, exact %r' % (ic.sum(), float(cx * area))))
    elif which == 'para3':
        A = [[F(v) for v in row] for row in case['geo']['A']]
        o = [F(v) for v in case['geo']['o']]
        vol = abs(det_exact(A))
        ext = max(abs(v) for row in A for v in row) * 3 + max(abs(v) for v in o) + 1
        if abs(int_one - float(vol)) > tol_x * float(vol):
            bad.append(('geo-volume:para3', 'integrate(1) over the parallelepiped = %r, volume %r' % (int_one, float(vol))))
        for c in range(3):
            cen = o[c] + (A[c][0] + A[c][1] + A[c][2]) / 2
            got = float.fromhex(r['int_coord'][c])
            if abs(got - float(cen * vol)) > tol_x * float(vol * ext) * 4:
                bad.append(('geo-moment:para3', 'integral of x_%d = %r, exact %r' % (c, got, float(cen * vol))))
    elif which == 'annulus':
        # NURBS: the integrand is rational, Gauss quadrature is not exact (measured: 5.4e-3 for one
        # bilinear cell, 2e-4 for nqp = 3); coarse 1% check only -- not a derived bound: it catches a
        # wrong Jacobian / missing abs / wrong weights, nothing finer
        if abs(int_one - 0.75 * math.pi) > 1e-2 * 0.75 * math.pi:
            bad.append(('geo-area:annulus', 'integrate(1) over the quarter annulus = %r, area %r' % (int_one, 0.75 * math.pi)))
    if case.get('fpar') and 'int_par' in r:
        check_flags(case, r, bad, npts, mp)
    # low-rank assembler: entrywise within 4*tol (relative to the largest entry), pattern
    bad[0:0] = compare_fast(r, case['fast'], which, known_class=True)


def check_flags(case, r, bad, npts, mp):
    """Both values of f_physical of integrate / inner_products with non-constant data on a
    multilinear (non-identity) geometry against exact references: the parametric integrand
    (f_physical=False, the documented default) is integrated as  int f(t) |det DG(t)| dt,
    the physical one as  int f(G(t)) |det DG(t)| dt  (exact multivariate polynomial arithmetic)."""
    d = len(case['spaces'])
    which = case['which']
    spaces = [kvF(s) for s in case['spaces']]
    comps = orc.multilinear_map(case['geo']['coeffs'], d)
    adet = orc.abs_det_poly(comps)
    if adet is None:
        return
    zero = tuple([0] * d)
    fpoly = {zero: F(1)}
    for k, ck in enumerate(case['fpar']):
        fk = {tuple(e if m == k else 0 for m in range(d)): F(c) for e, c in enumerate(ck) if c != 0}
        fpoly = orc.mp_mul(fpoly, fk)
    g_par = orc.mp_mul(fpoly, adet)
    g_phys = orc.mp_mul(orc.mp_mul(comps[0], comps[1]), adet)
    tolrel = (npts * 4 + 256) * EPS * (mp + 1) ** (2 * d) + 64 * d * orc.TABLE_DEFECT

    def exact_ok(g, with_basis):
        return all(orc.mp_degvar(g, k) + (spaces[k][1] if with_basis else 0) <= 2 * mp + 1 for k in range(d))

    for name, g in (('int_par_default', g_par), ('int_par', g_par), ('int_phys_prod', g_phys)):
        if not exact_ok(g, False):
            continue
        ex = orc.mp_int_unit(g)
        got = fr(float.fromhex(r[name]))
        STATS['flag_integrals_checked'] += 1
        if abs(got - ex) > tolrel * orc.mp_l1(g):
            flag = 'f_physical=True' if 'phys' in name else ('default f_physical' if 'default' in name else 'f_physical=False')
            bad.append(('integrate-flag:%s:%s' % (name, which), 'integrate(kvs, f, geo=G) with %s = %r, exact %r (f %s on a %s geometry)'
                        % (flag, float(got), float(ex), 'x0*x1' if 'phys' in name else 'prod_k fpar_k(t_k)', which)))
    for name, g in (('inner_par_default', g_par), ('inner_par', g_par), ('inner_phys_prod', g_phys)):
        if not exact_ok(g, True):
            continue
        ex = orc.exact_inner_mp(spaces, g)
        STATS['flag_inner_products_checked'] += 1
        v = np.load(r[name]).ravel()
        if len(v) != len(ex):
            bad.append(('inner-flag-shape:%s:%s' % (name, which), '%s has %d entries, expected %d' % (name, len(v), len(ex))))
            continue
        bnd = tolrel * orc.mp_l1(g)
        for i in range(len(ex)):
            if abs(fr(v[i]) - ex[i]) > bnd:
                bad.append(('inner-products-flag:%s:%s' % (name, which), 'inner_products(kvs, f, geo=G) [%s] entry %d = %r, exact %r'
                            % (name, i, v[i], float(ex[i]))))
                break
    # without geometry afterwards: the plain parametric integral
    ex = orc.mp_int_unit(fpoly)
    got = fr(float.fromhex(r['int_par_nogeo']))
    if abs(got - ex) > tolrel * orc.mp_l1(fpoly):
        bad.append(('integrate-nogeo:' + which, 'integrate(kvs, f) = %r, exact %r' % (float(got), float(ex))))


def compare_fast(r, tol, label, known_class):
    """mass_fast / stiffness_fast against the generic assembler: entrywise within 4*tol*max(1,|A|max),
    and every entry of the generic matrix above that threshold must be STORED in the fast matrix.
    Classification of a mismatch (most specific first):
      entries-dropped : a significant entry is not even stored (wrong band structure) -- never a
                        consequence of the cross approximation stopping early, whatever the log says;
      skip-stop       : (only with known_class) all significant entries are stored, values differ and
                        the ACA log of THAT call shows 'Skipped n times; stopping';
      entries         : anything else."""
    out = []
    for nm, A_, F_, P_, L_ in (('mass', 'M', 'Mf', 'Mf_pat', 'Mf_log'), ('stiffness', 'K', 'Kf', 'Kf_pat', 'Kf_log')):
        if F_ not in r or A_ not in r:
            continue
        A = np.load(r[A_])
        Af = np.load(r[F_])
        P = np.load(r[P_])
        thr = 4 * tol * max(1.0, np.abs(A).max())
        if Af.shape != A.shape:
            out.append(('fast-%s-shape:%s' % (nm, label), '%s_fast has shape %s, generic %s' % (nm, Af.shape, A.shape)))
            continue
        dropped = (np.abs(A) > thr) & (P == 0)
        err = np.abs(Af - A)
        if dropped.any():
            i, j = [int(v) for v in np.argwhere(dropped)[0]]
            out.append(('fast-%s-entries-dropped:%s' % (nm, label),
                        '%s_fast does not store %d entries that are non-zero in the generic matrix, e.g. (%d,%d) = %g (tol %g)'
                        % (nm, int(dropped.sum()), i, j, A[i, j], tol)))
        elif err.max() > thr:
            lg = r.get(L_, '')
            cls = 'skip-stop' if (known_class and 'Skipped' in lg) else label
            out.append(('fast-%s:%s' % (nm, cls), '%s_fast differs from %s by %g (tol %g, largest entry %g); log: %r'
                        % (nm, nm, err.max(), tol, np.abs(A).max(), lg[-160:])))
    return out


def check_fast(case, r, bad):
    """Hard checks of the low-rank assembler on identity-like geometries, all orderings of degrees."""
    d = len(case['spaces'])
    label = 'd%d' % d
    tol = case['tol']
    cmp_ = compare_fast(r, tol, label, known_class=True)
    bad += cmp_
    # the open finding (premature 'Skipped n times; stopping') also occurs on these geometries
    # (e.g. seed 1: degrees (1,3,2), C^-1/C^0 knots, K_fast = 0); when it was diagnosed for the
    # stiffness call of this case its consequences (K*1, symmetry) are not reported a second time
    k_masked = any(c == 'fast-stiffness:skip-stop' for c, _ in cmp_)
    m_masked = any(c == 'fast-mass:skip-stop' for c, _ in cmp_)      # same defect, mass variant
    M, K, Mf, Kf = (np.load(r[k]) for k in ('M', 'K', 'Mf', 'Kf'))
    vol = float(F(case['volume']))
    npts = 1
    mp = max(s['p'] for s in case['spaces'])
    for s in case['spaces']:
        kv, p = kvF(s)
        npts *= (len(orc.mesh_of(kv)) - 1) * (mp + 1)
    nnz = int((np.load(r['Mf_pat']) != 0).sum())
    # sum of the entries = measure: generic rounding/table bound + one 4*tol per stored entry
    tol_s = ((npts * 4 + 256) * float(EPS) * (mp + 1) ** (2 * d) + 64 * d * float(orc.TABLE_DEFECT)) * vol \
        + nnz * 4 * tol * max(1.0, np.abs(M).max())
    if not m_masked and abs(Mf.sum() - vol) > tol_s:
        bad.append(('fast-mass-sum:' + label, 'entries of mass_fast sum to %r, measure of the domain %r (degrees %s)'
                    % (Mf.sum(), vol, case['degrees'])))
    rownnz = int((np.load(r['Kf_pat']) != 0).sum(axis=1).max())
    sc = max(1.0, np.abs(K).max())
    tol_k = (npts * 4 + 256) * float(EPS) * sc * K.shape[0] + rownnz * 4 * tol * sc
    if not k_masked and np.abs(Kf.sum(axis=1)).max() > tol_k:
        bad.append(('fast-stiffness-kernel:' + label, '|K_fast * 1|max = %g (bound %g, degrees %s)'
                    % (np.abs(Kf.sum(axis=1)).max(), tol_k, case['degrees'])))
    if (not m_masked and np.abs(Mf - Mf.T).max() > 8 * tol * max(1.0, np.abs(M).max())) or (not k_masked and np.abs(Kf - Kf.T).max() > 8 * tol * sc):
        bad.append(('fast-sym:' + label, 'fast matrices not symmetric within 8*tol'))


def check_detinv(case, r, bad):
    d = case['d']
    mats = [[[fr(float.fromhex(h)) for h in row[i * d:(i + 1) * d]] for i in range(d)] for row in case['X']]
    det = np.load(r['det']).ravel()
    det2 = np.load(r['det2']).ravel()
    inv = np.load(r['inv']).reshape(-1, d, d)
    inv2 = np.load(r['inv2']).reshape(-1, d, d)
    for k, M in enumerate(mats):
        de = det_exact(M)
        Sd = F(math.factorial(d)) * max(abs(x) for row in M for x in row) ** d       # sum of |products|
        for name, v in (('determinants', det), ('det_and_inv', det2)):
            if abs(fr(v[k]) - de) > 8 * EPS * Sd:
                bad.append(('det%d' % d, '%s = %r, exact %r' % (name, v[k], float(de))))
        Ie = inv_exact(M)
        Sc = F(2) * max(abs(x) for row in M for x in row) ** (d - 1)
        for name, v in (('det_and_inv', inv), ('inverses', inv2)):
            for i in range(d):
                for j in range(d):
                    bnd = 2 * (4 * EPS * Sc / abs(de) + abs(Ie[i][j]) * 8 * EPS * Sd / abs(de) + 4 * EPS * abs(Ie[i][j]))
                    if abs(fr(v[k][i][j]) - Ie[i][j]) > bnd:
                        bad.append(('inv%d' % d, '%s[%d,%d] = %r, exact %r' % (name, i, j, v[k][i][j], float(Ie[i][j]))))


# ---------------------------------------------------------------------------
# Coq side
# ---------------------------------------------------------------------------

HEADER = '''From Coq Require Import QArith Qcanon ZArith List Bool Arith.
From Verif.lib Require Import Bsp.
From Verif.C09 Require Import Model.
From Verif.%(gen)s Require Import C09_leggauss.
Import ListNotations.
'''


def cqc(x):
    x = F(x)
    return '(q (%d) %d)' % (x.numerator, x.denominator)


def cmat(A, f=cqc):
    return clist([clist(row, f) for row in A])


def pattern_rows(pat, shape):
    s = set((a, b) for a, b in pat)
    return [[(i, j) in s for j in range(shape[1])] for i in range(shape[0])]


def cb(b):
    return 'true' if b else 'false'


def coq_case_1d(case, r, A, R, perturb=None):
    kv, p = kvF(case)
    nqp = case['nqp'] if case['nqp'] is not None else max(0, ceil_half(2 * p - case['du'] - case['dv'] + 1))
    wf = '(Some (peval %s))' % clist([F(c) for c in case['wf']], cqc) if case['wf'] else 'None'
    wfun = '(peval %s)' % clist([F(c) for c in case['wf']], cqc) if case['wf'] else '(fun _ => Q2Qc 1)'
    impl = [[fr(x) for x in row] for row in A]
    if perturb:
        i, j, dlt = perturb
        impl[i][j] += dlt
    t = ''
    t += 'Definition kv := %s.\n' % clist(kv, cqc)
    t += 'Definition ref := leggauss %d.\n' % nqp
    t += 'Definition coo := biform_1d_coo kv %d %d %d ref %s.\n' % (p, case['du'], case['dv'], wf)
    t += 'Definition model := coo_dense (fst coo) (snd coo).\n'
    t += 'Definition impl := %s.\nDefinition bnd := %s.\n' % (cmat(impl), cmat(R))
    checks = [
        'Z.eqb (nqp_default (2 * %d) %d %d) %d' % (p, case['du'], case['dv'], ceil_half(2 * p - case['du'] - case['dv'] + 1)),
        'qc_list_eqb (mesh kv) %s' % clist([fr(float.fromhex(h)) for h in r['mesh']], cqc),
        'nat_list_eqb (span_indices kv) %s' % clist(r['span_idx'], cnat),
        'nat_list_eqb (map (first_active %d) (span_indices kv)) %s' % (p, clist(r['first_active'], cnat)),
        'Nat.eqb (numspans kv) %d && Nat.eqb (numdofs kv %d) %d' % (r['numspans'], p, r['numdofs']),
        'Nat.eqb (fst (coo_shape (fst coo))) %d && Nat.eqb (snd (coo_shape (fst coo))) %d' % tuple(r['shape']),
        'pattern_eqb (coo_pattern (fst coo)) %s' % clist([clist(row, cb) for row in pattern_rows(r['pattern'], r['shape'])]),
        'mat_close bnd impl model',
        'mat_eqb model (gram_ref_mat kv %d kv %d %d %d (weighted %s (iterated ref (mesh kv))))' % (p, p, case['du'], case['dv'], wfun),
        'open_kv kv %d' % p,
    ]
    t += 'Definition checks := [%s].\n' % ';\n  '.join(checks)
    return t


def coq_case_asym(case, r, A, R):
    kv1, p1 = kvF(case['s1'])
    kv2, p2 = kvF(case['s2'])
    du, dv = case['du'], case['dv']
    nqp = case['nqp'] if case['nqp'] is not None else max(0, ceil_half(p1 + p2 - du - dv + 1))
    grid = [fr(float.fromhex(h)) for h in case['quadgrid']] if case['quadgrid'] else None
    t = ''
    t += 'Definition kv1 := %s.\nDefinition kv2 := %s.\n' % (clist(kv1, cqc), clist(kv2, cqc))
    t += 'Definition grid := %s.\n' % (clist(grid, cqc) if grid else 'mesh kv1')
    t += 'Definition ref := leggauss %d.\n' % nqp
    t += 'Definition coo := biform_asym_coo kv1 %d kv2 %d %d %d grid ref.\n' % (p1, p2, du, dv)
    t += 'Definition model := coo_dense (fst coo) (snd coo).\n'
    t += 'Definition impl := %s.\nDefinition bnd := %s.\n' % (cmat([[fr(x) for x in row] for row in A]), cmat(R))
    checks = [
        'Z.eqb (nqp_default (%d + %d) %d %d) %d' % (p1, p2, du, dv, ceil_half(p1 + p2 - du - dv + 1)),
        'Nat.eqb (fst (coo_shape (fst coo))) %d && Nat.eqb (snd (coo_shape (fst coo))) %d' % tuple(r['shape']),
        'pattern_eqb (coo_pattern (fst coo)) %s' % clist([clist(row, cb) for row in pattern_rows(r['pattern'], r['shape'])]),
        'mat_close bnd impl model',
        'mat_eqb model (gram_ref_mat kv1 %d kv2 %d %d %d (iterated ref grid))' % (p1, p2, du, dv),
    ]
    t += 'Definition checks := [%s].\n' % ';\n  '.join(checks)
    return t


def coq_file(bodies, genrel):
    """bodies: list of (case index, module body).  One Eval: failing checks as 100*case + check.
    genrel: the run's own directory of generated files (ctx.genrel, e.g. 'gen/r1234'): the tables
    imported are the ones regenerated and checked in THIS run."""
    t = HEADER % {'gen': genrel.replace('/', '.').replace(os.sep, '.')}
    t += 'Definition flat_bad (cs : list (nat * list bool)) : list nat :=\n'
    t += '  flat_map (fun kc => map (fun b => (100 * fst kc + b)%nat) (bad_cases 0 (snd kc))) cs.\n'
    for k, body in bodies:
        t += 'Module C%d.\n%sEnd C%d.\n' % (k, body, k)
    t += 'Eval vm_compute in flat_bad [%s].\n' % '; '.join('(%d%%nat, C%d.checks)' % (k, k) for k, _ in bodies)
    return t


CHECK_NAMES_1D = ['nqp-formula', 'mesh', 'span-indices', 'first-active', 'numspans-numdofs', 'shape', 'stored-pattern',
                  'matrix-entries', 'model-vs-gram-form', 'open-kv']
CHECK_NAMES_ASYM = ['nqp-formula', 'shape', 'stored-pattern', 'matrix-entries', 'model-vs-gram-form']


# ---------------------------------------------------------------------------

def replay_of(case):
    c = {k: v for k, v in case.items()}
    if 'kv' in c:
        c['kv_float'] = [float.fromhex(h) for h in c['kv']]
    for s in ('s1', 's2'):
        if s in c:
            c[s] = dict(c[s], kv_float=[float.fromhex(h) for h in c[s]['kv']])
    if 'spaces' in c:
        c['spaces'] = [dict(s, kv_float=[float.fromhex(h) for h in s['kv']]) for s in c['spaces']]
    c['how'] = {
        '1d': 'assemble.bsp_mixed_deriv_biform_1d(KnotVector(kv,p), du, dv, nqp=nqp, weightfunc=poly(wf)); mass/stiffness/load_vector/inner_products/integrate on the same kv',
        'asym': 'assemble.bsp_mixed_deriv_biform_1d_asym(KnotVector(s1), KnotVector(s2), du, dv, quadgrid=quadgrid, nqp=nqp)',
        'tp': 'assemble.mass/stiffness(kvs) vs (kvs, geo=identity) vs assemble("u * v * dx" / "inner(grad(u), grad(v)) * dx") vs vform.mass_vf/stiffness_vf; inner_products/integrate of prod f_k',
        'geo': 'assemble.mass/stiffness(kvs, geo), mass_fast/stiffness_fast(kvs, geo, tol=fast), integrate / inner_products with geo',
        'detinv': 'assemble_tools.determinants / det_and_inv / inverses on X.reshape(shape)',
        'fast': 'assemble.mass_fast/stiffness_fast(kvs, geo, tol=tol) vs assemble.mass/stiffness(kvs, geo); geo = unit_cube(dim) or '
                'BSplineFunc(d*(make_knots(1,0,1,1),), coeffs) (axis-aligned scaling)',
    }[case['kind']]
    return c


def run(ctx):
    ctx.obligations_stage(PROPS, extra_targets=['C09/Examples.vo'], gate_dirs=['C02'])
    ctx.assumptions += [
        'model: hand transcription of gauss_rule/make_iterated_quadrature, KnotVector.mesh/mesh_span_indices/first_active, '
        '_assemble_element_matrices, _create_coo_1d_*, bsp_mixed_deriv_biform_1d(_asym), the Kronecker branches of '
        'bsp_mass/stiffness_2d/3d and the 2x2/3x3 closed forms into Gallina over Qc (coq/C09/Model.v); B-spline kernels from coq/lib/Bsp.v',
        'Gauss-Legendre tables: exact rational values of numpy\'s doubles, dumped at run time (translate/leggauss.py), '
        'checked in Coq: positive weights, nodes in (-1,1), monomials up to degree 2q-1 with defect <= 2e-15 (q <= %d)' % QMAX,
        'theorems biform_1d_entry / biform_asym_entry: the assembled matrix of the model is the Gram matrix of the Cox-de Boor '
        'reference derivatives at the quadrature nodes (uses C02 active_derivs_eq_spec, dN_local); mass_sum_bspline, mass_sum_domain, '
        'stiff_kernel_bspline, biform_1d_symmetric/_psd discharge the partition-of-unity / derivative-sum hypotheses with C02; '
        'nqp_default_suffices/_exact + generated leggauss_default_exact: default node count vs. table exactness; '
        'nref_poly/dnref_poly (coq/C09/Poly.v, Proofs_exact.v): the reference functions are explicit polynomials of degree <= p-k on every '
        'open span, biform_1d_entry_exact_partial / biform_asym_entry_exact_partial: entries = sums of exactly integrated product '
        'polynomials up to eps * sum half-width * l1norm under the table hypothesis rule_ok',
        'float tie: |impl - exact model| <= R (rounding bound in the module docstring); structure (mesh, span indices, first-active, shape, stored pattern) exactly',
        'not covered by theorems: exactness of Gauss-Legendre quadrature beyond the bounded check of the tables + linearity, '
        'unisolvence (definiteness, dimension of the kernel: checked numerically and by exact rank on the oracle), '
        'the ACA-based C++ assembler fastasm.cc (tolerance test only), NURBS area (coarse 1% check)',
    ]
    # --- generated obligations (compiled while the implementation runs) ---------
    from concurrent.futures import ThreadPoolExecutor

    def ob_tables():
        try:
            return ctx.gen_obligation('C09_leggauss', tr.table_text(QMAX))
        except Exception as e:      # noqa
            return False, 'translator failed: %r' % e

    def ob_quadrature():
        try:
            return ctx.gen_obligation('C09_quadrature', tr.quadrature_text(REPO))
        except tr.TranslateError as e:
            ctx.obligations += 1
            return False, 'translator (fail-closed): %s' % e

    cases, dist = gen_cases(ctx)
    outdir = '/tmp/C09-arrays-%d' % os.getpid()
    t0 = time.time()
    try:
        with ThreadPoolExecutor(max_workers=3) as ex:
            f_tab = ex.submit(ob_tables)
            f_quad = ex.submit(ob_quadrature)
            f_impl = ex.submit(lambda: ctx.impl.run('harness/impl/c09_driver.py', {'out': outdir, 'cases': cases}, timeout=6000)['results'])
            results = f_impl.result()
            tables_ok, out = f_tab.result()
            if not tables_ok:
                ctx.broken.append('leggauss_exact_bounded: regenerated Gauss-Legendre tables do not satisfy the check: ' + out[-400:])
            okq, out = f_quad.result()
            if not okq:
                ctx.broken.append('quadrature.py: gauss_rule no longer translates to the model\'s gauss_cell: ' + out[-400:])
        log('[C09] %d cases: %s (driver + generated obligations %.0fs)' % (len(cases), dist['kind'], time.time() - t0))
        nfail = 0
        bodies = []          # (case index, module body, names)
        thorough = ctx.tier == 'thorough'
        for k, (c, r) in enumerate(zip(cases, results)):
            bad = []
            key = (c['kind'], repr(sorted((kk, repr(v)) for kk, v in c.items())))
            ctx.count(key, nontrivial=True)
            if r['status'] != 'Ok':
                bad.append(('raises-' + r['status'], '%s case raised %s: %s' % (c['kind'], r['status'], r.get('msg'))))
            else:
                try:
                    if c['kind'] == '1d':
                        ar = check_1d(c, r, bad)
                        if ar is not None and tables_ok and c['p'] <= (6 if thorough else 4):
                            bodies.append((k, coq_case_1d(c, r, ar[0], ar[1]), CHECK_NAMES_1D))
                    elif c['kind'] == 'asym':
                        ar = check_asym(c, r, bad)
                        if ar is not None and tables_ok and max(c['s1']['p'], c['s2']['p']) <= (4 if thorough else 3):
                            bodies.append((k, coq_case_asym(c, r, ar[0], ar[1]), CHECK_NAMES_ASYM))
                    elif c['kind'] == 'tp':
                        check_tp(c, r, bad)
                    elif c['kind'] == 'geo':
                        check_geo(c, r, bad)
                    elif c['kind'] == 'detinv':
                        check_detinv(c, r, bad)
                    elif c['kind'] == 'fast':
                        check_fast(c, r, bad)
                except Exception:      # noqa
                    import traceback
                    ctx.broken.append('harness error while checking case %d (%s): %s' % (k, c['kind'], traceback.format_exc()[-600:]))
            for (code, text) in bad[:2]:
                nfail += 1
                # the skip-stop class is one defect of fastasm.cc whatever the case family
                sig = 'impl:geo:' + code if code.endswith(':skip-stop') else 'impl:%s:%s' % (c['kind'], code)
                ctx.report(sig, text, replay_of(c))
        ctx.cov['traces_validated_against_impl'] = len(cases)
        ctx.cov['property_failures_on_impl'] = nfail

        # --- correspondence with the exact model ---------------------------------
        # at most 10 symmetric + 6 two-space cases (thorough: 100 + 60) go through the exact model
        # (every case is still checked against the exact oracle above)
        b1 = [b for b in bodies if cases[b[0]]['kind'] == '1d'][:100 if thorough else 10]
        b2 = [b for b in bodies if cases[b[0]]['kind'] == 'asym'][:60 if thorough else 6]
        bodies = b1 + b2
        # self-test: a case whose implementation value is perturbed by 4x its bound must be flagged
        selftest = None
        for k, (c, r) in enumerate(zip(cases, results)):
            if tables_ok and c['kind'] == '1d' and r['status'] == 'Ok' and c['p'] in (1, 2) and r['shape'] == [len(c['kv']) - c['p'] - 1] * 2:
                kv, p = kvF(c)
                _, R, _, _ = orc.exact_biform(kv, p, kv, p, c['du'], c['dv'], orc.mesh_of(kv), c['wf'], c['nqp'])
                A = np.load(r['A'])
                selftest = coq_file([(k, coq_case_1d(c, r, A, R, perturb=(0, 0, 4 * R[0][0] + F(1, 2 ** 40))))], ctx.genrel)
                selfexp = [100 * k + CHECK_NAMES_1D.index('matrix-entries')]
                break
        nfiles = 16 if thorough else 4
        groups = [bodies[i::nfiles] for i in range(nfiles)]
        groups = [g for g in groups if g]
        files = [('C09_cases_%03d' % n, coq_file([(k, body) for (k, body, _) in g], ctx.genrel)) for n, g in enumerate(groups)]
        names_of = {k: names for (k, _, names) in bodies}
        if selftest:
            files.append(('C09_selftest', selftest))
        log('[C09] oracle checks done (%.0fs); %d cases in %d Coq case files' % (time.time() - t0, len(bodies), len(files)))
        evals = ctx.coq_eval_many(files, timeout=2400)
        dis = 0
        for (name, ok, out) in evals:
            ctx.obligations += 1
            badidx = parse_coq_list_of_nat(out) if ok else None
            if name == 'C09_selftest':
                if badidx == selfexp:
                    ctx.discharged += 1
                else:
                    ctx.broken.append('self-test: perturbed case file was not flagged as expected (%s)' % (badidx if ok else out[-300:]))
                continue
            if badidx is None:
                ctx.broken.append('case file %s did not evaluate: %s' % (name, out[-500:]))
                continue
            ctx.discharged += 1
            bycase = {}
            for b in badidx:
                bycase.setdefault(b // 100, []).append(b % 100)
            for k, chk in bycase.items():
                dis += 1
                c = cases[k]
                what = ', '.join(names_of[k][b] for b in chk)
                ctx.broken.append('correspondence C09 model<->impl differs on case %d (%s): %s' % (k, c['kind'], what))
                ctx.report('tie:%s:%s' % (c['kind'], names_of[k][chk[0]]),
                           'implementation and exact model of the 1D assembler disagree on: ' + what, replay_of(c))
        ctx.cov['disagreements_checked'] = dis
        ctx.cov['coq_cases'] = len(bodies)
        log('[C09] Coq correspondence done (%.0fs)' % (time.time() - t0))
    finally:
        shutil.rmtree(outdir, ignore_errors=True)
    ctx.cov['rule'] = ('1d: open knot vectors (degree 0..6, 2..5 dyadic breakpoints, interior multiplicities 1..p) x (du,dv) <= p x '
                       'optional polynomial weight / over-integration; asym: two spaces of different degree and multiplicities on a common '
                       'mesh (equal meshes, nested meshes, refined quadrature grid); tp: dims 1..3 mixed degrees, 5 routes; geo: convex '
                       'quadrilaterals (both orientations), parallelepipeds, B-spline/NURBS quarter annulus, twisted box; fast: mass_fast/stiffness_fast vs '
                       'generic on unit cube / axis-aligned scalings for every permutation of degrees (1,2,3) in 3D, mixed degrees in 2D '
                       '(entries within 4 tol, stored pattern, sum = measure, K*1 = 0); one evaluation = one case')
    ctx.cov['input_distribution'] = dist
    ctx.cov['exhaustive'] = False
    ctx.cov.update(STATS)
    for k, (c, r) in enumerate(zip(cases, results)):
        if c['kind'] in ('1d', 'asym') and k % 9 == 0:
            ctx.sample({kk: v for kk, v in replay_of(c).items() if kk not in ('kv', 'how')})
    return ctx.finish()


def replay(ctx, data):
    """Re-run one recorded case (evidence/replay/C09-<n>.json) on the implementation and
    evaluate the property predicate on it."""
    c = dict(data['replay'])
    c.pop('how', None)
    c.pop('kv_float', None)
    outdir = '/tmp/C09-arrays-%d' % os.getpid()
    try:
        r = ctx.impl.run('harness/impl/c09_driver.py', {'out': outdir, 'cases': [c]}, timeout=3000)['results'][0]
        bad = []
        if r['status'] != 'Ok':
            bad.append(('raises-' + r['status'], '%s case raised %s: %s' % (c['kind'], r['status'], r.get('msg'))))
        else:
            {'1d': check_1d, 'asym': check_asym, 'tp': check_tp, 'geo': check_geo, 'detinv': check_detinv,
             'fast': check_fast}[c['kind']](c, r, bad)
        ctx.count(repr(c))
        for (code, text) in bad[:3]:
            ctx.report('impl:%s:%s' % (c['kind'], code), text, replay_of(c))
        log('[C09] replay: %s' % ('property violated: ' + '; '.join(b[1] for b in bad) if bad else 'property holds on this input'))
    finally:
        shutil.rmtree(outdir, ignore_errors=True)
    return ctx.finish()


META = {
    'technique': 'Rocq proofs of the Gram-matrix identities for an arbitrary quadrature rule (symmetry, sum of squares, sum = sum of weights, '
                 'kernel, Kronecker factorisation in 2D/3D, closed-form inverses) and of the first-active index arithmetic of the 1D assemblers; '
                 'exact Qc model of the 1D assemblers tied to the implementation (structure exactly, floats within a derived bound) with the '
                 'Gauss tables regenerated from numpy and checked in Coq; independent exact piecewise-polynomial oracle for every route',
    'level_text': 'Theorems (Coq, 38): for ANY quadrature rule given as weighted points: Gram matrices are symmetric and positive semidefinite (sum of squares), '
                  'mass entries sum to the sum of the weights = |domain| (iterated_weights_sum), K*1 = 0, Kronecker factorisation of the 2D/3D mass and stiffness '
                  'formulas, det/inv closed forms (field); for every kv_ok knot vector: biform_1d_entry / biform_asym_entry (the matrices assembled by the model of '
                  'bsp_mixed_deriv_biform_1d(_asym) are the Gram matrices of the Cox-de Boor derivatives, using C02), first_active_correct, mass_sum_bspline, '
                  'stiff_kernel_bspline, nqp_default_suffices/exact. Regenerated and re-proved on every run: numpy leggauss(q) tables for q <= 13 (positive weights, '
                  'moments to degree 2q-1 within 2e-15) and quadrature.gauss_rule (translated by ast, proved equal to the model). Tie: exact Qc model of the 1D assemblers '
                  'against the implementation (nqp, mesh, span indices, first-active, pattern exactly; entries within a derived bound); independent exact piecewise-'
                  'polynomial oracle for all five routes (Kronecker, generic, fast_nogeo, string, vform) in 1-3D incl. anisotropic spaces, weight functions, two-space '
                  'routine, load vectors / inner products / integrate with both values of f_physical on quadrilaterals and parallelepipeds of both orientations, '
                  'mass_fast/stiffness_fast entrywise (and stored pattern) against the generic assembler.',
    'level_note': 'proved: assembled 1D matrices (symmetric and two-space routine) = Gram matrices of the reference B-spline derivatives for every kv_ok '
                  'knot vector, hence sum = |domain|, K*1 = 0, symmetry, PSD for the model\'s output; default nqp is the least sufficient node count. '
                  'entries = exactly integrated span polynomials up to the table defect (rule_ok hypothesis). partial: Gauss exactness only as bounded table check + linearity; definiteness / kernel dimension '
                  'numerically and by exact rank; fastasm.cc tolerance test only',
}
