"""C02 -- B-spline basis evaluation is exact, local, non-negative and sums to one."""
import math
from fractions import Fraction

from harness.core import clist, log, parse_coq_list_of_nat

PROPS = 'C02/Props.v'
EPS = Fraction(1, 2 ** 52)


def fr(h):
    return Fraction(float.fromhex(h))


def falling(p, k):
    r = 1
    for i in range(k):
        r *= (p - i)
    return max(r, 0)


def deriv_bound(p, k, h):
    """|impl - exact| for an order-k derivative of a degree-p B-spline in a span of width h:
    every divisor of the NURBS-book recurrences is a knot difference containing the span,
    so the derivative is bounded by p!/(p-k)! (2/h)^k and is computed with <= 4(p+1)
    roundings per term; factor 8 (p+1) covers -ffast-math reassociation."""
    if k > p:
        return Fraction(0)
    return 8 * (p + 1) * (2 ** k) * EPS * falling(p, k) / (h ** k)


def gen_kv(rng, p, thorough):
    nb = rng.randint(2, 7)
    mode = rng.choice(['uniform', 'wild', 'mild'])
    b = [Fraction(rng.randint(-4, 4), 4)]
    for _ in range(nb - 1):
        if mode == 'uniform':
            e = -2
        elif mode == 'mild':
            e = rng.randint(-4, 2)
        else:
            e = rng.randint(-20, 20)
        b.append(b[-1] + Fraction(2) ** e)
    mults = [p + 1] + [rng.randint(1, max(p, 1)) for _ in range(nb - 2)] + [p + 1]
    kv = []
    for x, m in zip(b, mults):
        kv += [x] * m
    return kv, b, mults, mode


def gen_points(rng, b):
    pts = []
    kinds = []
    for i, x in enumerate(b):
        pts.append(float(x)); kinds.append('knot' if 0 < i < len(b) - 1 else 'end')
        if i + 1 < len(b):
            pts.append(float((x + b[i + 1]) / 2)); kinds.append('mid')
            pts.append(math.nextafter(float(x), math.inf)); kinds.append('after')
        if i > 0:
            pts.append(math.nextafter(float(x), -math.inf)); kinds.append('before')
    for _ in range(3):
        a, c = float(b[0]), float(b[-1])
        t = Fraction(rng.randint(1, 2 ** 20 - 1), 2 ** 20)
        pts.append(float(Fraction(a) + (Fraction(c) - Fraction(a)) * t)); kinds.append('random')
    return pts, kinds


def gen_cases(ctx):
    rng = ctx.rng
    thorough = ctx.tier == 'thorough'
    cases = []
    dist = {'p': {}, 'mode': {}, 'points': {}, 'mult_gt1': 0}
    nkv = 120 if thorough else 50
    pmax = 12 if thorough else 6
    for c in range(nkv):
        p = rng.randint(0, pmax) if c >= pmax + 1 else c      # every degree at least once
        if thorough and p > 8 and rng.random() < 0.5:
            p = rng.randint(0, 6)
        kv, b, mults, mode = gen_kv(rng, p, thorough)
        pts, kinds = gen_points(rng, b)
        nd = min(p + 2, rng.choice([p + 2, 2, 1]))
        n = len(kv) - p - 1
        case = {'p': p, 'nd': nd, 'kv': [float(x).hex() for x in kv], 'pts': [x.hex() for x in pts],
                'kinds': kinds, 'coeffs': [rng.randint(-8, 8) for _ in range(n)], 'mults': mults, 'mode': mode}
        if rng.random() < 0.5:
            p2 = rng.randint(1, 3)
            kv2, b2, _, _ = gen_kv(rng, p2, False)
            pts2, _ = gen_points(rng, b2)
            case['tp'] = {'p2': p2, 'kv2': [float(x).hex() for x in kv2], 'pts2': [x.hex() for x in pts2[:6]],
                          'coeffs': [rng.randint(-8, 8) for _ in range((len(kv2) - p2 - 1) * n)]}
        cases.append(case)
        dist['p'][p] = dist['p'].get(p, 0) + 1
        dist['mode'][mode] = dist['mode'].get(mode, 0) + 1
        for k in kinds:
            dist['points'][k] = dist['points'].get(k, 0) + 1
        if any(m > 1 for m in mults[1:-1]):
            dist['mult_gt1'] += 1
    return cases, dist


# ---------------------------------------------------------------------------

HEADER = '''From Coq Require Import QArith Qcanon ZArith List Bool.
From Verif.lib Require Import Bsp.
From Verif.C02 Require Import Model.
Import ListNotations.
Definition q (n : Z) (d : positive) : Qc := Q2Qc (n # d).
'''


def cqc(x):
    x = Fraction(x)
    return '(q (%d) %d)' % (x.numerator, x.denominator)


def coq_point(case, r, i):
    p, nd = case['p'], case['nd']
    kv = [fr(h) for h in case['kv']]
    u = fr(case['pts'][i])
    span = r['spans'][i]
    if not (0 <= span < len(kv) - 1) or kv[span + 1] - kv[span] <= 0:
        h = Fraction(1)
    else:
        h = kv[span + 1] - kv[span]
    ad = [fr(x) for x in r['ad'][i]]
    rows = [ad[k * (p + 1):(k + 1) * (p + 1)] for k in range(nd + 1)]
    bounds = [deriv_bound(p, k, h) for k in range(nd + 1)]
    sev = [fr(x) for x in r['sev'][i]]
    return '(%s, %d%%nat, %s, %s, %s)' % (
        cqc(u), span, clist([clist(row, cqc) for row in rows]), clist(bounds, cqc), clist(sev, cqc))


def coq_case(case, r, idxs):
    kv = [fr(h) for h in case['kv']]
    return 'check_points %s %d%%nat %d%%nat %s' % (
        clist(kv, cqc), case['p'], case['nd'], clist([coq_point(case, r, i) for i in idxs]))


def check_impl_directly(case, r):
    """Conjuncts of the property evaluated on the implementation's floats. Returns list of (code, text, point index)."""
    bad = []
    p, nd = case['p'], case['nd']
    kv = [fr(h) for h in case['kv']]
    n = len(kv) - p - 1
    if r['status'] != 'Ok':
        return [('raises-' + r['status'], 'evaluation raised %s: %s' % (r['status'], r.get('msg')), 0)]
    for flag in ('ad_scalar_same', 'active_ev_same', 'sev_scalar_same', 'info_same', 'dinfo_same'):
        if not r[flag]:
            bad.append((flag, 'scalar/array/route forms differ: %s is False' % flag, 0))
    if r['coll_shape'] != [len(case['pts']), n]:
        bad.append(('coll-shape', 'collocation matrix has shape %s, expected %s' % (r['coll_shape'], [len(case['pts']), n]), 0))
    if r['coll_nnz_per_row_max'] > p + 1:
        bad.append(('coll-nnz', 'collocation row with more than p+1 stored entries', 0))
    coeffs = [Fraction(c) for c in case['coeffs']]
    cmax = max([abs(c) for c in coeffs] + [1])
    for i, uh in enumerate(case['pts']):
        u = fr(uh)
        span = r['spans'][i]
        if r['spans_arr'][i] != span or r['first_active'][i] != span - p or r['info_ind'][i] != span - p:
            bad.append(('span-routes', 'findspan/pyx_findspans/first_active_at/collocation_info disagree at u=%s' % uh, i))
            continue
        # the unique non-empty span containing u (last one at the right end)
        ok = p <= span < len(kv) - p - 1 and kv[span] < kv[span + 1] and (
            kv[span] <= u < kv[span + 1] or (u == kv[-1] and kv[span + 1] == kv[-1]))
        if not ok:
            bad.append(('findspan', 'findspan(%s) = %d is not the non-empty span containing u' % (uh, span), i))
            continue
        h = kv[span + 1] - kv[span]
        ad = [fr(x) for x in r['ad'][i]]
        vals = ad[:p + 1]
        if any(v < 0 for v in vals):
            bad.append(('negative', 'negative basis value at u=%s' % uh, i))
        if abs(sum(vals) - 1) > 4 * (p + 1) * EPS:
            bad.append(('sum-one', 'active values sum to %s at u=%s' % (float(sum(vals)), uh), i))
        for k in range(1, nd + 1):
            row = ad[k * (p + 1):(k + 1) * (p + 1)]
            if k > p and any(v != 0 for v in row):
                bad.append(('high-deriv', 'derivative of order %d > p is non-zero at u=%s' % (k, uh), i))
            if abs(sum(row)) > (p + 1) * deriv_bound(p, k, h):
                bad.append(('deriv-sum', 'order-%d derivatives sum to %s at u=%s' % (k, float(sum(row)), uh), i))
        # collocation rows carry exactly these numbers at columns span-p..span, zero elsewhere
        crow = [fr(x) for x in r['coll'][i]]
        exp = [Fraction(0)] * n
        for j in range(p + 1):
            exp[span - p + j] = vals[j]
        if crow != exp:
            bad.append(('coll-row', 'collocation row differs from active values at u=%s' % uh, i))
        for k in range(nd + 1):
            drow = [fr(x) for x in r['colld'][k][i]]
            exp = [Fraction(0)] * n
            for j in range(p + 1):
                exp[span - p + j] = ad[k * (p + 1) + j]
            if drow != exp:
                bad.append(('colld-row', 'derivative collocation row (order %d) differs at u=%s' % (k, uh), i))
        # single-function route: zero outside the p+1 active ones, equal inside
        sev = [fr(x) for x in r['sev'][i]]
        for j in range(n):
            if span - p <= j <= span:
                if abs(sev[j] - vals[j - (span - p)]) > 16 * (p + 1) * EPS:
                    bad.append(('single-ev', 'single_ev(%d) differs from active value at u=%s' % (j, uh), i))
            elif sev[j] != 0:
                bad.append(('single-ev-support', 'single_ev(%d) non-zero outside the active range at u=%s' % (j, uh), i))
        # spline evaluation (scipy splev) against the basis values
        ev = fr(r['ev'][i])
        ref = sum(coeffs[span - p + j] * vals[j] for j in range(p + 1))
        if abs(ev - ref) > 64 * (p + 1) * EPS * cmax:
            bad.append(('ev', 'ev() differs from sum of coefficients times basis values at u=%s' % uh, i))
        for k in range(1, min(nd, p) + 1):
            dv = fr(r['deriv'][k - 1][i])
            ref = sum(coeffs[span - p + j] * ad[k * (p + 1) + j] for j in range(p + 1))
            if abs(dv - ref) > 8 * (p + 1) * cmax * deriv_bound(p, k, h) + 64 * EPS * abs(ref):
                bad.append(('deriv', 'deriv(order %d) differs from coefficients times basis derivatives at u=%s' % (k, uh), i))
    if 'tp_err' in r:
        tol = 64 * (p + 1) * (case['tp']['p2'] + 1) * float(EPS)
        if r['tp_err'] > tol or r['tp_point_err'] > tol:
            bad.append(('tp-eval', 'tensor-product grid/point evaluation differs from the 1D collocation product (rel %g)' % max(r['tp_err'], r['tp_point_err']), 0))
        if r.get('tp_err_second_grid', 0.0) > tol or r.get('tp_jac_err_second_grid', 0.0) > tol or not r.get('tp_first_grid_again_same', True):
            bad.append(('tp-eval-second-grid', 'the same BSplineFunc object evaluated on a second grid (same size and end nodes, '
                        'different interior nodes) differs from the 1D collocation product for that grid (rel %g / jac %g), or '
                        're-evaluation on the first grid changed' % (r.get('tp_err_second_grid', 0.0), r.get('tp_jac_err_second_grid', 0.0)), 0))
        if r['tp_jac_err'] > tol:
            bad.append(('tp-jac', 'tensor-product grid_jacobian differs from the 1D derivative collocation product (rel %g)' % r['tp_jac_err'], 0))
    return bad


# ---------------------------------------------------------------------------
# Extracted run of the exact model (DESIGN 1.5): coq/C02/Extract.v -> coq/extract/c02_model.ml,
# driver coq/extract/c02_driver.ml, binary coq/extract/c02_run built by coq/extract/build.sh
# (setup.sh, or on demand here).  The binary evaluates ExtractDefs.ex_point per input line.

import os
import re
import subprocess
from concurrent.futures import ThreadPoolExecutor

from harness import core as _core

XDIR = os.path.join(_core.COQ, 'extract')
XBIN = os.path.join(XDIR, 'c02_run')
XPROCS = 8
ALLOWED_EXTRACTION_DIRECTIVES = (
    'From Coq Require Import ExtrOcamlBasic.',
    'Extraction Language OCaml.',
    'Extraction "extract/c02_model.ml" ex_point open_kv Q2Qc.',
)


def extraction_directives():
    """Every extraction-related vernacular of coq/C02/Extract.v (comments stripped)."""
    txt = _core.strip_coq_comments(open(os.path.join(_core.COQ, 'C02', 'Extract.v')).read())
    sent = [re.sub(r'\s+', ' ', x).strip() + '.' for x in re.split(r'\.(?:\s|$)', txt) if x.strip()]
    return [x for x in sent if re.match(r'(Recursive |Separate )?Extract(ion)?\b', x) or re.search(r'\bExtr[A-Z]\w*', x)]


def ensure_extracted(ctx):
    """Directives gate + binary (built on demand).  Returns True iff the binary is usable."""
    dirs = extraction_directives()
    extra = [d for d in dirs if d not in ALLOWED_EXTRACTION_DIRECTIVES]
    ctx.obligations += 1
    if extra or len(dirs) != len(ALLOWED_EXTRACTION_DIRECTIVES):
        ctx.broken.append('coq/C02/Extract.v uses extraction directives other than the declared ones: %s' % (extra or dirs))
        return False
    ctx.discharged += 1
    ctx.trusted.append('extraction (coq/C02/Extract.v), the only directives: ' + ' | '.join(dirs) +
                       ' -- nat/positive/Z/Q/Qc stay extracted inductive types (no Extract Constant/Inductive of ours); '
                       'trusted: Coq extraction, ocamlopt, the 60-line conversion driver coq/extract/c02_driver.ml; '
                       'tested on every run by re-evaluating a sample of its output with vm_compute (ExtractDefs.xcheck, theorem xcheck_sound)')
    stale = (not os.access(XBIN, os.X_OK)) or any(
        os.path.exists(f) and os.path.getmtime(f) > os.path.getmtime(XBIN)
        for f in (os.path.join(_core.COQ, 'C02', 'Extract.v'), os.path.join(_core.COQ, 'C02', 'ExtractDefs.v'),
                  os.path.join(_core.COQ, 'lib', 'Bsp.v'), os.path.join(XDIR, 'c02_driver.ml')))
    if stale:
        with _core.flock('c02extract'):
            with _core.flock('coqbuild'):
                rc, out = _core.sh(['bash', os.path.join(XDIR, 'build.sh')], timeout=3000)
        log('[extract] build.sh rc=%s %s' % (rc, out[-300:].strip()))
        ctx.checker_cmds.append('bash coq/extract/build.sh')
    if not os.access(XBIN, os.X_OK):
        ctx.broken.append('extracted model binary coq/extract/c02_run could not be built')
        return False
    return True


def qb(x):
    x = Fraction(x)
    n = x.numerator
    return ('-' if n < 0 else '') + bin(abs(n))[2:] + '/' + bin(x.denominator)[2:]


def pq(s):
    a, b = s.split('/')
    return Fraction(int(a, 2), int(b, 2))


def xline(case, i):
    kv = [fr(h) for h in case['kv']]
    return '%d %d %d %s %d %s %s' % (case['p'], case['nd'], len(kv), ' '.join(qb(x) for x in kv), len(case['coeffs']),
                                     ' '.join(qb(c) for c in case['coeffs']), qb(fr(case['pts'][i])))


def parse_xline(s):
    f = s.rstrip('\n').split('|')
    if len(f) != 5:
        return None
    rows = [[pq(t) for t in r.split()] for r in f[2].split(';')]
    return {'open': f[0] == '1', 'span': int(f[1]), 'ad': rows, 'sev': [pq(t) for t in f[3].split()],
            'evs': [pq(t) for t in f[4].split()]}


def run_extracted(lines, timeout):
    """Feed the lines to XPROCS instances of the extracted program; returns parsed results in order (None = no answer)."""
    chunks = [lines[j::XPROCS] for j in range(XPROCS)]

    def one(ch):
        if not ch:
            return []
        try:
            pr = subprocess.run([XBIN], input='\n'.join(ch) + '\n', stdout=subprocess.PIPE, stderr=subprocess.PIPE,
                                text=True, timeout=timeout)
            out = pr.stdout.split('\n')
        except subprocess.TimeoutExpired as e:
            o = e.stdout or ''
            out = (o.decode() if isinstance(o, bytes) else o).split('\n')[:-1]     # drop a cut-off last line
        res = [parse_xline(x) if x else None for x in out[:len(ch)]]
        return res + [None] * (len(ch) - len(res))
    with ThreadPoolExecutor(max_workers=XPROCS) as ex:
        parts = list(ex.map(one, chunks))
    res = [None] * len(lines)
    for j, part in enumerate(parts):
        res[j::XPROCS] = part
    return res


def gen_extra_cases(ctx):
    """The volume stream of the extracted run: more knot vectors, and per knot vector the structured points
    plus full-mantissa random points and points a few ulps away from knots (too expensive for vm_compute)."""
    rng = ctx.rng
    thorough = ctx.tier == 'thorough'
    nkv = 120 if thorough else 60
    pmax = 12 if thorough else 8
    nrand = 20
    cases = []
    dist = {'p': {}, 'points': {}}
    for c in range(nkv):
        p = c % (pmax + 1) if c < 2 * (pmax + 1) else rng.randint(0, pmax)
        kv, b, mults, mode = gen_kv(rng, p, thorough)
        pts, kinds = gen_points(rng, b)
        a, z = float(b[0]), float(b[-1])
        for _ in range(nrand if p <= 8 else 6):
            if rng.random() < 0.6:
                j = rng.randrange(len(b) - 1)
                lo, hi = float(b[j]), float(b[j + 1])
                x = lo + (hi - lo) * rng.random()
                x = min(max(x, lo), hi)
                kd = 'random53'
            else:
                x = float(rng.choice(b))
                for _ in range(rng.randint(2, 4)):
                    x = math.nextafter(x, rng.choice([-math.inf, math.inf]))
                x = min(max(x, a), z)
                kd = 'ulps'
            pts.append(x); kinds.append(kd)
        nd = min(p + 2, rng.choice([p + 2, p + 2, 2, 1]))
        n = len(kv) - p - 1
        cases.append({'p': p, 'nd': nd, 'kv': [float(x).hex() for x in kv], 'pts': [x.hex() for x in pts],
                      'kinds': kinds, 'coeffs': [rng.randint(-8, 8) for _ in range(n)], 'mults': mults, 'mode': mode})
        dist['p'][p] = dist['p'].get(p, 0) + 1
        for k in kinds:
            dist['points'][k] = dist['points'].get(k, 0) + 1
    return cases, dist


def compare_extracted(case, r, i, m):
    """Implementation floats at point i against the extracted exact result m.  Returns (code, text) or None.
    Same bounds as Model.check_point for active_deriv/single_ev; additionally ev/deriv (scipy FITPACK splev for
    degree <= 5, collocation_derivs @ coeffs above) against the model's spline_ev:
      |ev - exact|      <= 64 (p+1) eps cmax + (p+1) cmax bound_0
      |deriv_k - exact| <= 8 (p+1) cmax bound_k + 64 eps |exact| + (p+1) cmax bound_k
    (the bounds check_impl_directly uses between the implementation's own routes, plus the bound of the basis
    values themselves, so this comparison cannot fail where those two hold)."""
    p, nd = case['p'], case['nd']
    kv = [fr(h) for h in case['kv']]
    n = len(kv) - p - 1
    uh = case['pts'][i]
    if not m['open']:
        return ('x-open-kv', 'extracted open_kv rejects a generated knot vector')
    span = m['span']
    if r['spans'][i] != span:
        return ('x-span', 'findspan(%s) = %d, exact model: %d' % (uh, r['spans'][i], span))
    if len(m['ad']) != nd + 1 or any(len(row) != p + 1 for row in m['ad']) or len(m['sev']) != n or len(m['evs']) != nd + 1:
        return ('x-shape', 'extracted result has the wrong shape')
    h = kv[span + 1] - kv[span]
    bounds = [deriv_bound(p, k, h) for k in range(nd + 1)]
    ad = [fr(x) for x in r['ad'][i]]
    if sum(m['ad'][0]) != 1 or any(sum(m['ad'][k]) != 0 for k in range(1, nd + 1)) or any(v < 0 for v in m['ad'][0]):
        return ('x-model-sums', 'exact model: values do not sum to one / derivatives not to zero / negative value at u=%s' % uh)
    for k in range(nd + 1):
        for j in range(p + 1):
            if abs(ad[k * (p + 1) + j] - m['ad'][k][j]) > bounds[k]:
                return ('x-active-deriv', 'active_deriv order %d, function %d at u=%s: impl %r, exact %r' % (
                    k, j, uh, float(ad[k * (p + 1) + j]), float(m['ad'][k][j])))
    sev = [fr(x) for x in r['sev'][i]]
    for j in range(n):
        inside = span - p <= j <= span
        if (inside and m['sev'][j] != m['ad'][0][j - (span - p)]) or (not inside and m['sev'][j] != 0):
            return ('x-model-routes', 'exact model: single_ev(%d) differs from the all-active route at u=%s' % (j, uh))
        if abs(sev[j] - m['sev'][j]) > 2 * bounds[0]:
            return ('x-single-ev', 'single_ev(%d) at u=%s: impl %r, exact %r' % (j, uh, float(sev[j]), float(m['sev'][j])))
    cmax = max([abs(c) for c in case['coeffs']] + [1])
    ev = fr(r['ev'][i])
    if abs(ev - m['evs'][0]) > 64 * (p + 1) * EPS * cmax + (p + 1) * cmax * bounds[0]:
        return ('x-ev', 'ev() at u=%s: impl %r, exact %r' % (uh, float(ev), float(m['evs'][0])))
    for k in range(1, min(nd, p) + 1):
        dv = fr(r['deriv'][k - 1][i])
        if abs(dv - m['evs'][k]) > 9 * (p + 1) * cmax * bounds[k] + 64 * EPS * abs(m['evs'][k]):
            return ('x-deriv', 'deriv(order %d) at u=%s: impl %r, exact %r' % (k, uh, float(dv), float(m['evs'][k])))
    return None


XHEADER = HEADER.replace('From Verif.C02 Require Import Model.', 'From Verif.C02 Require Import Model ExtractDefs.')


def xcheck_term(case, i, m):
    kv = [fr(h) for h in case['kv']]
    return 'xcheck %s %d%%nat %d%%nat %s %s %d%%nat %s %s %s' % (
        clist(kv, cqc), case['p'], case['nd'], clist([Fraction(c) for c in case['coeffs']], cqc), cqc(fr(case['pts'][i])),
        m['span'], clist([clist(row, cqc) for row in m['ad']]), clist(m['sev'], cqc), clist(m['evs'], cqc))


def extracted_stage(ctx, cases, results):
    """Volume comparison through the extracted program + cross-check of a sample against vm_compute."""
    import time
    t0 = time.time()
    if not ensure_extracted(ctx):
        return
    xcases, xdist = gen_extra_cases(ctx)
    xres = []
    B = 40
    from harness.core import DriverError
    for i in range(0, len(xcases), B):
        try:
            xres += ctx.impl.run('harness/impl/c02_driver.py', {'cases': xcases[i:i + B]})['results']
        except DriverError:
            for c in xcases[i:i + B]:
                try:
                    xres += ctx.impl.run('harness/impl/c02_driver.py', {'cases': [c]})['results']
                except DriverError as e:
                    xres.append({'status': 'InterpreterDeath', 'msg': str(e)[:200]})
    t1 = time.time()
    nfail = 0
    for c, r in zip(xcases, xres):
        for (code, text, i) in check_impl_directly(c, r)[:2]:
            nfail += 1
            kind = c['kinds'][i] if i < len(c['kinds']) else '-'
            ctx.report('impl:%s:%s' % (code, kind), text,
                       {'p': c['p'], 'kv': [float.fromhex(h) for h in c['kv']], 'kv_hex': c['kv'], 'u_hex': c['pts'][i],
                        'u': float.fromhex(c['pts'][i]), 'nd': c['nd'], 'stream': 'extracted-volume',
                        'how': 'bspline.KnotVector(np.array(kv), p); active_deriv/single_ev/collocation(_derivs)/ev/deriv at u'})
    ctx.cov['property_failures_on_impl'] = ctx.cov.get('property_failures_on_impl', 0) + nfail
    # every point of the volume stream, and every point of the main stream (the quick tier hands only 16 per
    # knot vector to vm_compute, degree > 8 only the short dyadic ones)
    work = []
    for src, (cs, rs) in enumerate(((xcases, xres), (cases, results))):
        for ci, (c, r) in enumerate(zip(cs, rs)):
            if r['status'] != 'Ok':
                continue
            for i in range(len(c['pts'])):
                if c['p'] > 8 and c['kinds'][i] in ('after', 'before', 'random53', 'ulps') and i % 3:
                    continue            # 53-bit points of degree > 8: every third (cost of the exact rationals)
                work.append((src, ci, i))
    work.sort(key=lambda w: -((xcases, cases)[w[0]][w[1]]['p']))      # expensive first: even load over the processes
    lines = [xline((xcases, cases)[s][ci], i) for (s, ci, i) in work]
    out = run_extracted(lines, timeout=6000 if ctx.tier == 'thorough' else 1500)
    t2 = time.time()
    ncmp = 0
    nmissing = 0
    bad = []
    for (s, ci, i), m in zip(work, out):
        c, r = ((xcases, xres), (cases, results))[s][0][ci], ((xcases, xres), (cases, results))[s][1][ci]
        if m is None:
            nmissing += 1
            continue
        ncmp += 1
        ctx.count(('x', c['kv'], c['p'], c['pts'][i], c['nd']), nontrivial=True)
        d = compare_extracted(c, r, i, m)
        if d:
            bad.append((c, r, i, d))
    ctx.obligations += 1
    if nmissing:
        ctx.broken.append('extracted run: %d of %d cases gave no answer (crash or timeout of coq/extract/c02_run)' % (nmissing, len(work)))
    else:
        ctx.discharged += 1
    for (c, r, i, (code, text)) in bad[:3]:
        ctx.broken.append('correspondence C02 extracted model<->impl: %s' % text)
        ctx.report('tie:%s:p%d:%s' % (code, c['p'], c['kinds'][i]),
                   'implementation differs from the exact model (extracted run) beyond the rounding bound: ' + text,
                   {'p': c['p'], 'kv': [float.fromhex(h) for h in c['kv']], 'kv_hex': c['kv'], 'u': float.fromhex(c['pts'][i]),
                    'u_hex': c['pts'][i], 'nd': c['nd'], 'coeffs': c['coeffs'],
                    'how': 'compare bspline.active_deriv / single_ev / findspan / ev / deriv with the Cox-de Boor recursion in exact arithmetic'})
    # cross-check of the extraction itself: a sample of the extracted output re-evaluated by vm_compute
    ok_items = [(w, m) for w, m in zip(work, out) if m is not None]
    cheap = [(w, m) for (w, m) in ok_items if (xcases, cases)[w[0]][w[1]]['p'] <= 6]
    nsample = 24 if ctx.tier == 'thorough' else 12
    sample = []
    wanted = ['knot', 'end', 'mid', 'after', 'before', 'random', 'random53', 'ulps']
    pool = list(cheap)
    ctx.rng.shuffle(pool)
    for kd in wanted * 3:
        for it in pool:
            (s, ci, i) = it[0]
            if (xcases, cases)[s][ci]['kinds'][i] == kd and it not in sample:
                sample.append(it)
                break
        if len(sample) >= nsample:
            break
    texts = []
    for g in range(0, len(sample), 4):
        terms = [xcheck_term((xcases, cases)[s][ci], i, m) for ((s, ci, i), m) in sample[g:g + 4]]
        texts.append(('C02_xcheck_%02d' % (g // 4), XHEADER + 'Definition results := [\n' + ';\n'.join(terms) +
                      '].\nEval vm_compute in bad_cases 0 results.\n'))
    nx = 0
    for (name, ok, o) in ctx.coq_eval_many(texts, timeout=1500):
        ctx.obligations += 1
        badidx = parse_coq_list_of_nat(o) if ok else None
        if badidx is None:
            ctx.broken.append('cross-check file %s did not evaluate: %s' % (name, o[-500:]))
        elif badidx:
            ctx.broken.append('extracted program and vm_compute disagree on the exact model (%s, items %s): extraction is not trustworthy' % (name, badidx))
        else:
            ctx.discharged += 1
            nx += 4
    if sample:
        # self-test: a perturbed extracted value / span must be flagged by xcheck
        ((s, ci, i), m) = sample[0]
        m1 = dict(m); m1['sev'] = list(m['sev']); m1['sev'][0] = m['sev'][0] + Fraction(1, 10 ** 12)
        m2 = dict(m); m2['span'] = m['span'] + 1
        c = (xcases, cases)[s][ci]
        ctx.selftest('C02_xcheck_selftest', XHEADER + 'Definition results := [\n' + xcheck_term(c, i, m) + ';\n' +
                     xcheck_term(c, i, m1) + ';\n' + xcheck_term(c, i, m2) + '].\nEval vm_compute in bad_cases 0 results.\n')
        # self-test of the Python comparison: an implementation value shifted by 1e-9 must be flagged
        r = ((xcases, xres), (cases, results))[s][1][ci]
        r1 = dict(r); adp = [list(a) for a in r['ad']]
        adp[i][0] = (float.fromhex(adp[i][0]) + 1e-9 * max(1.0, abs(float.fromhex(adp[i][0])))).hex()
        r1['ad'] = adp
        ctx.obligations += 1
        if compare_extracted(c, r1, i, m) is None:
            ctx.broken.append('harness self-test: perturbed implementation value not flagged by the extracted comparison')
        else:
            ctx.discharged += 1
    nfit = sum(1 for (s, ci, i), m in zip(work, out) if m is not None and (xcases, cases)[s][ci]['p'] <= 5)
    ctx.cov['extracted_run'] = {
        'points_compared': ncmp, 'of_which_volume_stream': sum(1 for w, m in zip(work, out) if m is not None and w[0] == 0),
        'points_through_fitpack_route_p_le_5': nfit, 'knot_vectors_volume_stream': len(xcases),
        'cross_checked_against_vm_compute': len(sample), 'disagreements': len(bad), 'no_answer': nmissing,
        'input_distribution_volume_stream': xdist,
        'seconds': {'impl': round(t1 - t0, 1), 'extracted': round(t2 - t1, 1), 'total': round(time.time() - t0, 1)},
        'directives': extraction_directives(),
    }
    log('[extract] %d points compared through the extracted model (%d knot vectors extra), %d cross-checked by vm_compute, '
        'impl %.1fs extracted %.1fs total %.1fs' % (ncmp, len(xcases), len(sample), t1 - t0, t2 - t1, time.time() - t0))


def run(ctx):
    ctx.obligations_stage(PROPS, extra_targets=['C02/Examples.vo', 'C02/Model.vo'])
    ctx.obligations_stage('C02/Props3.v', extra_targets=['C02/Examples3.vo', 'C02/ExtractDefs.vo', 'C02/Extract.vo'])
    ctx.assumptions += [
        'model: hand transcription of pyx_findspan, bspline_active_deriv_single, _bspline_single_ev_single, collocation index arithmetic into Gallina over Qc (coq/lib/Bsp.v)',
        'float tie: |impl - exact model| <= 8(p+1) 2^k eps p!/(p-k)!/h^k (h = width of the span containing u); spans and column indices exactly',
        'not covered: IEEE rounding and -O3 -ffast-math code generation inside the kernels beyond that bound; scipy splev internals',
    ]
    cases, dist = gen_cases(ctx)
    results = []
    B = 40
    from harness.core import DriverError
    for i in range(0, len(cases), B):
        try:
            results += ctx.impl.run('harness/impl/c02_driver.py', {'cases': cases[i:i + B]})['results']
        except DriverError:
            # the interpreter died (the kernels run without bounds checks; FITPACK): isolate the case
            for c in cases[i:i + B]:
                try:
                    results += ctx.impl.run('harness/impl/c02_driver.py', {'cases': [c]})['results']
                except DriverError as e:
                    results.append({'status': 'InterpreterDeath', 'msg': str(e)[:200]})
    npts = 0
    nfail = 0
    for ci, (c, r) in enumerate(zip(cases, results)):
        bad = check_impl_directly(c, r)
        for i, k in enumerate(c['kinds']):
            ctx.count((c['kv'], c['p'], c['pts'][i], c['nd']), nontrivial=True)
            npts += 1
        for (code, text, i) in bad[:2]:
            nfail += 1
            kind = c['kinds'][i] if i < len(c['kinds']) else '-'
            ctx.report('impl:%s:%s' % (code, kind), text,
                       {'p': c['p'], 'kv': [float.fromhex(h) for h in c['kv']], 'kv_hex': c['kv'], 'u_hex': c['pts'][i],
                        'u': float.fromhex(c['pts'][i]), 'nd': c['nd'],
                        'how': 'bspline.KnotVector(np.array(kv), p); active_deriv/single_ev/collocation(_derivs)/ev/deriv at u'})
    ctx.cov['traces_validated_against_impl'] = npts
    ctx.cov['property_failures_on_impl'] = nfail
    # correspondence with the exact model (and model vs Cox-de Boor reference, exactly)
    files = []
    index = []
    PER = 10 if ctx.tier == 'thorough' else 14
    cur, curidx = [], []
    budget = 0
    for ci, (c, r) in enumerate(zip(cases, results)):
        if r['status'] != 'Ok':
            continue
        pts = list(range(len(c['pts'])))
        if c['p'] > 8:
            # exact rationals of degree > 8 are expensive, prohibitively so at the 53-bit neighbours of
            # knots: the exact comparison uses up to 8 of the short dyadic points (knots, ends, midpoints,
            # random); the adjacent-float points are still checked on the implementation
            # (check_impl_directly: span, sum to one, locality, routes agree)
            short = [i for i in pts if c['kinds'][i] not in ('after', 'before')]
            step = max(1.0, len(short) / 8.0)
            pts = sorted({short[min(len(short) - 1, int(i * step))] for i in range(8)})
        elif ctx.tier != 'thorough' and len(pts) > 16:
            # quick tier: 16 points per knot vector for the exact comparison, every kind represented
            # (all points are still checked on the implementation by check_impl_directly)
            step = len(pts) / 16.0
            pts = sorted({int(i * step) for i in range(16)})
        files.append([coq_case(c, r, pts)])
        index.append([ci])
    texts = []
    for n, cs in enumerate(files):
        body = HEADER + 'Definition results := [\n' + ';\n'.join(cs) + '].\n'
        body += 'Eval vm_compute in bad_cases 0 results.\n'
        texts.append(('C02_cases_%03d' % n, body))
    dis = []
    for (name, ok, out), idx in zip(ctx.coq_eval_many(texts, timeout=1500), index):
        ctx.obligations += 1
        badidx = parse_coq_list_of_nat(out) if ok else None
        if badidx is None:
            ctx.broken.append('case file %s did not evaluate: %s' % (name, out[-500:]))
            continue
        ctx.discharged += 1
        dis += [idx[b] for b in badidx]
    ctx.cov['disagreements_checked'] = len(dis)
    # harness self-test: shift one implementation value by 1e-9 -> the comparison must flag it
    for c0, r0 in zip(cases, results):
        if r0['status'] == 'Ok' and c0['p'] == 2:
            r1 = dict(r0)
            ad = [list(a) for a in r0['ad']]
            ad[0][0] = (float.fromhex(ad[0][0]) + 1e-9).hex()
            r1['ad'] = ad
            ctx.selftest('C02_selftest', HEADER + 'Definition results := [\n' + coq_case(c0, r0, [0, 1]) + ';\n'
                         + coq_case(c0, r1, [0, 1]) + '].\nEval vm_compute in bad_cases 0 results.\n')
            break
    for ci in dis[:3]:
        c, r = cases[ci], results[ci]
        ctx.broken.append('correspondence C02 model<->impl differs for knot vector #%d' % ci)
        ctx.report('tie:exact-model:p%d' % c['p'],
                   'implementation differs from the exact Cox-de Boor values beyond the rounding bound (or span index differs)',
                   {'p': c['p'], 'kv': [float.fromhex(h) for h in c['kv']], 'pts': [float.fromhex(h) for h in c['pts']],
                    'nd': c['nd'], 'impl_spans': r['spans'],
                    'how': 'compare bspline.active_deriv / single_ev / findspan with the Cox-de Boor recursion in exact arithmetic'})
    if ctx.tier == 'thorough':
        # measured: ~0.5-2 cpu-s per point for the extracted inductive Z/Q arithmetic (53-bit points, degree 5..8):
        # does not fit the quick tier's budget; the quick tier checks the theorems about its entry points only
        extracted_stage(ctx, cases, results)
    else:
        ctx.cov['extracted_run'] = 'thorough tier only (cost of exact rationals over extracted inductive Z/positive)'
    ctx.cov['rule'] = ('open knot vectors (degree 0..6 quick / 0..12 thorough, 2..7 breakpoints on a dyadic grid with span ratios up to 2^40, '
                       'interior multiplicities 1..p) x points (every knot, both ends, span midpoints, adjacent floats of knots, random); '
                       'one evaluation = one (knot vector, point); all routes per point')
    ctx.cov['input_distribution'] = dist
    ctx.sample({'p': cases[3]['p'], 'kv': [float.fromhex(h) for h in cases[3]['kv']], 'pts': [float.fromhex(h) for h in cases[3]['pts']][:6],
                'impl_spans': results[3].get('spans', [])[:6]})
    return ctx.finish()


META = {
    'technique': 'Rocq proofs (induction on the degree, loop invariants of the NURBS-book tables) that the transcribed kernels equal the Cox-de Boor reference over exact rationals, for every degree/knot vector/point/order + correspondence of the compiled kernels with the exact model within a derived rounding bound',
    'level_text': 'Theorems (Coq, unbounded: every degree, every open knot vector, every point of the domain incl. knots and both ends, every derivative order): findspan_spec/findspan_unique (span lookup returns the unique non-empty span, the last one at the right end), N_nonneg, N_local, N_partition_of_unity(_all), dN_sum_zero(_all), dN_high_zero for the Cox-de Boor reference; active_values_eq_spec and active_derivs_eq_spec (the transcription of bspline_active_deriv_single returns exactly the reference values and derivatives of every order, all divisors positive: ndu_divisors_pos), single_ev_eq_spec, colloc_row_spec/_values/_derivs (collocation rows carry exactly the p+1 active values at columns first_active..first_active+p), routes_agree; on top of the rows: spline_ev_spec/_local/_const, spline_deriv_const (ev/deriv = sum of coefficients times reference (derivative) values, only p+1 coefficients enter, constants reproduced) and tp_eval_spec/tp_eval_2d/tp_eval_const/tp_nonneg (collocation rows applied axis by axis give the defining nested sum of the tensor-product spline and of every mixed derivative, any number of axes; partition of unity; non-negativity). The exact model (coq/lib/Bsp.v, over Qc) is tied to /repo on every run: spans and column indices exactly, every float of active_deriv / single_ev / collocation(_derivs) / ev / deriv within 8(p+1) 2^k eps p!/(p-k)!/h^k of the exact value at ~900 (thorough ~2000) points (every knot, both ends, midpoints, adjacent floats of knots, random; degrees 0..6 quick / 0..12 thorough; span ratios up to 2^40); scalar/array forms and all routes compared bitwise with each other; tensor-product grid/point evaluation and Jacobians against the 1D collocation product, also for a second grid on the same object; non-negativity, sum to one, locality checked directly on the floats.',
    'level_note': 'Trusted: Coq kernel + vm_compute; hand transcription of pyx_findspan, bspline_active_deriv_single, _bspline_single_ev_single and the collocation index arithmetic into Gallina (validated by the tie on every run); harness generators and the float bound. Partial in this sense only: IEEE rounding and -O3 -ffast-math code generation inside the compiled kernels are bounded by the tie, not proved; scipy splev (used for degree <= 5) is exercised, not modelled.',
}
