(* C05 -- the hierarchical theorems on REACHABLE HSpace states: the hypothesis "the children of a
   deactivated function lie among the active/deactivated functions of the next level" of index_hyp
   is discharged by C04's children_closed (coq/C04/Props.v) for every history of valid refine calls.

   Link between the two models: rav k maps the multi-indices of level k to the raveled indices the
   matrices use; `pattern` says that the non-zero entries of a prolongator column of a deactivated
   function lie inside the children pattern of the C04 model (function_children, which C04's check
   ties exactly to the sparsity pattern of the implementation's prolongation matrices on every run). *)
From Coq Require Import QArith Qcanon List Arith Lia.
From Verif.lib Require Import FinSet Bsp.
Require Verif.C04.Model Verif.C04.Proofs Verif.C04.ProofsMesh Verif.C04.Children Verif.C04.Props.
From Verif.C05 Require Import Model Proofs Hier.
Import ListNotations.
Open Scope Qc_scope.

Module M4 := Verif.C04.Model.
Module P4 := Verif.C04.Proofs.
Module C4 := Verif.C04.Children.

Section Reachable.
  Variables (axes : list M4.axis) (disp : option nat) (ops : list M4.op).
  Hypothesis Haxes : Forall Verif.C04.ProofsMesh.axis_ok axes.
  Hypothesis Hdisp : forall d, disp = Some d -> (1 <= d)%nat.
  Hypothesis Hops : P4.ops_valid (M4.hs_init axes disp) ops.
  Let st := M4.run (M4.hs_init axes disp) ops.

  Variable rav : nat -> mi -> nat.
  Definition act_of (k : nat) : list nat := map (rav k) (P4.AF st k).
  Definition deact_of (k : nat) : list nat := map (rav k) (P4.DF st k).

  Variables (n : nat -> nat) (P : nat -> nat -> nat -> Qc).
  Hypothesis pattern : forall k f j, In f (P4.DF st k) -> (j < n (S k))%nat -> P k j (rav k f) <> 0 ->
    exists g, In g (C4.function_children st k [f]) /\ j = rav (S k) g.

  Lemma children_closed_reachable_l : forall k i j,
    In i (deact_of k) -> (j < n (S k))%nat -> P k j i <> 0 -> In j (act_of (S k) ++ deact_of (S k)).
  Proof.
    intros k i j Hi Hj Hnz. unfold deact_of in Hi. apply in_map_iff in Hi. destruct Hi as [f [<- Hf]].
    destruct (pattern k f j Hf Hj Hnz) as [g [Hg ->]].
    pose proof (Verif.C04.Props.children_closed axes disp ops Haxes Hdisp Hops k f g Hf Hg) as H.
    apply in_app_iff. unfold act_of, deact_of. destruct H as [H|H]; [left|right]; apply in_map; exact H.
  Qed.

  (* index_hyp with its third part discharged; the first two (no duplicates, range) are statements
     about the raveling of the active/deactivated sets *)
  Lemma index_hyp_reachable_l :
    (forall k, NoDup (act_of k ++ deact_of k)) ->
    (forall k j, In j (act_of k ++ deact_of k) -> (j < n k)%nat) ->
    index_hyp n P act_of deact_of.
  Proof. intros H1 H2. repeat split; auto. apply children_closed_reachable_l. Qed.

  Lemma vh_hb_reachable_l (X : Type) (B : nat -> nat -> X -> Qc) Lmax :
    two_scale_hyp n B P Lmax ->
    (forall k, NoDup (act_of k ++ deact_of k)) ->
    (forall k j, In j (act_of k ++ deact_of k) -> (j < n k)%nat) ->
    forall m k, (k + m <= Lmax)%nat ->
      lpres dof X (dofsV act_of deact_of k) (dofsV act_of deact_of (k + m)) (fnHB X B) (fnHB X B)
            (Phb_chain P act_of deact_of k m).
  Proof.
    intros H2s H1 H2. apply (vh_hb_chain_l n B P Lmax act_of deact_of H2s). apply index_hyp_reachable_l; assumption.
  Qed.
  (* the repaired prolongate_to propagation on reachable (fine) spaces *)
  Lemma prolongate_to_replaced_reachable_l (X : Type) (B : nat -> nat -> X -> Qc) Lmax :
    two_scale_hyp n B P Lmax ->
    (forall k, NoDup (act_of k ++ deact_of k)) ->
    (forall k j, In j (act_of k ++ deact_of k) -> (j < n k)%nat) ->
    forall l i m x, (l + m <= Lmax)%nat -> In i (deact_of l) -> deact_of (l + m)%nat = [] ->
      B l i x = expand_act X B P act_of deact_of m l (fun s => if Nat.eqb s i then 1 else 0) x.
  Proof.
    intros H2s H1 H2. apply (prolongate_to_replaced_l X n B P Lmax H2s act_of deact_of H1 H2 children_closed_reachable_l).
  Qed.
End Reachable.
