(* C03 -- lemmas, part 11: associativity of the level-by-level representation: the coefficients repn (products of the
   Kronecker prolongators, defined by prolongating at the FINE end) can equally be obtained by splitting off the COARSEST
   prolongator -- the order in which the loop of represent_fine multiplies (P := P.dot(Pj), j decreasing). *)
From Coq Require Import List Arith Bool Lia NArith Ring.
From Verif.lib Require Import FinSet.
From Verif.C04 Require Import Model.
From Verif.C03 Require Import Model Proofs Proofs2.
Import ListNotations.

Lemma mi_eqb_sym : forall a b, mi_eqb a b = mi_eqb b a.
Proof.
  intros a b. destruct (mi_eqb a b) eqn:E1, (mi_eqb b a) eqn:E2; auto.
  - apply mi_eqb_eq in E1. subst. assert (H : mi_eqb b b = true) by (apply mi_eqb_eq; auto). congruence.
  - apply mi_eqb_eq in E2. subst. assert (H : mi_eqb a a = true) by (apply mi_eqb_eq; auto). congruence.
Qed.

Section Assoc.
Variable R : Type.
Variables (r0 r1 : R) (radd rmul rsub : R -> R -> R) (ropp : R -> R).
Hypothesis Rth : ring_theory r0 r1 radd rmul rsub ropp eq.
Add Ring Rring11 : Rth.
Variable st : hspace.
Variable pmat : nat -> nat -> smat R.

Notation sum := (sumf R r0 radd).
Notation F := (fun k => tp_functions (msh st k)).
Notation K := (fun lv g f => kron_entry R r0 r1 rmul pmat lv 0 g f).
Notation rep := (repn R r0 r1 radd rmul st pmat).

Lemma repn_S : forall n l f r,
  rep (S n) l f r = sum (fun q => rmul (K (Nat.add l n) r q) (rep n l f q)) (F (Nat.add l n)).
Proof. reflexivity. Qed.

Lemma repn_bottom_l : forall n l f r, In f (F l) -> In r (F (Nat.add l (S n))) ->
  rep (S n) l f r = sum (fun g => rmul (rep n (S l) g r) (K l g f)) (F (S l)).
Proof.
  induction n as [|n IH]; intros l f r Hf Hr.
  - rewrite repn_S. rewrite Nat.add_0_r.
    replace (Nat.add l 1) with (S l) in Hr by lia.
    transitivity (K l r f).
    + rewrite (sum_ext R r0 radd _ _ (fun q => if mi_eqb q f then K l r q else r0)).
      * apply (sum_delta R r0 r1 radd rmul rsub ropp Rth (fun q => K l r q)); auto. apply fns_nodup.
      * intros q _. simpl. destruct (mi_eqb q f); ring.
    + symmetry.
      rewrite (sum_ext R r0 radd _ _ (fun g => if mi_eqb g r then K l g f else r0)).
      * apply (sum_delta R r0 r1 radd rmul rsub ropp Rth (fun g => K l g f)); auto. apply fns_nodup.
      * intros g _. simpl. rewrite (mi_eqb_sym r g). destruct (mi_eqb g r); ring.
  - rewrite repn_S.
    transitivity (sum (fun q => sum (fun g => rmul (rmul (K (Nat.add l (S n)) r q) (rep n (S l) g q)) (K l g f)) (F (S l)))
                      (F (Nat.add l (S n)))).
    + apply sum_ext. intros q Hq. rewrite (IH l f q Hf Hq).
      rewrite <- (sum_mul_l R r0 r1 radd rmul rsub ropp Rth). apply sum_ext. intros g _. ring.
    + rewrite (sum_swap R r0 r1 radd rmul rsub ropp Rth). apply sum_ext. intros g _.
      rewrite repn_S. replace (Nat.add (S l) n) with (Nat.add l (S n)) by lia.
      rewrite <- (sum_mul_r R r0 r1 radd rmul rsub ropp Rth). reflexivity.
Qed.

End Assoc.
