(* C04 -- the activity characterisation of basis functions (function invariant), proved for
   every refinement history under the hypothesis [hier_ok] that the tensor-product tables of
   every level are consistent (suppfunc dual to meshsupp, supports non-empty and inside the
   mesh).  That hypothesis is a statement about KnotVector.mesh_support_idx_all /
   _compute_supported_functions only; it is checked by computation in the correspondence run
   (tables of every level compared with the implementation) but not proved here. *)
From Coq Require Import List Arith Bool Lia Sorted.
From Verif.lib Require Import FinSet.
From Verif.C04 Require Import Model Proofs.
Import ListNotations.

Definition dim (ms : tpmesh) : nat := length (tp_axes ms).

Record mesh_ok (ms : tpmesh) : Prop := {
  mo_dual : forall c f, length c = dim ms ->
      (In f (supported_in1 ms c) <-> In f (tp_functions ms) /\ In c (support1 ms f));
  mo_nonempty : forall f, In f (tp_functions ms) -> exists c, In c (support1 ms f);
  mo_incells : forall f c, In f (tp_functions ms) -> In c (support1 ms f) -> In c (tp_cells ms);
  mo_len : forall c, In c (tp_cells ms) -> length c = dim ms }.

Definition hier_ok (base : tpmesh) : Prop := forall j, mesh_ok (Nat.iter j tp_refine base).

Lemma subset_false_witness : forall a b, subset a b = false -> exists x, In x a /\ ~ In x b.
Proof.
  induction a as [|x a IH]; intros b H; simpl in H; [discriminate|].
  destruct (mem x b) eqn:E; simpl in H.
  - destruct (IH b H) as [y [Hy Hn]]. exists y; split; auto. right; auto.
  - exists x; split; [left; auto|]. apply mem_false_In; auto.
Qed.

Lemma In_supported_in : forall ms cs f,
  In f (supported_in ms cs) <-> exists c, In c cs /\ In f (supported_in1 ms c).
Proof.
  intros ms cs f. unfold supported_in.
  assert (G : forall acc, In f (fold_left (fun acc c => union acc (supported_in1 ms c)) cs acc) <->
                          In f acc \/ exists c, In c cs /\ In f (supported_in1 ms c)).
  { induction cs as [|c cs IH]; intros acc; simpl.
    - split; [auto | intros [H|[c [[] _]]]; auto].
    - rewrite IH, union_In. split.
      + intros [[H|H]|[c' [H1 H2]]]; auto.
        * right; exists c; auto.
        * right; exists c'; auto.
      + intros [H|[c' [[->|H1] H2]]]; auto. right; exists c'; auto. }
  rewrite G. simpl. split; [intros [[]|H]; auto | auto].
Qed.

Lemma support_single : forall ms f, support ms [f] = support1 ms f.
Proof. reflexivity. Qed.

Lemma is_empty_inter : forall a b, is_empty (inter a b) = true <-> (forall c, In c a -> ~ In c b).
Proof.
  intros a b. rewrite is_empty_spec. split.
  - intros H c Ha Hb. assert (In c (inter a b)) by (apply inter_In; auto). rewrite H in H0. destruct H0.
  - intros H. destruct (inter a b) as [|x l] eqn:E; auto. exfalso.
    assert (Hx : In x (inter a b)) by (rewrite E; left; auto). apply inter_In in Hx. destruct Hx. eapply H; eauto.
Qed.

(* ------------------------------------------------------------------------- *)

Definition F (st : hspace) (k : nat) : set := tp_functions (msh st k).
Definition supp (st : hspace) (k : nat) (f : mi) : set := support1 (msh st k) f.
Definition subO (st : hspace) (k : nat) (f : mi) : Prop := forall c, In c (supp st k f) -> In c (A st k) \/ In c (D st k).
Definition subD (st : hspace) (k : nat) (f : mi) : Prop := forall c, In c (supp st k f) -> In c (D st k).

(* a basis function of level k is active iff its support lies in Omega_k but not entirely in
   Omega_{k+1} (= the deactivated cells of level k), and deactivated iff it lies in both *)
Record funcs_inv (st : hspace) : Prop := {
  fi_act : forall k f, k < numlevels st ->
     (In f (AF st k) <-> In f (F st k) /\ subO st k f /\ ~ subD st k f);
  fi_deact : forall k f, k < numlevels st ->
     (In f (DF st k) <-> In f (F st k) /\ subD st k f) }.

Definition meshes_fine (st : hspace) : Prop := forall k, k < numlevels st -> mesh_ok (msh st k).
Definition cells_len (st : hspace) : Prop :=
  forall k c, k < numlevels st -> In c (A st k) \/ In c (D st k) -> length c = dim (msh st k).

Lemma subD_dec : forall st k f, subD st k f \/ exists c, In c (supp st k f) /\ ~ In c (D st k).
Proof.
  intros. destruct (subset (supp st k f) (D st k)) eqn:E.
  - left. unfold subD. apply subset_spec; auto.
  - right. apply subset_false_witness; auto.
Qed.

Lemma subO_dec : forall st k f, subO st k f \/ exists c, In c (supp st k f) /\ ~ (In c (A st k) \/ In c (D st k)).
Proof.
  intros. destruct (subset (supp st k f) (union (A st k) (D st k))) eqn:E.
  - left. intros c Hc. apply union_In. revert c Hc. apply subset_spec; auto.
  - right. destruct (subset_false_witness _ _ E) as [c [H1 H2]]. exists c; split; auto.
    rewrite union_In in H2. auto.
Qed.

Section RefineFunctions.
  Variable st : hspace.
  Variable m : list set.
  Hypothesis I : cells_inv st.
  Hypothesis V : marks_valid st m.
  Hypothesis MF : meshes_fine st.
  Hypothesis CL : cells_len st.
  Hypothesis CL' : cells_len (refined st m).
  Hypothesis FI : funcs_inv st.

  Let st' := refined st m.
  Let I' : cells_inv st' := cells_inv_refined st m I V.

  Lemma O_mono : forall k c, In c (A st k) \/ In c (D st k) -> In c (A st' k) \/ In c (D st' k).
  Proof.
    intros k c H. unfold st'. rewrite (refined_A st m V (ci_pos _ I)), (refined_D st m V).
    destruct (In_dec_mi c (mk m k)); tauto.
  Qed.

  Lemma O_new : forall k c, In c (A st' k) \/ In c (D st' k) ->
    (In c (A st k) \/ In c (D st k)) \/ (k <> 0 /\ In (parent1 c) (mk m (k - 1))).
  Proof.
    intros k c. unfold st'. rewrite (refined_A st m V (ci_pos _ I)), (refined_D st m V).
    pose proof V as [Va _]. intros [[[H|H] _]|[H|H]]; auto.
  Qed.

  Lemma D_mono : forall k c, In c (D st k) -> In c (D st' k).
  Proof. intros k c H. unfold st'. rewrite (refined_D st m V). auto. Qed.

  Lemma D_new : forall k c, In c (D st' k) -> In c (D st k) \/ In c (mk m k).
  Proof. intros k c. unfold st'. rewrite (refined_D st m V). auto. Qed.

  (* a child of a marked cell was not in Omega_k before *)
  Lemma new_not_old : forall k c, k <> 0 -> In (parent1 c) (mk m (k - 1)) -> ~ (In c (A st k) \/ In c (D st k)).
  Proof.
    intros k c Hk Hp H. destruct k as [|k]; [congruence|]. simpl in Hp. rewrite Nat.sub_0_r in Hp.
    apply (ci_nest _ I) in H. pose proof V as [Va _]. apply (ci_disj _ I k (parent1 c)); auto.
  Qed.

  Variable k : nat.
  Hypothesis Hk : k < numlevels st.

  Let ms := msh st k.
  Let mk_k := mk m k.
  Let newc := if k =? 0 then [] else cell_children (mk m (k - 1)).
  Let a' := A st' k.
  Let d' := D st' k.

  Lemma level_eq : lvl st' k = refine_level st m k.
  Proof. unfold st', refined. rewrite lvl_refined. apply Nat.ltb_lt in Hk. rewrite Hk. reflexivity. Qed.

  Lemma a'_eq : a' = lv_active (refine_level st m k).
  Proof. unfold a', A. rewrite level_eq. reflexivity. Qed.
  Lemma d'_eq : d' = lv_deact (refine_level st m k).
  Proof. unfold d', D. rewrite level_eq. reflexivity. Qed.

  Definition mfP (f : mi) : Prop :=
    mk_k <> [] /\ In f (supported_in ms mk_k) /\ In f (AF st k) /\ (forall c, In c (support1 ms f) -> ~ In c a').
  Definition newfP (f : mi) : Prop :=
    In f (supported_in ms newc) /\ ~ In f (AF st k) /\ (forall c, In c (support1 ms f) -> In c a' \/ In c d').

  Lemma last_marks_empty : numlevels st - 1 <= k -> mk_k = [].
  Proof. intros H. pose proof V as [_ Vl]. apply Vl. lia. Qed.

  Lemma refined_AF : forall f, In f (AF st' k) <-> (In f (AF st k) \/ newfP f) /\ ~ mfP f.
  Proof.
    intros f. unfold AF at 1. rewrite level_eq. unfold refine_level. cbn [lv_actfun].
    fold ms. fold mk_k. fold newc.
    change (lv_actfun (lvl st k)) with (AF st k).
    set (aa := if numlevels st - 1 <=? k then union (lv_active (lvl st k)) (of_list newc)
               else diff (union (lv_active (lvl st k)) (of_list newc)) mk_k).
    set (dd := if numlevels st - 1 <=? k then lv_deact (lvl st k) else union (lv_deact (lvl st k)) mk_k).
    assert (Ea : aa = a') by (rewrite a'_eq; reflexivity).
    assert (Ed : dd = d') by (rewrite d'_eq; reflexivity).
    rewrite Ea, Ed.
    assert (Hnew : forall g, In g (filter (fun f0 => subset (support ms [f0]) (union a' d')) (diff (supported_in ms newc) (AF st k))) <-> newfP g).
    { intros g. rewrite filter_In, diff_In, subset_spec. unfold newfP. rewrite support_single.
      split.
      - intros [[H1 H2] H3]. repeat split; auto. intros c Hc. apply union_In. apply H3; auto.
      - intros [H1 [H2 H3]]. repeat split; auto. intros c Hc. apply union_In. apply H3; auto. }
    assert (Hmf : forall g, In g (if is_empty mk_k then [] else
                   filter (fun f0 => is_empty (inter (support ms [f0]) a')) (inter (supported_in ms mk_k) (AF st k))) <-> mfP g).
    { intros g. unfold mfP. destruct mk_k as [|x l] eqn:E; simpl.
      - split; [intros [] | intros [H _]; congruence].
      - rewrite filter_In, inter_In, is_empty_inter, support_single. split.
        + intros [[H1 H2] H3]. repeat split; auto. discriminate.
        + intros [_ [H1 [H2 H3]]]. auto. }
    destruct (numlevels st - 1 <=? k) eqn:El.
    - apply Nat.leb_le in El. rewrite union_In, Hnew.
      assert (~ mfP f) by (unfold mfP; rewrite (last_marks_empty El); tauto). tauto.
    - rewrite diff_In, union_In, Hnew, Hmf. tauto.
  Qed.

  Lemma refined_DF : forall f, In f (DF st' k) <-> In f (DF st k) \/ mfP f.
  Proof.
    intros f. unfold DF at 1. rewrite level_eq. unfold refine_level. cbn [lv_deactfun].
    fold ms. fold mk_k. fold newc.
    change (lv_actfun (lvl st k)) with (AF st k). change (lv_deactfun (lvl st k)) with (DF st k).
    set (aa := if numlevels st - 1 <=? k then union (lv_active (lvl st k)) (of_list newc)
               else diff (union (lv_active (lvl st k)) (of_list newc)) mk_k).
    assert (Ea : aa = a') by (rewrite a'_eq; reflexivity).
    rewrite Ea.
    assert (Hmf : forall g, In g (if is_empty mk_k then [] else
                   filter (fun f0 => is_empty (inter (support ms [f0]) a')) (inter (supported_in ms mk_k) (AF st k))) <-> mfP g).
    { intros g. unfold mfP. destruct mk_k as [|x l] eqn:E; simpl.
      - split; [intros [] | intros [H _]; congruence].
      - rewrite filter_In, inter_In, is_empty_inter, support_single. split.
        + intros [[H1 H2] H3]. repeat split; auto. discriminate.
        + intros [_ [H1 [H2 H3]]]. auto. }
    destruct (numlevels st - 1 <=? k) eqn:El.
    - apply Nat.leb_le in El.
      assert (~ mfP f) by (unfold mfP; rewrite (last_marks_empty El); tauto). tauto.
    - rewrite union_In, Hmf. tauto.
  Qed.

  Let MO : mesh_ok ms := MF k Hk.

  Lemma len_mk : forall c, In c mk_k -> length c = dim ms.
  Proof. intros c H. apply (CL k c Hk). left. pose proof V as [Va _]. apply Va; auto. Qed.

  Lemma newc_In : forall c, In c newc <-> k <> 0 /\ In (parent1 c) (mk m (k - 1)).
  Proof.
    intros c. unfold newc. destruct (k =? 0) eqn:E; [apply Nat.eqb_eq in E | apply Nat.eqb_neq in E].
    - simpl. intuition.
    - rewrite In_cell_children. tauto.
  Qed.

  Lemma newc_in_O' : forall c, In c newc -> In c a' \/ In c d'.
  Proof.
    intros c H. apply newc_In in H. unfold a', d', st'.
    rewrite (refined_A st m V (ci_pos _ I)), (refined_D st m V).
    destruct (In_dec_mi c (mk m k)); [right; right; auto | left; split; auto].
  Qed.

  Lemma len_newc : forall c, In c newc -> length c = dim ms.
  Proof.
    intros c H. apply (CL' k c).
    - rewrite numlevels_refined; auto.
    - apply newc_in_O'; auto.
  Qed.

  Lemma touch : forall cs f, (forall c, In c cs -> length c = dim ms) ->
    (In f (supported_in ms cs) <-> In f (F st k) /\ exists c, In c cs /\ In c (support1 ms f)).
  Proof.
    intros cs f Hl. rewrite In_supported_in. split.
    - intros [c [Hc Hf]]. apply (mo_dual _ MO c f (Hl c Hc)) in Hf. destruct Hf. split; auto. exists c; auto.
    - intros [HF [c [Hc Hs]]]. exists c. split; auto. apply (mo_dual _ MO c f (Hl c Hc)). auto.
  Qed.

  Lemma mfP_intro : forall f c0, In f (AF st k) -> subD st' k f -> In c0 (support1 ms f) -> In c0 mk_k -> mfP f.
  Proof.
    intros f c0 Haf SD' Hc0 Hm. unfold mfP. split; [intros E; rewrite E in Hm; destruct Hm|].
    split; [|split; auto].
    - apply touch; [exact len_mk|]. split; [apply (fi_act _ FI k f Hk); auto | exists c0; auto].
    - intros c Hc Ha. apply (ci_disj _ I' k c Ha). apply SD'. exact Hc.
  Qed.

  Lemma funcs_level_deact : forall f, In f (DF st' k) <-> In f (F st k) /\ subD st' k f.
  Proof.
    intros f. rewrite refined_DF. split.
    - intros [H|H].
      + apply (fi_deact _ FI k f Hk) in H. destruct H as [HF SD]. split; auto.
        intros c Hc. apply D_mono. apply SD; auto.
      + destruct H as [_ [_ [Haf Hna]]]. apply (fi_act _ FI k f Hk) in Haf. destruct Haf as [HF [SO _]].
        split; auto. intros c Hc. destruct (O_mono k c (SO c Hc)) as [Ha|Hd]; auto.
        exfalso. apply (Hna c Hc). exact Ha.
    - intros [HF SD']. destruct (subD_dec st k f) as [SD|[c0 [Hc0 Hn]]].
      + left. apply (fi_deact _ FI k f Hk). auto.
      + right. assert (Hm : In c0 mk_k).
        { destruct (D_new k c0 (SD' c0 Hc0)); [contradiction | auto]. }
        apply (mfP_intro f c0); auto.
        apply (fi_act _ FI k f Hk). split; auto. split.
        * intros c Hc. destruct (D_new k c (SD' c Hc)) as [H|H]; auto. left. pose proof V as [Va _]. apply Va; auto.
        * intros SD. apply Hn. apply SD; auto.
  Qed.

  Lemma funcs_level_act : forall f, In f (AF st' k) <-> In f (F st k) /\ subO st' k f /\ ~ subD st' k f.
  Proof.
    intros f. rewrite refined_AF. split.
    - intros [[Haf|Hnew] Hnmf].
      + pose proof Haf as Haf0. apply (fi_act _ FI k f Hk) in Haf. destruct Haf as [HF [SO NSD]].
        split; auto. split.
        * intros c Hc. apply O_mono. apply SO; auto.
        * intros SD'. destruct (subD_dec st k f) as [SD|[c0 [Hc0 Hn]]]; [contradiction|].
          apply Hnmf. apply (mfP_intro f c0); auto.
          destruct (D_new k c0 (SD' c0 Hc0)); [contradiction | auto].
      + destruct Hnew as [H1 [H2 H3]]. apply touch in H1; [|exact len_newc].
        destruct H1 as [HF [c1 [Hc1 Hs1]]]. split; auto. split; [exact H3|].
        intros SD'. apply newc_In in Hc1. destruct Hc1 as [Hk0 Hp].
        apply (new_not_old k c1 Hk0 Hp).
        destruct (D_new k c1 (SD' c1 Hs1)) as [H|H]; auto. left. pose proof V as [Va _]. apply Va; auto.
    - intros [HF [SO' NSD']]. split.
      + destruct (In_dec_mi f (AF st k)) as [Haf|Hnaf]; [left; auto|]. right.
        split; [|split; auto].
        apply touch; [exact len_newc|]. split; auto.
        destruct (subO_dec st k f) as [SO|[c0 [Hc0 Hn]]].
        * exfalso. destruct (subD_dec st k f) as [SD|[c0 [Hc0 Hn]]].
          -- apply NSD'. intros c Hc. apply D_mono. apply SD; auto.
          -- apply Hnaf. apply (fi_act _ FI k f Hk). split; [exact HF|]. split; [exact SO|].
             intros SD. apply Hn. apply SD; auto.
        * exists c0. split; auto. apply newc_In.
          destruct (O_new k c0 (SO' c0 Hc0)) as [H|H]; [contradiction | auto].
      + intros [_ [_ [_ H4]]]. apply NSD'. intros c Hc.
        destruct (SO' c Hc) as [Ha|Hd]; auto. exfalso. apply (H4 c Hc). exact Ha.
  Qed.
End RefineFunctions.

(* one refinement step preserves the activity characterisation *)
Lemma funcs_inv_refined : forall st m,
  cells_inv st -> marks_valid st m -> meshes_fine st -> cells_len st -> cells_len (refined st m) ->
  funcs_inv st -> funcs_inv (refined st m).
Proof.
  intros st m I V MF CL CL' FI. constructor; intros k f Hk; rewrite numlevels_refined in Hk.
  - change (F (refined st m) k) with (F st k). apply funcs_level_act; assumption.
  - change (F (refined st m) k) with (F st k). apply funcs_level_deact; assumption.
Qed.

(* ------------------------------------------------------------------------- *)
(* the invariant along a whole history, over a hierarchy with consistent tables *)

Lemma dim_refine : forall ms, dim (tp_refine ms) = dim ms.
Proof. intros; unfold dim, tp_refine, tpmesh_of; simpl. apply map_length. Qed.

Lemma dim_iter : forall j ms, dim (Nat.iter j tp_refine ms) = dim ms.
Proof. induction j; intros; simpl; auto. rewrite dim_refine; auto. Qed.

Lemma last_nth_len : forall (T : Type) (l : list T) d, last l d = nth (length l - 1) l d.
Proof.
  induction l as [|x l IH]; intros d; simpl; auto.
  destruct l as [|y l]; auto. rewrite IH. simpl. rewrite Nat.sub_0_r. reflexivity.
Qed.

Record good2 (base : tpmesh) (st : hspace) : Prop := {
  g2_good : good st;
  g2_funcs : funcs_inv st;
  g2_len : cells_len st;
  g2_msh : forall k, k < numlevels st -> msh st k = Nat.iter k tp_refine base }.

Lemma good2_meshes_fine : forall base st, hier_ok base -> good2 base st -> meshes_fine st.
Proof. intros base st H G k Hk. rewrite (g2_msh _ _ G k Hk). apply H. Qed.

Lemma msh_add_level_old : forall st k, k < length (hs_meshes st) -> msh (add_level st) k = msh st k.
Proof. intros st k H. unfold msh, add_level; simpl. apply app_nth1; auto. Qed.

Lemma msh_add_level_new : forall st, 1 <= length (hs_meshes st) ->
  msh (add_level st) (length (hs_meshes st)) = tp_refine (msh st (length (hs_meshes st) - 1)).
Proof.
  intros st H. unfold msh, add_level; simpl. rewrite app_nth2 by lia. rewrite Nat.sub_diag. simpl.
  rewrite last_nth_len. reflexivity.
Qed.

Lemma good2_add_level : forall base st, hier_ok base -> good2 base st -> good2 base (add_level st).
Proof.
  intros base st H G. pose proof (g2_good _ _ G) as [I M Dp].
  pose proof (ci_pos _ I) as Hpos. unfold meshes_ok in M.
  assert (Hmsh : forall k, k < numlevels (add_level st) -> msh (add_level st) k = Nat.iter k tp_refine base).
  { intros k Hk. rewrite numlevels_add_level in Hk.
    destruct (Nat.eq_dec k (numlevels st)) as [->|Hne].
    - rewrite <- M. rewrite msh_add_level_new by lia. rewrite M.
      rewrite (g2_msh _ _ G (numlevels st - 1)) by lia.
      clear - Hpos. revert Hpos. generalize (numlevels st). intros [|n] Hn; [lia|].
      simpl. rewrite Nat.sub_0_r. reflexivity.
    - rewrite msh_add_level_old by lia. apply (g2_msh _ _ G). lia. }
  constructor; auto.
  - constructor.
    + apply cells_inv_add_level; auto.
    + apply meshes_ok_add; auto.
    + exact Dp.
  - constructor; intros k f Hk; rewrite numlevels_add_level in Hk;
      unfold AF, DF, F, subO, subD, supp, A, D; rewrite !lvl_add_level;
      (destruct (Nat.eq_dec k (numlevels st)) as [->|Hne];
       [| rewrite msh_add_level_old by lia ]).
    + rewrite lvl_overflow by lia. simpl. split; [intros [] | intros [HF [SO _]]].
      assert (MO : mesh_ok (msh (add_level st) (numlevels st))).
      { rewrite Hmsh by (rewrite numlevels_add_level; lia). apply H. }
      destruct (mo_nonempty _ MO f HF) as [c Hc]. destruct (SO c Hc) as [[]|[]].
    + apply (fi_act _ (g2_funcs _ _ G)). lia.
    + rewrite lvl_overflow by lia. simpl. split; [intros [] | intros [HF SD]].
      assert (MO : mesh_ok (msh (add_level st) (numlevels st))).
      { rewrite Hmsh by (rewrite numlevels_add_level; lia). apply H. }
      destruct (mo_nonempty _ MO f HF) as [c Hc]. destruct (SD c Hc).
    + apply (fi_deact _ (g2_funcs _ _ G)). lia.
  - intros k c Hk Hc. rewrite numlevels_add_level in Hk. unfold A, D in Hc. rewrite lvl_add_level in Hc.
    destruct (Nat.eq_dec k (numlevels st)) as [->|Hne].
    + rewrite lvl_overflow in Hc by lia. simpl in Hc. tauto.
    + rewrite msh_add_level_old by lia. apply (g2_len _ _ G); auto. lia.
Qed.

Lemma good2_ensure : forall base st L, hier_ok base -> good2 base st -> good2 base (ensure_levels st L).
Proof.
  intros base st L H G. unfold ensure_levels. induction (L - numlevels st); simpl; auto.
  apply good2_add_level; auto.
Qed.

Lemma cells_len_refined : forall base st m, good2 base st -> marks_valid st m -> cells_len (refined st m).
Proof.
  intros base st m G V k c Hk Hc. rewrite numlevels_refined in Hk.
  pose proof (g2_good _ _ G) as [I M Dp].
  change (msh (refined st m) k) with (msh st k).
  rewrite (refined_A st m V (ci_pos _ I)), (refined_D st m V) in Hc.
  pose proof V as [Va _].
  assert (Hold : In c (A st k) \/ In c (D st k) -> length c = dim (msh st k)) by (apply (g2_len _ _ G); auto).
  destruct Hc as [[[H|[Hk0 Hp]] _]|[H|H]]; auto.
  destruct k as [|k]; [congruence|]. simpl in Hp. rewrite Nat.sub_0_r in Hp.
  assert (Hl : length (parent1 c) = dim (msh st k)).
  { apply (g2_len _ _ G k); [lia | left; apply Va; auto]. }
  unfold parent1 in Hl. rewrite map_length in Hl. rewrite Hl.
  rewrite (g2_msh _ _ G k) by lia. rewrite (g2_msh _ _ G (S k)) by lia. rewrite !dim_iter. reflexivity.
Qed.

Lemma good2_refined : forall base st m, hier_ok base -> good2 base st -> marks_valid st m -> good2 base (refined st m).
Proof.
  intros base st m H G V. pose proof (cells_len_refined base st m G V) as CL'.
  constructor; auto.
  - apply good_refined; auto. apply (g2_good _ _ G).
  - apply funcs_inv_refined; auto.
    + apply (g2_good _ _ G).
    + eapply good2_meshes_fine; eauto.
    + apply (g2_len _ _ G).
    + apply (g2_funcs _ _ G).
  - intros k Hk. rewrite numlevels_refined in Hk. change (msh (refined st m) k) with (msh st k).
    apply (g2_msh _ _ G); auto.
Qed.

Lemma good2_hs_refine : forall base st raw trunc st' m, hier_ok base ->
  good2 base st -> raw_valid st raw -> hs_refine st raw trunc = Ok (st', m) -> good2 base st'.
Proof.
  intros base st raw trunc st' m H G Hv E.
  destruct (hs_refine_spec _ _ _ _ _ (g2_good _ _ G) Hv E) as [mx [_ [-> [V _]]]].
  apply good2_refined; auto. apply good2_ensure; auto.
Qed.

Lemma good2_step : forall base st o, hier_ok base -> good2 base st -> op_valid st o -> good2 base (fst (step st o)).
Proof.
  intros base st [raw trunc|lv sel] H G V; simpl.
  - destruct (hs_refine st raw trunc) as [[st' m]| |] eqn:E; simpl; auto.
    eapply good2_hs_refine; eauto.
  - unfold hs_refine_region. set (st1 := ensure_levels st (lv + 2)).
    assert (G1 : good2 base st1) by (apply good2_ensure; auto).
    destruct (hs_refine st1 _ false) as [[st' m]| |] eqn:E; simpl; auto.
    eapply good2_hs_refine; [exact H | exact G1 | | exact E].
    intros k c. simpl. destruct (lv =? k) eqn:Ek; [|intros []].
    apply Nat.eqb_eq in Ek; subst k. rewrite filter_In. tauto.
Qed.

Lemma good2_run : forall base ops st, hier_ok base -> good2 base st -> ops_valid st ops -> good2 base (run st ops).
Proof.
  intros base ops; induction ops as [|o ops IH]; intros st H G V; simpl; auto.
  destruct V as [V1 V2]. apply IH; auto. apply good2_step; auto.
Qed.

Lemma good2_init : forall axes disp, (forall d, disp = Some d -> 1 <= d) ->
  hier_ok (tpmesh_of axes) -> good2 (tpmesh_of axes) (hs_init axes disp).
Proof.
  intros axes disp Hd H. pose proof (H 0) as MO. simpl in MO.
  constructor.
  - apply good_init; auto.
  - constructor; intros k f Hk; unfold numlevels, hs_init in Hk; simpl in Hk;
      assert (k = 0) by lia; subst k;
      unfold AF, DF, F, subO, subD, supp, A, D, lvl, msh, hs_init; simpl.
    + split.
      * intros HF. split; auto. split.
        -- intros c Hc. left. apply (mo_incells _ MO f c); auto.
        -- intros SD. destruct (mo_nonempty _ MO f HF) as [c Hc]. destruct (SD c Hc).
      * tauto.
    + split; [intros [] | intros [HF SD]]. destruct (mo_nonempty _ MO f HF) as [c Hc]. destruct (SD c Hc).
  - intros k c Hk Hc. unfold numlevels, hs_init in Hk; simpl in Hk. assert (k = 0) by lia; subst k.
    unfold A, D, lvl, msh, hs_init in *; simpl in *. destruct Hc as [Hc|[]].
    apply (mo_len _ MO); auto.
  - intros k Hk. unfold numlevels, hs_init in Hk; simpl in Hk. assert (k = 0) by lia; subst k. reflexivity.
Qed.

Lemma activity_characterisation_l : forall axes disp ops,
  (forall d, disp = Some d -> 1 <= d) ->
  hier_ok (tpmesh_of axes) ->
  ops_valid (hs_init axes disp) ops ->
  funcs_inv (run (hs_init axes disp) ops).
Proof.
  intros axes disp ops Hd H V. apply (g2_funcs (tpmesh_of axes)).
  apply good2_run; auto. apply good2_init; auto.
Qed.
