"""Implementation driver for C02: B-spline basis evaluation routes of the real code."""
import json
import os
import sys

import numpy as np


def hx(a):
    return [float(x).hex() for x in np.asarray(a, dtype=float).ravel()]


def main():
    import pyiga
    assert os.path.realpath(pyiga.__file__).startswith(os.path.realpath(os.environ['VERIF_IMPL_DIR'])), pyiga.__file__
    from pyiga import bspline
    payload = json.load(sys.stdin)
    out = []
    for case in payload['cases']:
        p, nd = case['p'], case['nd']
        kv = bspline.KnotVector(np.array([float.fromhex(h) for h in case['kv']]), p)
        pts = np.array([float.fromhex(h) for h in case['pts']])
        n = kv.numdofs
        res = {'status': 'Ok'}
        try:
            res['spans'] = [int(kv.findspan(float(u))) for u in pts]
            res['spans_arr'] = [int(s) for s in bspline.pyx_findspans(kv.kv, p, np.ascontiguousarray(pts))]
            res['first_active'] = [int(kv.first_active_at(float(u))) for u in pts]
            ad = np.asarray(bspline.active_deriv(kv, pts, nd))            # (nd+1, p+1, npts)
            res['ad'] = [hx(ad[:, :, i]) for i in range(len(pts))]
            ad_s = [np.asarray(bspline.active_deriv(kv, float(u), nd)) for u in pts]
            res['ad_scalar_same'] = all(np.array_equal(ad[:, :, i], ad_s[i]) for i in range(len(pts)))
            aev = np.asarray(bspline.active_ev(kv, pts))
            aev_s = [np.asarray(bspline.active_ev(kv, float(u))) for u in pts]
            res['active_ev_same'] = bool(np.array_equal(aev, ad[0])) and all(
                np.array_equal(aev[:, i], aev_s[i]) for i in range(len(pts)))
            sev = np.array([bspline.single_ev(kv, i, pts) for i in range(n)])        # (n, npts)
            sev_s = np.array([[bspline.single_ev(kv, i, float(u)) for u in pts] for i in range(n)])
            res['sev'] = [hx(sev[:, i]) for i in range(len(pts))]
            res['sev_scalar_same'] = bool(np.array_equal(sev, sev_s))
            C = bspline.collocation(kv, pts)
            res['coll_shape'] = list(C.shape)
            res['coll'] = [hx(r) for r in C.toarray()]
            res['coll_nnz_per_row_max'] = int(np.diff(C.indptr).max()) if len(pts) else 0
            Cd = bspline.collocation_derivs(kv, pts, derivs=nd)
            res['colld'] = [[hx(r) for r in M.toarray()] for M in Cd]
            ind, vals = bspline.collocation_info(kv, pts)
            res['info_ind'] = [int(i) for i in ind]
            res['info_same'] = bool(np.array_equal(np.asarray(vals), ad[0].T))
            ind2, vals2 = bspline.collocation_derivs_info(kv, pts, nd)
            res['dinfo_same'] = bool(np.array_equal(np.asarray(vals2), np.swapaxes(ad, -2, -1))) and \
                [int(i) for i in ind2] == res['info_ind']
            coeffs = np.array(case['coeffs'], dtype=float)
            res['ev'] = hx(bspline.ev(kv, coeffs, pts))
            res['deriv'] = [hx(bspline.deriv(kv, coeffs, k, pts)) for k in range(1, min(nd, p) + 1)]
            # tensor-product evaluators built on the 1D routines
            if case.get('tp'):
                from pyiga import bspline as B
                kv2 = bspline.KnotVector(np.array([float.fromhex(h) for h in case['tp']['kv2']]), case['tp']['p2'])
                pts2 = np.array([float.fromhex(h) for h in case['tp']['pts2']])
                c2 = np.array(case['tp']['coeffs'], dtype=float).reshape(kv2.numdofs, n)
                f = B.BSplineFunc((kv2, kv), c2)
                G = f.grid_eval((pts2, pts))
                C2 = bspline.collocation(kv2, pts2).toarray()
                C1 = C.toarray()
                ref = C2 @ c2 @ C1.T
                scale = np.abs(C2) @ np.abs(c2) @ np.abs(C1).T
                res['tp_err'] = float(np.max(np.abs(G - ref) / np.maximum(scale, 1e-300))) if G.size else 0.0
                J = f.grid_jacobian((pts2, pts))       # (..., 1, 2): d/dx (last axis kv), d/dy
                D1 = bspline.collocation_derivs(kv, pts, 1)[1].toarray()
                D2 = bspline.collocation_derivs(kv2, pts2, 1)[1].toarray()
                refx = C2 @ c2 @ D1.T
                refy = D2 @ c2 @ C1.T
                sx = np.abs(C2) @ np.abs(c2) @ np.abs(D1).T
                sy = np.abs(D2) @ np.abs(c2) @ np.abs(C1).T
                Jx = J[..., 0, 0] if J.ndim == 4 else J[..., 0]
                Jy = J[..., 0, 1] if J.ndim == 4 else J[..., 1]
                res['tp_jac_err'] = float(max(
                    np.max(np.abs(Jx - refx) / np.maximum(sx, 1e-300)),
                    np.max(np.abs(Jy - refy) / np.maximum(sy, 1e-300)))) if G.size else 0.0
                # the same OBJECT evaluated on a second grid with the same size and the same first/last
                # node per axis but different interior nodes (a cache keyed on a fingerprint of the grid
                # must not be reused): compared with the 1D collocation product for THAT grid
                if len(pts) >= 4 and len(pts2) >= 1:
                    ptsb = np.concatenate(([pts[0]], pts[-2:0:-1], [pts[-1]]))
                    pts2b = np.concatenate(([pts2[0]], pts2[-2:0:-1], [pts2[-1]])) if len(pts2) >= 3 else pts2
                    Gb = f.grid_eval((pts2b, ptsb))
                    C1b = bspline.collocation(kv, ptsb).toarray()
                    C2b = bspline.collocation(kv2, pts2b).toarray()
                    refb = C2b @ c2 @ C1b.T
                    scaleb = np.abs(C2b) @ np.abs(c2) @ np.abs(C1b).T
                    res['tp_err_second_grid'] = float(np.max(np.abs(Gb - refb) / np.maximum(scaleb, 1e-300)))
                    Jb = f.grid_jacobian((pts2b, ptsb))
                    D1b = bspline.collocation_derivs(kv, ptsb, 1)[1].toarray()
                    refxb = C2b @ c2 @ D1b.T
                    sxb = np.abs(C2b) @ np.abs(c2) @ np.abs(D1b).T
                    Jxb = Jb[..., 0, 0] if Jb.ndim == 4 else Jb[..., 0]
                    res['tp_jac_err_second_grid'] = float(np.max(np.abs(Jxb - refxb) / np.maximum(sxb, 1e-300)))
                    # and the first grid again
                    Ga = f.grid_eval((pts2, pts))
                    res['tp_first_grid_again_same'] = bool(np.array_equal(Ga, G))
                # single point evaluation agrees with the grid
                v = f(float(pts[0]), float(pts2[0]))
                res['tp_point_err'] = float(abs(float(np.squeeze(v)) - G[0, 0]) / max(scale[0, 0], 1e-300))
        except Exception as e:  # noqa
            res['status'] = type(e).__name__
            res['msg'] = str(e)[:300]
        out.append(res)
    print(json.dumps({'results': out}))


if __name__ == '__main__':
    main()
