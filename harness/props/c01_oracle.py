"""C01 -- independent oracle: the Gauss-Legendre sum a variational form denotes.

A direct numerical interpreter of the UN-finalized expression forest of a VForm (the
nested-list dump of harness/vform_dump.py taken BEFORE VForm.finalize) over numpy.
It never imports pyiga and shares no code with vform.py / codegen; the caller hands in
plain arrays (`Data`): Gauss nodes/weights per axis, 1-D basis function jets per axis,
geometry jets (value, Jacobian, Hessian) and input field jets at the tensor grid, parameter
values.

Meaning of the leaves (definitional):
  * PD(bf, D, parametric)    product over axes of the 1-D derivative values; D is in
                             (x, y, z) order, x = LAST grid axis
  * PD(bf, D, physical), VR(parametric field, D, physical)
                             derivatives of  w o G^-1 :  grad = J^-T grad_par,
                             Hess = J^-T (Hess_par - sum_m grad_m Hess(G_m)) J^-1 with numpy.linalg.inv
                             (space-time forms: cylinder G(x,t) = (G~(x), t), time derivatives stay
                             parametric, one space derivative at most)
  * dx = prod gw * |det J| (numpy.linalg.det);  ds = prod gw * sqrt(det(B^T B)) (Gram determinant of
    the tangent vectors B of the surface / boundary face)
  * the predefined variables Jac, JacInv, GaussWeight, W, SW, normal are NOT read from the forest's
    definitions but defined here (J, inv J, prod gw, dx, ds, outward unit normal = +-row of J^-1)
  * builtin functions: numpy's.
Values are computed in long double; next to every value a running magnitude `mag` (first-order
bound on the absolute rounding error of a float64 evaluation in ANY association order, in units
of eps) is propagated:  +,-: mag_x+mag_y;  *: mag_x*mag_y;  x/y: (mag_x/|y|)*(mag_y/|y|);
f(x): |f(x)| + |f'(x)| mag_x;  leaf: |value|.  The comparison bound is  1e-10 * sum_nodes mag
(+ 1e-300): six decimal orders above eps times the condition of the evaluation, i.e. it only
tolerates rounding / fast-math reassociation, never a wrong term.
"""
import itertools

import numpy as np

LD = np.longdouble


class Unsupported(Exception):
    """The oracle assigns no meaning (outside the documented vocabulary)."""


class Malformed(Exception):
    pass


def sym_pos(n, i, j):
    """position of (i,j) (i<=j after sorting) in the row-by-row enumeration of the upper triangle"""
    if i > j:
        i, j = j, i
    k = 0
    for a in range(n):
        for b in range(a, n):
            if (a, b) == (i, j):
                return k
            k += 1
    raise Malformed('sym index')


def _unit(d, k):
    return tuple(1 if q == k else 0 for q in range(d))


def _indices(D):
    out = []
    for k, n in enumerate(D):
        out += [k] * n
    return tuple(out)


class VM:
    """value + magnitude pair (numpy arrays broadcastable against each other)"""
    __slots__ = ('v', 'm')

    def __init__(self, v, m=None):
        self.v = np.asarray(v, dtype=LD)
        self.m = np.abs(self.v).astype(np.float64) if m is None else np.asarray(m, dtype=np.float64)


def vm_add(x, y):
    return VM(x.v + y.v, x.m + y.m)


def vm_sub(x, y):
    return VM(x.v - y.v, x.m + y.m)


def vm_mul(x, y):
    return VM(x.v * y.v, x.m * y.m)


def vm_div(x, y):
    with np.errstate(all='ignore'):
        ay = np.abs(y.v).astype(np.float64)
        return VM(x.v / y.v, (x.m / ay) * (y.m / ay))


def vm_neg(x):
    return VM(-x.v, x.m)


def vm_func(name, x):
    with np.errstate(all='ignore'):
        v = x.v
        if name == 'abs':
            return VM(np.abs(v), x.m)
        if name == 'sqrt':
            f = np.sqrt(v)
            d = 0.5 / f
        elif name == 'exp':
            f = np.exp(v)
            d = f
        elif name == 'log':
            f = np.log(v)
            d = 1 / v
        elif name == 'sin':
            f = np.sin(v)
            d = np.cos(v)
        elif name == 'cos':
            f = np.cos(v)
            d = np.sin(v)
        elif name == 'tan':
            f = np.tan(v)
            d = 1 + f * f
        else:
            raise Unsupported('builtin %s' % name)
        # range reduction of sin/cos/tan and log near 1 lose |x| eps absolutely
        extra = np.abs(v).astype(np.float64) if name in ('sin', 'cos', 'tan') else 0.0
        m = np.abs(f).astype(np.float64) + np.abs(d).astype(np.float64) * (x.m + extra)
        return VM(f, m)


OPS = {'+': vm_add, '-': vm_sub, '*': vm_mul, '/': vm_div}


def vm_sum(terms):
    it = iter(terms)
    acc = next(it)
    for t in it:
        acc = vm_add(acc, t)
    return acc


class Data:
    """Everything the oracle needs about one (form, space, geometry, inputs) instance.

    d, g           dim, geo_dim
    spacetime      bool
    boundary       None or (grid axis, side)
    N              tuple: number of Gauss nodes per grid axis
    gw             list of 1-D weight arrays per grid axis
    B              dict bf name -> list per grid axis of array (nderiv+1, ndofs_axis, nodes_axis)
    X, J, HG       geometry value N+(g,), Jacobian N+(g,d) (columns in D order), Hessian N+(g, d(d+1)/2) or None
    fields         dict name -> {'physical': bool, 'shape': tuple, 'val': N+shape,
                                 'jac': N+shape+(d,) or None, 'hess': N+shape+(d(d+1)/2,) or None}
    params         dict name -> ndarray
    """

    def __init__(self, **kw):
        self.__dict__.update(kw)


class Oracle:
    def __init__(self, forest, header, data, pairs):
        """pairs: dict bf name -> integer array (P, d) of multi-indices (grid-axis order)."""
        self.vars = {v['name']: v for v in forest['vars']}
        self.exprs = forest['exprs']
        self.h = header
        self.D = data
        self.d = data.d
        self.g = data.g
        self.pairs = pairs
        self.P = len(next(iter(pairs.values()))) if pairs else 1
        self.memo = {}
        self.keep = []
        self.varvals = {}
        self.busy = set()
        self._geo = None
        self.bfjets = {}

    # ---- geometry ---------------------------------------------------------------------
    def geo(self):
        if self._geo is None:
            D = self.D
            J = np.asarray(D.J, dtype=LD)[None]            # (1, N.., g, d)
            out = {'J': J}
            if self.g == self.d:
                J64 = np.asarray(D.J, dtype=np.float64)
                out['Jinv'] = np.asarray(np.linalg.inv(J64), dtype=LD)[None]
                # one Newton step in long double:  X <- X (2I - J X)
                Xi = out['Jinv']
                eye = np.eye(self.d, dtype=LD)
                out['Jinv'] = np.matmul(Xi, 2 * eye - np.matmul(J, Xi))
                out['det'] = np.asarray(np.linalg.det(J64), dtype=LD)[None]
                out['kappa'] = (np.abs(J64).sum(axis=(-1, -2)) * np.abs(np.asarray(out['Jinv'], dtype=np.float64)).sum(axis=(-1, -2)))[...]
            self._geo = out
        return self._geo

    def gwprod(self):
        D = self.D
        w = np.ones((1,) + tuple(D.N), dtype=LD)
        for a in range(self.d):
            shp = [1] * (self.d + 1)
            shp[a + 1] = D.N[a]
            w = w * np.asarray(D.gw[a], dtype=LD).reshape(shp)
        return w

    def dx(self):
        if self.g != self.d or self.D.boundary is not None:
            raise Unsupported('volume measure for a surface/boundary integral')
        G = self.geo()
        v = self.gwprod() * np.abs(G['det'])
        return VM(v, np.abs(v).astype(np.float64) * G['kappa'])

    def tangent(self):
        J = self.geo()['J']
        if self.D.boundary is not None:
            c = self.d - 1 - self.D.boundary[0]
            cols = [k for k in range(self.d) if k != c]
            return J[..., cols]
        if self.g == self.d + 1:
            return J
        raise Unsupported('surface measure for a volume integral')

    def ds(self):
        B = self.tangent()
        gram = np.matmul(np.swapaxes(B, -1, -2), B)
        if gram.shape[-1] == 0:
            area = np.ones(gram.shape[:-2], dtype=LD)
        else:
            area = np.sqrt(np.asarray(np.linalg.det(np.asarray(gram, dtype=np.float64)), dtype=LD))
        v = self.gwprod() * area
        mag = np.abs(v).astype(np.float64) * (1 + np.abs(np.asarray(B, dtype=np.float64)).sum(axis=(-1, -2)) ** 2 /
                                               np.maximum(np.asarray(area, dtype=np.float64) ** (2.0 / max(1, B.shape[-1])), 1e-300))
        return VM(v, mag)

    def normal(self, i):
        """outward unit normal (boundary) / oriented unit normal (surface), component i"""
        if self.D.boundary is not None:
            if self.g != self.d:
                raise Unsupported('normal on the boundary of a surface')
            G = self.geo()
            c = self.d - 1 - self.D.boundary[0]
            row = G['Jinv'][..., c, :]                       # grad_x xi_c
            sgn = 1 if self.D.boundary[1] == 1 else -1
            # orientation convention of the library: patch positively oriented (det J > 0)
            n = sgn * row * np.sign(G['det'])[..., None]
            nn = np.sqrt((n * n).sum(axis=-1))
            v = n[..., i] / nn
            return VM(v, (np.abs(v).astype(np.float64) + 1e-3) * G['kappa'])
        B = self.tangent()
        if B.shape[-2:] == (2, 1):
            n = np.stack([-B[..., 1, 0], B[..., 0, 0]], axis=-1)
        elif B.shape[-2:] == (3, 2):
            n = np.cross(B[..., :, 0], B[..., :, 1])
        else:
            raise Unsupported('normal for tangent shape %s' % (B.shape[-2:],))
        nn = np.sqrt((n * n).sum(axis=-1))
        v = n[..., i] / nn
        k = np.abs(np.asarray(B, dtype=np.float64)).sum(axis=(-1, -2)) ** B.shape[-1] / np.maximum(np.asarray(nn, dtype=np.float64), 1e-300)
        return VM(v, (np.abs(v).astype(np.float64) + 1e-3) * (1 + k))

    # ---- parametric jets ------------------------------------------------------------------
    def bf_par(self, name, D):
        """parametric derivative D (x,y,z order) of basis function `name` for all pairs: (P, N..)"""
        key = (name, tuple(D))
        if key in self.bfjets:
            return self.bfjets[key]
        d = self.d
        I = self.pairs[name]
        out = np.ones((self.P,) + (1,) * d, dtype=LD)
        for a in range(d):
            der = D[d - 1 - a]
            tab = self.D.B[name][a]
            if der >= tab.shape[0]:
                raise Unsupported('derivative order %d not tabulated' % der)
            vals = np.asarray(tab[der][I[:, a], :], dtype=LD)         # (P, nodes_a)
            shp = [self.P] + [1] * d
            shp[a + 1] = vals.shape[1]
            out = out * vals.reshape(shp)
        self.bfjets[key] = out
        return out

    def field_par(self, src, I0, D):
        """parametric derivative D of entry I0 of a parametric field / the geometry: (1, N..)"""
        d = self.d
        order = sum(D)
        if src == 'geo':
            val, jac, hess = self.D.X, self.D.J, self.D.HG
        else:
            f = self.D.fields[src]
            val, jac, hess = f['val'], f.get('jac'), f.get('hess')
        idx = (Ellipsis,) + tuple(I0)
        if order == 0:
            return np.asarray(val, dtype=LD)[idx][None]
        if order == 1:
            if jac is None:
                raise Unsupported('first derivatives of %s not supplied' % src)
            return np.asarray(jac, dtype=LD)[idx + (D.index(1),)][None]
        if order == 2:
            if hess is None:
                raise Unsupported('second derivatives of %s not supplied' % src)
            a, b = _indices(D)
            return np.asarray(hess, dtype=LD)[idx + (sym_pos(d, a, b),)][None]
        raise Unsupported('parametric field derivative of order %d' % order)

    def phys_from_par(self, par, D):
        """physical derivative D of w o G^-1 where par(D') gives the parametric derivatives of w."""
        d = self.d
        if self.g != d:
            raise Unsupported('physical derivative without square Jacobian')
        G = self.geo()
        Jinv = G['Jinv']
        D = tuple(D)
        if self.h['spacetime']:
            Dx, Dt = D[:-1], D[-1]
            if sum(Dx) == 0:
                v = par(D)
                return VM(v)
            if sum(Dx) == 1:
                k = Dx.index(1)
                terms = []
                for i in range(d - 1):
                    Di = _unit(d, i)[:-1] + (Dt,)
                    terms.append(Jinv[..., i, k] * par(Di))
                v = sum(terms)
                m = sum(np.abs(t).astype(np.float64) for t in terms) * G['kappa']
                return VM(v, m)
            raise Unsupported('space-time physical derivative of space order > 1')
        order = sum(D)
        gp_terms = lambda k: [Jinv[..., a, k] * par(_unit(d, a)) for a in range(d)]
        if order == 1:
            k = D.index(1)
            terms = gp_terms(k)
            return VM(sum(terms), sum(np.abs(t).astype(np.float64) for t in terms) * G['kappa'])
        if order == 2:
            if self.D.HG is None:
                raise Unsupported('geometry Hessian not supplied')
            i, j = _indices(D)
            gphys = [sum(gp_terms(m)) for m in range(d)]
            terms = []
            for a in range(d):
                for b in range(d):
                    Dab = tuple(x + y for x, y in zip(_unit(d, a), _unit(d, b)))
                    hpar = par(Dab)
                    corr = sum(gphys[m] * np.asarray(self.D.HG, dtype=LD)[..., m, sym_pos(d, a, b)][None] for m in range(d))
                    terms.append(Jinv[..., a, i] * hpar * Jinv[..., b, j])
                    terms.append(-Jinv[..., a, i] * corr * Jinv[..., b, j])
            v = sum(terms)
            m = sum(np.abs(t).astype(np.float64) for t in terms) * G['kappa'] ** 2
            return VM(v, m)
        raise Unsupported('physical derivative of order > 2')

    # ---- leaves ----------------------------------------------------------------------------
    def leaf_pd(self, e):
        _, name, comp, D, phys = e
        if comp is not None:
            raise Unsupported('vector basis function component outside substitute_vec_components')
        if name not in self.pairs:
            raise Malformed('unknown basis function %s' % name)
        if not phys or sum(D) == 0:
            return VM(self.bf_par(name, D))
        return self.phys_from_par(lambda DD: self.bf_par(name, DD), D)

    def leaf_vr(self, e):
        _, name, I, D, par = e
        v = self.vars.get(name)
        if v is None:
            raise Malformed('reference to undefined variable %s' % name)
        if len(I) != len(v['shape']) or any(not (0 <= i < n) for i, n in zip(I, v['shape'])):
            raise Malformed('index out of range for %s' % name)
        if v['kind'] == 'expr':
            if sum(D) != 0:
                raise Malformed('derivative of expression variable')
            special = self.predefined(name, I)
            if special is not None:
                return special
            shape, vals = self.varval(name)
            idx = 0
            for i, n in zip(I, shape):
                idx = idx * n + i
            return vals[idx]
        if v['kind'] == 'param':
            if sum(D) != 0:
                raise Malformed('derivative of parameter')
            return VM(np.asarray(self.D.params[v['src']], dtype=LD)[tuple(I)])
        if v['kind'] != 'input':
            raise Unsupported('variable kind %s' % v['kind'])
        q = v['deriv'] or 0
        src = v['src']
        d = self.d
        if q:
            if sum(D) != 0:
                raise Malformed('derivative of derivative array')
            I0, last = I[:-1], I[-1]
            if q == 1:
                DD = _unit(d, last)
            else:
                k = 0
                DD = None
                for a in range(d):
                    for b in range(a, d):
                        if k == last:
                            DD = tuple(x + y for x, y in zip(_unit(d, a), _unit(d, b)))
                        k += 1
            return VM(self.field_par(src, I0, DD))
        physical_src = (src != 'geo') and self.D.fields[src]['physical']
        if physical_src:
            if sum(D) != 0:
                raise Unsupported('derivative of a physical input field')
            return VM(np.asarray(self.D.fields[src]['val'], dtype=LD)[(Ellipsis,) + tuple(I)][None])
        if sum(D) == 0 or par:
            return VM(self.field_par(src, I, tuple(D)))
        return self.phys_from_par(lambda DD: self.field_par(src, I, DD), D)

    def predefined(self, name, I):
        if name == 'Jac':
            return VM(self.geo()['J'][..., I[0], I[1]])
        if name == 'JacInv':
            G = self.geo()
            if 'Jinv' not in G:
                raise Unsupported('JacInv of a non-square Jacobian')
            v = G['Jinv'][..., I[0], I[1]]
            return VM(v, (np.abs(v).astype(np.float64) + 1e-3 * np.abs(np.asarray(G['Jinv'], dtype=np.float64)).max(axis=(-1, -2))) * G['kappa'])
        if name == 'GaussWeight':
            return VM(self.gwprod())
        if name == 'W':
            return self.dx()
        if name == 'SW':
            return self.ds()
        if name == 'normal':
            return self.normal(I[0])
        return None

    # ---- evaluation ----------------------------------------------------------------------
    def ev(self, e):
        key = id(e)
        if key in self.memo:
            return self.memo[key]
        k = e[0]
        if k == 'C':
            r = VM(LD(e[1]) / LD(e[2]))
        elif k == 'Cx':
            r = VM(LD(e[1]))
        elif k == 'O':
            r = OPS[e[1]](self.ev(e[2]), self.ev(e[3]))
        elif k == 'N':
            r = vm_neg(self.ev(e[1]))
        elif k == 'F':
            r = vm_func(e[1], self.ev(e[2]))
        elif k == 'PD':
            r = self.leaf_pd(e)
        elif k == 'VR':
            r = self.leaf_vr(e)
        elif k == 'GW':
            a = e[1]
            shp = [1] * (self.d + 1)
            shp[a + 1] = self.D.N[a]
            r = VM(np.asarray(self.D.gw[a], dtype=LD).reshape(shp))
        elif k == 'DX':
            r = self.dx()
        elif k == 'DS':
            r = self.ds()
        else:
            raise Malformed('scalar node expected, got %s' % k)
        self.memo[key] = r
        self.keep.append(e)
        return r

    def teval(self, t):
        k = t[0]
        if k == 'LV':
            return (len(t[1]),), [self.ev(x) for x in t[1]]
        if k == 'LM':
            return (t[1], t[2]), [self.ev(x) for x in t[3]]
        if k == 'TO':
            sa, a = self.teval(t[2])
            sb, b = self.teval(t[3])
            if sa != sb:
                raise Malformed('tensor operands of different shape')
            return sa, [OPS[t[1]](x, y) for x, y in zip(a, b)]
        if k == 'X':
            sa, a = self.teval(t[1])
            sb, b = self.teval(t[2])
            if sa != (3,) or sb != (3,):
                raise Malformed('cross shape')
            return (3,), [vm_sub(vm_mul(a[1], b[2]), vm_mul(a[2], b[1])),
                          vm_sub(vm_mul(a[2], b[0]), vm_mul(a[0], b[2])),
                          vm_sub(vm_mul(a[0], b[1]), vm_mul(a[1], b[0]))]
        if k == 'OU':
            sa, a = self.teval(t[1])
            sb, b = self.teval(t[2])
            return (sa[0], sb[0]), [vm_mul(x, y) for x in a for y in b]
        if k == 'MV':
            sa, a = self.teval(t[1])
            sb, b = self.teval(t[2])
            if len(sa) != 2 or len(sb) != 1 or sa[1] != sb[0]:
                raise Malformed('matvec shape')
            return (sa[0],), [vm_sum(vm_mul(a[i * sa[1] + j], b[j]) for j in range(sa[1])) for i in range(sa[0])]
        if k == 'MM':
            sa, a = self.teval(t[1])
            sb, b = self.teval(t[2])
            if len(sa) != 2 or len(sb) != 2 or sa[1] != sb[0]:
                raise Malformed('matmat shape')
            return (sa[0], sb[1]), [vm_sum(vm_mul(a[i * sa[1] + q], b[q * sb[1] + j]) for q in range(sa[1]))
                                    for i in range(sa[0]) for j in range(sb[1])]
        return (), [self.ev(t)]

    def varval(self, name):
        if name in self.varvals:
            return self.varvals[name]
        if name in self.busy:
            raise Malformed('cyclic definition of %s' % name)
        self.busy.add(name)
        v = self.vars[name]
        shape, vals = self.teval(v['tree'])
        self.busy.discard(name)
        self.varvals[name] = (shape, vals)
        return shape, vals

    def integrand(self):
        """list (one per output component) of VM with arrays broadcastable to (P, N..)"""
        comps = None
        for e in self.exprs:
            shape, vals = self.teval(e)
            if comps is None:
                comps = list(vals)
            else:
                if len(vals) != len(comps):
                    raise Malformed('integrand component count differs between add() calls')
                comps = [vm_add(a, b) for a, b in zip(comps, vals)]
        return comps or []


def support_mask(knots, p, idx, nodes):
    """nodes of one axis inside the support [t_i, t_{i+p+1}] of B-spline i (independent of pyiga)"""
    lo = np.asarray(knots)[idx]
    hi = np.asarray(knots)[idx + p + 1]
    x = np.asarray(nodes)
    return (x[None, :] >= lo[:, None]) & (x[None, :] <= hi[:, None])


def gauss_sums(comps, P, N, masks):
    """-> per component: (full sum, local sum over the joint support, magnitude sum) as float arrays (P,)"""
    d = len(N)
    joint = np.ones((P,) + tuple(N), dtype=bool)
    for name, per_axis in masks.items():
        for a, m in enumerate(per_axis):
            shp = [P] + [1] * d
            shp[a + 1] = N[a]
            joint &= m.reshape(shp)
    out = []
    axes = tuple(range(1, d + 1))
    for c in comps:
        with np.errstate(all='ignore'):
            v = np.broadcast_to(c.v, (P,) + tuple(N))
            m = np.broadcast_to(c.m, (P,) + tuple(N))
            full = v.sum(axis=axes)
            local = np.where(joint, v, 0).sum(axis=axes)
            mag = np.where(joint, m, 0).sum(axis=axes)
            magfull = m.sum(axis=axes)
        out.append((np.asarray(full, dtype=np.float64), np.asarray(local, dtype=np.float64),
                    np.asarray(mag, dtype=np.float64), np.asarray(magfull, dtype=np.float64),
                    joint.reshape(P, -1).any(axis=1)))
    return out


REL = 1e-10
